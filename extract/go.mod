module verifextract

go 1.24
