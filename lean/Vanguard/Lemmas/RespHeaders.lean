import Vanguard.Lemmas.Headers
import Vanguard.Lemmas.Outcome
/-! Preservation of application headers on the response side (C05). -/
namespace Vanguard
open Vanguard

theorem Hdr.values_filter_keep (h : Hdr) (p : Bytes × List Bytes → Bool) (k : Bytes)
    (hp : ∀ e : Bytes × List Bytes, e.1 = canonKey k → p e = true) : Hdr.values (h.filter p) k = h.values k := by
  unfold Hdr.values
  induction h with
  | nil => rfl
  | cons e rest ih =>
    simp only [List.filter_cons]
    by_cases hk : e.1 = canonKey k
    · have hb : (e.1 == canonKey k) = true := by simp [hk]
      simp [hp e hk, hb]
    · have hb : (e.1 == canonKey k) = false := by simp [hk]
      by_cases hpe : p e = true
      · simp only [hpe, if_true, List.find?_cons, hb]; exact ih
      · simp only [hpe, Bool.false_eq_true, if_false, List.find?_cons, hb]; exact ih

theorem Hdr.values_setRaw_ne (h : Hdr) (a : Bytes) (vs : List Bytes) (b : Bytes) (hne : a ≠ canonKey b) :
    (Hdr.setRaw h a vs).values b = h.values b := by
  unfold Hdr.setRaw
  rw [Hdr.values_append_ne _ _ _ _ hne]
  exact Hdr.values_filter_keep h _ b (fun e he => by simp [he]; exact fun h => hne h.symm)

theorem Hdr.values_map_append_ne (h : Hdr) (ka : Bytes) (v b : Bytes) (hne : ka ≠ canonKey b) :
    Hdr.values (h.map (fun e => if e.1 == ka then (e.1, e.2 ++ [v]) else e)) b = h.values b := by
  unfold Hdr.values
  induction h with
  | nil => rfl
  | cons e rest ih =>
    simp only [List.map_cons, List.find?_cons]
    by_cases hk : e.1 = ka
    · have h1 : (e.1 == ka) = true := by simp [hk]
      have h2 : (e.1 == canonKey b) = false := by simp [hk]; exact hne
      simp only [h1, if_true, h2]
      exact ih
    · have h1 : (e.1 == ka) = false := by simp [hk]
      simp only [h1, Bool.false_eq_true, if_false]
      by_cases h2 : (e.1 == canonKey b) = true
      · simp [h2]
      · simp only [h2]; exact ih

theorem Hdr.values_add_ne (h : Hdr) (a v b : Bytes) (hne : canonKey a ≠ canonKey b) :
    (Hdr.add h a v).values b = h.values b := by
  unfold Hdr.add
  split
  · exact Hdr.values_map_append_ne h _ v b hne
  · exact Hdr.values_append_ne h _ _ b hne

theorem Hdr.values_addAll_ne (h : Hdr) (a : Bytes) (vs : List Bytes) (b : Bytes) (hne : canonKey a ≠ canonKey b) :
    (Hdr.addAll h a vs).values b = h.values b := by
  unfold Hdr.addAll
  induction vs generalizing h with
  | nil => rfl
  | cons v rest ih => simp only [List.foldl_cons]; rw [ih, Hdr.values_add_ne _ _ _ _ hne]

/-- Header names the protocol handlers read, delete or set on the response side. -/
def respControlNames : List Bytes :=
  [s "Content-Type", s "Content-Length", s "Content-Encoding", s "Accept-Encoding", s "Grpc-Encoding",
   s "Grpc-Accept-Encoding", s "Connect-Content-Encoding", s "Connect-Accept-Encoding", s "Trailer",
   s "Grpc-Status", s "Grpc-Message", s "Grpc-Status-Details-Bin"]

/-- `k` is an application header of a response: no control header, and not one of the two ways
    of writing a trailer into the header map (`Trailer:K` of net/http, `Trailer-K` of Connect unary). -/
structure RespApp (k : Bytes) : Prop where
  notControl : ∀ c ∈ respControlNames, canonKey c ≠ canonKey k
  notTrailerColon : hasPrefix trailerPrefix (canonKey k) = false
  notTrailerDash : hasPrefix (s "Trailer-") (canonKey k) = false

theorem grpcExtractErrorFromTrailer_values (tb : Tables) (h : Hdr) (k : Bytes) (hk : RespApp k) :
    (grpcExtractErrorFromTrailer tb h).2.values k = h.values k := by
  have hd : ∀ (h : Hdr) (a : Bytes), a ∈ respControlNames → (Hdr.del h a).values k = h.values k :=
    fun h a ha => Hdr.values_del_ne h a k (hk.notControl a ha)
  have key : (((h.del (s "Grpc-Status")).del (s "Grpc-Message")).del (s "Grpc-Status-Details-Bin")).values k = h.values k := by
    rw [hd _ _ (by simp [respControlNames]), hd _ _ (by simp [respControlNames]), hd _ _ (by simp [respControlNames])]
  unfold grpcExtractErrorFromTrailer
  simp only
  repeat' split
  all_goals exact key

/-- Protocol status keys never stay in application metadata. -/
theorem grpcExtractErrorFromTrailer_no_status (tb : Tables) (h : Hdr) :
    (grpcExtractErrorFromTrailer tb h).2.has (s "Grpc-Status") = false ∧
    (grpcExtractErrorFromTrailer tb h).2.has (s "Grpc-Message") = false ∧
    (grpcExtractErrorFromTrailer tb h).2.has (s "Grpc-Status-Details-Bin") = false := by
  have key : ∀ g : Hdr, g = ((h.del (s "Grpc-Status")).del (s "Grpc-Message")).del (s "Grpc-Status-Details-Bin") →
      g.has (s "Grpc-Status") = false ∧ g.has (s "Grpc-Message") = false ∧ g.has (s "Grpc-Status-Details-Bin") = false := by
    intro g hg
    subst hg
    simp only [Hdr.has, Hdr.del, List.any_filter, List.any_eq_false]
    refine ⟨?_, ?_, ?_⟩ <;> intro e _ <;> simp only [Bool.and_eq_true, bne_iff_ne, ne_eq, beq_iff_eq, not_and] <;>
      intro h1 h2 h3 <;> first | exact h1 | exact h2 | exact h3
  unfold grpcExtractErrorFromTrailer
  simp only
  repeat' split
  all_goals exact key _ rfl

theorem httpExtractTrailers_rest_values (h : Hdr) (known : List Bytes) (k : Bytes) (hk : RespApp k)
    (hn : known.contains (canonKey k) = false) : (httpExtractTrailers h known).2.values k = h.values k := by
  unfold httpExtractTrailers
  simp only
  exact Hdr.values_filter_keep h _ k (fun e he => by
    have hn' : ¬ canonKey k ∈ known := by simpa using hn
    simp [he, hk.notTrailerColon, hn'])

theorem connectExtractUnaryTrailers_rest_values (h : Hdr) (k : Bytes) (hk : RespApp k) :
    (connectExtractUnaryTrailers h).2.values k = h.values k := by
  unfold connectExtractUnaryTrailers
  simp only
  exact Hdr.values_filter_keep h _ k (fun e he => by simp [he, hk.notTrailerDash])

theorem grpcExtractResponseMeta_values (tb : Tables) (a b : Bytes) (status : Nat) (h : Hdr) (k : Bytes) (hk : RespApp k) :
    (grpcExtractResponseMeta tb a b status h).2.values k = h.values k := by
  have hd : ∀ (h : Hdr) (a : Bytes), a ∈ respControlNames → (Hdr.del h a).values k = h.values k :=
    fun h a ha => Hdr.values_del_ne h a k (hk.notControl a ha)
  have ht : ∀ (h : Hdr), (httpExtractTrailers h []).2.values k = h.values k :=
    fun h => httpExtractTrailers_rest_values h [] k hk (by simp)
  have he : ∀ (h : Hdr), (grpcExtractErrorFromTrailer tb h).2.values k = h.values k :=
    fun h => grpcExtractErrorFromTrailer_values tb h k hk
  have h3 : (((h.del (s "Content-Type")).del (s "Grpc-Encoding")).del (s "Grpc-Accept-Encoding")).values k = h.values k := by
    rw [hd _ _ (by simp [respControlNames]), hd _ _ (by simp [respControlNames]), hd _ _ (by simp [respControlNames])]
  unfold grpcExtractResponseMeta
  simp only
  split <;> split <;> simp only [ht, he, h3]

/-- **Response side, first half.** Whatever the backend's protocol, taking its control headers out
    of the response head leaves every application header (name and all values) untouched. -/
theorem extract_response_preserves (p : ServerForm) (tb : Tables) (status : Nat) (h : Hdr) (k : Bytes) (hk : RespApp k) :
    (p.extractResponseHeaders tb status h).2.2.values k = h.values k := by
  have hd : ∀ (h : Hdr) (a : Bytes), a ∈ respControlNames → (Hdr.del h a).values k = h.values k :=
    fun h a ha => Hdr.values_del_ne h a k (hk.notControl a ha)
  cases p <;> simp only [ServerForm.extractResponseHeaders]
  case grpc => exact grpcExtractResponseMeta_values tb _ _ status h k hk
  case grpcWeb => exact grpcExtractResponseMeta_values tb _ _ status h k hk
  case connectStream =>
    split <;> simp only <;>
      rw [hd _ _ (by simp [respControlNames]), hd _ _ (by simp [respControlNames]), hd _ _ (by simp [respControlNames])]
  case connectUnary =>
    split <;> simp only <;>
      rw [connectExtractUnaryTrailers_rest_values _ k hk, hd _ _ (by simp [respControlNames]),
          hd _ _ (by simp [respControlNames]), hd _ _ (by simp [respControlNames])]

theorem foldl_setRaw_values (f : Bytes → Bytes) (ts : Hdr) (h : Hdr) (k : Bytes)
    (hne : ∀ t ∈ ts, f t.1 ≠ canonKey k) :
    (ts.foldl (fun acc t => Hdr.setRaw acc (f t.1) t.2) h).values k = h.values k := by
  induction ts generalizing h with
  | nil => rfl
  | cons t rest ih =>
    simp only [List.foldl_cons]
    rw [ih _ (fun t' ht' => hne t' (List.mem_cons_of_mem _ ht')),
        Hdr.values_setRaw_ne _ _ _ _ (hne t (List.mem_cons_self))]

theorem foldl_add_values (ks : List Bytes) (h : Hdr) (a k : Bytes) (hne : canonKey a ≠ canonKey k) :
    (ks.foldl (fun acc x => Hdr.add acc a x) h).values k = h.values k := by
  induction ks generalizing h with
  | nil => rfl
  | cons x rest ih => simp only [List.foldl_cons]; rw [ih, Hdr.values_add_ne _ _ _ _ hne]

/-- The trailers of an end that is written into the response head do not use the key `k`
    (neither as it is, nor in Connect's `Trailer-` form). -/
def EndAvoids (e : Option RespEnd) (k : Bytes) : Prop :=
  ∀ x, e = some x → ∀ t ∈ x.trailers, t.1 ≠ canonKey k ∧ (s "Trailer-" ++ t.1) ≠ canonKey k

/-- **Response side, second half.** Adding the client protocol's control headers touches no
    application header. -/
theorem add_response_preserves (c : ClientForm) (rm : RespMeta) (sink : Sink) (k : Bytes) (hk : RespApp k)
    (ha : EndAvoids rm.end k) : (addResponseHeaders c rm sink).2.hdr.values k = sink.hdr.values k := by
  have hs : ∀ (h : Hdr) (a v : Bytes), a ∈ respControlNames → (h.set a v).values k = h.values k :=
    fun h a v ha => Hdr.values_set_ne h a v k (hk.notControl a ha)
  have hsi : ∀ (h : Hdr) (c : Bool) (a v : Bytes), a ∈ respControlNames → (setIf h c a v).values k = h.values k :=
    fun h c a v ha => setIf_values_ne h c a v k (hk.notControl a ha)
  have hadd : ∀ (h : Hdr) (v : Bytes), (Hdr.add h (s "Trailer") v).values k = h.values k :=
    fun h v => Hdr.values_add_ne h _ v k (hk.notControl _ (by simp [respControlNames]))
  have hfadd : ∀ (ks : List Bytes) (h : Hdr), (ks.foldl (fun acc x => Hdr.add acc (s "Trailer") x) h).values k = h.values k :=
    fun ks h => foldl_add_values ks h _ k (hk.notControl _ (by simp [respControlNames]))
  have hCT : ∀ (h : Hdr) (v : Bytes), (h.set (s "Content-Type") v).values k = h.values k :=
    fun h v => hs h _ v (by simp [respControlNames])
  have hGE : ∀ (h : Hdr) (c : Bool) (v : Bytes), (setIf h c (s "Grpc-Encoding") v).values k = h.values k :=
    fun h c v => hsi h c _ v (by simp [respControlNames])
  have hGA : ∀ (h : Hdr) (c : Bool) (v : Bytes), (setIf h c (s "Grpc-Accept-Encoding") v).values k = h.values k :=
    fun h c v => hsi h c _ v (by simp [respControlNames])
  have hCE : ∀ (h : Hdr) (c : Bool) (v : Bytes), (setIf h c (s "Connect-Content-Encoding") v).values k = h.values k :=
    fun h c v => hsi h c _ v (by simp [respControlNames])
  have hCA : ∀ (h : Hdr) (c : Bool) (v : Bytes), (setIf h c (s "Connect-Accept-Encoding") v).values k = h.values k :=
    fun h c v => hsi h c _ v (by simp [respControlNames])
  have hE : ∀ (h : Hdr) (c : Bool) (v : Bytes), (setIf h c (s "Content-Encoding") v).values k = h.values k :=
    fun h c v => hsi h c _ v (by simp [respControlNames])
  have hA : ∀ (h : Hdr) (c : Bool) (v : Bytes), (setIf h c (s "Accept-Encoding") v).values k = h.values k :=
    fun h c v => hsi h c _ v (by simp [respControlNames])
  unfold addResponseHeaders
  cases c <;> simp only
  case grpc =>
    have hc : (ClientForm.grpc == ClientForm.grpc) = true := by decide
    cases he : rm.end with
    | none =>
      simp only [hc, if_true, Option.isNone_none, Bool.and_self]
      split <;> split <;> simp only [hadd, hfadd, hGE, hGA, hCT]
    | some e =>
      have := foldl_setRaw_values id e.trailers (sink.hdr.set (s "Content-Type") (s "application/grpc+" ++ rm.codec)) k
        (fun t ht => (ha e he t ht).1)
      simp only [id] at this
      simp only [hc, if_true, Option.isNone_some, Bool.and_false, Bool.false_eq_true, if_false, writeEndToHeaders, this, hCT]
  case grpcWeb =>
    have hc : (ClientForm.grpcWeb == ClientForm.grpc) = false := by decide
    simp only [hc, Bool.false_and, Bool.false_eq_true, if_false]
    cases he : rm.end with
    | none => simp only [hGE, hGA, hCT]
    | some e =>
      have := foldl_setRaw_values id e.trailers (sink.hdr.set (s "Content-Type") (s "application/grpc-web+" ++ rm.codec)) k
        (fun t ht => (ha e he t ht).1)
      simp only [id] at this
      simp only [writeEndToHeaders, this, hCT]
  case connectStream => simp only [hCE, hCA, hCT]
  case connectPost =>
    cases he : rm.end with
    | none => simp only [Option.bind_none, hA, hE, hCT]
    | some e =>
      have := fun h => foldl_setRaw_values (fun t => s "Trailer-" ++ t) e.trailers h k (fun t ht => (ha e he t ht).2)
      cases herr : e.err <;> simp only [Option.bind_some, herr, hA, this, hE, hCT]
  case connectGet =>
    cases he : rm.end with
    | none => simp only [Option.bind_none, hA, hE, hCT]
    | some e =>
      have := fun h => foldl_setRaw_values (fun t => s "Trailer-" ++ t) e.trailers h k (fun t ht => (ha e he t ht).2)
      cases herr : e.err <;> simp only [Option.bind_some, herr, hA, this, hE, hCT]

@[simp] theorem St.hdr_setHdr (st : St) (h : Hdr) : (st.setHdr h).hdr = h := by
  unfold St.setHdr St.hdr
  split <;> simp_all

theorem St.hdr_congr_rw (st : St) (r : RW) (he : r.endWritten = st.rw.endWritten) :
    ({ st with rw := r } : St).hdr = st.hdr := by
  unfold St.hdr; simp only [he]

/-- The handler-visible header map keeps the values of key `k` from `a` to `b`. -/
def HK (k : Bytes) (a b : St) : Prop := b.hdr.values k = a.hdr.values k

theorem HK.refl (k : Bytes) (a : St) : HK k a a := rfl
theorem HK.trans {k : Bytes} {a b c : St} (h1 : HK k a b) (h2 : HK k b c) : HK k a c := by
  unfold HK at *; rw [h2, h1]
theorem HK.setHdr {k : Bytes} (a : St) (h : Hdr) (hv : h.values k = a.hdr.values k) : HK k a (a.setHdr h) := by
  unfold HK; rw [St.hdr_setHdr]; exact hv
theorem HK.rwUpdate {k : Bytes} (a : St) (r : RW) (he : r.endWritten = a.rw.endWritten) : HK k a { a with rw := r } := by
  unfold HK; rw [St.hdr_congr_rw a r he]
theorem HK.ite {k : Bytes} {a x y : St} (c : Prop) [Decidable c] (hx : HK k a x) (hy : HK k a y) :
    HK k a (if c then x else y) := by
  split <;> assumption

/-- **`WriteHeader`, taking the backend's head apart** keeps every application header. -/
theorem rwPrepareMeta_preserves (tb : Tables) (st : St) (status : Nat) (cl : Int) (clText : Bytes) (k : Bytes)
    (hk : RespApp k) : HK k st (rwPrepareMeta tb st status cl clText).1 := by
  have hd : ∀ (h : Hdr) (a : Bytes), a ∈ respControlNames → (Hdr.del h a).values k = h.values k :=
    fun h a ha => Hdr.values_del_ne h a k (hk.notControl a ha)
  unfold rwPrepareMeta
  refine HK.trans ?_ (HK.rwUpdate _ _ rfl)
  refine HK.trans ?_ (HK.setHdr _ _ (by rw [hd _ _ (by simp [respControlNames]), hd _ _ (by simp [respControlNames])]))
  refine HK.ite _ ?_ (HK.trans ?_ (HK.setHdr _ _ (hd _ _ (by simp [respControlNames])))) <;>
  · refine HK.trans ?_ (HK.setHdr _ _ (extract_response_preserves _ _ _ _ k hk))
    refine HK.trans ?_ (HK.rwUpdate _ _ rfl)
    exact HK.ite _ (HK.refl k st) (HK.setHdr _ _ (hd _ _ (by simp [respControlNames])))

/-! ### the response head as the client receives it (`Sink.snap`) -/

theorem addResponseHeaders_status (c : ClientForm) (rm : RespMeta) (k : Sink) :
    (addResponseHeaders c rm k).2.status = k.status := by
  unfold addResponseHeaders
  cases c <;> simp only
  case grpc => cases he : rm.end <;> simp [writeEndToHeaders]
  case grpcWeb => cases he : rm.end <;> simp [writeEndToHeaders]

theorem writeHeader_first (k : Sink) (code : Nat) (h : k.status = none) :
    (k.writeHeader code).snap = k.hdr ∧ (k.writeHeader code).status = some code := by
  unfold Sink.writeHeader; simp [h]

theorem write_sent (k : Sink) (b : Bytes) (code : Nat) (h : k.status = some code) :
    (k.write b).snap = k.snap ∧ (k.write b).status = some code := by
  unfold Sink.write
  by_cases hb : b.isEmpty = true <;> simp [h, hb]

theorem writeItem_sent (k : Sink) (i : Item) (code : Nat) (h : k.status = some code) :
    (k.writeItem i).snap = k.snap := by
  unfold Sink.writeItem; simp [h]

theorem encodeEnd_sent (c : ClientForm) (e : RespEnd) (b : Bool) (k : Sink) (code : Nat) (h : k.status = some code) :
    (encodeEnd c e b k).snap = k.snap := by
  unfold encodeEnd
  cases c <;> simp only
  case grpc => cases b <;> simp
  case grpcWeb => cases b <;> simp [writeItem_sent _ _ code h]
  case connectStream => exact writeItem_sent _ _ code h
  case connectPost => cases e.err <;> cases b <;> simp [writeItem_sent _ _ code h]
  case connectGet => cases e.err <;> cases b <;> simp [writeItem_sent _ _ code h]

/-- **The head the client receives.** When the response head is flushed (first `WriteHeader` on the
    client's writer), every application header has the values of the live header map. -/
theorem flushHeaders_snapshot (w : World) (st : St) (k : Bytes) (hk : RespApp k)
    (hf : st.rw.headersFlushed = false) (hs : st.sink.status = none)
    (ha : EndAvoids (st.rw.respMeta.getD {}).end k) :
    (flushHeaders w st).1.sink.snap.values k = st.sink.hdr.values k := by
  have hadd := fun cli hcli => add_response_preserves st.op.cform cli st.sink k hk hcli
  have hst := fun cli => addResponseHeaders_status st.op.cform cli st.sink
  have hsome := fun cli => addResponseHeaders_status_isSome st.op.cform cli st.sink
  unfold flushHeaders
  simp only [hf, Bool.false_eq_true, if_false]
  generalize hr : addResponseHeaders st.op.cform _ st.sink = r
  have h1 : r.2.hdr.values k = st.sink.hdr.values k := by rw [← hr]; exact hadd _ ha
  have h2 : r.2.status = none := by rw [← hr, hst]; exact hs
  have h3 : r.1.isSome = true := by rw [← hr]; exact hsome _
  obtain ⟨status, sink1⟩ := r
  simp only at h1 h2 h3 ⊢
  cases status with
  | none => simp at h3
  | some code =>
    simp only
    have hw := writeHeader_first sink1 code h2
    cases hend : (st.rw.respMeta.getD {}).end with
    | none =>
      simp only [Option.bind_none, Option.isSome_none, Bool.false_eq_true, if_false]
      cases hb : st.rw.buf with
      | none => simp only; rw [hw.1]; exact h1
      | some b => simp only; rw [(write_sent _ b code hw.2).1, hw.1]; exact h1
    | some e =>
      simp only [writeEnd]
      cases hb : st.rw.buf with
      | none => simp only; rw [encodeEnd_sent _ _ _ _ code hw.2, hw.1]; exact h1
      | some b =>
        simp only
        by_cases hc : (Option.bind (some e) (·.err)).isSome = true
        · simp only [hc, if_true]; rw [encodeEnd_sent _ _ _ _ code hw.2, hw.1]; exact h1
        · simp only [hc, Bool.false_eq_true, if_false]
          rw [encodeEnd_sent _ _ _ _ code (write_sent _ b code hw.2).2, (write_sent _ b code hw.2).1, hw.1]; exact h1

/-! ### from the handler's header map to the head on the wire -/

/-- `st` is a response that is still open and unflushed; its live header map has, for key `k`, the
    values of `h0` (the map as the backend handler left it). -/
structure Pre (k : Bytes) (h0 : Hdr) (st : St) : Prop where
  opened : st.rw.endWritten = false
  unflushed : st.rw.headersFlushed = false
  nostatus : st.sink.status = none
  vals : st.sink.hdr.values k = h0.values k

theorem Pre.hdr {k : Bytes} {h0 : Hdr} {st : St} (h : Pre k h0 st) : st.hdr = st.sink.hdr := by
  unfold St.hdr; simp [h.opened]

theorem Pre.setHdr {k : Bytes} {h0 : Hdr} {st : St} (h : Pre k h0 st) (g : Hdr) (hv : g.values k = st.hdr.values k) :
    Pre k h0 (st.setHdr g) := by
  have e : st.setHdr g = { st with sink := { st.sink with hdr := g } } := by
    unfold St.setHdr; simp [h.opened]
  rw [e]
  exact ⟨h.opened, h.unflushed, h.nostatus, by simp only; rw [hv, h.hdr]; exact h.vals⟩

theorem Pre.rwUpdate {k : Bytes} {h0 : Hdr} {st : St} (h : Pre k h0 st) (r : RW) (he : r.endWritten = st.rw.endWritten)
    (hf : r.headersFlushed = st.rw.headersFlushed) : Pre k h0 { st with rw := r } :=
  ⟨by simp only; rw [he]; exact h.opened, by simp only; rw [hf]; exact h.unflushed, h.nostatus, h.vals⟩

theorem Pre.ite {k : Bytes} {h0 : Hdr} {x y : St} (c : Prop) [Decidable c] (hx : Pre k h0 x) (hy : Pre k h0 y) :
    Pre k h0 (if c then x else y) := by
  split <;> assumption

theorem rwPrepareMeta_pre (tb : Tables) (st : St) (status : Nat) (cl : Int) (clText : Bytes) (k : Bytes) (h0 : Hdr)
    (hk : RespApp k) (h : Pre k h0 st) : Pre k h0 (rwPrepareMeta tb st status cl clText).1 := by
  have hd : ∀ (h : Hdr) (a : Bytes), a ∈ respControlNames → (Hdr.del h a).values k = h.values k :=
    fun h a ha => Hdr.values_del_ne h a k (hk.notControl a ha)
  unfold rwPrepareMeta
  refine Pre.rwUpdate ?_ _ rfl rfl
  refine Pre.setHdr ?_ _ ?hv
  case hv => rw [hd _ _ (by simp [respControlNames]), hd _ _ (by simp [respControlNames])]
  have p3 : Pre k h0 (({ (if clText.isEmpty = true then st else st.setHdr (st.hdr.del (s "Content-Length"))) with
        rw := { (if clText.isEmpty = true then st else st.setHdr (st.hdr.del (s "Content-Length"))).rw with contentLen := cl } } : St).setHdr
      (({ (if clText.isEmpty = true then st else st.setHdr (st.hdr.del (s "Content-Length"))) with
        rw := { (if clText.isEmpty = true then st else st.setHdr (st.hdr.del (s "Content-Length"))).rw with contentLen := cl } } : St).op.sform.extractResponseHeaders tb status
        ({ (if clText.isEmpty = true then st else st.setHdr (st.hdr.del (s "Content-Length"))) with
        rw := { (if clText.isEmpty = true then st else st.setHdr (st.hdr.del (s "Content-Length"))).rw with contentLen := cl } } : St).hdr).2.2) := by
    refine Pre.setHdr ?_ _ (extract_response_preserves _ _ _ _ k hk)
    refine Pre.rwUpdate ?_ _ rfl rfl
    exact Pre.ite _ h (h.setHdr _ (hd _ _ (by simp [respControlNames])))
  exact Pre.ite _ p3 (p3.setHdr _ (hd _ _ (by simp [respControlNames])))

theorem rwPrepareMeta_respMeta (tb : Tables) (st : St) (status : Nat) (cl : Int) (clText : Bytes) :
    (rwPrepareMeta tb st status cl clText).1.rw.respMeta = some (rwPrepareMeta tb st status cl clText).2.1 := by
  unfold rwPrepareMeta; rfl

theorem endAvoids_none (k : Bytes) : EndAvoids none k := by
  intro x hx; cases hx

theorem rwStartBody_head (w : World) (s1 : St) (k : Bytes) (h0 : Hdr) (hk : RespApp k) (hp : Pre k h0 s1)
    (hrm : (s1.rw.respMeta.getD {}).end = none) :
    (rwStartBody w s1).1.rw.headersFlushed = true → (rwStartBody w s1).1.sink.snap.values k = h0.values k := by
  unfold rwStartBody
  simp only [rwSetWriter]
  split
  · intro h; simp [hp.unflushed] at h
  · intro _
    have p2 : Pre k h0 ({ s1 with rw := { s1.rw with sameRespCodec := s1.op.ccodec == s1.op.scodec } } : St) :=
      hp.rwUpdate _ rfl rfl
    rw [flushHeaders_snapshot w _ k hk p2.unflushed p2.nostatus (by simp only; rw [hrm]; exact endAvoids_none k)]
    exact p2.vals

theorem rwSetRespComp_pre {k : Bytes} {h0 : Hdr} {st : St} (hp : Pre k h0 st) (comp : Bytes) :
    Pre k h0 (rwSetRespComp st comp) := by
  unfold rwSetRespComp
  exact Pre.ite _ hp (hp.rwUpdate _ rfl rfl)

theorem rwSetRespComp_respMeta (st : St) (comp : Bytes) : (rwSetRespComp st comp).rw.respMeta = st.rw.respMeta := by
  unfold rwSetRespComp; split <;> rfl

theorem rwChooseWriter_head (w : World) (st : St) (rm : RespMeta) (eb : EndBody) (k : Bytes) (h0 : Hdr)
    (hk : RespApp k) (hp : Pre k h0 st) (hrm : st.rw.respMeta = some rm) :
    (rwChooseWriter w st rm eb).1.rw.headersFlushed = true → (rwChooseWriter w st rm eb).1.rw.endWritten = false →
    (rwChooseWriter w st rm eb).1.sink.snap.values k = h0.values k := by
  unfold rwChooseWriter
  generalize (if rm.compression == identityName then [] else rm.compression) = comp
  have p1 := rwSetRespComp_pre hp comp
  have hrm1 : (rwSetRespComp st comp).rw.respMeta = some rm := by rw [rwSetRespComp_respMeta]; exact hrm
  simp only
  split
  · intro _ h; rw [reportError_ends] at h; cases h
  · split
    · rename_i e he
      split
      · intro h; simp [rwSetWriter, p1.unflushed] at h
      · intro _ h
        have := flushHeaders_ends w (rwSetRespComp st comp) e p1.unflushed (by rw [hrm1]; exact he)
        simp only [rwSetWriter] at h
        rw [this] at h; cases h
    · rename_i he
      split
      · intro _ h; rw [reportError_ends] at h; cases h
      · intro hf _
        exact rwStartBody_head w _ k h0 hk p1 (by rw [hrm1]; exact he) hf

/-- **Response headers reach the client.** The backend handler has filled the header map (`h0` =
    what it holds for key `k`) and the response head goes out (first `WriteHeader`, or the first
    `Write`): whenever that flushes the head without ending the RPC, the head the client receives
    has exactly those values for every application header `k` - whatever the backend's protocol
    headers, declared trailers, content length and compression were, for every client protocol. -/
theorem head_has_application_headers (w : World) (tb : Tables) (st : St) (status : Nat) (k : Bytes) (h0 : Hdr)
    (hk : RespApp k) (hp : Pre k h0 st) (hnew : st.rw.headersWritten = false) :
    (rwWriteHeader w tb st status).1.rw.headersFlushed = true → (rwWriteHeader w tb st status).1.rw.endWritten = false →
    (rwWriteHeader w tb st status).1.sink.snap.values k = h0.values k := by
  unfold rwWriteHeader
  simp only [hnew, Bool.false_eq_true, if_false]
  have p0 : Pre k h0 ({ st with rw := { st.rw with headersWritten := true, statusCode := status } } : St) :=
    hp.rwUpdate _ rfl rfl
  split
  · rename_i h; simp [hp.opened] at h
  split
  · intro _ h; rw [reportError_ends] at h; cases h
  · exact rwChooseWriter_head w _ _ _ k h0 hk (rwPrepareMeta_pre tb _ status _ _ k h0 hk p0)
      (rwPrepareMeta_respMeta tb _ status _ _)


theorem Hdr.values_setRaw_same (h : Hdr) (a : Bytes) (vs : List Bytes) (b : Bytes) (ha : a = canonKey b) :
    (Hdr.setRaw h a vs).values b = vs := by
  subst ha
  unfold Hdr.setRaw Hdr.values
  rw [List.find?_append]
  have : (h.filter (fun e => e.1 != canonKey b)).find? (fun e => e.1 == canonKey b) = none := by
    rw [List.find?_eq_none]
    intro e he
    have := (List.mem_filter.mp he).2
    simpa using this
  simp [this]

/-- What a run of `Header[k] = vs` assignments with distinct keys leaves under one of those keys. -/
theorem foldl_setRaw_values_mem (ts : Hdr) (h : Hdr) (k : Bytes) (t : Bytes × List Bytes)
    (hd : ts.Pairwise (fun a b => a.1 ≠ b.1)) (ht : t ∈ ts) (hk : t.1 = canonKey k) :
    (ts.foldl (fun acc x => Hdr.setRaw acc x.1 x.2) h).values k = t.2 := by
  induction ts generalizing h with
  | nil => cases ht
  | cons t0 rest ih =>
    simp only [List.foldl_cons]
    rw [List.pairwise_cons] at hd
    rcases List.mem_cons.mp ht with rfl | hin
    · have := foldl_setRaw_values id rest (Hdr.setRaw h t.1 t.2) k (fun x hx => by
        simp only [id]; rw [← hk]; exact fun h' => hd.1 x hx h'.symm)
      simp only [id] at this
      rw [this, Hdr.values_setRaw_same _ _ _ _ hk]
    · exact ih _ hd.2 hin


end Vanguard
