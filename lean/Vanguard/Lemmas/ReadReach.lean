import Vanguard.Lemmas.Outcome
/-!
  # What the request readers can do to the request state

  The adapters on the request side (`envelopingReader`, `transformingReader`, the message reader they
  share) change the request state in two ways only: they take bytes from the client's body, and they
  report an error through the response writer.  `RdReach w a b` is the closure of those two steps;
  every reader function is shown to stay inside it, for any `Read` size and any body.  An invariant
  of the response side that survives those two steps therefore survives every read of every handler.
-/
namespace Vanguard

inductive RdReach (w : World) : St → St → Prop
  | refl (a : St) : RdReach w a a
  | src {a b : St} (h : RdReach w a b) (s : Source) : RdReach w a { b with src := s }
  | err {a b : St} (h : RdReach w a b) (e : Err) : RdReach w a (reportError w b e).1

theorem RdReach.trans {w : World} {a b c : St} (h1 : RdReach w a b) (h2 : RdReach w b c) : RdReach w a c := by
  induction h2 with
  | refl => exact h1
  | src _ s ih => exact .src ih s
  | err _ e ih => exact .err ih e

theorem RdReach.srcUpdate (w : World) (st : St) (s : Source) : RdReach w st { st with src := s } := .src (.refl st) s
theorem RdReach.reportError (w : World) (st : St) (e : Err) : RdReach w st (reportError w st e).1 := .err (.refl st) e

theorem hardLimitRead_reach (w : World) (st : St) (limit read n : Nat) (report : Bool) :
    RdReach w st (hardLimitRead w st limit read n report).2.2.2.1 := by
  unfold hardLimitRead
  generalize (if n > limit - read then limit - read + 1 else n) = n'
  cases report
  · simp only [Bool.false_eq_true, if_false]
    split
    · exact RdReach.refl st
    · split <;> exact RdReach.srcUpdate w st _
  · simp only [if_true]
    split
    · exact RdReach.refl st
    · split
      · exact RdReach.trans (RdReach.srcUpdate w st _) (RdReach.reportError w _ _)
      · exact RdReach.srcUpdate w st _

theorem copyAllLimited_reach (w : World) (report : Bool) (limit : Nat) : ∀ (fuel : Nat) (st : St) (read : Nat) (acc : Bytes),
    RdReach w st (copyAllLimited w report limit fuel st read acc).2.2.1 := by
  intro fuel
  induction fuel with
  | zero => intro st read acc; simpa [copyAllLimited] using RdReach.refl st
  | succ m ih =>
    intro st read acc
    unfold copyAllLimited
    have h1 := hardLimitRead_reach w st limit read (limit + 2) report
    generalize hardLimitRead w st limit read (limit + 2) report = r at h1 ⊢
    obtain ⟨b, e, rd, s1, p⟩ := r
    simp only at h1 ⊢
    split
    · exact h1
    · split
      · exact RdReach.trans h1 (ih _ _ _)
      · exact h1
      · exact h1

theorem readRequestMessage_reach (w : World) (st : St) (report : Bool) : RdReach w st (readRequestMessage w st report).2.1 := by
  unfold readRequestMessage
  simp only
  split
  · -- enveloped client
    split
    · exact RdReach.srcUpdate w st _
    · split
      · have fail : ∀ (s1 : St) (err : Err), RdReach w st s1 →
            RdReach w st (if report = true then reportError w s1 err else (s1, false)).1 := by
          intro s1 err h
          split
          · exact RdReach.trans h (RdReach.reportError w _ _)
          · exact h
        split
        · exact fail _ _ (RdReach.srcUpdate w st _)
        · split
          · exact fail _ _ (RdReach.srcUpdate w st _)
          · split
            · exact fail _ _ (RdReach.srcUpdate w st _)
            · split <;> exact RdReach.trans (RdReach.srcUpdate w st _) (RdReach.srcUpdate w _ _)
      · exact RdReach.srcUpdate w st _
  · split
    · split
      · exact RdReach.reportError w st _
      · exact RdReach.refl st
    · have h := copyAllLimited_reach w report (if (st.op.contentLen == -1) = true then st.op.conf.maxMsg else st.op.contentLen.toNat)
        st.src.fuel st 0 []
      generalize copyAllLimited w report _ st.src.fuel st 0 [] = r at h ⊢
      obtain ⟨data, e, s1, p⟩ := r
      simp only at h ⊢
      split
      · exact h
      · split <;> exact h

theorem RdReach.ite_proj {w : World} {a : St} {β γ δ : Type} (c : Prop) [Decidable c] (x y : β × γ × St × δ)
    (hx : RdReach w a x.2.2.1) (hy : RdReach w a y.2.2.1) : RdReach w a (if c then x else y).2.2.1 := by
  split <;> assumption

theorem trRead_reach (w : World) (pl : HandlePlan) : ∀ (fuel : Nat) (st : St) (r : TR) (n : Nat),
    RdReach w st (trRead w pl fuel st r n).2.2.1 := by
  intro fuel
  induction fuel with
  | zero => intro st r n; simpa [trRead] using RdReach.refl st
  | succ m ih =>
    intro st r n
    unfold trRead
    split
    · exact RdReach.refl st
    · refine RdReach.ite_proj _ _ _ (RdReach.refl st) ?_
      simp only
      refine RdReach.ite_proj _ _ _ (RdReach.refl st) ?_
      have h1 := readRequestMessage_reach w st true
      generalize readRequestMessage w st true = rr at h1 ⊢
      obtain ⟨res, s1, p⟩ := rr
      simp only at h1 ⊢
      refine RdReach.ite_proj _ _ _ h1 ?_
      split
      · exact h1
      · split
        · exact RdReach.trans h1 (RdReach.reportError w _ _)
        · exact RdReach.trans h1 (ih _ _ _)

theorem erCurRead_reach (w : World) (st : St) (cur : RCur) (n : Nat) : RdReach w st (erCurRead w st cur n).2.2.1 := by
  unfold erCurRead
  split
  · exact RdReach.refl st
  · exact RdReach.srcUpdate w st _
  · exact hardLimitRead_reach w st _ _ n true
  · split <;> exact RdReach.refl st
  · split
    · exact RdReach.refl st
    · exact RdReach.srcUpdate w st _

theorem erPrepareNext_reach (w : World) (st : St) (r : ER) : RdReach w st (erPrepareNext w st r).2.1 := by
  unfold erPrepareNext
  simp only
  split
  · exact RdReach.refl st
  · split
    · split
      · split
        · exact RdReach.reportError w st _
        · split <;> exact RdReach.refl st
      · have h := copyAllLimited_reach w true (bufferedBodyLimit st.op.conf.maxMsg) st.src.fuel st 0 []
        generalize copyAllLimited w true (bufferedBodyLimit st.op.conf.maxMsg) st.src.fuel st 0 [] = rr at h ⊢
        obtain ⟨data, e, s1, p⟩ := rr
        simp only at h ⊢
        split
        · exact h
        · split <;> exact h
    · exact RdReach.refl st
  · split
    · exact RdReach.srcUpdate w st _
    · split
      · split
        · exact RdReach.trans (RdReach.srcUpdate w st _) (RdReach.reportError w _ _)
        · split <;> exact RdReach.srcUpdate w st _
      · exact RdReach.srcUpdate w st _

theorem erPhase1_reach (w : World) (st : St) (r : ER) (n : Nat) : RdReach w st (phaseSt (erPhase1 w st r n)) := by
  unfold erPhase1
  split
  · exact RdReach.refl st
  · simp only
    split
    · exact erCurRead_reach w st r.current n
    · split
      · exact erCurRead_reach w st r.current n
      · split <;> exact erCurRead_reach w st r.current n

theorem erPhase2_reach (w : World) (st : St) (r : ER) (n : Nat) : RdReach w st (erPhase2 w st r n).2.2.1 := by
  unfold erPhase2
  have h := erPrepareNext_reach w st r
  generalize erPrepareNext w st r = rr at h ⊢
  obtain ⟨e, s1, r1, p⟩ := rr
  simp only at h ⊢
  split
  · exact h
  · split
    · exact h
    · split
      · exact h
      · generalize (if r1.envRemain > 0 then List.drop (5 - r1.envRemain) r1.env else []) = envPart
        split
        · exact RdReach.trans h (erCurRead_reach w s1 _ _)
        · exact h

theorem erRead_reach (w : World) (st : St) (r : ER) (n : Nat) : RdReach w st (erRead w st r n).2.2.1 := by
  unfold erRead
  split
  · exact RdReach.refl st
  · split
    · exact RdReach.refl st
    · have h1 := erPhase1_reach w st r n
      generalize erPhase1 w st r n = ph at h1 ⊢
      cases ph with
      | inl res => exact h1
      | inr x =>
        obtain ⟨s1, r1⟩ := x
        exact RdReach.trans h1 (erPhase2_reach w s1 r1 n)

theorem Flight.read_reach (w : World) (pl : HandlePlan) (f : Flight) (n : Nat) : RdReach w f.st (f.read w pl n).2.2.st := by
  unfold Flight.read
  split
  · exact RdReach.refl _
  · split
    · exact RdReach.srcUpdate w _ _
    · exact erRead_reach w f.st _ n
    · exact trRead_reach w pl _ f.st _ n

/-! ### whole handler scripts -/

theorem flightReadN_reach (w : World) (pl : HandlePlan) (k buf : Nat) (capped : Bool) :
    ∀ (fuel : Nat) (f : Flight) (got : Nat) (rd : Bytes) (re : Option Err),
      RdReach w f.st (flightReadN w pl k buf capped fuel f got rd re).1.st := by
  intro fuel
  induction fuel with
  | zero => intro f got rd re; simpa [flightReadN] using RdReach.refl f.st
  | succ m ih =>
    intro f got rd re
    unfold flightReadN
    split
    · exact RdReach.refl _
    · have h := fun n => Flight.read_reach w pl f n
      generalize hr : f.read w pl _ = r
      have h' : RdReach w f.st r.2.2.st := by rw [← hr]; exact h _
      obtain ⟨bs, e, f1⟩ := r
      simp only at h' ⊢
      split
      · exact h'
      · exact RdReach.trans h' (ih _ _ _ _)

theorem flightReadAll_reach (w : World) (pl : HandlePlan) (buf : Nat) :
    ∀ (fuel : Nat) (f : Flight) (rd : Bytes), RdReach w f.st (flightReadAll w pl buf fuel f rd).1.st := by
  intro fuel
  induction fuel with
  | zero => intro f rd; simpa [flightReadAll] using RdReach.refl f.st
  | succ m ih =>
    intro f rd
    unfold flightReadAll
    split
    · exact RdReach.refl _
    · have h := Flight.read_reach w pl f buf
      generalize f.read w pl buf = r at h ⊢
      obtain ⟨bs, e, f1⟩ := r
      simp only at h ⊢
      split
      · exact h
      · exact RdReach.trans h (ih _ _)

end Vanguard
