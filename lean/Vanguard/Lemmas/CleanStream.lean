import Vanguard.Lemmas.ReadSizes
import Vanguard.Lemmas.Chunking
/-!
  What the backend handler reads on the re-encoding path, for a well-formed request body (C01, request
  direction): exactly the client's messages, each converted and enveloped for the backend, in order,
  then a clean end.
-/
namespace Vanguard
open Vanguard

theorem trPrepare_op (w : World) (pl : HandlePlan) (st st' : St) (h : st'.op = st.op) (data : Bytes) (wc : Bool) :
    trPrepare w pl st' data wc = trPrepare w pl st data wc := by
  unfold trPrepare; rw [h]

/-- The bytes the backend is to read for one client frame: the backend's envelope and the converted message. -/
def Frame.converted (w : World) (pl : HandlePlan) (st : St) (ce : Enveloper) (x : Frame) : Option Bytes :=
  match trPrepare w pl st (x.msg ce).1 (x.msg ce).2 with
  | .ok (out, env) => some (env ++ out)
  | .error _ => none

/-- All frames can be converted; the concatenation of what the backend is to read. -/
def convertedAll (w : World) (pl : HandlePlan) (st : St) (ce : Enveloper) : List Frame → Option Bytes
  | [] => some []
  | x :: xs =>
    match x.converted w pl st ce, convertedAll w pl st ce xs with
    | some b, some bs => some (b ++ bs)
    | _, _ => none

theorem convertedAll_op (w : World) (pl : HandlePlan) (st st' : St) (ce : Enveloper) (h : st'.op = st.op) :
    ∀ fs, convertedAll w pl st' ce fs = convertedAll w pl st ce fs := by
  intro fs
  induction fs with
  | nil => rfl
  | cons x xs ih =>
    simp only [convertedAll, Frame.converted]
    rw [trPrepare_op w pl st st' h, ih]

/-- **A well-formed request body reaches the backend as exactly its messages, converted, in order,
    followed by a clean end**: the stream of the re-encoding reader (which no sequence of read sizes
    can change, `read_sizes_do_not_matter`) is the concatenation of the converted frames, then `io.EOF`. -/
theorem clean_stream (w : World) (pl : HandlePlan) (ce : Enveloper) (hprep : pl.clientReqNeedsPrep = false) :
    ∀ (fs : List Frame) (st : St) (cf : Bool) (out : Bytes),
      st.op.clientEnveloper = some ce → (∀ x ∈ fs, x.ok ce st.op.conf.maxMsg) →
      st.src.data = framesBytes fs → st.src.ending ≠ .unexpected →
      convertedAll w pl st ce fs = some out →
      Stream w pl st cf [] out .eof := by
  intro fs
  induction fs with
  | nil =>
    intro st cf out hce _ hd he hconv
    simp only [convertedAll, Option.some.injEq] at hconv
    subst hconv
    obtain ⟨h1, h2, h3⟩ := readRequestMessage_clean_end_rep w st ce hce (by simpa [framesBytes] using hd) he
    refine Stream.stop st cf .eof h2 ?_
    rw [h1]
    unfold trNext
    have hq : (readRequestMessage w st true).2.1.op.clientEnveloper.isNone = false := by
      rw [h3, hce]; rfl
    simp [hprep, hq]
  | cons x xs ih =>
    intro st cf out hce hok hd he hconv
    obtain ⟨env, hdec, hnt, hlen, hfit⟩ := hok x (List.mem_cons_self)
    have hdata : st.src.data = [x.f, x.a, x.b, x.c, x.d] ++ x.payload ++ framesBytes xs := by
      rw [hd]; simp [framesBytes, Frame.bytes]
    obtain ⟨r1, r2, r3, r4, r5⟩ := readRequestMessage_complete_rep w st ce hce x.f x.a x.b x.c x.d x.payload
      (framesBytes xs) env hdata hdec hnt hlen hfit
    have hmsg : x.msg ce = (x.payload, env.compressed) := by simp [Frame.msg, hdec]
    -- split the conversion of the list
    simp only [convertedAll, Frame.converted, hmsg] at hconv
    cases hp : trPrepare w pl st x.payload env.compressed with
    | error e => simp [hp] at hconv
    | ok oe =>
      obtain ⟨o1, e1⟩ := oe
      simp only [hp] at hconv
      cases hrest : convertedAll w pl st ce xs with
      | none => simp [hrest] at hconv
      | some bs =>
        simp only [hrest, Option.some.injEq] at hconv
        subst hconv
        have hnext : trNext pl (readRequestMessage w st true).2.1 cf (readRequestMessage w st true).1
            = .ok (x.payload, env.compressed) := by rw [r1]; rfl
        have hp' : trPrepare w pl (readRequestMessage w st true).2.1 x.payload env.compressed = .ok (o1, e1) := by
          rw [trPrepare_op w pl st _ r5]; exact hp
        have hconv' : convertedAll w pl (readRequestMessage w st true).2.1 ce xs = some bs := by
          rw [convertedAll_op w pl st _ ce r5]; exact hrest
        have htail := ih (readRequestMessage w st true).2.1 true bs (by rw [r5]; exact hce)
          (fun y hy => by rw [r5]; exact hok y (List.mem_cons_of_mem _ hy)) r3 (by rw [r4]; exact he) hconv'
        by_cases hemp : e1 ++ o1 = []
        · -- an empty conversion for a target without envelopes: nothing to hand out for this message
          rw [hemp, List.nil_append]
          have := Stream.fetch st cf bs .eof x.payload env.compressed o1 e1 r2 hnext hp' (by rw [hemp]; exact htail)
          exact this
        · exact Stream.fetch st cf _ .eof x.payload env.compressed o1 e1 r2 hnext hp' (Stream.pend _ true _ bs .eof hemp htail)

end Vanguard
