import Vanguard.Model.Timeout
import Vanguard.Spec.Timeout
import Vanguard.Lemmas.Decimal
import Vanguard.Lemmas.UInt8
namespace Vanguard

/-- What the reference grammar calls a malformed number is rejected by the `ParseInt` model. -/
theorem parseInt64_malformed (ds : Bytes) (h : Spec.numberMalformed ds = true) : parseInt64 ds = none := by
  cases ds with
  | nil => rfl
  | cons c rest =>
    unfold Spec.numberMalformed at h
    simp only [Bool.or_eq_true, Bool.not_eq_true', Bool.and_eq_true, List.isEmpty_iff] at h
    unfold parseInt64
    rcases h with (hc | hr) | ⟨hr, hc⟩
    · simp only [Bool.or_eq_false_iff] at hc
      simp only [hc.1.2, hc.2, Bool.false_eq_true, if_false]
      have : (c :: rest).all isDigitByte = false := by simp [hc.1.1]
      unfold parseNat; simp [parseNatAcc_nondigit _ _ this]
    · unfold Spec.allDigits at hr
      have hrest : parseNat rest = none := by
        unfold parseNat
        cases rest with
        | nil => simp
        | cons r rs => simp [parseNatAcc_nondigit _ _ hr]
      by_cases hm2 : (c == 0x2D) = true
      · simp [hm2, hrest]
      · by_cases hp2 : (c == 0x2B) = true
        · simp [hm2, hp2, hrest]
        · have : (c :: rest).all isDigitByte = false := by simp [hr]
          simp [hm2, hp2, parseNat, parseNatAcc_nondigit _ _ this]
    · subst hr
      by_cases hm2 : (c == 0x2D) = true
      · simp [hm2, parseNat]
      · by_cases hp2 : (c == 0x2B) = true
        · simp [hm2, hp2, parseNat]
        · have : [c].all isDigitByte = false := by simp [hc]
          simp [hm2, hp2, parseNat, parseNatAcc_nondigit _ _ this]

set_option maxRecDepth 100000 in
theorem unit_agree (u : UInt8) :
    (Spec.unitNanos u = none ∧ grpcUnit u = 0) ∨
    (∃ x, Spec.unitNanos u = some x ∧ grpcUnit u = x ∧ 0 < x ∧ (x = 3600000000000 ∨ x ≤ 60000000000) ∧
       ((x == 3600000000000) = true ↔ x = 3600000000000)) := by
  revert u; apply forall_uint8; decide +kernel

theorem pow8 : (10:Nat) ^ 8 = 100000000 := by decide
theorem pow10 : (10:Nat) ^ 10 = 10000000000 := by decide

end Vanguard
