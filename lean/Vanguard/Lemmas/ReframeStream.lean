import Vanguard.Props.C11
import Vanguard.Lemmas.Chunking
namespace Vanguard
open Vanguard

/-!
  # The re-framing reader (`envelopingReader`) as a function of the client's bytes

  For a client and a backend that both frame their messages: what the backend handler reads is a
  function of the client's body alone - `msgsSpec`: for every client frame the backend's envelope
  followed by the untouched payload - whatever the sizes of the handler's `Read` calls and however the
  body arrives in pieces.
-/

theorem encode_length (se : Enveloper) (env : Envelope) : (se.encode env).length = 5 := by
  simp [Enveloper.encode, be32]

/-- The stream of re-framed messages read from `data` at a message boundary, and how it ends. -/
def msgsSpec (ce se : Enveloper) (ending : SrcEnd) (data : Bytes) : Bytes × Err :=
  match data with
  | f :: a :: b :: c :: d :: rest =>
    match ce.decode f a b c d with
    | none => ([], .rpc 3)
    | some env =>
      if env.length ≤ rest.length then
        ((se.encode env ++ rest.take env.length ++ (msgsSpec ce se ending (rest.drop env.length)).1),
         (msgsSpec ce se ending (rest.drop env.length)).2)
      else (se.encode env ++ rest, .unexpectedEOF)
  | short => ([], shortErr ending short)
termination_by data.length
decreasing_by simp only [List.length_drop, List.length_cons]; omega

def ER.pending (r : ER) : Bytes := if r.envRemain > 0 then r.env.drop (5 - r.envRemain) else []
def ER.left (r : ER) : Nat := match r.current with | .limited k => k | _ => 0

/-- States of the reader for a client with envelopes. -/
structure ER.WF (r : ER) : Prop where
  cur : r.current = .none ∨ ∃ k, r.current = .limited k
  env : r.envRemain > 0 → r.envRemain ≤ 5 ∧ r.env.length = 5

/-- The stream from the middle of a message: `k` bytes of it are still to come, then further messages. -/
def bodySpec (ce se : Enveloper) (ending : SrcEnd) (k : Nat) (data : Bytes) : Bytes × Err :=
  if k ≤ data.length then
    (data.take k ++ (msgsSpec ce se ending (data.drop k)).1, (msgsSpec ce se ending (data.drop k)).2)
  else (data, .unexpectedEOF)

theorem bodySpec_zero (ce se : Enveloper) (ending : SrcEnd) (data : Bytes) :
    bodySpec ce se ending 0 data = msgsSpec ce se ending data := by
  simp [bodySpec]

/-- A pair `(b ++ x.1, x.2)`. -/
def prepend (b : Bytes) (x : Bytes × Err) : Bytes × Err := (b ++ x.1, x.2)

theorem prepend_nil (x : Bytes × Err) : prepend [] x = x := by simp [prepend]
theorem prepend_prepend (a b : Bytes) (x : Bytes × Err) : prepend a (prepend b x) = prepend (a ++ b) x := by
  simp [prepend, List.append_assoc]

/-- The rest of the stream from a state of the reader: what is left of the backend's envelope, what is
    left of the message, then the further messages. -/
def erSpec (ce se : Enveloper) (st : St) (r : ER) : Bytes × Err :=
  prepend r.pending (bodySpec ce se st.src.ending r.left st.src.data)

theorem msgsSpec_cons (ce se : Enveloper) (ending : SrcEnd) (f a b c d : UInt8) (rest : Bytes) (env : Envelope)
    (h : ce.decode f a b c d = some env) :
    msgsSpec ce se ending (f :: a :: b :: c :: d :: rest) = prepend (se.encode env) (bodySpec ce se ending env.length rest) := by
  rw [msgsSpec]
  simp only [h]
  unfold bodySpec prepend
  split
  · simp [List.append_assoc]
  · rfl

theorem msgsSpec_bad (ce se : Enveloper) (ending : SrcEnd) (f a b c d : UInt8) (rest : Bytes)
    (h : ce.decode f a b c d = none) :
    msgsSpec ce se ending (f :: a :: b :: c :: d :: rest) = ([], .rpc 3) := by
  rw [msgsSpec]
  simp only [h]

theorem msgsSpec_short (ce se : Enveloper) (ending : SrcEnd) (data : Bytes) (h : data.length < 5) :
    msgsSpec ce se ending data = ([], shortErr ending data) := by
  match data, h with
  | [], _ => rw [msgsSpec]; intro f a b c d rest hh; cases hh
  | [_], _ => rw [msgsSpec]; intro f a b c d rest hh; cases hh
  | [_, _], _ => rw [msgsSpec]; intro f a b c d rest hh; cases hh
  | [_, _, _], _ => rw [msgsSpec]; intro f a b c d rest hh; cases hh
  | [_, _, _, _], _ => rw [msgsSpec]; intro f a b c d rest hh; cases hh
  | _ :: _ :: _ :: _ :: _ :: _, h => simp at h; omega

/-- A prefix `b` of the data, no longer than `k`, comes off the body. -/
theorem bodySpec_take (ce se : Enveloper) (ending : SrcEnd) (k : Nat) (b rest : Bytes) (hb : b.length ≤ k) :
    bodySpec ce se ending k (b ++ rest) = prepend b (bodySpec ce se ending (k - b.length) rest) := by
  unfold bodySpec prepend
  simp only [List.length_append]
  by_cases h : k ≤ b.length + rest.length
  · have h' : k - b.length ≤ rest.length := by omega
    simp only [h, h', if_true]
    have e1 : List.take k (b ++ rest) = b ++ List.take (k - b.length) rest := by
      rw [List.take_append]; simp [List.take_of_length_le hb]
    have e2 : List.drop k (b ++ rest) = List.drop (k - b.length) rest := by
      rw [List.drop_append]; simp [List.drop_of_length_le hb]
    rw [e1, e2, List.append_assoc]
  · have h' : ¬ k - b.length ≤ rest.length := by omega
    simp only [h, h', if_false]

/-- **One `Read` of the exact reader of a message** (`m ≥ 1` bytes wanted, `k` still to come). -/
theorem limited_step (w : World) (ce se : Enveloper) (st : St) (k m : Nat) (hm : 1 ≤ m) :
    ∃ k', (erCurRead w st (.limited k) m).2.2.2.1 = .limited k' ∧
      (erCurRead w st (.limited k) m).2.2.2.2 = false ∧
      (erCurRead w st (.limited k) m).2.2.1.op = st.op ∧
      (erCurRead w st (.limited k) m).2.2.1.rw = st.rw ∧ (erCurRead w st (.limited k) m).2.2.1.sink = st.sink ∧
      (erCurRead w st (.limited k) m).2.2.1.src.ending = st.src.ending ∧
      (((erCurRead w st (.limited k) m).2.1 = none ∨ (erCurRead w st (.limited k) m).2.1 = some .eof) →
        bodySpec ce se st.src.ending k st.src.data
          = prepend (erCurRead w st (.limited k) m).1 (bodySpec ce se st.src.ending k' (erCurRead w st (.limited k) m).2.2.1.src.data) ∧
        ((erCurRead w st (.limited k) m).2.1 = some .eof → k' = 0) ∧
        ((erCurRead w st (.limited k) m).1 = [] → (erCurRead w st (.limited k) m).2.1 = some .eof ∧ k = 0 ∧
            (erCurRead w st (.limited k) m).2.2.1.src.data = st.src.data)) ∧
      (∀ e, (erCurRead w st (.limited k) m).2.1 = some e → e ≠ .eof →
        bodySpec ce se st.src.ending k st.src.data = ((erCurRead w st (.limited k) m).1, e)) := by
  generalize hres : erCurRead w st (.limited k) m = res
  unfold erCurRead at hres
  simp only at hres
  by_cases hk : k = 0
  · subst hk
    rw [if_pos (by decide : ((0:Nat) == 0) = true)] at hres
    subst hres
    refine ⟨0, rfl, rfl, rfl, rfl, rfl, rfl, fun _ => ⟨by rw [prepend_nil], fun _ => rfl, fun _ => ⟨rfl, rfl, rfl⟩⟩, fun e h hne => ?_⟩
    simp only [Option.some.injEq] at h
    exact absurd h.symm hne
  · have hk' : ¬ (k == 0) = true := by simpa using hk
    rw [if_neg hk'] at hres
    have hmk : 0 < min m k := by omega
    by_cases hd : st.src.data = []
    · rw [Source.read_empty st.src _ hd] at hres
      subst hres
      have hkpos : decide (k - ([] : Bytes).length > 0) = true := by simp; omega
      refine ⟨k - ([] : Bytes).length, rfl, rfl, rfl, rfl, rfl, rfl, ?_, ?_⟩
      · intro h
        exfalso
        simp only at h
        rcases h with h | h
        · split at h <;> cases h
        · split at h
          · cases h
          · rename_i hc
            simp only [Option.some.injEq] at h
            simp [h, hkpos] at hc
            exact hk hc
      · intro e h hne
        simp only at h
        have he : e = .unexpectedEOF := by
          split at h
          · simp only [Option.some.injEq] at h; exact h.symm
          · simp only [Option.some.injEq] at h
            unfold SrcEnd.err at h
            split at h
            · exact h.symm
            · exact absurd h.symm hne
        subst he
        unfold bodySpec
        rw [hd]
        have : ¬ k ≤ ([] : Bytes).length := by simp; omega
        simp only [this, if_false]
    · have hs := Source.read_spec st.src (min m k) hmk hd
      generalize st.src.read (min m k) = rr at hs hres
      obtain ⟨b, e, src'⟩ := rr
      simp only at hs
      obtain ⟨he, hne, hlen, happ, hend⟩ := hs
      subst hres
      have hbk : b.length ≤ k := by omega
      have hbpos : 0 < b.length := List.length_pos_iff.mpr hne
      have hspec := bodySpec_take ce se st.src.ending k b src'.data hbk
      rw [happ] at hspec
      refine ⟨k - b.length, rfl, rfl, rfl, rfl, rfl, hend, ?_, ?_⟩
      · intro _
        refine ⟨hspec, ?_, fun hb => absurd hb hne⟩
        intro h
        simp only at h
        split at h
        · cases h
        · rename_i hc
          rcases he with he | ⟨he, _⟩
          · rw [he] at h; cases h
          · simp only [he, beq_self_eq_true, Bool.true_and, decide_eq_true_eq] at hc
            omega
      · intro e' h hne'
        simp only at h
        rcases he with he | ⟨he, hdata⟩
        · rw [he] at h
          simp at h
        · split at h
          · simp only [Option.some.injEq] at h
            subst h
            rename_i hc
            simp only [he, beq_self_eq_true, Bool.true_and, decide_eq_true_eq] at hc
            rw [hspec]
            unfold bodySpec prepend
            rw [hdata]
            have : ¬ k - b.length ≤ ([] : Bytes).length := by simp; omega
            simp only [this, if_false, List.append_nil]
          · rw [he] at h
            simp only [Option.some.injEq] at h
            exact absurd h.symm hne'

/-- Announcing the next message, in terms of the specification. -/
theorem prepareNext_enveloped (w : World) (st : St) (r : ER) (ce se : Enveloper)
    (hce : st.op.clientEnveloper = some ce) (hse : st.op.serverEnveloper = some se) :
    (erPrepareNext w st r).2.2.2 = false ∧
    (∀ e, (erPrepareNext w st r).1 = some e → msgsSpec ce se st.src.ending st.src.data = ([], e)) ∧
    ((erPrepareNext w st r).1 = none → ∃ env,
      (erPrepareNext w st r).2.2.1 = { r with current := .limited env.length, envRemain := 5, env := se.encode env } ∧
      (erPrepareNext w st r).2.1.op = st.op ∧ (erPrepareNext w st r).2.1.src.ending = st.src.ending ∧
      msgsSpec ce se st.src.ending st.src.data
        = prepend (se.encode env) (bodySpec ce se st.src.ending env.length (erPrepareNext w st r).2.1.src.data)) := by
  refine ⟨(C11.erPrepareNext_safe w st r).1, ?_⟩
  generalize hres : erPrepareNext w st r = res
  unfold erPrepareNext at hres
  simp only [hce, hse] at hres
  have hf := C11.fuel_covers_data st.src
  by_cases hk : 5 ≤ st.src.data.length
  · obtain ⟨src', heq, hdata, hend⟩ := readExactly_enough st.src.fuel st.src 5 [] (by omega) hk
    rw [heq] at hres
    simp only [List.nil_append] at hres
    -- the five header bytes
    obtain ⟨f, a, b, c, d, rest, hd5⟩ : ∃ f a b c d rest, st.src.data = f :: a :: b :: c :: d :: rest := by
      match hdd : st.src.data, hk with
      | f :: a :: b :: c :: d :: rest, _ => exact ⟨f, a, b, c, d, rest, rfl⟩
    have htake : st.src.data.take 5 = [f, a, b, c, d] := by rw [hd5]; rfl
    have hdrop : src'.data = rest := by rw [hdata, hd5]; rfl
    rw [htake] at hres
    simp only at hres
    cases hdec : ce.decode f a b c d with
    | none =>
      simp only [hdec] at hres
      subst hres
      refine ⟨fun e h => ?_, fun h => by cases h⟩
      simp only [Option.some.injEq] at h
      subst h
      rw [hd5]; exact msgsSpec_bad ce se _ f a b c d rest hdec
    | some env =>
      simp only [hdec] at hres
      subst hres
      refine ⟨fun e h => (by cases h), fun _ => ⟨env, rfl, rfl, hend, ?_⟩⟩
      show msgsSpec ce se st.src.ending st.src.data = prepend (se.encode env) (bodySpec ce se st.src.ending env.length src'.data)
      rw [hdrop, hd5]
      exact msgsSpec_cons ce se _ f a b c d rest env hdec
  · obtain ⟨src', heq, hdata⟩ := readExactly_short st.src.fuel st.src 5 [] (by omega) (by omega)
    rw [heq] at hres
    simp only [List.nil_append] at hres
    subst hres
    refine ⟨fun e h => ?_, fun h => by cases h⟩
    simp only [Option.some.injEq] at h
    subst h
    exact msgsSpec_short ce se _ _ (by omega)

/-- What one `Read` must satisfy against the specification: without error it hands out a prefix of the
    stream and leaves a state whose stream is the rest; with an error the stream ends there, with it. -/
def EStepOk (ce se : Enveloper) (st : St) (spec : Bytes × Err) (x : Bytes × Option Err × St × ER × Bool) : Prop :=
  x.2.2.2.2 = false ∧
  (x.2.1 = none → x.2.2.2.1.WF ∧ x.2.2.2.1.err = none ∧ x.2.2.1.op = st.op ∧
      spec = prepend x.1 (erSpec ce se x.2.2.1 x.2.2.2.1)) ∧
  (∀ e, x.2.1 = some e → spec = (x.1, e))

theorem take_drop_env (env : Bytes) (n : Nat) : env = env.take n ++ env.drop n := (List.take_append_drop n env).symm

/-- Phase 2 of `Read` (the next message is announced and the read answered from it). -/
theorem erPhase2_step (w : World) (ce se : Enveloper) (st : St) (r : ER) (n : Nat) (hn : 1 ≤ n)
    (hce : st.op.clientEnveloper = some ce) (hse : st.op.serverEnveloper = some se) (herr : r.err = none) :
    EStepOk ce se st (msgsSpec ce se st.src.ending st.src.data) (erPhase2 w st r n) := by
  obtain ⟨hp, hbad, hgood⟩ := prepareNext_enveloped w st r ce se hce hse
  generalize hres : erPhase2 w st r n = res
  unfold erPhase2 at hres
  generalize erPrepareNext w st r = pn at hp hbad hgood hres
  obtain ⟨e0, s1, r1, p1⟩ := pn
  simp only at hp hbad hgood hres
  subst hp
  rw [if_neg Bool.false_ne_true] at hres
  cases e0 with
  | some err =>
    simp only at hres
    subst hres
    refine ⟨rfl, fun h => (by cases h), fun e h => ?_⟩
    simp only [Option.some.injEq] at h
    subst h
    exact hbad _ rfl
  | none =>
    obtain ⟨env, hr1, hop, hend, hspec⟩ := hgood rfl
    subst hr1
    simp only at hres
    have hl := encode_length se env
    by_cases hn5 : n < 5
    · rw [if_pos hn5] at hres
      subst hres
      refine ⟨rfl, fun _ => ⟨⟨Or.inr ⟨env.length, rfl⟩, fun _ => ⟨(by show 5 - n ≤ 5; omega), hl⟩⟩, herr, hop, ?_⟩, fun e h => (by cases h)⟩
      rw [hspec]
      unfold erSpec ER.pending ER.left
      have hpos : 5 - n > 0 := by omega
      simp only [hpos, if_true, Nat.sub_self, List.drop_zero, hend]
      rw [prepend_prepend]
      have : 5 - (5 - n) = n := by omega
      rw [this, List.take_append_drop]
    · rw [if_neg hn5] at hres
      simp only [Nat.lt_irrefl, if_false, show (5 : Nat) > 0 by omega, if_true, Nat.sub_self, List.drop_zero] at hres
      by_cases hn6 : n > (se.encode env).length
      · rw [if_pos hn6] at hres
        obtain ⟨k', hcur, hpf, hop2, _, _, hend2, hok, hfail⟩ :=
          limited_step w ce se s1 env.length (n - (se.encode env).length) (by omega)
        rw [hend] at hok hfail
        generalize erCurRead w s1 (.limited env.length) (n - (se.encode env).length) = cr at hcur hpf hop2 hend2 hok hfail hres
        obtain ⟨b, e, s2, cur, p2⟩ := cr
        simp only at hcur hpf hop2 hend2 hok hfail hres
        subst hcur hpf
        subst hres
        refine ⟨rfl, fun h => ?_, fun e' h => ?_⟩
        · simp only at h
          have he : e = none ∨ e = some .eof := by
            cases e with
            | none => exact Or.inl rfl
            | some ee =>
              right
              split at h
              · rename_i hc; simp only [Bool.and_eq_true, beq_iff_eq] at hc; exact hc.2
              · cases h
          obtain ⟨hb, _, _⟩ := hok he
          refine ⟨⟨Or.inr ⟨k', rfl⟩, fun hh => (by simp at hh)⟩, herr, (by show s2.op = st.op; rw [hop2]; exact hop), ?_⟩
          rw [hspec, hb]
          unfold erSpec ER.pending ER.left
          simp only [Nat.lt_irrefl, if_false, hend2, hend]
          rw [prepend_prepend, prepend_nil]
        · simp only at h
          have hne : e = some e' ∧ e' ≠ .eof := by
            split at h
            · cases h
            · rename_i hc
              refine ⟨h, fun heq => ?_⟩
              subst heq
              apply hc
              simp only [h, beq_self_eq_true, Bool.and_true, decide_eq_true_eq]
              omega
          rw [hspec, hfail e' hne.1 hne.2]
          rfl
      · rw [if_neg hn6] at hres
        subst hres
        refine ⟨rfl, fun _ => ⟨⟨Or.inr ⟨env.length, rfl⟩, fun hh => (by simp at hh)⟩, herr, hop, ?_⟩, fun e h => (by cases h)⟩
        rw [hspec]
        unfold erSpec ER.pending ER.left
        simp only [Nat.lt_irrefl, if_false, hend]
        rw [prepend_nil]

theorem pending_split (env : Bytes) (eR k : Nat) (hl : env.length = 5) (h5 : eR ≤ 5) (hk : k ≤ eR) (hpos : 0 < eR) :
    env.drop (5 - eR) = (env.drop (5 - eR)).take k ++ (if eR - k > 0 then env.drop (5 - (eR - k)) else []) := by
  have h1 : env.drop (5 - eR) = (env.drop (5 - eR)).take k ++ (env.drop (5 - eR)).drop k := (List.take_append_drop k _).symm
  have h2 : (env.drop (5 - eR)).drop k = env.drop (5 - eR + k) := by rw [List.drop_drop]
  by_cases hz : eR - k > 0
  · rw [if_pos hz]
    have : 5 - (eR - k) = 5 - eR + k := by omega
    rw [this, ← h2]; exact h1
  · rw [if_neg hz]
    have : 5 - eR + k = 5 := by omega
    rw [this] at h2
    have h3 : env.drop 5 = [] := by rw [List.drop_eq_nil_iff]; omega
    rw [h3] at h2
    rw [← h2]; exact h1

/-- **The step lemma of the re-framing reader**: whatever the `Read` size (at least one byte), whatever
    the state and however the client's body is cut into pieces, a `Read` hands out a prefix of the
    specified stream and leaves the reader where the rest of the stream follows; when it reports an
    error, the stream ends there with that error. -/
theorem erRead_step (w : World) (ce se : Enveloper) (st : St) (r : ER) (n : Nat) (hn : 1 ≤ n)
    (hce : st.op.clientEnveloper = some ce) (hse : st.op.serverEnveloper = some se) (hwf : r.WF) (herr : r.err = none) :
    EStepOk ce se st (erSpec ce se st r) (erRead w st r n) := by
  generalize hres : erRead w st r n = res
  unfold erRead at hres
  simp only [herr] at hres
  by_cases hrem : r.envRemain > 0
  · rw [if_pos hrem] at hres
    subst hres
    obtain ⟨h5, hl⟩ := hwf.env hrem
    refine ⟨rfl, fun _ => ⟨⟨hwf.cur, fun hh => ⟨(by show r.envRemain - min n r.envRemain ≤ 5; omega), hl⟩⟩, rfl, rfl, ?_⟩, fun e h => (by cases h)⟩
    unfold erSpec ER.pending ER.left
    simp only [hrem, if_true]
    rw [prepend_prepend]
    congr 1
    exact pending_split r.env r.envRemain (min n r.envRemain) hl h5 (Nat.min_le_right _ _) hrem
  · rw [if_neg hrem] at hres
    have hpend : r.pending = [] := by unfold ER.pending; rw [if_neg hrem]
    rcases hwf.cur with hc | ⟨k, hc⟩
    · -- between messages, nothing started
      have hleft : r.left = 0 := by unfold ER.left; rw [hc]
      have hp1 : erPhase1 w st r n = .inr (st, r) := by unfold erPhase1; rw [hc]
      rw [hp1] at hres
      simp only at hres
      subst hres
      have hspec : erSpec ce se st r = msgsSpec ce se st.src.ending st.src.data := by
        unfold erSpec; rw [hpend, hleft, prepend_nil, bodySpec_zero]
      rw [hspec]
      exact erPhase2_step w ce se st r n hn hce hse herr
    · have hleft : r.left = k := by unfold ER.left; rw [hc]
      have hspec : erSpec ce se st r = bodySpec ce se st.src.ending k st.src.data := by
        unfold erSpec; rw [hpend, hleft, prepend_nil]
      rw [hspec]
      obtain ⟨k', hcur, hpf, hop1, _, _, hend1, hok, hfail⟩ := limited_step w ce se st k n hn
      unfold erPhase1 at hres
      rw [hc] at hres
      simp only at hres
      generalize erCurRead w st (.limited k) n = cr at hcur hpf hop1 hend1 hok hfail hres
      obtain ⟨b, e, s1, cur, p1⟩ := cr
      simp only at hcur hpf hop1 hend1 hok hfail hres
      subst hcur hpf
      rw [if_neg Bool.false_ne_true] at hres
      by_cases hdel : (!b.isEmpty && (e.isNone || e == some .eof)) = true
      · rw [if_pos hdel] at hres
        simp only at hres
        subst hres
        have he : e = none ∨ e = some .eof := by
          simp only [Bool.and_eq_true, Bool.or_eq_true, beq_iff_eq] at hdel
          rcases hdel.2 with h | h
          · left; cases e with
            | none => rfl
            | some x => simp at h
          · exact Or.inr h
        obtain ⟨hb, _, _⟩ := hok he
        refine ⟨rfl, fun _ => ⟨⟨Or.inr ⟨k', rfl⟩, fun hh => absurd hh hrem⟩, herr, hop1, ?_⟩, fun e' h => (by cases h)⟩
        rw [hb]
        unfold erSpec ER.pending ER.left
        simp only [hrem, if_false, hend1]
        rw [prepend_nil]
      · rw [if_neg hdel] at hres
        cases e with
        | none =>
          -- nothing delivered and no error: impossible for a read of at least one byte
          exfalso
          obtain ⟨_, _, hemp⟩ := hok (Or.inl rfl)
          have hbe : b = [] := by
            cases b with
            | nil => rfl
            | cons x xs => exfalso; apply hdel; simp
          have := (hemp hbe).1
          cases this
        | some ee =>
          by_cases heof : ee = .eof
          · subst heof
            -- the message is exhausted: on to the next one
            obtain ⟨_, hk0, hemp⟩ := hok (Or.inr rfl)
            have hbe : b = [] := by
              cases b with
              | nil => rfl
              | cons x xs => exfalso; apply hdel; simp
            obtain ⟨_, hkz, hdata⟩ := hemp hbe
            simp only at hres
            subst hres
            have h2 := erPhase2_step w ce se s1 { r with current := .limited k' } n hn (by rw [hop1]; exact hce) (by rw [hop1]; exact hse) herr
            rw [hend1, hdata] at h2
            rw [hkz, bodySpec_zero]
            obtain ⟨a1, a2, a3⟩ := h2
            exact ⟨a1, fun h => by obtain ⟨b1, b2, b3, b4⟩ := a2 h; exact ⟨b1, b2, by rw [b3, hop1], b4⟩, a3⟩
          · simp only at hres
            have hres' : res = (b, some ee, s1, { r with current := .limited k', err := some ee }, false) := by
              rw [← hres]
            subst hres'
            refine ⟨rfl, fun h => (by cases h), fun e' h => ?_⟩
            simp only [Option.some.injEq] at h
            subst h
            exact hfail ee rfl heof

/-- A backend handler reads the request body with buffer sizes `ns` (each at least one byte) until a
    `Read` reports an error (`io.EOF` included): it has then been given the bytes `o`, and the error is `e`. -/
inductive EReads (w : World) : St → ER → List Nat → Bytes → Err → Prop
  | last (st : St) (r : ER) (n : Nat) (ns : List Nat) (b : Bytes) (e : Err) (st' : St) (r' : ER) (p : Bool) :
      1 ≤ n → erRead w st r n = (b, some e, st', r', p) → EReads w st r (n :: ns) b e
  | more (st : St) (r : ER) (n : Nat) (ns : List Nat) (b : Bytes) (st' : St) (r' : ER) (p : Bool) (o : Bytes) (e : Err) :
      1 ≤ n → erRead w st r n = (b, none, st', r', p) → EReads w st' r' ns o e →
      EReads w st r (n :: ns) (b ++ o) e

/-- Whatever the read sizes and however the body arrives, the handler is given the specified stream. -/
theorem EReads.spec {w : World} {st : St} {r : ER} {ns : List Nat} {o : Bytes} {e : Err} (ce se : Enveloper)
    (h : EReads w st r ns o e) :
    st.op.clientEnveloper = some ce → st.op.serverEnveloper = some se → r.WF → r.err = none →
    erSpec ce se st r = (o, e) := by
  induction h with
  | last st r n ns b e st' r' p hn hrd =>
    intro hce hse hwf herr
    have hs := erRead_step w ce se st r n hn hce hse hwf herr
    rw [hrd] at hs
    exact hs.2.2 e rfl
  | more st r n ns b st' r' p o e hn hrd _ ih =>
    intro hce hse hwf herr
    have hs := erRead_step w ce se st r n hn hce hse hwf herr
    rw [hrd] at hs
    obtain ⟨hwf', herr', hop, hspec⟩ := hs.2.1 rfl
    simp only at hwf' herr' hop hspec
    rw [hspec, ih (by rw [hop]; exact hce) (by rw [hop]; exact hse) hwf' herr']
    rfl

/-- **Read sizes and the segmentation of the body do not matter on the re-framing path.**  Two handlers
    reading two bodies with the same bytes and the same ending - cut into pieces in any two ways - with
    any two sequences of buffer sizes, from the same reader state, are given the same bytes and see the
    same final error. -/
theorem reframed_reads_agree (w : World) (ce se : Enveloper) (st1 st2 : St) (r : ER) (ns1 ns2 : List Nat)
    (o1 o2 : Bytes) (e1 e2 : Err)
    (hop : st2.op = st1.op) (hdata : st2.src.data = st1.src.data) (hend : st2.src.ending = st1.src.ending)
    (hce : st1.op.clientEnveloper = some ce) (hse : st1.op.serverEnveloper = some se) (hwf : r.WF) (herr : r.err = none)
    (h1 : EReads w st1 r ns1 o1 e1) (h2 : EReads w st2 r ns2 o2 e2) : o1 = o2 ∧ e1 = e2 := by
  have s1 := h1.spec ce se hce hse hwf herr
  have s2 := h2.spec ce se (by rw [hop]; exact hce) (by rw [hop]; exact hse) hwf herr
  have : erSpec ce se st2 r = erSpec ce se st1 r := by unfold erSpec; rw [hdata, hend]
  rw [this, s1] at s2
  simp only [Prod.mk.injEq] at s2
  exact s2

/-- What the backend is to read for a list of client frames: for each its own envelope for the payload,
    then the payload, untouched. -/
def reframedAll (ce se : Enveloper) : List Frame → Bytes
  | [] => []
  | x :: xs =>
    (match ce.decode x.f x.a x.b x.c x.d with
      | some env => se.encode env
      | none => []) ++ x.payload ++ reframedAll ce se xs

theorem msgsSpec_frames (ce se : Enveloper) (ending : SrcEnd) (hend : ending ≠ .unexpected) (maxMsg : Nat) :
    ∀ (fs : List Frame), (∀ x ∈ fs, x.ok ce maxMsg) →
      msgsSpec ce se ending (framesBytes fs) = (reframedAll ce se fs, .eof) := by
  intro fs
  induction fs with
  | nil =>
    intro _
    rw [show framesBytes [] = [] from rfl, msgsSpec_short ce se ending [] (by simp)]
    unfold shortErr
    have : (ending == SrcEnd.unexpected) = false := by
      cases ending <;> first | rfl | exact absurd rfl hend
    simp [this, reframedAll]
  | cons x xs ih =>
    intro hok
    obtain ⟨env, hdec, _, hlen, _⟩ := hok x (List.mem_cons_self)
    have hb : framesBytes (x :: xs) = x.f :: x.a :: x.b :: x.c :: x.d :: (x.payload ++ framesBytes xs) := by
      simp [framesBytes, Frame.bytes]
    rw [hb, msgsSpec_cons ce se ending _ _ _ _ _ _ env hdec]
    rw [bodySpec_take ce se ending env.length x.payload (framesBytes xs) (by omega)]
    rw [hlen, Nat.sub_self, bodySpec_zero, ih (fun y hy => hok y (List.mem_cons_of_mem _ hy))]
    simp [prepend, reframedAll, hdec, List.append_assoc]

/-- **C01 on the re-framing path, request direction**: a well-formed request body - a sequence of legal
    client frames - reaches the backend handler as exactly those messages, each under the backend's own
    envelope with its payload untouched, in order, followed by a clean `io.EOF` - whatever the sizes of
    the handler's `Read` calls and however the body is cut into pieces. -/
theorem reframed_clean_stream (w : World) (ce se : Enveloper) (st : St) (fs : List Frame) (ns : List Nat) (o : Bytes) (e : Err)
    (hce : st.op.clientEnveloper = some ce) (hse : st.op.serverEnveloper = some se)
    (hok : ∀ x ∈ fs, x.ok ce st.op.conf.maxMsg) (hdata : st.src.data = framesBytes fs) (hend : st.src.ending ≠ .unexpected)
    (h : EReads w st {} ns o e) : o = reframedAll ce se fs ∧ e = .eof := by
  have s := h.spec ce se hce hse ⟨Or.inl rfl, fun hh => by simp at hh⟩ rfl
  have : erSpec ce se st {} = msgsSpec ce se st.src.ending st.src.data := by
    unfold erSpec ER.pending ER.left
    simp [prepend_nil, bodySpec_zero]
  rw [this, hdata, msgsSpec_frames ce se st.src.ending hend st.op.conf.maxMsg fs hok] at s
  simp only [Prod.mk.injEq] at s
  exact ⟨s.1.symm, s.2.symm⟩

end Vanguard
