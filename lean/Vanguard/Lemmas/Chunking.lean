import Vanguard.Lemmas.Source
import Vanguard.Model.Handle
/-! Segmentation independence above `io.ReadFull`: whole request messages (C08). -/
namespace Vanguard
open Vanguard

theorem sum_length_flatten (cs : List Bytes) : (cs.map List.length).sum = cs.flatten.length := by
  induction cs with
  | nil => rfl
  | cons c rest ih => simp only [List.map_cons, List.sum_cons, List.flatten_cons, List.length_append, ih]

theorem Source.fuel_ge (src : Source) : src.data.length + 4 ≤ src.fuel := by
  unfold Source.fuel Source.data
  rw [sum_length_flatten]; omega

/-- Two bodies with the same bytes and the same way of ending. -/
def SrcEq (a b : Source) : Prop := a.data = b.data ∧ a.ending = b.ending

/-- `io.ReadFull` with any adequate fuel: the result depends on the bytes and the ending only. -/
theorem readExactly_det (s1 s2 : Source) (k : Nat) (acc : Bytes) (h : SrcEq s1 s2) (f1 f2 : Nat)
    (h1 : s1.data.length + 4 ≤ f1) (h2 : s2.data.length + 4 ≤ f2) :
    (readExactly f1 s1 k acc).1 = (readExactly f2 s2 k acc).1 ∧
    (readExactly f1 s1 k acc).2.1 = (readExactly f2 s2 k acc).2.1 ∧
    ((readExactly f1 s1 k acc).2.1 = none → SrcEq (readExactly f1 s1 k acc).2.2 (readExactly f2 s2 k acc).2.2) := by
  obtain ⟨hd, he⟩ := h
  have hl : s2.data.length = s1.data.length := by rw [hd]
  by_cases hk : k ≤ s1.data.length
  · obtain ⟨a, ha, ha2, ha3⟩ := readExactly_enough f1 s1 k acc (by omega) hk
    obtain ⟨b, hb, hb2, hb3⟩ := readExactly_enough f2 s2 k acc (by omega) (by omega)
    rw [ha, hb]
    refine ⟨by simp [hd], rfl, fun _ => ⟨by simp only; rw [ha2, hb2, hd], by simp only; rw [ha3, hb3, he]⟩⟩
  · obtain ⟨a, ha, _⟩ := readExactly_short f1 s1 k acc (by omega) (by omega)
    obtain ⟨b, hb, _⟩ := readExactly_short f2 s2 k acc (by omega) (by omega)
    rw [ha, hb]
    refine ⟨by simp [hd], by simp [hd, he], fun h => by simp at h⟩

/-- Two request states that differ only in how the client's remaining body is cut into pieces. -/
structure StEq (a b : St) : Prop where
  op : a.op = b.op
  rw : a.rw = b.rw
  sink : a.sink = b.sink
  scratch : a.scratch = b.scratch
  src : SrcEq a.src b.src

def resultOk {α : Type} (r : Except Err α) : Prop := ∃ v, r = .ok v

/-- **One enveloped request message, whatever the segmentation.** Reading the next message of a
    client with envelopes (gRPC, gRPC-Web, Connect streaming) gives the same message, the same
    compressed flag or the same error for every way of cutting the same body into pieces, and after a
    message the same bytes are left. -/
theorem readRequestMessage_enveloped_det (w : World) (a b : St) (h : StEq a b) (ce : Enveloper)
    (hce : a.op.clientEnveloper = some ce) :
    (readRequestMessage w a false).1 = (readRequestMessage w b false).1 ∧
    (resultOk (readRequestMessage w a false).1 →
      StEq (readRequestMessage w a false).2.1 (readRequestMessage w b false).2.1 ∧
      (readRequestMessage w a false).2.1.op = a.op) := by
  have hceb : b.op.clientEnveloper = some ce := by rw [← h.op]; exact hce
  unfold readRequestMessage
  simp only [hce, hceb, Bool.false_eq_true, if_false]
  have d1 := readExactly_det a.src b.src 5 [] h.src a.src.fuel b.src.fuel (Source.fuel_ge _) (Source.fuel_ge _)
  generalize readExactly a.src.fuel a.src 5 [] = r1 at d1 ⊢
  generalize readExactly b.src.fuel b.src 5 [] = r2 at d1 ⊢
  obtain ⟨hd1, e1, s1⟩ := r1
  obtain ⟨hd2, e2, s2⟩ := r2
  simp only at d1 ⊢
  obtain ⟨dh, de, ds⟩ := d1
  subst dh; subst de
  cases e1 with
  | some err => exact ⟨rfl, fun ⟨v, hv⟩ => by cases hv⟩
  | none =>
    have hs := ds rfl
    simp only
    split
    · rename_i f a' b' c d
      split
      · exact ⟨rfl, fun ⟨v, hv⟩ => by cases hv⟩
      · rename_i env _
        split
        · exact ⟨rfl, fun ⟨v, hv⟩ => by cases hv⟩
        · rw [h.op]
          by_cases hmax : env.length > b.op.conf.maxMsg
          · simp only [hmax, if_true]; exact ⟨trivial, fun ⟨v, hv⟩ => by cases hv⟩
          · simp only [hmax, if_false]
            have d2 := readExactly_det s1 s2 env.length [] hs s1.fuel s2.fuel (Source.fuel_ge _) (Source.fuel_ge _)
            generalize readExactly s1.fuel s1 env.length [] = q1 at d2 ⊢
            generalize readExactly s2.fuel s2 env.length [] = q2 at d2 ⊢
            obtain ⟨p1, x1, t1⟩ := q1
            obtain ⟨p2, x2, t2⟩ := q2
            simp only at d2 ⊢
            obtain ⟨dp, dx, dt⟩ := d2
            subst dp; subst dx
            cases x1 with
            | none =>
              exact ⟨rfl, fun _ => ⟨⟨rfl, h.rw, h.sink, h.scratch, dt rfl⟩, rfl⟩⟩
            | some err =>
              cases err <;> exact ⟨rfl, fun ⟨v, hv⟩ => by cases hv⟩
    · exact ⟨rfl, fun ⟨v, hv⟩ => by cases hv⟩

/-- All messages of a request body, as the transcoder's own message reader cuts them out
    (specification-level loop over `readRequestMessage`). -/
def readMessages (w : World) : Nat → St → List (Bytes × Bool) × Err
  | 0, _ => ([], .other)
  | fuel + 1, st =>
    match (readRequestMessage w st false).1 with
    | .ok m => ((m :: (readMessages w fuel (readRequestMessage w st false).2.1).1), (readMessages w fuel (readRequestMessage w st false).2.1).2)
    | .error e => ([], e)

/-- **The sequence of request messages does not depend on the segmentation** of the client's body:
    same messages, same compressed flags, same final condition (clean end, cut message, bad
    envelope, oversized message). -/
theorem readMessages_det (w : World) (ce : Enveloper) : ∀ (n : Nat) (a b : St), StEq a b →
    a.op.clientEnveloper = some ce → readMessages w n a = readMessages w n b := by
  intro n
  induction n with
  | zero => intro a b _ _; rfl
  | succ m ih =>
    intro a b h hce
    unfold readMessages
    obtain ⟨h1, h2⟩ := readRequestMessage_enveloped_det w a b h ce hce
    rw [← h1]
    cases hr : (readRequestMessage w a false).1 with
    | error e => rfl
    | ok msg =>
      simp only
      obtain ⟨hs, hop⟩ := h2 ⟨msg, hr⟩
      rw [ih _ _ hs (by rw [hop]; exact hce)]

/-! ### a client without envelopes: the whole body is one message -/

/-- An `io.EOF` that comes along with data is only produced by a body that ends that way. -/
theorem Source.read_eof_ending (src : Source) (n : Nat) (h : (src.read n).2.1 = some .eof) (hd : src.data ≠ []) :
    src.ending = .eofWithData := by
  unfold Source.read at h
  have hf := filter_nonempty_flatten src.chunks
  cases hc : src.chunks.filter (fun c => !c.isEmpty) with
  | nil =>
    rw [hc] at hf
    exact absurd hf.symm (by simpa [Source.data] using hd)
  | cons c rest =>
    simp only [hc] at h
    cases hE : src.ending with
    | eofWithData => rfl
    | eof => exfalso; by_cases hn : (n == 0) = true <;> simp [hn, hE] at h
    | unexpected => exfalso; by_cases hn : (n == 0) = true <;> simp [hn, hE] at h

/-- What reading a whole body under a size limit yields: everything, unless it is too long. -/
def copySpecErr (limit : Nat) (total : Nat) (ending : SrcEnd) : Option Err :=
  if total > limit then some (.rpc 8) else if ending == .unexpected then some .unexpectedEOF else none

theorem copyAllLimited_spec (w : World) (limit : Nat) : ∀ (fuel : Nat) (st : St) (read : Nat) (acc : Bytes),
    st.src.data.length + 1 < fuel → read ≤ limit →
    (copyAllLimited w false limit fuel st read acc).2.1 = copySpecErr limit (read + st.src.data.length) st.src.ending ∧
    (read + st.src.data.length ≤ limit → (copyAllLimited w false limit fuel st read acc).1 = acc ++ st.src.data) := by
  intro fuel
  induction fuel with
  | zero => intro _ _ _ h; omega
  | succ m ih =>
    intro st read acc hf hr
    unfold copyAllLimited hardLimitRead
    have hnr : ¬ read > limit := by omega
    have hn' : (if limit + 2 > limit - read then limit - read + 1 else limit + 2) = limit - read + 1 := by
      rw [if_pos (by omega)]
    simp only [hnr, if_false, hn', Bool.false_eq_true]
    by_cases hd : st.src.data = []
    · -- nothing left
      rw [Source.read_empty st.src _ hd]
      simp only [List.length_nil, Nat.add_zero, hnr, decide_false, Bool.false_and, Bool.false_eq_true, if_false, hd]
      unfold copySpecErr
      simp only [hnr, if_false]
      cases he : st.src.ending <;> simp [SrcEnd.err]
    · have spec := Source.read_spec st.src (limit - read + 1) (by omega) hd
      have heof := Source.read_eof_ending st.src (limit - read + 1)
      generalize st.src.read (limit - read + 1) = r at spec heof
      obtain ⟨b, e, src'⟩ := r
      simp only at spec heof ⊢
      obtain ⟨he, hb, hbl, hcat, hend⟩ := spec
      have hlen : st.src.data.length = b.length + src'.data.length := by rw [← hcat]; simp
      have hbpos : 0 < b.length := List.length_pos_iff.mpr hb
      by_cases hover : read + b.length > limit
      · -- one byte too many has arrived: the size error
        have hcond : (decide (read + b.length > limit) && (e.isNone || e == some Err.eof)) = true := by
          rcases he with he | ⟨he, _⟩ <;> simp [hover, he]
        simp only [hcond, if_true]
        unfold copySpecErr
        refine ⟨by rw [if_pos (show read + st.src.data.length > limit by omega)]; simp, fun h => by omega⟩
      · have hcond : (decide (read + b.length > limit) && (e.isNone || e == some Err.eof)) = false := by
          simp [hover]
        simp only [hcond, Bool.false_eq_true, if_false]
        rcases he with he | ⟨he, hrest⟩
        · -- more to come
          subst he
          simp only
          have := ih { st with src := src' } (read + b.length) (acc ++ b) (by simp only; omega) (by omega)
          simp only at this
          rw [hend] at this
          refine ⟨by rw [this.1, hlen]; congr 1; omega, fun h => ?_⟩
          rw [this.2 (by omega), ← hcat, List.append_assoc]
        · -- the last bytes came with io.EOF
          subst he
          simp only
          have hending := heof rfl hd
          unfold copySpecErr
          have hz : src'.data.length = 0 := by rw [hrest]; rfl
          refine ⟨by rw [if_neg (show ¬ read + st.src.data.length > limit by omega), hending]; rfl, fun _ => ?_⟩
          rw [← hcat, hrest, List.append_nil]

/-- **The one message of a client without envelopes (Connect unary, REST), whatever the
    segmentation**: the whole body, or the same error (too long, cut, empty). -/
theorem readRequestMessage_unenveloped_det (w : World) (a b : St) (h : StEq a b)
    (hce : a.op.clientEnveloper = none) :
    (readRequestMessage w a false).1 = (readRequestMessage w b false).1 := by
  have hceb : b.op.clientEnveloper = none := by rw [← h.op]; exact hce
  unfold readRequestMessage
  simp only [hce, hceb]
  rw [h.op]
  split
  · rfl
  · generalize hlim : (if (b.op.contentLen == -1) = true then b.op.conf.maxMsg else b.op.contentLen.toNat) = lim
    have sa := copyAllLimited_spec w lim a.src.fuel a 0 [] (by have := Source.fuel_ge a.src; omega) (Nat.zero_le _)
    have sb := copyAllLimited_spec w lim b.src.fuel b 0 [] (by have := Source.fuel_ge b.src; omega) (Nat.zero_le _)
    rw [h.src.1, h.src.2] at sa
    generalize copyAllLimited w false lim a.src.fuel a 0 [] = ra at sa ⊢
    generalize copyAllLimited w false lim b.src.fuel b 0 [] = rb at sb ⊢
    obtain ⟨d1, e1, s1, p1⟩ := ra
    obtain ⟨d2, e2, s2, p2⟩ := rb
    simp only [Nat.zero_add, List.nil_append] at sa sb ⊢
    obtain ⟨ea, da⟩ := sa
    obtain ⟨eb, db⟩ := sb
    subst ea; subst eb
    cases hs : copySpecErr lim b.src.data.length b.src.ending with
    | some err => rfl
    | none =>
      have hle : b.src.data.length ≤ lim := by
        unfold copySpecErr at hs
        split at hs
        · cases hs
        · omega
      simp only
      rw [da hle, db hle]
      split <;> rfl

/-! ### what the message reader returns, as a function of the bytes -/

/-- **A complete frame is returned exactly**: the body starts with a legal envelope `[f,a,b,c,d]` that
    announces `payload.length` bytes (within the limit) followed by that payload: the reader returns
    the payload and the compressed flag and leaves exactly the bytes after it - for every segmentation. -/
theorem readRequestMessage_complete (w : World) (st : St) (ce : Enveloper) (hce : st.op.clientEnveloper = some ce)
    (f a b c d : UInt8) (payload rest : Bytes) (env : Envelope)
    (hdata : st.src.data = [f, a, b, c, d] ++ payload ++ rest)
    (hdec : ce.decode f a b c d = some env) (hnt : env.trailer = false) (hlen : env.length = payload.length)
    (hfit : ¬ env.length > st.op.conf.maxMsg) :
    (readRequestMessage w st false).1 = .ok (payload, env.compressed) ∧
    (readRequestMessage w st false).2.1.src.data = rest ∧
    (readRequestMessage w st false).2.1.src.ending = st.src.ending ∧
    (readRequestMessage w st false).2.1.op = st.op := by
  unfold readRequestMessage
  simp only [hce, Bool.false_eq_true, if_false]
  have hl5 : 5 ≤ st.src.data.length := by rw [hdata]; simp
  obtain ⟨s1, h1, h1d, h1e⟩ := readExactly_enough st.src.fuel st.src 5 [] (by have := Source.fuel_ge st.src; omega) hl5
  rw [h1]
  have htake : st.src.data.take 5 = [f, a, b, c, d] := by rw [hdata]; simp
  simp only [List.nil_append, htake, hdec, hnt, Bool.false_eq_true, if_false, hfit]
  have hs1 : s1.data = payload ++ rest := by rw [h1d, hdata]; simp
  have hl : env.length ≤ s1.data.length := by rw [hs1, hlen]; simp
  obtain ⟨s2, h2, h2d, h2e⟩ := readExactly_enough s1.fuel s1 env.length [] (by have := Source.fuel_ge s1; omega) hl
  rw [h2]
  simp only [List.nil_append]
  refine ⟨by rw [hs1, hlen]; simp, by rw [h2d, hs1, hlen]; simp, by rw [h2e, h1e], trivial⟩

/-- **A clean end is reported only at a message boundary** (nothing left, the body ended cleanly). -/
theorem readRequestMessage_clean_end (w : World) (st : St) (ce : Enveloper) (hce : st.op.clientEnveloper = some ce)
    (hd : st.src.data = []) (he : st.src.ending ≠ .unexpected) :
    (readRequestMessage w st false).1 = .error .eof := by
  unfold readRequestMessage
  simp only [hce]
  obtain ⟨s1, h1, _⟩ := readExactly_short st.src.fuel st.src 5 [] (by have := Source.fuel_ge st.src; omega) (by rw [hd]; simp)
  rw [h1]
  simp only [hd, List.append_nil]
  unfold shortErr
  cases hend : st.src.ending <;> simp_all

/-- **A body that stops inside an envelope is an error**, never a message and never a clean end. -/
theorem readRequestMessage_cut_prefix (w : World) (st : St) (ce : Enveloper) (hce : st.op.clientEnveloper = some ce)
    (h0 : 0 < st.src.data.length) (h5 : st.src.data.length < 5) :
    (readRequestMessage w st false).1 = .error .unexpectedEOF := by
  unfold readRequestMessage
  simp only [hce]
  obtain ⟨s1, h1, _⟩ := readExactly_short st.src.fuel st.src 5 [] (by have := Source.fuel_ge st.src; omega) h5
  rw [h1]
  have hne : st.src.data ≠ [] := by intro h; rw [h] at h0; simp at h0
  simp only [List.nil_append]
  unfold shortErr
  cases hend : st.src.ending <;> simp [hne]

/-- **A body that stops inside an announced payload is an error**: the partial message is never returned. -/
theorem readRequestMessage_cut_payload (w : World) (st : St) (ce : Enveloper) (hce : st.op.clientEnveloper = some ce)
    (f a b c d : UInt8) (part : Bytes) (env : Envelope)
    (hdata : st.src.data = [f, a, b, c, d] ++ part)
    (hdec : ce.decode f a b c d = some env) (hnt : env.trailer = false) (hshort : part.length < env.length)
    (hfit : ¬ env.length > st.op.conf.maxMsg) :
    (readRequestMessage w st false).1 = .error .unexpectedEOF := by
  unfold readRequestMessage
  simp only [hce, Bool.false_eq_true, if_false]
  have hl5 : 5 ≤ st.src.data.length := by rw [hdata]; simp
  obtain ⟨s1, h1, h1d, h1e⟩ := readExactly_enough st.src.fuel st.src 5 [] (by have := Source.fuel_ge st.src; omega) hl5
  rw [h1]
  have htake : st.src.data.take 5 = [f, a, b, c, d] := by rw [hdata]; simp
  simp only [List.nil_append, htake, hdec, hnt, Bool.false_eq_true, if_false, hfit]
  have hs1 : s1.data = part := by rw [h1d, hdata]; simp
  obtain ⟨s2, h2, _⟩ := readExactly_short s1.fuel s1 env.length [] (by have := Source.fuel_ge s1; omega) (by rw [hs1]; exact hshort)
  rw [h2]
  simp only [List.nil_append]
  unfold shortErr
  cases hend : s1.ending <;> cases hp : s1.data <;> simp

/-- A frame as it appears on the wire: five envelope bytes and a payload. -/
structure Frame where
  f : UInt8
  a : UInt8
  b : UInt8
  c : UInt8
  d : UInt8
  payload : Bytes

def Frame.bytes (x : Frame) : Bytes := [x.f, x.a, x.b, x.c, x.d] ++ x.payload
def framesBytes (fs : List Frame) : Bytes := (fs.map Frame.bytes).flatten

/-- The envelope is legal for the client's protocol, is no end-of-stream frame, announces exactly the
    payload's length, and that length is within the limit. -/
def Frame.ok (ce : Enveloper) (maxMsg : Nat) (x : Frame) : Prop :=
  ∃ env, ce.decode x.f x.a x.b x.c x.d = some env ∧ env.trailer = false ∧ env.length = x.payload.length ∧
    ¬ env.length > maxMsg

def Frame.msg (ce : Enveloper) (x : Frame) : Bytes × Bool :=
  (x.payload, ((ce.decode x.f x.a x.b x.c x.d).map (·.compressed)).getD false)

/-- **Every complete message is delivered, exactly, and the end is clean**: a body that is a sequence
    of legal frames within the limit is cut into exactly those messages (payload and compressed flag,
    in order), then a clean end - for every segmentation of the body. -/
theorem readMessages_frames (w : World) (ce : Enveloper) : ∀ (fs : List Frame) (st : St) (n : Nat),
    st.op.clientEnveloper = some ce → (∀ x ∈ fs, x.ok ce st.op.conf.maxMsg) →
    st.src.data = framesBytes fs → st.src.ending ≠ .unexpected → fs.length < n →
    readMessages w n st = (fs.map (Frame.msg ce), .eof) := by
  intro fs
  induction fs with
  | nil =>
    intro st n hce _ hd he hn
    cases n with
    | zero => omega
    | succ k =>
      unfold readMessages
      rw [readRequestMessage_clean_end w st ce hce (by simpa [framesBytes] using hd) he]
      rfl
  | cons x xs ih =>
    intro st n hce hok hd he hn
    cases n with
    | zero => omega
    | succ k =>
      obtain ⟨env, hdec, hnt, hlen, hfit⟩ := hok x (List.mem_cons_self)
      have hdata : st.src.data = [x.f, x.a, x.b, x.c, x.d] ++ x.payload ++ framesBytes xs := by
        rw [hd]; simp [framesBytes, Frame.bytes]
      obtain ⟨r1, r2, r3, r4⟩ := readRequestMessage_complete w st ce hce x.f x.a x.b x.c x.d x.payload (framesBytes xs) env
        hdata hdec hnt hlen hfit
      unfold readMessages
      rw [r1]
      simp only
      have := ih (readRequestMessage w st false).2.1 k (by rw [r4]; exact hce)
        (fun y hy => by rw [r4]; exact hok y (List.mem_cons_of_mem _ hy)) r2 (by rw [r3]; exact he)
        (by simp at hn; omega)
      rw [this]
      simp [Frame.msg, hdec]

/-- **A body cut inside a message yields the complete messages before it and then an error**, never the
    partial message and never a clean end. -/
theorem readMessages_cut (w : World) (ce : Enveloper) : ∀ (fs : List Frame) (tail : Bytes) (st : St) (n : Nat),
    st.op.clientEnveloper = some ce → (∀ x ∈ fs, x.ok ce st.op.conf.maxMsg) →
    st.src.data = framesBytes fs ++ tail → fs.length < n →
    (0 < tail.length ∧ tail.length < 5) →
    readMessages w n st = (fs.map (Frame.msg ce), .unexpectedEOF) := by
  intro fs
  induction fs with
  | nil =>
    intro tail st n hce _ hd hn ht
    cases n with
    | zero => omega
    | succ k =>
      unfold readMessages
      have hd' : st.src.data = tail := by simpa [framesBytes] using hd
      rw [readRequestMessage_cut_prefix w st ce hce (by rw [hd']; exact ht.1) (by rw [hd']; exact ht.2)]
      rfl
  | cons x xs ih =>
    intro tail st n hce hok hd hn ht
    cases n with
    | zero => omega
    | succ k =>
      obtain ⟨env, hdec, hnt, hlen, hfit⟩ := hok x (List.mem_cons_self)
      have hdata : st.src.data = [x.f, x.a, x.b, x.c, x.d] ++ x.payload ++ (framesBytes xs ++ tail) := by
        rw [hd]; simp [framesBytes, Frame.bytes]
      obtain ⟨r1, r2, _, r4⟩ := readRequestMessage_complete w st ce hce x.f x.a x.b x.c x.d x.payload (framesBytes xs ++ tail) env
        hdata hdec hnt hlen hfit
      unfold readMessages
      rw [r1]
      simp only
      have := ih tail (readRequestMessage w st false).2.1 k (by rw [r4]; exact hce)
        (fun y hy => by rw [r4]; exact hok y (List.mem_cons_of_mem _ hy)) r2 (by simp at hn; omega) ht
      rw [this]
      simp [Frame.msg, hdec]

/-- The same with error reporting switched on: a complete frame takes no error path. -/
theorem readRequestMessage_complete_rep (w : World) (st : St) (ce : Enveloper) (hce : st.op.clientEnveloper = some ce)
    (f a b c d : UInt8) (payload rest : Bytes) (env : Envelope)
    (hdata : st.src.data = [f, a, b, c, d] ++ payload ++ rest)
    (hdec : ce.decode f a b c d = some env) (hnt : env.trailer = false) (hlen : env.length = payload.length)
    (hfit : ¬ env.length > st.op.conf.maxMsg) :
    (readRequestMessage w st true).1 = .ok (payload, env.compressed) ∧
    (readRequestMessage w st true).2.2 = false ∧
    (readRequestMessage w st true).2.1.src.data = rest ∧
    (readRequestMessage w st true).2.1.src.ending = st.src.ending ∧
    (readRequestMessage w st true).2.1.op = st.op := by
  unfold readRequestMessage
  simp only [hce]
  have hl5 : 5 ≤ st.src.data.length := by rw [hdata]; simp
  obtain ⟨s1, h1, h1d, h1e⟩ := readExactly_enough st.src.fuel st.src 5 [] (by have := Source.fuel_ge st.src; omega) hl5
  rw [h1]
  have htake : st.src.data.take 5 = [f, a, b, c, d] := by rw [hdata]; simp
  simp only [List.nil_append, htake, hdec, hnt, Bool.false_eq_true, if_false, hfit]
  have hs1 : s1.data = payload ++ rest := by rw [h1d, hdata]; simp
  have hl : env.length ≤ s1.data.length := by rw [hs1, hlen]; simp
  obtain ⟨s2, h2, h2d, h2e⟩ := readExactly_enough s1.fuel s1 env.length [] (by have := Source.fuel_ge s1; omega) hl
  rw [h2]
  simp only [List.nil_append]
  refine ⟨by rw [hs1, hlen]; simp, trivial, by rw [h2d, hs1, hlen]; simp, by rw [h2e, h1e], trivial⟩

theorem readRequestMessage_clean_end_rep (w : World) (st : St) (ce : Enveloper) (hce : st.op.clientEnveloper = some ce)
    (hd : st.src.data = []) (he : st.src.ending ≠ .unexpected) :
    (readRequestMessage w st true).1 = .error .eof ∧ (readRequestMessage w st true).2.2 = false ∧
    (readRequestMessage w st true).2.1.op = st.op := by
  unfold readRequestMessage
  simp only [hce]
  obtain ⟨s1, h1, _⟩ := readExactly_short st.src.fuel st.src 5 [] (by have := Source.fuel_ge st.src; omega) (by rw [hd]; simp)
  rw [h1]
  simp only [hd, List.append_nil]
  unfold shortErr
  cases hend : st.src.ending <;> simp_all

end Vanguard
