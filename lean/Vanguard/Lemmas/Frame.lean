import Vanguard.Model.Run
/-!
  # Frame lemmas for the writers below `responseWriter`

  `HW a b`: the step from `a` to `b` leaves alone whether `WriteHeader` ran, the operation, and which
  body writer is installed; it never starts buffering a response that was streaming, and never
  reopens an RPC that has ended.  Shown for every function of the re-framing and the re-encoding
  writer, loops included (any backend output, any split).
-/
namespace Vanguard
/-- What the writers below `responseWriter` never change. -/
structure HW (a b : St) : Prop where
  hw : b.rw.headersWritten = a.rw.headersWritten
  op : b.op = a.op
  wk : b.rw.w = a.rw.w
  buf : a.rw.buf = none → b.rw.buf = none
  ended : a.rw.endWritten = true → b.rw.endWritten = true
theorem HW.refl (a : St) : HW a a := ⟨rfl, rfl, rfl, id, id⟩
theorem HW.trans {a b c : St} (h1 : HW a b) (h2 : HW b c) : HW a c :=
  ⟨h2.hw.trans h1.hw, h2.op.trans h1.op, h2.wk.trans h1.wk, fun h => h2.buf (h1.buf h), fun h => h2.ended (h1.ended h)⟩

macro "hw_leaf" : tactic => `(tactic| first | exact HW.refl _ | (constructor <;> simp_all [writeEnd]))

theorem flushHeaders_hw (w : World) (st : St) : HW st (flushHeaders w st).1 := by
  unfold flushHeaders
  split
  · hw_leaf
  · simp only
    split
    · hw_leaf
    · split <;> hw_leaf

theorem reportEnd_hw (w : World) (st : St) (e : RespEnd) : HW st (reportEnd w st e).1 := by
  unfold reportEnd
  split
  · hw_leaf
  · simp only
    have fin : ∀ (x : St × Bool), HW st x.1 → HW st ({ x.1 with sink := x.1.sink.flush, rw := { x.1.rw with err := true } } : St) :=
      fun x h => ⟨h.hw, h.op, h.wk, h.buf, h.ended⟩
    split
    · split
      · hw_leaf
      · exact fin _ (HW.trans (by hw_leaf) (flushHeaders_hw w _))
    · split
      · hw_leaf
      · exact fin _ (HW.trans (by hw_leaf) (flushHeaders_hw w _))

theorem reportError_hw (w : World) (st : St) (e : Err) : HW st (reportError w st e).1 := by
  unfold reportError
  split
  · split
    · hw_leaf
    · exact reportEnd_hw w st _
  · exact reportEnd_hw w st _

theorem writeDown_hw (w : World) (st : St) (b : Bytes) : HW st (writeDown w st b).1 := by
  unfold writeDown
  split
  · split
    · exact reportError_hw w st _
    · hw_leaf
  · hw_leaf

theorem flushMessage_hw (st : St) : HW st (flushMessage st) := by
  unfold flushMessage
  split <;> hw_leaf

theorem handleEndMessage_hw (w : World) (tb : Tables) (st : St) (c : Bool) (d : Bytes) (r : Bool) :
    HW st (handleEndMessage w tb st c d r).1 := by
  unfold handleEndMessage
  simp only
  split
  · split
    · exact reportError_hw w st _
    · hw_leaf
  · split
    · exact reportError_hw w st _
    · exact reportEnd_hw w st _

theorem ewInit_hw (w : World) (st : St) (e : EW) : HW st (ewInit w st e).1 := by
  unfold ewInit
  split
  · hw_leaf
  · simp only
    split
    · hw_leaf
    · split
      · hw_leaf
      · split
        · hw_leaf
        · split
          · exact reportError_hw w st _
          · have h := writeDown_hw w st
            generalize hr : writeDown w st _ = r
            have h' : HW st r.1 := by rw [← hr]; exact h _
            obtain ⟨s1, f, p⟩ := r
            simp only at h' ⊢
            split <;> exact h'

theorem ewWritePiece_hw (w : World) (st : St) (e : EW) (piece : Bytes) : HW st (ewWritePiece w st e piece).1 := by
  unfold ewWritePiece
  split
  · hw_leaf
  · split
    · exact writeDown_hw w st _
    · hw_leaf
    · split
      · exact reportError_hw w st _
      · hw_leaf
    · hw_leaf

theorem ewEnvelopeWritten_hw (w : World) (st : St) (e : EW) : HW st (ewEnvelopeWritten w st e).1 := by
  unfold ewEnvelopeWritten
  simp only
  split
  · exact reportError_hw w st _
  · split
    · split
      · exact reportError_hw w st _
      · split
        · split
          · exact reportError_hw w st _
          · hw_leaf
        · split
          · have h := writeDown_hw w st
            generalize hr : writeDown w st _ = r
            have h' : HW st r.1 := by rw [← hr]; exact h _
            obtain ⟨s1, f, p⟩ := r
            simp only at h' ⊢
            split <;> exact h'
          · simp only [Bool.false_eq_true, if_false]; hw_leaf
    · hw_leaf

theorem ewLoop_hw (w : World) (tb : Tables) : ∀ (n : Nat) (st : St) (e : EW) (data : Bytes),
    HW st (ewLoop w tb n st e data).1 := by
  intro n
  induction n with
  | zero => intro st e data; simp only [ewLoop]; hw_leaf
  | succ m ih =>
    intro st e data
    unfold ewLoop
    split
    · hw_leaf
    · split
      · exact ewWritePiece_hw w st e data
      · simp only
        have h1 := ewWritePiece_hw w st e (data.take e.remaining.toNat)
        generalize ewWritePiece w st e (data.take e.remaining.toNat) = r1 at h1 ⊢
        obtain ⟨s1, e1, f1, p1⟩ := r1
        simp only at h1 ⊢
        split
        · exact h1
        · split
          · have h2 := fun ee => ewEnvelopeWritten_hw w s1 ee
            generalize hr2 : ewEnvelopeWritten w s1 _ = r2
            have h2' : HW s1 r2.1 := by rw [← hr2]; exact h2 _
            obtain ⟨s2, e2, f2, p2⟩ := r2
            simp only at h2' ⊢
            split
            · exact HW.trans h1 h2'
            · exact HW.trans h1 (HW.trans h2' (ih _ _ _))
          · split
            · split
              · have h3 := fun c d => handleEndMessage_hw w tb s1 c d true
                generalize hr3 : handleEndMessage w tb s1 _ _ true = r3
                have h3' : HW s1 r3.1 := by rw [← hr3]; exact h3 _ _
                obtain ⟨s2, er, p2⟩ := r3
                simp only at h3' ⊢
                split
                · exact HW.trans h1 h3'
                · split
                  · exact HW.trans h1 h3'
                  · exact HW.trans h1 (HW.trans h3' (ih _ _ _))
              · exact h1
            · exact HW.trans h1 (HW.trans (flushMessage_hw s1) (ih _ _ _))

theorem ewWrite_hw (w : World) (tb : Tables) (st : St) (e : EW) (data : Bytes) : HW st (ewWrite w tb st e data).1 := by
  unfold ewWrite
  have h1 := ewInit_hw w st e
  generalize ewInit w st e = r1 at h1 ⊢
  obtain ⟨s1, e1, p1⟩ := r1
  simp only at h1 ⊢
  split
  · exact h1
  · split
    · exact h1
    · split
      · exact HW.trans h1 (ewWritePiece_hw w s1 e1 data)
      · exact HW.trans h1 (ewLoop_hw w tb _ s1 e1 data)

theorem twFlushMessage_hw (w : World) (tb : Tables) (st : St) (t : TW) : HW st (twFlushMessage w tb st t).1 := by
  unfold twFlushMessage
  simp only
  split
  · have h3 := fun c d => handleEndMessage_hw w tb st c d false
    generalize hr3 : handleEndMessage w tb st _ _ false = r3
    have h3' : HW st r3.1 := by rw [← hr3]; exact h3 _ _
    obtain ⟨s2, er, p2⟩ := r3
    simp only at h3' ⊢
    split <;> exact h3'
  · split
    · hw_leaf
    · rename_i out _
      split
      · rename_i ce _
        split
        · simp only [Option.isSome_some, Bool.true_or, if_true]; hw_leaf
        · have h1 := writeDown_hw w st
          generalize hr1 : writeDown w st _ = r1
          have h1' : HW st r1.1 := by rw [← hr1]; exact h1 _
          obtain ⟨s1, f1, p1⟩ := r1
          simp only at h1' ⊢
          cases f1 <;> simp only [Bool.false_eq_true, if_false, if_true, Option.isSome_none, Option.isSome_some, Bool.true_or, Bool.false_or]
          rotate_left
          · exact h1'
          split
          · exact h1'
          · have h2 := writeDown_hw w s1 out
            generalize writeDown w s1 out = r2 at h2 ⊢
            obtain ⟨s2, f2, p2⟩ := r2
            simp only at h2 ⊢
            split
            · exact HW.trans h1' h2
            · exact HW.trans h1' (HW.trans h2 (flushMessage_hw s2))
      · simp only [Option.isSome_none, Bool.false_or, Bool.false_eq_true, if_false]
        have h2 := writeDown_hw w st out
        generalize writeDown w st out = r2 at h2 ⊢
        obtain ⟨s2, f2, p2⟩ := r2
        simp only at h2 ⊢
        split
        · exact h2
        · exact HW.trans h2 (flushMessage_hw s2)

theorem twLoop_hw (w : World) (tb : Tables) : ∀ (n : Nat) (st : St) (t : TW) (data : Bytes),
    HW st (twLoop w tb n st t data).1 := by
  intro n
  induction n with
  | zero => intro st t data; simp only [twLoop]; hw_leaf
  | succ m ih =>
    intro st t data
    unfold twLoop
    split
    · hw_leaf
    · simp only
      split
      · hw_leaf
      · split
        · hw_leaf
        · split
          · split
            · split
              · exact reportError_hw w st _
              · split
                · exact reportError_hw w st _
                · exact ih _ _ _
            · hw_leaf
          · have h1 := fun tt => twFlushMessage_hw w tb st tt
            generalize hr1 : twFlushMessage w tb st _ = r1
            have h1' : HW st r1.1 := by rw [← hr1]; exact h1 _
            obtain ⟨s1, t1, e1, p1⟩ := r1
            simp only at h1' ⊢
            split
            · exact h1'
            · split
              · exact HW.trans h1' (reportError_hw w s1 _)
              · split
                · exact h1'
                · exact HW.trans h1' (ih _ _ _)

theorem twWrite_hw (w : World) (tb : Tables) (st : St) (t : TW) (data : Bytes) : HW st (twWrite w tb st t data).1 := by
  unfold twWrite
  split
  · hw_leaf
  · simp only
    generalize (if t.buffer.isNone = true then twReset st t else t) = t1
    split
    · split
      · exact reportError_hw w st _
      · hw_leaf
    · exact twLoop_hw w tb _ st _ data

/-! ### the re-framing writer stays initialised -/

theorem ewWritePiece_initialized (w : World) (st : St) (e : EW) (piece : Bytes) :
    (ewWritePiece w st e piece).2.1.initialized = e.initialized := by
  unfold ewWritePiece
  split
  · rfl
  · split
    · rfl
    · rfl
    · split <;> rfl
    · rfl

theorem ewEnvelopeWritten_initialized (w : World) (st : St) (e : EW) :
    (ewEnvelopeWritten w st e).2.1.initialized = e.initialized := by
  unfold ewEnvelopeWritten
  simp only
  split
  · rfl
  · split
    · split
      · rfl
      · split
        · split <;> rfl
        · split
          · generalize writeDown w st _ = r
            obtain ⟨s1, f, p⟩ := r
            simp only
            split <;> rfl
          · simp only [Bool.false_eq_true, if_false]
    · rfl

theorem ewLoop_initialized (w : World) (tb : Tables) : ∀ (n : Nat) (st : St) (e : EW) (data : Bytes),
    (ewLoop w tb n st e data).2.1.initialized = e.initialized := by
  intro n
  induction n with
  | zero => intro st e data; simp only [ewLoop]
  | succ m ih =>
    intro st e data
    unfold ewLoop
    split
    · rfl
    · split
      · exact ewWritePiece_initialized w st e data
      · simp only
        have h1 := ewWritePiece_initialized w st e (data.take e.remaining.toNat)
        generalize ewWritePiece w st e (data.take e.remaining.toNat) = r1 at h1 ⊢
        obtain ⟨s1, e1, f1, p1⟩ := r1
        simp only at h1 ⊢
        split
        · exact h1
        · split
          · have h2 := fun ee => ewEnvelopeWritten_initialized w s1 ee
            generalize hr2 : ewEnvelopeWritten w s1 _ = r2
            have h2' : r2.2.1.initialized = e1.initialized := by rw [← hr2]; exact h2 _
            obtain ⟨s2, e2, f2, p2⟩ := r2
            simp only at h2' ⊢
            split
            · exact h2'.trans h1
            · exact (ih _ _ _).trans (h2'.trans h1)
          · split
            · split
              · generalize handleEndMessage w tb s1 _ _ true = r3
                obtain ⟨s2, er, p2⟩ := r3
                simp only
                split
                · exact h1
                · split
                  · exact h1
                  · exact (ih _ _ _).trans h1
              · exact h1
            · exact (ih _ _ _).trans h1

theorem ewInit_initialized (w : World) (st : St) (e : EW) : (ewInit w st e).2.1.initialized = true := by
  unfold ewInit
  split
  · assumption
  · simp only
    split
    · rfl
    · split
      · rfl
      · split
        · rfl
        · split
          · rfl
          · generalize writeDown w st _ = r
            obtain ⟨s1, f, p⟩ := r
            simp only
            split <;> rfl

/-- After any `Write` the re-framing writer is initialised. -/
theorem ewWrite_initialized (w : World) (tb : Tables) (st : St) (e : EW) (data : Bytes) :
    (ewWrite w tb st e data).2.1.initialized = true := by
  unfold ewWrite
  have h1 := ewInit_initialized w st e
  generalize ewInit w st e = r1 at h1 ⊢
  obtain ⟨s1, e1, p1⟩ := r1
  simp only at h1 ⊢
  split
  · exact h1
  · split
    · exact h1
    · split
      · exact (ewWritePiece_initialized w s1 e1 data).trans h1
      · exact (ewLoop_initialized w tb _ s1 e1 data).trans h1

end Vanguard
