import Vanguard.Spec.Routing
namespace Vanguard
open Vanguard.Spec

theorem mem_children {seg : Bytes} {routes : List Route} {rc : Route} (h : rc ∈ children seg routes) :
    ∃ r ∈ routes, r.segs = seg :: rc.segs ∧ rc = { r with segs := rc.segs } := by
  unfold children at h
  rw [List.mem_filterMap] at h
  obtain ⟨r, hr, hm⟩ := h
  refine ⟨r, hr, ?_⟩
  cases hs : r.segs with
  | nil => simp [hs] at hm
  | cons s t =>
    simp only [hs] at hm
    split at hm
    · rename_i heq
      simp only [Option.some.injEq] at hm
      subst hm
      simp at heq
      simp [heq]
    · simp at hm

theorem children_mem {seg : Bytes} {routes : List Route} {r : Route} {t : List Bytes}
    (hr : r ∈ routes) (hs : r.segs = seg :: t) : { r with segs := t } ∈ children seg routes := by
  unfold children
  rw [List.mem_filterMap]
  exact ⟨r, hr, by simp [hs]⟩

/-- What `getTarget` returns, in terms of membership. -/
theorem getTarget_target {routes : List Route} {verb method : Bytes} {r : Route}
    (h : getTarget routes verb method = .target r) :
    r ∈ routes ∧ r.segs = [] ∧ r.verb = verb ∧ (r.method = method ∨ r.method = wildcardMethod) := by
  unfold getTarget at h
  simp only at h
  split at h
  · simp at h
  · split at h
    · rename_i r' hf
      simp only [Found.target.injEq] at h
      subst h
      have hm := List.mem_of_find?_eq_some hf
      have hp := List.find?_some hf
      simp only [List.mem_filter, Bool.and_eq_true, List.isEmpty_iff, beq_iff_eq] at hm
      simp only [beq_iff_eq] at hp
      exact ⟨hm.1, hm.2.1, hm.2.2, Or.inl hp⟩
    · split at h
      · rename_i r' hf
        simp only [Found.target.injEq] at h
        subst h
        have hm := List.mem_of_find?_eq_some hf
        have hp := List.find?_some hf
        simp only [List.mem_filter, Bool.and_eq_true, List.isEmpty_iff, beq_iff_eq] at hm
        simp only [beq_iff_eq] at hp
        exact ⟨hm.1, hm.2.1, hm.2.2, Or.inr hp⟩
      · simp at h

theorem getTarget_none_iff {routes : List Route} {verb method : Bytes} :
    getTarget routes verb method = .none ↔ ∀ r ∈ routes, ¬ (r.segs = [] ∧ r.verb = verb) := by
  unfold getTarget
  simp only
  constructor
  · intro h r hr hc
    split at h
    · rename_i he
      have : r ∈ routes.filter fun r => r.segs.isEmpty && r.verb == verb := by
        simp [List.mem_filter, hr, hc.1, hc.2]
      simp only [List.isEmpty_iff] at he
      rw [he] at this
      simp at this
    · split at h
      · simp at h
      · split at h <;> simp at h
  · intro h
    have : (routes.filter fun r => r.segs.isEmpty && r.verb == verb) = [] := by
      rw [List.filter_eq_nil_iff]
      intro r hr
      have := h r hr
      simp only [Bool.and_eq_true, List.isEmpty_iff, beq_iff_eq]
      exact this
    simp [this]

theorem getTarget_methods {routes : List Route} {verb method : Bytes} {ms : List Bytes}
    (h : getTarget routes verb method = .methods ms) :
    ms ≠ [] ∧ method ∉ ms ∧ wildcardMethod ∉ ms ∧
    ∀ m, m ∈ ms ↔ ∃ r ∈ routes, r.segs = [] ∧ r.verb = verb ∧ r.method = m := by
  unfold getTarget at h
  simp only at h
  split at h
  · simp at h
  · rename_i hne
    split at h
    · simp at h
    · rename_i hf1
      split at h
      · simp at h
      · rename_i hf2
        simp only [Found.methods.injEq] at h
        subst h
        rw [List.find?_eq_none] at hf1 hf2
        refine ⟨?_, ?_, ?_, ?_⟩
        · simpa [List.isEmpty_iff] using hne
        · intro hm
          rw [List.mem_map] at hm
          obtain ⟨r, hr, he⟩ := hm
          exact hf1 r hr (by simp [he])
        · intro hm
          rw [List.mem_map] at hm
          obtain ⟨r, hr, he⟩ := hm
          exact hf2 r hr (by simp [he])
        · intro m
          simp only [List.mem_map, List.mem_filter, Bool.and_eq_true, List.isEmpty_iff, beq_iff_eq]
          constructor
          · rintro ⟨r, ⟨hr, hs, hv⟩, he⟩; exact ⟨r, hr, hs, hv, he⟩
          · rintro ⟨r, hr, hs, hv, he⟩; exact ⟨r, ⟨hr, hs, hv⟩, he⟩

end Vanguard

namespace Vanguard
open Vanguard.Spec

/-- No two bindings of the table share (segments, verb, method) — what `insert` enforces. -/
def KeyInj (routes : List Route) : Prop := ∀ a ∈ routes, ∀ b ∈ routes, key a = key b → a = b

/-- Equality of walk results up to the order of the `Allow` methods. -/
def FoundEq : Found → Found → Prop
  | .target a, .target b => a = b
  | .methods a, .methods b => a.Perm b
  | .none, .none => True
  | _, _ => False

theorem find?_perm_unique {α} {p : α → Bool} {l₁ l₂ : List α} (hp : l₁.Perm l₂)
    (hu : ∀ a ∈ l₁, ∀ b ∈ l₁, p a = true → p b = true → a = b) : l₁.find? p = l₂.find? p := by
  cases h1 : l₁.find? p with
  | none =>
    rw [List.find?_eq_none] at h1
    symm; rw [List.find?_eq_none]
    intro x hx; exact h1 x (hp.mem_iff.mpr hx)
  | some a =>
    have ha := List.mem_of_find?_eq_some h1
    have hpa := List.find?_some h1
    cases h2 : l₂.find? p with
    | none =>
      rw [List.find?_eq_none] at h2
      exact absurd hpa (h2 a (hp.mem_iff.mp ha))
    | some b =>
      have hb := List.mem_of_find?_eq_some h2
      have hpb := List.find?_some h2
      rw [hu a ha b (hp.mem_iff.mpr hb) hpa hpb]

theorem keyInj_children {seg : Bytes} {routes : List Route} (h : KeyInj routes) : KeyInj (children seg routes) := by
  intro a ha b hb hk
  obtain ⟨ra, hra, hsa, hea⟩ := mem_children ha
  obtain ⟨rb, hrb, hsb, heb⟩ := mem_children hb
  have hka : key ra = key rb := by
    simp only [key, Prod.mk.injEq] at hk ⊢
    rw [hea, heb] at hk
    simp only at hk
    rw [hsa, hsb]
    exact ⟨by rw [hk.1], hk.2.1, hk.2.2⟩
  have := h ra hra rb hrb hka
  subst this
  rw [hea, heb]
  simp only [key, Prod.mk.injEq] at hk
  rw [hk.1]

theorem keyInj_perm {l₁ l₂ : List Route} (hp : l₁.Perm l₂) (h : KeyInj l₁) : KeyInj l₂ :=
  fun a ha b hb hk => h a (hp.mem_iff.mpr ha) b (hp.mem_iff.mpr hb) hk

theorem children_perm {seg : Bytes} {l₁ l₂ : List Route} (hp : l₁.Perm l₂) :
    (children seg l₁).Perm (children seg l₂) := by
  unfold children; exact hp.filterMap _

theorem getTarget_perm {l₁ l₂ : List Route} (hp : l₁.Perm l₂) (hk : KeyInj l₁) (verb method : Bytes) :
    FoundEq (getTarget l₁ verb method) (getTarget l₂ verb method) := by
  unfold getTarget
  simp only
  have hh : (l₁.filter fun r => r.segs.isEmpty && r.verb == verb).Perm
      (l₂.filter fun r => r.segs.isEmpty && r.verb == verb) := hp.filter _
  have huniq : ∀ m : Bytes, ∀ a ∈ (l₁.filter fun r => r.segs.isEmpty && r.verb == verb),
      ∀ b ∈ (l₁.filter fun r => r.segs.isEmpty && r.verb == verb),
      (a.method == m) = true → (b.method == m) = true → a = b := by
    intro m a ha b hb hma hmb
    simp only [List.mem_filter, Bool.and_eq_true, List.isEmpty_iff, beq_iff_eq] at ha hb hma hmb
    exact hk a ha.1 b hb.1 (by simp [key, ha.2.1, hb.2.1, ha.2.2, hb.2.2, hma, hmb])
  have he : (l₁.filter fun r => r.segs.isEmpty && r.verb == verb).isEmpty =
      (l₂.filter fun r => r.segs.isEmpty && r.verb == verb).isEmpty := by
    cases h1 : (l₁.filter fun r => r.segs.isEmpty && r.verb == verb) with
    | nil => rw [h1] at hh; simp [hh.symm.eq_nil]
    | cons a t =>
      cases h2 : (l₂.filter fun r => r.segs.isEmpty && r.verb == verb) with
      | nil => rw [h1, h2] at hh; exact absurd hh.eq_nil (by simp)
      | cons _ _ => simp
  rw [← he, ← find?_perm_unique hh (huniq method), ← find?_perm_unique hh (huniq wildcardMethod)]
  split
  · trivial
  · split
    · rfl
    · split
      · rfl
      · exact hh.map _

theorem findTarget_perm (verb method : Bytes) :
    ∀ (path : List Bytes) (l₁ l₂ : List Route), l₁.Perm l₂ → KeyInj l₁ →
      FoundEq (findTarget l₁ path verb method) (findTarget l₂ path verb method) := by
  intro path
  induction path with
  | nil => intro l₁ l₂ hp hk; simp only [findTarget]; exact getTarget_perm hp hk verb method
  | cons cur rest ih =>
    intro l₁ l₂ hp hk
    simp only [findTarget]
    have e1 := ih _ _ (children_perm (seg := cur) hp) (keyInj_children hk)
    have e2 := ih _ _ (children_perm (seg := starSeg) hp) (keyInj_children hk)
    have e3 := getTarget_perm (children_perm (seg := dstarSeg) hp) (keyInj_children hk) verb method
    cases h1 : findTarget (children cur l₁) rest verb method <;>
      cases h1' : findTarget (children cur l₂) rest verb method <;>
      simp only [h1, h1', FoundEq] at e1 <;> try exact e1.elim
    · simp only [FoundEq]; exact e1
    · simp only [FoundEq]; exact e1
    · cases h2 : findTarget (children starSeg l₁) rest verb method <;>
        cases h2' : findTarget (children starSeg l₂) rest verb method <;>
        simp only [h2, h2', FoundEq] at e2 <;> try exact e2.elim
      · simp only [FoundEq]; exact e2
      · simp only [FoundEq]; exact e2
      · exact e3

end Vanguard

namespace Vanguard
open Vanguard.Spec

theorem addRoutes_keyInj : ∀ (rules : List (Bytes × Bytes)) (i : Nat) (acc routes : List Route),
    KeyInj acc → addRoutes i acc rules = .ok routes → KeyInj routes := by
  intro rules
  induction rules with
  | nil => intro i acc routes hk h; simp only [addRoutes, Except.ok.injEq] at h; subst h; exact hk
  | cons rule rest ih =>
    intro i acc routes hk h
    obtain ⟨method, tmplText⟩ := rule
    simp only [addRoutes] at h
    split at h
    · simp at h
    · rename_i t _
      split at h
      · simp at h
      · rename_i hany
        refine ih _ _ _ ?_ h
        simp only [List.any_eq_true, not_exists, not_and, Bool.and_eq_true, beq_iff_eq] at hany
        intro a ha b hb hkey
        simp only [List.mem_append, List.mem_singleton] at ha hb
        rcases ha with ha | ha <;> rcases hb with hb | hb
        · exact hk a ha b hb hkey
        · subst hb
          simp only [key, Prod.mk.injEq] at hkey
          exact absurd hkey.2.2 (hany a ha ⟨hkey.1, hkey.2.1⟩)
        · subst ha
          simp only [key, Prod.mk.injEq] at hkey
          exact absurd hkey.2.2.symm (hany b hb ⟨hkey.1.symm, hkey.2.1.symm⟩)
        · rw [ha, hb]

end Vanguard

namespace Vanguard
open Vanguard.Spec

/-- The bindings whose (remaining) template is literally the request path, moved to the node the
    walk reaches by following literal child edges only. -/
def litRoutes (path : List Bytes) (routes : List Route) : List Route :=
  routes.filterMap (fun r => if r.segs == path then some { r with segs := [] } else none)

theorem litRoutes_children (cur : Bytes) (rest : List Bytes) (routes : List Route) :
    litRoutes rest (children cur routes) = litRoutes (cur :: rest) routes := by
  unfold litRoutes children
  rw [List.filterMap_filterMap]
  congr 1
  funext r
  cases hs : r.segs with
  | nil => simp
  | cons s t =>
    by_cases h1 : s = cur
    · subst h1
      by_cases h2 : t = rest
      · subst h2; simp
      · simp [h2]
    · simp [h1]

theorem mem_litRoutes {path : List Bytes} {routes : List Route} {x : Route} :
    x ∈ litRoutes path routes ↔ ∃ r ∈ routes, r.segs = path ∧ x = { r with segs := [] } := by
  unfold litRoutes
  rw [List.mem_filterMap]
  constructor
  · rintro ⟨r, hr, h⟩
    split at h
    · rename_i he
      simp only [Option.some.injEq] at h
      exact ⟨r, hr, by simpa using he, h.symm⟩
    · simp at h
  · rintro ⟨r, hr, hs, hx⟩
    exact ⟨r, hr, by simp [hs, hx]⟩

theorem getTarget_lit_nil (routes : List Route) (verb method : Bytes) :
    getTarget (litRoutes [] routes) verb method = getTarget routes verb method := by
  have : (litRoutes [] routes).filter (fun r => r.segs.isEmpty && r.verb == verb)
      = routes.filter (fun r => r.segs.isEmpty && r.verb == verb) := by
    unfold litRoutes
    rw [List.filter_filterMap]
    induction routes with
    | nil => rfl
    | cons r rs ih =>
      rw [List.filterMap_cons, List.filter_cons, ih]
      cases hs : r.segs with
      | nil =>
        have e : ({ r with segs := [] } : Route) = r := by cases r; simp_all
        simp only [beq_self_eq_true, if_true, e, List.isEmpty_nil, Bool.true_and]
        split <;> simp_all
      | cons _ _ => simp
  unfold getTarget
  simp only [this]

end Vanguard
