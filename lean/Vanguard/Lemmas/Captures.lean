import Vanguard.Model.Router
import Vanguard.Spec.Routing
/-!
  Variable captures never slice out of range: the template parser only produces variables whose
  bounded range lies inside the template (`parser_inv`, by mutual induction over the three parser
  functions), a path that a template matches is at least as long as the template
  (`segMatch_length`), so `routeTargetVar.capture` on a table built by `routeTrie.insert` cannot
  panic (`routesOk_captures`).
-/
namespace Vanguard
open Vanguard Spec

/-- What the template parser keeps true of the variables it has closed: a bounded capture ends inside
    the segments parsed so far and does not start after its end. -/
def VarsInv (st : PState) : Prop :=
  ∀ v ∈ st.vars, ∀ e, v.stop = some e → v.start ≤ e ∧ e ≤ st.segs.length

theorem VarsInv.segs_grow {st : PState} (h : VarsInv st) (segs : List Bytes) (d : Bool) (seen : List Bytes)
    (hl : st.segs.length ≤ segs.length) : VarsInv { st with segs := segs, dstar := d, seen := seen } := by
  intro v hv e he
  have := h v hv e he
  exact ⟨this.1, Nat.le_trans this.2 hl⟩

theorem finishVar_inv (st : PState) (fp : Bytes) (start : Nat) (rest : Bytes) (st' : PState) (rest' : Bytes)
    (h : finishVar st fp start rest = some (st', rest')) (hinv : VarsInv st) (hs : start ≤ st.segs.length) :
    VarsInv st' ∧ st'.segs.length = st.segs.length := by
  unfold finishVar at h
  simp only [Option.some.injEq, Prod.mk.injEq] at h
  obtain ⟨h1, _⟩ := h
  subst h1
  refine ⟨?_, rfl⟩
  intro v hv e he
  simp only [List.mem_append, List.mem_singleton] at hv
  rcases hv with hv | hv
  · exact hinv v hv e he
  · subst hv
    simp only at he ⊢
    split at he
    · cases he
    · cases he; exact ⟨hs, Nat.le_refl _⟩

theorem parser_inv : ∀ (f : Nat),
    (∀ st inp st' rest, parseSegments f st inp = some (st', rest) → VarsInv st → VarsInv st' ∧ st.segs.length ≤ st'.segs.length) ∧
    (∀ st inp st' rest, parseSegment f st inp = some (st', rest) → VarsInv st → VarsInv st' ∧ st.segs.length ≤ st'.segs.length) ∧
    (∀ st inp st' rest, parseVariable f st inp = some (st', rest) → VarsInv st → VarsInv st' ∧ st.segs.length ≤ st'.segs.length) := by
  intro f
  induction f with
  | zero =>
    refine ⟨?_, ?_, ?_⟩ <;> intro st inp st' rest h <;> simp [parseSegments, parseSegment, parseVariable] at h
  | succ m ih =>
    obtain ⟨ihS, ihG, ihV⟩ := ih
    refine ⟨?_, ?_, ?_⟩
    · intro st inp st' rest h hinv
      unfold parseSegments at h
      cases hseg : parseSegment m st inp with
      | none => simp [hseg] at h
      | some x =>
        obtain ⟨s1, r1⟩ := x
        simp only [hseg] at h
        obtain ⟨hi1, hl1⟩ := ihG st inp s1 r1 hseg hinv
        split at h
        · split at h
          · cases h
          · obtain ⟨hi2, hl2⟩ := ihS _ _ _ _ h hi1
            exact ⟨hi2, Nat.le_trans hl1 hl2⟩
        · simp only [Option.some.injEq, Prod.mk.injEq] at h
          obtain ⟨h1, _⟩ := h
          subst h1
          exact ⟨hi1, hl1⟩
    · intro st inp st' rest h hinv
      cases inp with
      | nil => simp [parseSegment] at h
      | cons c rest0 =>
        unfold parseSegment at h
        split at h
        · split at h
          · simp only [Option.some.injEq, Prod.mk.injEq] at h
            obtain ⟨h1, _⟩ := h
            subst h1
            exact ⟨hinv.segs_grow _ _ _ (by simp), by simp⟩
          · simp only [Option.some.injEq, Prod.mk.injEq] at h
            obtain ⟨h1, _⟩ := h
            subst h1
            exact ⟨hinv.segs_grow _ _ _ (by simp), by simp⟩
        · split at h
          · exact ihV st rest0 st' rest h hinv
          · split at h
            · cases hp : parseLiteral (c :: rest0) with
              | none => simp [hp] at h
              | some y =>
                simp only [hp, Option.map_some, Option.some.injEq, Prod.mk.injEq] at h
                obtain ⟨h1, _⟩ := h
                subst h1
                exact ⟨hinv.segs_grow _ _ _ (by simp), by simp⟩
            · cases h
    · intro st inp st' rest h hinv
      unfold parseVariable at h
      cases hfp : parseFieldPath (inp.length + 1) inp with
      | none => simp [hfp] at h
      | some y =>
        obtain ⟨fp, r0⟩ := y
        simp only [hfp] at h
        split at h
        · cases h
        · split at h
          · rename_i rest1
            obtain ⟨hi, hl⟩ := finishVar_inv _ fp _ rest1 st' rest h (hinv.segs_grow _ _ _ (by simp)) (by simp)
            exact ⟨hi, by rw [hl]; simp⟩
          · rename_i rest1
            split at h
            · rename_i st2 rest2 hps
              obtain ⟨hi2, hl2⟩ := ihS _ _ _ _ hps (hinv.segs_grow st.segs st.dstar (fp :: st.seen) (Nat.le_refl _))
              obtain ⟨hi, hl⟩ := finishVar_inv st2 fp _ rest2 st' rest h hi2 hl2
              exact ⟨hi, by rw [hl]; exact hl2⟩
            · cases h
          · cases h

/-- A template whose bounded captures lie inside its segments. -/
def TmplOk (t : Template) : Prop :=
  ∀ v ∈ t.vars, ∀ e, v.stop = some e → v.start ≤ e ∧ e ≤ t.segs.length

/-- **Every template the parser accepts has its captures in range.** -/
theorem parseTemplate_ok (inp : Bytes) (t : Template) (h : parseTemplate inp = some t) : TmplOk t := by
  unfold parseTemplate at h
  split at h
  · rename_i rest
    have h0 : VarsInv ({} : PState) := by intro v hv; simp at hv
    generalize hp : parseSegments _ {} rest = ps at h
    cases ps with
    | none => simp at h
    | some x =>
      obtain ⟨st, r⟩ := x
      obtain ⟨hinv, _⟩ := (parser_inv _).1 _ _ _ _ hp h0
      split at h
      · cases h
      · rename_i st1 heq
        simp only [Option.some.injEq, Prod.mk.injEq] at heq
        obtain ⟨h1, _⟩ := heq
        subst h1
        simp only [Option.some.injEq] at h
        subst h
        exact hinv
      · rename_i st1 rest' heq
        simp only [Option.some.injEq, Prod.mk.injEq] at heq
        obtain ⟨h1, _⟩ := heq
        subst h1
        split at h
        · simp only [Option.some.injEq] at h
          subst h
          exact hinv
        · cases h
      · cases h
  · cases h

/-- A path the segments match is at least as long as the segments (`**` takes one element or more). -/
theorem segMatch_length : ∀ (segs path : List Bytes), segMatch segs path = true → segs.length ≤ path.length := by
  intro segs
  induction segs with
  | nil => intro path _; simp
  | cons t ts ih =>
    intro path h
    cases path with
    | nil => simp [segMatch] at h
    | cons p ps =>
      simp only [segMatch, Bool.or_eq_true, Bool.and_eq_true] at h
      rcases h with (h | h) | h
      · have := ih ps h.2; simp; omega
      · have := ih ps h.2; simp; omega
      · have : ts = [] := by simpa using h.2
        subst this; simp

theorem captureVar_no_panic (path : List Bytes) (v : PVar) (h : ∀ e, v.stop = some e → v.start ≤ e ∧ e ≤ path.length) :
    captureVar path v ≠ .panic := by
  unfold captureVar
  cases hs : v.stop with
  | none =>
    simp only
    split <;> simp
  | some e =>
    obtain ⟨h1, h2⟩ := h e hs
    simp only [h1, h2, and_self, if_true]
    split <;> simp

theorem captureAll_no_panic (path : List Bytes) : ∀ (vars : List PVar),
    (∀ v ∈ vars, ∀ e, v.stop = some e → v.start ≤ e ∧ e ≤ path.length) → captureAll path vars ≠ .panic := by
  intro vars
  induction vars with
  | nil => intro _; simp [captureAll]
  | cons v vs ih =>
    intro h
    have h1 := captureVar_no_panic path v (h v (by simp))
    have h2 := ih (fun x hx => h x (by simp [hx]))
    unfold captureAll
    cases hc : captureVar path v with
    | panic => exact absurd hc h1
    | err => simp
    | ok x =>
      simp only
      cases hr : captureAll path vs with
      | panic => exact absurd hr h2
      | err => simp
      | ok xs => simp

/-- Every binding of the table was parsed by the template parser and still carries its segments. -/
def RoutesOk (routes : List Route) : Prop := ∀ r ∈ routes, TmplOk r.tmpl ∧ r.segs = r.tmpl.segs

theorem addRoutes_ok : ∀ (rules : List (Bytes × Bytes)) (i : Nat) (acc routes : List Route),
    addRoutes i acc rules = .ok routes → RoutesOk acc → RoutesOk routes := by
  intro rules
  induction rules with
  | nil => intro i acc routes h hacc; simp only [addRoutes, Except.ok.injEq] at h; subst h; exact hacc
  | cons x xs ih =>
    intro i acc routes h hacc
    obtain ⟨method, tmplText⟩ := x
    unfold addRoutes at h
    cases hp : parseTemplate tmplText with
    | none => simp [hp] at h
    | some t =>
      simp only [hp] at h
      split at h
      · cases h
      · refine ih _ _ _ h ?_
        intro r hr
        simp only [List.mem_append, List.mem_singleton] at hr
        rcases hr with hr | hr
        · exact hacc r hr
        · subst hr; exact ⟨parseTemplate_ok tmplText t hp, rfl⟩

/-- **In a table built by `routeTrie.insert` no capture can slice out of range**, for any path a
    binding matches. -/
theorem routesOk_captures (routes : List Route) (h : RoutesOk routes) :
    ∀ r ∈ routes, ∀ path, segMatch r.segs path = true → captureAll path r.tmpl.vars ≠ .panic := by
  intro r hr path hm
  obtain ⟨hok, hsegs⟩ := h r hr
  have hl := segMatch_length _ _ hm
  rw [hsegs] at hl
  exact captureAll_no_panic path _ (fun v hv e he => ⟨(hok v hv e he).1, Nat.le_trans (hok v hv e he).2 hl⟩)

end Vanguard
