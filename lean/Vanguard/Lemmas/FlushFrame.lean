import Vanguard.Lemmas.Frame
import Vanguard.Lemmas.Outcome
set_option linter.unusedSimpArgs false
/-!
  # When the response head goes out

  `FL a b`: the step from `a` to `b` is a writer step (`HW`: operation, installed writer, `WriteHeader` flag
  untouched; an ended RPC stays ended) that either ends the RPC or leaves alone whether the response head
  has been sent.  Shown for every function of the re-framing and the re-encoding writer (loops included).
  Consequence (`Lemmas/UnaryHead.lean`): for a client protocol whose end must be in the head (unary Connect,
  REST) the head is never sent while the RPC is open.
-/
namespace Vanguard

def FL (a b : St) : Prop := HW a b ∧ (b.rw.endWritten = true ∨ b.rw.headersFlushed = a.rw.headersFlushed)

theorem FL.refl (a : St) : FL a a := ⟨HW.refl a, Or.inr rfl⟩
theorem FL.trans {a b c : St} (h1 : FL a b) (h2 : FL b c) : FL a c := by
  refine ⟨HW.trans h1.1 h2.1, ?_⟩
  rcases h2.2 with h | h
  · exact Or.inl h
  · rcases h1.2 with h' | h'
    · exact Or.inl (h2.1.ended h')
    · exact Or.inr (h.trans h')

macro "fl_leaf" : tactic => `(tactic| first
  | exact FL.refl _
  | exact ⟨by hw_leaf, Or.inr rfl⟩
  | exact ⟨by hw_leaf, by simp_all [writeEnd]⟩)

theorem reportEnd_fl (w : World) (st : St) (e : RespEnd) : FL st (reportEnd w st e).1 :=
  ⟨reportEnd_hw w st e, Or.inl (reportEnd_ends w st e)⟩

theorem reportError_fl (w : World) (st : St) (e : Err) : FL st (reportError w st e).1 :=
  ⟨reportError_hw w st e, Or.inl (reportError_ends w st e)⟩

theorem writeDown_fl (w : World) (st : St) (b : Bytes) : FL st (writeDown w st b).1 := by
  unfold writeDown
  split
  · split
    · exact reportError_fl w st _
    · fl_leaf
  · fl_leaf

theorem flushMessage_fl (st : St) : FL st (flushMessage st) := by
  unfold flushMessage
  split <;> fl_leaf

theorem handleEndMessage_fl (w : World) (tb : Tables) (st : St) (c : Bool) (d : Bytes) (r : Bool) :
    FL st (handleEndMessage w tb st c d r).1 := by
  unfold handleEndMessage
  simp only
  split
  · split
    · exact reportError_fl w st _
    · fl_leaf
  · split
    · exact reportError_fl w st _
    · exact reportEnd_fl w st _

theorem ewInit_fl (w : World) (st : St) (e : EW) : FL st (ewInit w st e).1 := by
  unfold ewInit
  split
  · fl_leaf
  · simp only
    split
    · fl_leaf
    · split
      · fl_leaf
      · split
        · fl_leaf
        · split
          · exact reportError_fl w st _
          · have h := writeDown_fl w st
            generalize hr : writeDown w st _ = r
            have h' : FL st r.1 := by rw [← hr]; exact h _
            obtain ⟨s1, f, p⟩ := r
            simp only at h' ⊢
            split <;> exact h'

theorem ewWritePiece_fl (w : World) (st : St) (e : EW) (piece : Bytes) : FL st (ewWritePiece w st e piece).1 := by
  unfold ewWritePiece
  split
  · fl_leaf
  · split
    · exact writeDown_fl w st _
    · fl_leaf
    · split
      · exact reportError_fl w st _
      · fl_leaf
    · fl_leaf

theorem ewEnvelopeWritten_fl (w : World) (st : St) (e : EW) : FL st (ewEnvelopeWritten w st e).1 := by
  unfold ewEnvelopeWritten
  simp only
  split
  · exact reportError_fl w st _
  · split
    · split
      · exact reportError_fl w st _
      · split
        · split
          · exact reportError_fl w st _
          · fl_leaf
        · split
          · have h := writeDown_fl w st
            generalize hr : writeDown w st _ = r
            have h' : FL st r.1 := by rw [← hr]; exact h _
            obtain ⟨s1, f, p⟩ := r
            simp only at h' ⊢
            split <;> exact h'
          · simp only [Bool.false_eq_true, if_false]; fl_leaf
    · fl_leaf

theorem ewLoop_fl (w : World) (tb : Tables) : ∀ (n : Nat) (st : St) (e : EW) (data : Bytes),
    FL st (ewLoop w tb n st e data).1 := by
  intro n
  induction n with
  | zero => intro st e data; simp only [ewLoop]; fl_leaf
  | succ m ih =>
    intro st e data
    unfold ewLoop
    split
    · fl_leaf
    · split
      · exact ewWritePiece_fl w st e data
      · simp only
        have h1 := ewWritePiece_fl w st e (data.take e.remaining.toNat)
        generalize ewWritePiece w st e (data.take e.remaining.toNat) = r1 at h1 ⊢
        obtain ⟨s1, e1, f1, p1⟩ := r1
        simp only at h1 ⊢
        split
        · exact h1
        · split
          · have h2 := fun ee => ewEnvelopeWritten_fl w s1 ee
            generalize hr2 : ewEnvelopeWritten w s1 _ = r2
            have h2' : FL s1 r2.1 := by rw [← hr2]; exact h2 _
            obtain ⟨s2, e2, f2, p2⟩ := r2
            simp only at h2' ⊢
            split
            · exact FL.trans h1 h2'
            · exact FL.trans h1 (FL.trans h2' (ih _ _ _))
          · split
            · split
              · have h3 := fun c d => handleEndMessage_fl w tb s1 c d true
                generalize hr3 : handleEndMessage w tb s1 _ _ true = r3
                have h3' : FL s1 r3.1 := by rw [← hr3]; exact h3 _ _
                obtain ⟨s2, er, p2⟩ := r3
                simp only at h3' ⊢
                split
                · exact FL.trans h1 h3'
                · split
                  · exact FL.trans h1 h3'
                  · exact FL.trans h1 (FL.trans h3' (ih _ _ _))
              · exact h1
            · exact FL.trans h1 (FL.trans (flushMessage_fl s1) (ih _ _ _))

theorem ewWrite_fl (w : World) (tb : Tables) (st : St) (e : EW) (data : Bytes) : FL st (ewWrite w tb st e data).1 := by
  unfold ewWrite
  have h1 := ewInit_fl w st e
  generalize ewInit w st e = r1 at h1 ⊢
  obtain ⟨s1, e1, p1⟩ := r1
  simp only at h1 ⊢
  split
  · exact h1
  · split
    · exact h1
    · split
      · exact FL.trans h1 (ewWritePiece_fl w s1 e1 data)
      · exact FL.trans h1 (ewLoop_fl w tb _ s1 e1 data)

theorem twFlushMessage_fl (w : World) (tb : Tables) (st : St) (t : TW) : FL st (twFlushMessage w tb st t).1 := by
  unfold twFlushMessage
  simp only
  split
  · have h3 := fun c d => handleEndMessage_fl w tb st c d false
    generalize hr3 : handleEndMessage w tb st _ _ false = r3
    have h3' : FL st r3.1 := by rw [← hr3]; exact h3 _ _
    obtain ⟨s2, er, p2⟩ := r3
    simp only at h3' ⊢
    split <;> exact h3'
  · split
    · fl_leaf
    · rename_i out _
      split
      · rename_i ce _
        split
        · simp only [Option.isSome_some, Bool.true_or, if_true]; fl_leaf
        · have h1 := writeDown_fl w st
          generalize hr1 : writeDown w st _ = r1
          have h1' : FL st r1.1 := by rw [← hr1]; exact h1 _
          obtain ⟨s1, f1, p1⟩ := r1
          simp only at h1' ⊢
          cases f1 <;> simp only [Bool.false_eq_true, if_false, if_true, Option.isSome_none, Option.isSome_some, Bool.true_or, Bool.false_or]
          rotate_left
          · exact h1'
          split
          · exact h1'
          · have h2 := writeDown_fl w s1 out
            generalize writeDown w s1 out = r2 at h2 ⊢
            obtain ⟨s2, f2, p2⟩ := r2
            simp only at h2 ⊢
            split
            · exact FL.trans h1' h2
            · exact FL.trans h1' (FL.trans h2 (flushMessage_fl s2))
      · simp only [Option.isSome_none, Bool.false_or, Bool.false_eq_true, if_false]
        have h2 := writeDown_fl w st out
        generalize writeDown w st out = r2 at h2 ⊢
        obtain ⟨s2, f2, p2⟩ := r2
        simp only at h2 ⊢
        split
        · exact h2
        · exact FL.trans h2 (flushMessage_fl s2)

theorem twLoop_fl (w : World) (tb : Tables) : ∀ (n : Nat) (st : St) (t : TW) (data : Bytes),
    FL st (twLoop w tb n st t data).1 := by
  intro n
  induction n with
  | zero => intro st t data; simp only [twLoop]; fl_leaf
  | succ m ih =>
    intro st t data
    unfold twLoop
    split
    · fl_leaf
    · simp only
      split
      · fl_leaf
      · split
        · fl_leaf
        · split
          · split
            · split
              · exact reportError_fl w st _
              · split
                · exact reportError_fl w st _
                · exact ih _ _ _
            · fl_leaf
          · have h1 := fun tt => twFlushMessage_fl w tb st tt
            generalize hr1 : twFlushMessage w tb st _ = r1
            have h1' : FL st r1.1 := by rw [← hr1]; exact h1 _
            obtain ⟨s1, t1, e1, p1⟩ := r1
            simp only at h1' ⊢
            split
            · exact h1'
            · split
              · exact FL.trans h1' (reportError_fl w s1 _)
              · split
                · exact h1'
                · exact FL.trans h1' (ih _ _ _)

theorem twWrite_fl (w : World) (tb : Tables) (st : St) (t : TW) (data : Bytes) : FL st (twWrite w tb st t data).1 := by
  unfold twWrite
  split
  · fl_leaf
  · simp only
    generalize (if t.buffer.isNone = true then twReset st t else t) = t1
    split
    · split
      · exact reportError_fl w st _
      · fl_leaf
    · exact twLoop_fl w tb _ st _ data


end Vanguard
