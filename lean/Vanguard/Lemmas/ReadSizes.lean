import Vanguard.Model.Handle
/-!
  The bytes a backend handler reads do not depend on its read-buffer sizes (C08), for the
  re-encoding reader (`transformingReader`).

  `Stream st cf pd o e`: from request state `st`, with `pd` the bytes already prepared but not yet
  handed out and `cf` = "the first message was consumed", the handler will be given exactly the bytes
  `o` and then the error `e` (io.EOF included).  The relation is defined without any reference to read
  sizes; `trRead_step` shows that every `Read(n)`, `n ≥ 1`, hands out a prefix of that stream and leaves
  a state whose stream is the rest; `Stream.det` shows the stream is unique.
-/
namespace Vanguard
open Vanguard

/-- Bytes prepared (rest of the envelope, rest of the converted message) and not yet handed out. -/
def TR.prepared (r : TR) : Bytes :=
  (if r.envRemain > 0 then r.env.drop (5 - r.envRemain) else []) ++ r.buffer.getD []

structure TR.WF (r : TR) : Prop where
  le : r.envRemain ≤ 5
  len : r.envRemain > 0 → r.env.length = 5

inductive Stream (w : World) (pl : HandlePlan) : St → Bool → Bytes → Bytes → Err → Prop
  /-- prepared bytes are handed out first -/
  | pend (st : St) (cf : Bool) (pd o : Bytes) (e : Err) : pd ≠ [] → Stream w pl st cf [] o e → Stream w pl st cf pd (pd ++ o) e
  /-- nothing prepared: the next message is read and prepared -/
  | fetch (st : St) (cf : Bool) (o : Bytes) (e : Err) (data : Bytes) (wc : Bool) (out env : Bytes) :
      (readRequestMessage w st true).2.2 = false →
      trNext pl (readRequestMessage w st true).2.1 cf (readRequestMessage w st true).1 = .ok (data, wc) →
      trPrepare w pl (readRequestMessage w st true).2.1 data wc = .ok (out, env) →
      Stream w pl (readRequestMessage w st true).2.1 true (env ++ out) o e → Stream w pl st cf [] o e
  /-- ... or the body has ended / is cut / the message is refused -/
  | stop (st : St) (cf : Bool) (e : Err) :
      (readRequestMessage w st true).2.2 = false →
      trNext pl (readRequestMessage w st true).2.1 cf (readRequestMessage w st true).1 = .error e →
      Stream w pl st cf [] [] e
  | refuse (st : St) (cf : Bool) (e : Err) (data : Bytes) (wc : Bool) :
      (readRequestMessage w st true).2.2 = false →
      trNext pl (readRequestMessage w st true).2.1 cf (readRequestMessage w st true).1 = .ok (data, wc) →
      trPrepare w pl (readRequestMessage w st true).2.1 data wc = .error e →
      Stream w pl st cf [] [] e

/-- The stream is unique. -/
theorem Stream.det {w : World} {pl : HandlePlan} {st : St} {cf : Bool} {pd o e} (h1 : Stream w pl st cf pd o e) :
    ∀ {o' e'}, Stream w pl st cf pd o' e' → o = o' ∧ e = e' := by
  induction h1 with
  | pend st cf pd o e hne _ ih =>
    intro o' e' h2
    cases h2 with
    | pend _ _ _ o2 _ _ h2' => obtain ⟨ho, he⟩ := ih h2'; exact ⟨by rw [ho], he⟩
    | fetch => exact absurd rfl hne
    | stop => exact absurd rfl hne
    | refuse => exact absurd rfl hne
  | fetch st cf o e data wc out env hp hn hpr _ ih =>
    intro o' e' h2
    cases h2 with
    | pend _ _ _ _ _ hne _ => exact absurd rfl hne
    | fetch _ _ _ _ data2 wc2 out2 env2 _ hn2 hpr2 h2' =>
      rw [hn] at hn2
      simp only [Except.ok.injEq, Prod.mk.injEq] at hn2
      obtain ⟨hd, hw⟩ := hn2
      subst hd; subst hw
      rw [hpr] at hpr2
      simp only [Except.ok.injEq, Prod.mk.injEq] at hpr2
      obtain ⟨ho, he⟩ := hpr2
      subst ho; subst he
      exact ih h2'
    | stop _ _ _ _ hn2 => rw [hn] at hn2; cases hn2
    | refuse _ _ _ data2 wc2 _ hn2 hpr2 =>
      rw [hn] at hn2
      simp only [Except.ok.injEq, Prod.mk.injEq] at hn2
      obtain ⟨hd, hw⟩ := hn2
      subst hd; subst hw
      rw [hpr] at hpr2; cases hpr2
  | stop st cf e hp hn =>
    intro o' e' h2
    cases h2 with
    | pend _ _ _ _ _ hne _ => exact absurd rfl hne
    | fetch _ _ _ _ _ _ _ _ _ hn2 _ _ => rw [hn] at hn2; cases hn2
    | stop _ _ _ _ hn2 => rw [hn] at hn2; simp only [Except.error.injEq] at hn2; exact ⟨rfl, hn2⟩
    | refuse _ _ _ _ _ _ hn2 _ => rw [hn] at hn2; cases hn2
  | refuse st cf e data wc hp hn hpr =>
    intro o' e' h2
    cases h2 with
    | pend _ _ _ _ _ hne _ => exact absurd rfl hne
    | fetch _ _ _ _ data2 wc2 _ _ _ hn2 hpr2 _ =>
      rw [hn] at hn2
      simp only [Except.ok.injEq, Prod.mk.injEq] at hn2
      obtain ⟨hd, hw⟩ := hn2
      subst hd; subst hw
      rw [hpr] at hpr2; cases hpr2
    | stop _ _ _ _ hn2 => rw [hn] at hn2; cases hn2
    | refuse _ _ _ data2 wc2 _ hn2 hpr2 =>
      rw [hn] at hn2
      simp only [Except.ok.injEq, Prod.mk.injEq] at hn2
      obtain ⟨hd, hw⟩ := hn2
      subst hd; subst hw
      rw [hpr] at hpr2
      simp only [Except.error.injEq] at hpr2
      exact ⟨rfl, hpr2⟩

/-- Handing out a non-empty prefix of what is prepared. -/
theorem Stream.prepend {w : World} {pl : HandlePlan} {st : St} {cf : Bool} {pd o : Bytes} {e : Err} (b : Bytes)
    (hb : b ≠ []) (h : Stream w pl st cf pd o e) : Stream w pl st cf (b ++ pd) (b ++ o) e := by
  cases h with
  | pend _ _ _ o2 _ hne h' =>
    have : b ++ (pd ++ o2) = (b ++ pd) ++ o2 := by simp
    rw [this]
    exact Stream.pend st cf (b ++ pd) o2 e (by simp [hb]) h'
  | fetch _ _ _ _ data wc out env hp hn hpr h' =>
    simp only [List.append_nil]
    exact Stream.pend st cf b o e hb (Stream.fetch st cf o e data wc out env hp hn hpr h')
  | stop _ _ _ hp hn =>
    simp only [List.append_nil]
    have := Stream.pend st cf b [] e hb (Stream.stop st cf e hp hn)
    simpa using this
  | refuse _ _ _ data wc hp hn hpr =>
    simp only [List.append_nil]
    have := Stream.pend st cf b [] e hb (Stream.refuse st cf e data wc hp hn hpr)
    simpa using this

theorem requestEnvelope_len (o : Op) (out : Bytes) (wc : Bool) (env : Bytes) (h : requestEnvelope o out wc = .ok env) :
    env = [] ∨ env.length = 5 := by
  unfold requestEnvelope at h
  split at h
  · cases h
  · split at h
    · simp only [Except.ok.injEq] at h; exact Or.inl h.symm
    · simp only [Except.ok.injEq] at h; right; rw [← h]; simp [Enveloper.encode, be32]

theorem trPrepare_env_len (w : World) (pl : HandlePlan) (st : St) (data : Bytes) (wc : Bool) (out env : Bytes)
    (h : trPrepare w pl st data wc = .ok (out, env)) : env = [] ∨ env.length = 5 := by
  unfold trPrepare at h
  cases h1 : prepareRequestMessage w st.op pl data wc with
  | error e => simp [h1, Except.bind] at h
  | ok o1 =>
    simp only [h1, Except.bind] at h
    cases h2 : requestEnvelope st.op o1 wc with
    | error e => simp [h2, Except.map] at h
    | ok ev =>
      simp only [h2, Except.map, Except.ok.injEq, Prod.mk.injEq] at h
      rw [← h.2]; exact requestEnvelope_len _ _ _ _ h2

/-- The outcome of one `Read(n)` as far as the stream is concerned. -/
def StepOk (w : World) (pl : HandlePlan) (st : St) (r : TR) (res : Bytes × Option Err × St × TR × Bool) : Prop :=
  res.2.2.2.2 = false →
    (res.2.1 = none → res.2.2.2.1.WF ∧ res.2.2.2.1.err = none ∧
      ∀ o e, Stream w pl res.2.2.1 res.2.2.2.1.consumedFirst res.2.2.2.1.prepared o e →
             Stream w pl st r.consumedFirst r.prepared (res.1 ++ o) e) ∧
    (∀ e, res.2.1 = some e → res.1 = [] ∧ Stream w pl st r.consumedFirst r.prepared [] e)

theorem drop_len5 (env : Bytes) (k : Nat) (h5 : env.length = 5) (hk : k ≤ 5) : (env.drop (5 - k)).length = k := by
  rw [List.length_drop, h5]; omega

theorem prepared_fresh (r : TR) (out env : Bytes) (hb : r.buffer = some out) (he : r.env = env)
    (hr : r.envRemain = env.length) (hl : env = [] ∨ env.length = 5) : r.prepared = env ++ out ∧ r.WF := by
  unfold TR.prepared
  rcases hl with h0 | h5
  · subst h0
    simp only [List.length_nil] at hr
    refine ⟨by simp [hr, hb], ⟨by omega, fun h => by omega⟩⟩
  · rw [h5] at hr
    refine ⟨by simp [hr, hb, he], ⟨by omega, fun _ => by rw [he]; exact h5⟩⟩

/-- The "nothing prepared: read and prepare the next message" part of `Read`, given that the
    recursive `Read` on the freshly prepared message is a stream step. -/
theorem fetch_stepOk (w : World) (pl : HandlePlan) (F : Nat) (st : St) (r : TR) (n : Nat)
    (hprep : r.prepared = [])
    (ih : ∀ (st : St) (r : TR), r.WF → r.err = none → StepOk w pl st r (trRead w pl F st r n))
    (ra : TR) (rb rc : Err → TR) (rnew : Bytes → Bytes → TR)
    (hnew : ∀ out env, (rnew out env).consumedFirst = true ∧ (rnew out env).buffer = some out ∧
      (rnew out env).env = env ∧ (rnew out env).envRemain = env.length ∧ (rnew out env).err = none) :
    StepOk w pl st r
      (if (readRequestMessage w st true).2.2 = true then ([], some Err.other, (readRequestMessage w st true).2.1, ra, true)
       else match trNext pl (readRequestMessage w st true).2.1 r.consumedFirst (readRequestMessage w st true).1 with
        | .error e => ([], some e, (readRequestMessage w st true).2.1, rb e, false)
        | .ok (data, wc) =>
          match trPrepare w pl (readRequestMessage w st true).2.1 data wc with
          | .error e => ([], some e, (reportError w (readRequestMessage w st true).2.1 e).1, rc e,
                         (reportError w (readRequestMessage w st true).2.1 e).2)
          | .ok (out, env) => trRead w pl F (readRequestMessage w st true).2.1 (rnew out env) n) := by
  by_cases hp : (readRequestMessage w st true).2.2 = true
  · simp only [hp, if_true]; intro h; simp at h
  · have hpf : (readRequestMessage w st true).2.2 = false := by simpa using hp
    rw [if_neg hp]
    cases hn : trNext pl (readRequestMessage w st true).2.1 r.consumedFirst (readRequestMessage w st true).1 with
    | error e =>
      simp only
      intro _
      refine ⟨fun h => by simp at h, fun e' he' => ?_⟩
      simp only [Option.some.injEq] at he'
      subst he'
      rw [hprep]
      exact ⟨rfl, Stream.stop st r.consumedFirst e hpf hn⟩
    | ok dw =>
      obtain ⟨data, wc⟩ := dw
      simp only
      cases hpr : trPrepare w pl (readRequestMessage w st true).2.1 data wc with
      | error e =>
        simp only
        intro _
        refine ⟨fun h => by simp at h, fun e' he' => ?_⟩
        simp only [Option.some.injEq] at he'
        subst he'
        rw [hprep]
        exact ⟨rfl, Stream.refuse st r.consumedFirst e data wc hpf hn hpr⟩
      | ok oe =>
        obtain ⟨out, env⟩ := oe
        simp only
        obtain ⟨hcf, hbuf, henv, hrem, herr⟩ := hnew out env
        obtain ⟨hprepNew, hwfNew⟩ := prepared_fresh (rnew out env) out env hbuf henv hrem (trPrepare_env_len w pl _ data wc out env hpr)
        have := ih (readRequestMessage w st true).2.1 (rnew out env) hwfNew herr
        intro hpp
        obtain ⟨h1, h2⟩ := this hpp
        rw [hprep]
        refine ⟨fun hnone => ?_, fun e he => ?_⟩
        · obtain ⟨hw', he', hs'⟩ := h1 hnone
          refine ⟨hw', he', fun o e hs => ?_⟩
          have := hs' o e hs
          rw [hcf, hprepNew] at this
          exact Stream.fetch st r.consumedFirst _ e data wc out env hpf hn hpr this
        · obtain ⟨hb, hs⟩ := h2 e he
          rw [hcf, hprepNew] at hs
          exact ⟨hb, Stream.fetch st r.consumedFirst _ e data wc out env hpf hn hpr hs⟩

/-- **Every `Read(n)`, `n ≥ 1`, hands out a prefix of the stream and leaves the rest.** -/
theorem trRead_step (w : World) (pl : HandlePlan) : ∀ (F : Nat) (st : St) (r : TR) (n : Nat),
    1 ≤ n → r.WF → r.err = none → StepOk w pl st r (trRead w pl F st r n) := by
  intro F
  induction F with
  | zero => intro st r n _ _ _ hp; simp [trRead] at hp
  | succ F ih =>
    intro st r n hn hwf herr
    unfold trRead
    simp only [herr]
    by_cases h1 : n < r.envRemain
    · -- part of the envelope
      simp only [h1, if_true]
      intro _
      have hpos : r.envRemain > 0 := by omega
      have h5 := hwf.len hpos
      have hl := drop_len5 r.env r.envRemain h5 hwf.le
      refine ⟨fun _ => ⟨⟨by simp only; have := hwf.le; omega, fun _ => h5⟩, rfl, fun o e hs => ?_⟩, fun e he => by simp at he⟩
      have hpos' : r.envRemain - n > 0 := by omega
      have hprep : r.prepared = (r.env.drop (5 - r.envRemain)).take n ++
          ({ r with envRemain := r.envRemain - n } : TR).prepared := by
        unfold TR.prepared
        simp only [hpos, hpos', if_true]
        have : 5 - (r.envRemain - n) = (5 - r.envRemain) + n := by have := hwf.le; omega
        rw [this, ← List.drop_drop, ← List.append_assoc, List.take_append_drop]
      rw [hprep]
      refine Stream.prepend _ ?_ hs
      intro hnil
      have := congrArg List.length hnil
      rw [List.length_take, hl] at this
      simp at this; omega
    · simp only [h1, if_false]
      -- the rest of the envelope and as much of the message as fits
      generalize henv : (if r.envRemain > 0 then List.drop (5 - r.envRemain) r.env else []) = envPart
      have hprep0 : r.prepared = envPart ++ r.buffer.getD [] := by unfold TR.prepared; rw [henv]
      have henvlen : envPart.length = r.envRemain := by
        rw [← henv]
        by_cases hp : r.envRemain > 0
        · simp only [hp, if_true]; exact drop_len5 r.env r.envRemain (hwf.len hp) hwf.le
        · simp only [hp, if_false]; simp; omega
      cases hb : r.buffer with
      | none =>
        simp only [hb]
        by_cases hout : envPart.length + ([] : Bytes).length > 0
        · simp only [hout, if_true]
          intro _
          refine ⟨fun _ => ⟨⟨by simp, fun h => by simp at h⟩, rfl, fun o e hs => ?_⟩, fun e he => by simp at he⟩
          simp only [List.append_nil] at hs ⊢
          rw [hprep0, hb]; simp only [Option.getD_none, List.append_nil]
          have := Stream.prepend envPart (by intro h; rw [h] at hout; simp at hout) hs
          simpa [TR.prepared] using this
        · simp only [hout, if_false]
          have hpe : r.prepared = [] := by
            rw [hprep0, hb]; simp only [Option.getD_none, List.append_nil]
            simp only [List.length_nil, Nat.add_zero, Nat.not_lt, Nat.le_zero] at hout
            exact List.length_eq_zero_iff.mp hout
          exact fetch_stepOk w pl F st r n hpe (fun st r hw he => ih st r n hn hw he) _ _ _
            (fun out env => { consumedFirst := true, buffer := some out, env := env, envRemain := env.length, pending := r.pending })
            (fun out env => ⟨rfl, rfl, rfl, rfl, rfl⟩)
      | some buf =>
        simp only [hb]
        by_cases hfit : n > envPart.length
        · simp only [hfit, if_true]
          by_cases hout : envPart.length + (buf.take (n - envPart.length)).length > 0
          · simp only [hout, if_true]
            intro _
            refine ⟨fun _ => ⟨⟨by simp, fun h => by simp at h⟩, rfl, fun o e hs => ?_⟩, fun e he => by simp at he⟩
            have hne : envPart ++ buf.take (n - envPart.length) ≠ [] := by
              intro h; have := congrArg List.length h; rw [List.length_append, List.length_nil] at this; omega
            have := Stream.prepend (envPart ++ buf.take (n - envPart.length)) hne hs
            rw [hprep0, hb]
            simpa [TR.prepared, List.append_assoc] using this
          · simp only [hout, if_false]
            have hpe : r.prepared = [] := by
              rw [hprep0, hb]
              simp only [Nat.not_lt, Nat.le_zero, Nat.add_eq_zero_iff, List.length_eq_zero_iff] at hout
              obtain ⟨he0, ht0⟩ := hout
              have hb0 : buf = [] := by
                cases buf with
                | nil => rfl
                | cons x xs =>
                  rw [he0] at ht0 hfit
                  simp only [List.length_nil, Nat.sub_zero] at ht0 hfit
                  cases n with
                  | zero => omega
                  | succ k => simp at ht0
              simp [he0, hb0]
            exact fetch_stepOk w pl F st r n hpe (fun st r hw he => ih st r n hn hw he) _ _ _
              (fun out env => { consumedFirst := true, buffer := some out, env := env, envRemain := env.length, pending := r.pending })
              (fun out env => ⟨rfl, rfl, rfl, rfl, rfl⟩)
        · simp only [hfit, if_false]
          -- the buffer is not touched: only (the rest of) the envelope fits
          have hpos : envPart.length + ([] : Bytes).length > 0 := by
            simp only [List.length_nil, Nat.add_zero]
            rw [henvlen]; omega
          simp only [hpos, if_true]
          intro _
          refine ⟨fun _ => ⟨⟨by simp, fun h => by simp at h⟩, rfl, fun o e hs => ?_⟩, fun e he => by simp at he⟩
          have hne : envPart ≠ [] := by intro h; rw [h] at hpos; simp at hpos
          have := Stream.prepend envPart hne hs
          rw [hprep0, hb]
          simpa [TR.prepared] using this

/-- A backend handler reads the request body with buffer sizes `ns` (each at least 1, fuel `F` per
    call as `Flight.read` provides it) until a `Read` reports an error (`io.EOF` included): it has
    then been given the bytes `o`, and the error is `e`. -/
inductive Reads (w : World) (pl : HandlePlan) : St → TR → List Nat → Bytes → Err → Prop
  | last (st : St) (r : TR) (n : Nat) (ns : List Nat) (F : Nat) (b : Bytes) (e : Err) (st' : St) (r' : TR) :
      1 ≤ n → trRead w pl F st r n = (b, some e, st', r', false) → Reads w pl st r (n :: ns) b e
  | more (st : St) (r : TR) (n : Nat) (ns : List Nat) (F : Nat) (b : Bytes) (st' : St) (r' : TR) (o : Bytes) (e : Err) :
      1 ≤ n → trRead w pl F st r n = (b, none, st', r', false) → Reads w pl st' r' ns o e →
      Reads w pl st r (n :: ns) (b ++ o) e

/-- Whatever the read sizes, the handler is given the stream. -/
theorem Reads.stream {w : World} {pl : HandlePlan} {st : St} {r : TR} {ns : List Nat} {o : Bytes} {e : Err}
    (h : Reads w pl st r ns o e) : r.WF → r.err = none → Stream w pl st r.consumedFirst r.prepared o e := by
  induction h with
  | last st r n ns F b e st' r' hn hrd =>
    intro hwf herr
    have hs := trRead_step w pl F st r n hn hwf herr
    rw [hrd] at hs
    obtain ⟨_, h2⟩ := hs rfl
    obtain ⟨hb, hstream⟩ := h2 e rfl
    simp only at hb
    subst hb
    exact hstream
  | more st r n ns F b st' r' o e hn hrd _ ih =>
    intro hwf herr
    have hs := trRead_step w pl F st r n hn hwf herr
    rw [hrd] at hs
    obtain ⟨h1, _⟩ := hs rfl
    obtain ⟨hwf', herr', hpre⟩ := h1 rfl
    exact hpre o e (ih hwf' herr')

/-- **The request bytes a backend handler reads do not depend on its read-buffer sizes** (re-encoding
    path): two handlers that read the same request with any buffer sizes `≥ 1` (down to a single byte)
    until the body ends are given the same bytes and the same final error. -/
theorem read_sizes_do_not_matter {w : World} {pl : HandlePlan} {st : St} {r : TR} {ns1 ns2 : List Nat}
    {o1 o2 : Bytes} {e1 e2 : Err} (hwf : r.WF) (herr : r.err = none)
    (h1 : Reads w pl st r ns1 o1 e1) (h2 : Reads w pl st r ns2 o2 e2) : o1 = o2 ∧ e1 = e2 :=
  (h1.stream hwf herr).det (h2.stream hwf herr)

end Vanguard
