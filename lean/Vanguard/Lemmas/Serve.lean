import Vanguard.Model.Run
import Vanguard.Props.C04
/-! Helper lemmas about the response writer model. -/
namespace Vanguard
open Vanguard

theorem httpStatusFromRPC_isSome (c : Nat) : (httpStatusFromRPC c).isSome = true := by
  have := C04.status_from_rpc_spec c
  unfold Spec.statusFromRPCOk at this
  cases h : httpStatusFromRPC c with
  | none => simp [h] at this
  | some _ => rfl

theorem addResponseHeaders_status_isSome (c : ClientForm) (rm : RespMeta) (k : Sink) :
    (addResponseHeaders c rm k).1.isSome = true := by
  unfold addResponseHeaders
  cases c <;> simp only
  all_goals first
    | (split <;> rfl)
    | rfl
    | skip
  all_goals
    cases h : (rm.end.bind (·.err)) with
    | none => simp [h]
    | some e => simp [h, httpStatusFromRPC_isSome]

theorem flushHeaders_no_panic (w : World) (st : St) : (flushHeaders w st).2 = false := by
  unfold flushHeaders
  split
  · rfl
  · simp only
    split
    · rename_i h
      have hs := fun rm => addResponseHeaders_status_isSome st.op.cform rm st.sink
      rw [← Option.not_isSome_iff_eq_none, hs] at h
      simp at h
    · rfl

theorem reportEnd_tail_no_panic (w : World) (st1 : St) (e1 : RespEnd) :
    (if st1.rw.headersFlushed then (writeEnd st1 e1 false, false) else
      flushHeaders w { st1 with rw := { st1.rw with respMeta := some { (st1.rw.respMeta.getD {}) with «end» := some e1 } } }).2
      = false := by
  split
  · rfl
  · exact flushHeaders_no_panic w _

theorem reportEnd_no_panic (w : World) (st : St) (e : RespEnd) : (reportEnd w st e).2 = false := by
  unfold reportEnd
  by_cases h1 : st.rw.endWritten = true
  · simp [h1]
  · simp only [h1, Bool.false_eq_true, if_false]
    exact reportEnd_tail_no_panic w _ _

theorem reportError_no_panic (w : World) (st : St) (err : Err) : (reportError w st err).2 = false := by
  unfold reportError
  split
  · split
    · rename_i code _ h
      have := httpStatusFromRPC_isSome code
      rw [h] at this; simp at this
    · exact reportEnd_no_panic w st _
  · exact reportEnd_no_panic w st _


theorem flushHeaders_flushed (w : World) (st : St) (h : st.rw.headersFlushed = true) : flushHeaders w st = (st, false) := by
  unfold flushHeaders; simp [h]

theorem reportEnd_ended (w : World) (st : St) (e : RespEnd) (h : st.rw.endWritten = true) : reportEnd w st e = (st, false) := by
  unfold reportEnd; simp [h]

theorem writeEnd_endWritten (st : St) (e : RespEnd) (b : Bool) : (writeEnd st e b).rw.endWritten = true := by
  unfold writeEnd; rfl

end Vanguard
