import Vanguard.Model.PathEscape
import Vanguard.Lemmas.UInt8
namespace Vanguard

theorem pathEscape_single (s : Bytes) : pathEscape .single s = s.flatMap escapeByte := by
  fun_induction pathEscape .single s <;> simp_all

set_option maxRecDepth 100000 in
theorem escapeByte_cases (c : UInt8) :
    (isVariable c = true ∧ escapeByte c = [c] ∧ c ≠ 0x25) ∨
    (escapeByte c = [0x25, upperhex (c >>> 4), upperhex (c &&& 15)] ∧ ishex (upperhex (c >>> 4)) = true ∧
      ishex (upperhex (c &&& 15)) = true ∧ (unhex (upperhex (c >>> 4)) <<< 4 ||| unhex (upperhex (c &&& 15))) = c) := by
  revert c; apply forall_uint8; decide +kernel

theorem unescape_single_cons_plain (c : UInt8) (rest : Bytes) (h : c ≠ 0x25) :
    pathUnescape .single (c :: rest) = (pathUnescape .single rest).map (fun r => c :: r) := by
  have hc : (c == 0x25) = false := by simpa using h
  match rest with
  | [] => simp [pathUnescape, hc]
  | [a] => simp [pathUnescape, hc]
  | a :: b :: r => simp [pathUnescape, hc]

theorem unescape_single_cons_esc (a b : UInt8) (rest : Bytes) (ha : ishex a = true) (hb : ishex b = true) :
    pathUnescape .single (0x25 :: a :: b :: rest) = (pathUnescape .single rest).map (fun r => (unhex a <<< 4 ||| unhex b) :: r) := by
  simp [pathUnescape, ha, hb]

theorem unescape_escape_single (s : Bytes) : pathUnescape .single (pathEscape .single s) = some s := by
  rw [pathEscape_single]
  induction s with
  | nil => simp [pathUnescape]
  | cons c rest ih =>
    simp only [List.flatMap_cons]
    rcases escapeByte_cases c with ⟨_, he, hne⟩ | ⟨he, ha, hb, hv⟩
    · rw [he]; simp only [List.singleton_append]
      rw [unescape_single_cons_plain _ _ hne, ih]; rfl
    · rw [he]; simp only [List.cons_append, List.nil_append]
      rw [unescape_single_cons_esc _ _ _ ha hb, ih, hv]; rfl
end Vanguard
