import Vanguard.Model.PathEscape
import Vanguard.Lemmas.UInt8
namespace Vanguard

theorem pathEscape_single (s : Bytes) : pathEscape .single s = s.flatMap escapeByte := by
  fun_induction pathEscape .single s <;> simp_all

set_option maxRecDepth 100000 in
theorem escapeByte_cases (c : UInt8) :
    (isVariable c = true ∧ escapeByte c = [c] ∧ c ≠ 0x25) ∨
    (escapeByte c = [0x25, upperhex (c >>> 4), upperhex (c &&& 15)] ∧ ishex (upperhex (c >>> 4)) = true ∧
      ishex (upperhex (c &&& 15)) = true ∧ (unhex (upperhex (c >>> 4)) <<< 4 ||| unhex (upperhex (c &&& 15))) = c) := by
  revert c; apply forall_uint8; decide +kernel

theorem unescape_single_cons_plain (c : UInt8) (rest : Bytes) (h : c ≠ 0x25) :
    pathUnescape .single (c :: rest) = (pathUnescape .single rest).map (fun r => c :: r) := by
  have hc : (c == 0x25) = false := by simpa using h
  match rest with
  | [] => simp [pathUnescape, hc]
  | [a] => simp [pathUnescape, hc]
  | a :: b :: r => simp [pathUnescape, hc]

theorem unescape_single_cons_esc (a b : UInt8) (rest : Bytes) (ha : ishex a = true) (hb : ishex b = true) :
    pathUnescape .single (0x25 :: a :: b :: rest) = (pathUnescape .single rest).map (fun r => (unhex a <<< 4 ||| unhex b) :: r) := by
  simp [pathUnescape, ha, hb]

theorem unescape_escape_single (s : Bytes) : pathUnescape .single (pathEscape .single s) = some s := by
  rw [pathEscape_single]
  induction s with
  | nil => simp [pathUnescape]
  | cons c rest ih =>
    simp only [List.flatMap_cons]
    rcases escapeByte_cases c with ⟨_, he, hne⟩ | ⟨he, ha, hb, hv⟩
    · rw [he]; simp only [List.singleton_append]
      rw [unescape_single_cons_plain _ _ hne, ih]; rfl
    · rw [he]; simp only [List.cons_append, List.nil_append]
      rw [unescape_single_cons_esc _ _ _ ha hb, ih, hv]; rfl
/-! ### multi-segment mode -/


theorem unescape_multi_cons_plain (c : UInt8) (rest : Bytes) (h : c ≠ 0x25) :
    pathUnescape .multi (c :: rest) = (pathUnescape .multi rest).map (fun r => c :: r) := by
  have hc : (c == 0x25) = false := by simpa using h
  match rest with
  | [] => simp [pathUnescape, hc]
  | [a] => simp [pathUnescape, hc]
  | a :: b :: r => simp [pathUnescape, hc]

theorem unescape_multi_cons_esc (a b : UInt8) (rest : Bytes) (ha : ishex a = true) (hb : ishex b = true)
    (hs : isHexSlash 0x25 a b = false) :
    pathUnescape .multi (0x25 :: a :: b :: rest) = (pathUnescape .multi rest).map (fun r => (unhex a <<< 4 ||| unhex b) :: r) := by
  simp [pathUnescape, ha, hb, hs]

theorem unescape_multi_cons_slash (rest : Bytes) :
    pathUnescape .multi (0x25 :: 0x32 :: 0x46 :: rest) = (pathUnescape .multi rest).map (fun r => 0x25 :: 0x32 :: 0x46 :: r) := by
  have h1 : ishex 0x32 = true := by decide
  have h2 : ishex 0x46 = true := by decide
  have h3 : isHexSlash 0x25 0x32 0x46 = true := by decide
  simp [pathUnescape, h1, h2, h3]

set_option maxRecDepth 100000 in
theorem esc_not_slash (c : UInt8) (hc : c ≠ 0x2F) :
    isHexSlash 0x25 (upperhex (c >>> 4)) (upperhex (c &&& 15)) = false := by
  revert c; apply forall_uint8; decide +kernel

theorem unescape_multi_escapeByte (c : UInt8) (rest : Bytes) (hc : c ≠ 0x2F) :
    pathUnescape .multi (escapeByte c ++ rest) = (pathUnescape .multi rest).map (fun r => c :: r) := by
  rcases escapeByte_cases c with ⟨_, he, hne⟩ | ⟨he, ha, hb, hv⟩
  · rw [he]; simp only [List.singleton_append]
    exact unescape_multi_cons_plain _ _ hne
  · rw [he]; simp only [List.cons_append, List.nil_append]
    rw [unescape_multi_cons_esc _ _ _ ha hb (esc_not_slash c hc), hv]

/-- `pathUnescape ∘ pathEscape` in multi-segment mode, for a value without `/`. -/
theorem unescape_escape_multi (s : Bytes) (h : (0x2F : UInt8) ∉ s) :
    pathUnescape .multi (pathEscape .multi s) = some (canonSlash s) := by
  fun_induction pathEscape .multi s with
  | case1 => simp [pathUnescape, canonSlash]
  | case2 c =>
    have := unescape_multi_escapeByte c [] (by intro hc; apply h; simp [hc])
    simpa [pathUnescape, canonSlash] using this
  | case3 c a ih =>
    have hc : c ≠ 0x2F := by intro hc; apply h; simp [hc]
    rw [unescape_multi_escapeByte c _ hc, ih (by intro hm; apply h; simp at hm ⊢; simp [hm])]
    simp [canonSlash]
  | case4 c a b rest hcond ih =>
    simp at hcond
    have hr : (0x2F : UInt8) ∉ rest := by intro hm; apply h; simp [hm]
    have hcab := hcond
    unfold isHexSlash at hcab
    simp at hcab
    rw [unescape_multi_cons_slash, ih hr]
    simp [canonSlash, hcond]
  | case5 c a b rest hcond ih =>
    simp at hcond
    have hc : c ≠ 0x2F := by intro hc; apply h; simp [hc]
    have hr : (0x2F : UInt8) ∉ a :: b :: rest := by intro hm; apply h; simp at hm ⊢; simp [hm]
    rw [unescape_multi_escapeByte c _ hc, ih hr]
    simp [canonSlash, hcond]

end Vanguard
