import Vanguard.Lemmas.FlushFrame
import Vanguard.Lemmas.ReadReach
import Vanguard.Lemmas.EndRelay
set_option linter.unusedSimpArgs false
/-!
  # A client whose end must be in the head never gets the head before the end

  `UInv st`: when the client's protocol needs the end of the RPC in the response head (unary Connect,
  REST), the head has not been sent while the RPC is open.  Kept by every reader, every writer, every
  handler operation; holds when `ServeHTTP` hands the request to the handler.  Consequence: in every
  state a handler can reach, a client of the e2e model can still be told the end (`CanTell`), which
  removes the hypothesis from C04's relay theorems for unary Connect clients.
-/
namespace Vanguard

def UInv (st : St) : Prop :=
  st.op.cform.endMustBeInHeaders = true → st.rw.headersFlushed = true → st.rw.endWritten = true

/-- A step that keeps the operation and an ended RPC ended, and either ends the RPC or leaves the head alone. -/
structure US (a b : St) : Prop where
  op : b.op = a.op
  ended : a.rw.endWritten = true → b.rw.endWritten = true
  fl : b.rw.endWritten = true ∨ b.rw.headersFlushed = a.rw.headersFlushed

theorem US.refl (a : St) : US a a := ⟨rfl, id, Or.inr rfl⟩
theorem US.trans {a b c : St} (h1 : US a b) (h2 : US b c) : US a c := by
  refine ⟨h2.op.trans h1.op, fun h => h2.ended (h1.ended h), ?_⟩
  rcases h2.fl with h | h
  · exact Or.inl h
  · rcases h1.fl with h' | h'
    · exact Or.inl (h2.ended h')
    · exact Or.inr (h.trans h')
theorem US.of_fl {a b : St} (h : FL a b) : US a b := ⟨h.1.op, h.1.ended, h.2⟩
/-- Bookkeeping updates of the response writer that touch neither flag. -/
theorem US.rwUpdate (st : St) (r : RW) (he : r.endWritten = st.rw.endWritten) (hf : r.headersFlushed = st.rw.headersFlushed) :
    US st { st with rw := r } := ⟨rfl, fun h => by simp only; rw [he]; exact h, Or.inr hf⟩

theorem UInv.step {a b : St} (h : US a b) (ha : UInv a) : UInv b := by
  intro hm hf
  rcases h.fl with he | hfl
  · exact he
  · rw [h.op] at hm; rw [hfl] at hf; exact h.ended (ha hm hf)

theorem UInv.of_ended {st : St} (h : st.rw.endWritten = true) : UInv st := fun _ _ => h

theorem setHdr_us (st : St) (h : Hdr) : US st (st.setHdr h) := by
  unfold St.setHdr; split <;> exact ⟨rfl, id, Or.inr rfl⟩

theorem reach_us {w : World} {a b : St} (r : RdReach w a b) : US a b := by
  induction r with
  | refl => exact US.refl _
  | src _ s ih => exact US.trans ih ⟨rfl, id, Or.inr rfl⟩
  | err _ e ih => exact US.trans ih (US.of_fl (reportError_fl w _ e))

/-! ### `WriteHeader` -/

theorem US.ite {a x y : St} (c : Prop) [Decidable c] (hx : US a x) (hy : US a y) : US a (if c then x else y) := by
  split <;> assumption

theorem rwPrepareMeta_us (tb : Tables) (st : St) (status : Nat) (cl : Int) (clText : Bytes) :
    US st (rwPrepareMeta tb st status cl clText).1 := by
  unfold rwPrepareMeta
  refine US.trans ?_ (US.rwUpdate _ _ rfl rfl)
  refine US.trans ?_ (setHdr_us _ _)
  refine US.ite _ ?_ (US.trans ?_ (setHdr_us _ _)) <;>
  · refine US.trans ?_ (setHdr_us _ _)
    refine US.trans ?_ (US.rwUpdate _ _ rfl rfl)
    exact US.ite _ (US.refl st) (setHdr_us _ _)

theorem rwPrepareMeta_meta (tb : Tables) (st : St) (status : Nat) (cl : Int) (clText : Bytes) :
    (rwPrepareMeta tb st status cl clText).1.rw.respMeta = some (rwPrepareMeta tb st status cl clText).2.1 := by
  unfold rwPrepareMeta; rfl

theorem rwSetRespComp_us (st : St) (comp : Bytes) : US st (rwSetRespComp st comp) := by
  unfold rwSetRespComp; split
  · exact US.refl _
  · exact US.rwUpdate _ _ rfl rfl

theorem rwSetRespComp_meta (st : St) (comp : Bytes) : (rwSetRespComp st comp).rw.respMeta = st.rw.respMeta := by
  unfold rwSetRespComp; split <;> rfl

theorem rwSetWriter_us (st : St) (k : WK) : US st (rwSetWriter st k) := US.rwUpdate _ _ rfl rfl

theorem flushHeaders_op (w : World) (st : St) : (flushHeaders w st).1.op = st.op := (flushHeaders_hw w st).op

/-- The head together with the end. -/
theorem flushHeaders_end_us (w : World) (st : St) (e : RespEnd) (he : (st.rw.respMeta.getD {}).end = some e) :
    US st (flushHeaders w st).1 := by
  by_cases hf : st.rw.headersFlushed = true
  · rw [flushHeaders_flushed w st hf]; exact US.refl st
  · exact ⟨flushHeaders_op w st, (flushHeaders_hw w st).ended, Or.inl (flushHeaders_ends w st e (by simpa using hf) he)⟩

theorem rwStartBody_uinv (w : World) (st : St) (h : UInv st) : UInv (rwStartBody w st).1 := by
  unfold rwStartBody
  refine UInv.step (rwSetWriter_us _ _) ?_
  have h1 : UInv ({ st with rw := { st.rw with sameRespCodec := st.op.ccodec == st.op.scodec } } : St) :=
    UInv.step (US.rwUpdate st { st.rw with sameRespCodec := st.op.ccodec == st.op.scodec } rfl rfl) h
  simp only
  split
  · exact UInv.step (US.rwUpdate _ _ rfl rfl) h1
  · rename_i hm
    intro hm'
    rw [flushHeaders_op] at hm'
    exact absurd hm' hm

theorem rwChooseWriter_uinv (w : World) (st : St) (rm : RespMeta) (eb : EndBody) (hrm : st.rw.respMeta = some rm)
    (h : UInv st) : UInv (rwChooseWriter w st rm eb).1 := by
  unfold rwChooseWriter
  generalize (if rm.compression == identityName then [] else rm.compression) = comp
  simp only
  split
  · exact UInv.step (US.of_fl (reportError_fl w st _)) h
  · split
    · rename_i e hend
      split
      · exact UInv.step (US.trans (rwSetRespComp_us st _) (rwSetWriter_us _ _)) h
      · refine UInv.step (US.trans (rwSetRespComp_us st _) (US.trans (flushHeaders_end_us w _ e ?_) (rwSetWriter_us _ _))) h
        rw [rwSetRespComp_meta, hrm]; exact hend
    · split
      · exact UInv.step (US.trans (rwSetRespComp_us st _) (US.of_fl (reportError_fl w _ _))) h
      · exact rwStartBody_uinv w _ (UInv.step (rwSetRespComp_us st _) h)

theorem rwWriteHeader_uinv (w : World) (tb : Tables) (st : St) (status : Nat) (h : UInv st) :
    UInv (rwWriteHeader w tb st status).1 := by
  unfold rwWriteHeader
  split
  · exact h
  · have h0 : UInv ({ st with rw := { st.rw with headersWritten := true, statusCode := status } } : St) :=
      UInv.step (US.rwUpdate st _ rfl rfl) h
    simp only
    split
    · exact h0
    · split
      · exact UInv.step (US.of_fl (reportError_fl w _ _)) h0
      · exact rwChooseWriter_uinv w _ _ _ (rwPrepareMeta_meta tb _ status _ _) (UInv.step (rwPrepareMeta_us tb _ status _ _) h0)

theorem rwHeaderFirst_uinv (w : World) (tb : Tables) (st : St) (h : UInv st) :
    UInv (if st.rw.headersWritten = true then (st, false) else rwWriteHeader w tb st 200).1 := by
  split
  · exact h
  · exact rwWriteHeader_uinv w tb st 200 h

/-! ### `Write` -/

theorem rwWrite_uinv (w : World) (tb : Tables) (st : St) (data : Bytes) (h : UInv st) : UInv (rwWrite w tb st data).1 := by
  have h0 := rwHeaderFirst_uinv w tb st h
  unfold rwWrite
  generalize (if st.rw.headersWritten = true then (st, false) else rwWriteHeader w tb st 200) = r0 at h0 ⊢
  simp only
  split
  · exact h0
  · split
    · exact h0
    · split
      · exact UInv.step (US.trans (US.of_fl (ewWrite_fl w tb r0.1 _ data)) (US.rwUpdate _ _ rfl rfl)) h0
      · exact UInv.step (US.trans (US.of_fl (twWrite_fl w tb r0.1 _ data)) (US.rwUpdate _ _ rfl rfl)) h0
      · split
        · exact h0
        · split
          · exact UInv.step (US.of_fl (reportError_fl w _ _)) h0
          · exact UInv.step (US.rwUpdate _ _ rfl rfl) h0
      · exact h0
      · exact h0

/-! ### closing the body writer -/

theorem ewCloseFlush_us (w : World) (st : St) (e : EW) : US st (ewCloseFlush w st e).1 := by
  unfold ewCloseFlush
  split
  · split
    · split
      · exact US.refl st
      · split
        · simp only
          split
          · exact US.of_fl (writeDown_fl w st _)
          · exact US.trans (US.of_fl (writeDown_fl w st _)) (US.of_fl (writeDown_fl w _ _))
        · exact US.refl st
    · exact US.refl st
  · exact US.refl st

theorem ewClose_us (w : World) (st : St) (e : EW) : US st (ewClose w st e).1 := by
  unfold ewClose
  have h := ewCloseFlush_us w st e
  generalize ewCloseFlush w st e = r at h ⊢
  obtain ⟨s1, e1, p1⟩ := r
  simp only at h ⊢
  split
  · exact h
  · split
    · exact h
    · split
      · exact US.trans h (US.of_fl (reportError_fl w s1 _))
      · exact h

theorem twClose_us (w : World) (tb : Tables) (st : St) (t : TW) : US st (twClose w tb st t).1 := by
  unfold twClose
  split
  · exact US.refl st
  · split
    · have key := US.of_fl (twFlushMessage_fl w tb st t)
      generalize twFlushMessage w tb st t = r at key ⊢
      obtain ⟨s1, t1, err, p⟩ := r
      simp only at key ⊢
      split
      · exact key
      · split
        · exact US.trans key (US.of_fl (reportError_fl w s1 _))
        · exact key
    · split
      · exact US.of_fl (reportError_fl w st _)
      · exact US.refl st

theorem errorWriterClose_us (w : World) (tb : Tables) (st : St) (body : Bytes) (kind : EndBody) :
    US st (errorWriterClose w tb st body kind).1 := by
  unfold errorWriterClose
  simp only
  refine US.trans (b := ({ st with rw := { st.rw with respMeta := some { (st.rw.respMeta.getD {}) with «end» := some (errorWriterEnd w tb st body kind) } } } : St)) ?_ ?_
  · exact US.rwUpdate st _ rfl rfl
  · exact flushHeaders_end_us w _ (errorWriterEnd w tb st body kind) rfl

theorem rwCloseWriter_us (w : World) (tb : Tables) (st : St) : US st (rwCloseWriter w tb st).1 := by
  unfold rwCloseWriter
  split
  · split
    · exact ewClose_us w st _
    · simp only
      split
      · exact US.of_fl (ewWrite_fl w tb st _ [])
      · exact US.trans (US.of_fl (ewWrite_fl w tb st _ [])) (ewClose_us w _ _)
  · split
    · exact twClose_us w tb st _
    · simp only
      split
      · exact US.of_fl (twWrite_fl w tb st _ [])
      · exact US.trans (US.of_fl (twWrite_fl w tb st _ [])) (twClose_us w tb _ _)
  · split
    · exact errorWriterClose_us w tb st _ _
    · exact US.refl st
  · exact US.refl st

/-- **The state in which `close` takes the end of the RPC from the backend's trailers or response head** (after
    the implicit `WriteHeader` and the closing of the body writer): the client can still be told. -/
theorem close_can_tell (w : World) (tb : Tables) (st : St) (hu : UInv st) :
    let r0 := (if st.rw.headersWritten = true then (st, false) else rwWriteHeader w tb st 200)
    let s1 := (rwCloseWriter w tb r0.1).1
    s1.op.cform ≠ .rest → s1.rw.endWritten = false → CanTell s1 := by
  intro r0 s1 hc hopen
  have hu1 : UInv s1 := UInv.step (rwCloseWriter_us w tb r0.1) (rwHeaderFirst_uinv w tb st hu)
  refine ⟨hc, ?_⟩
  cases hl : s1.op.cform.hasLateEnd with
  | true => exact Or.inl rfl
  | false =>
    right
    cases hf : s1.rw.headersFlushed with
    | false => rfl
    | true =>
      have hm : s1.op.cform.endMustBeInHeaders = true := by
        cases hcf : s1.op.cform <;> simp [hcf, ClientForm.hasLateEnd, ClientForm.endMustBeInHeaders] at hl ⊢
      have := hu1 hm hf
      rw [hopen] at this; cases this

/-! ### every handler script -/

theorem foldl_uinv {β : Type} (g : Flight × β → BOp → Flight × β) (hg : ∀ acc op, UInv acc.1.st → UInv (g acc op).1.st) :
    ∀ (script : List BOp) (acc : Flight × β), UInv acc.1.st → UInv (script.foldl g acc).1.st := by
  intro script
  induction script with
  | nil => intro acc h; exact h
  | cons op rest ih => intro acc h; exact ih _ (hg acc op h)

theorem runScript_uinv (w : World) (tb : Tables) (pl : HandlePlan) (script : List BOp) (total0 : Nat) (f : Flight)
    (h : UInv f.st) : UInv (runScript w tb pl script total0 f).1.st := by
  unfold runScript
  refine foldl_uinv (β := BackendObs) _ ?_ script (f, ({} : BackendObs)) h
  intro acc op hacc
  obtain ⟨f1, b1⟩ := acc
  simp only at hacc ⊢
  split
  · exact hacc
  · split
    · exact UInv.step (reach_us (flightReadN_reach w pl _ _ true _ f1 0 _ _)) hacc
    · exact UInv.step (reach_us (flightReadN_reach w pl _ _ false _ f1 0 _ _)) hacc
    · exact UInv.step (reach_us (flightReadAll_reach w pl _ _ f1 _)) hacc
    · exact UInv.step (setHdr_us _ _) hacc
    · exact UInv.step (setHdr_us _ _) hacc
    · exact rwWriteHeader_uinv w tb f1.st _ hacc
    · exact rwWrite_uinv w tb f1.st _ hacc
    · exact hacc
    · exact hacc

/-- The state the backend handler starts with: nothing has been sent. -/
theorem start_uinv (st : St) (skip : Bool) (hrw : st.rw = {}) : UInv (transcodeStartState st skip) := by
  intro _ hf
  unfold transcodeStartState at hf
  simp only at hf
  split at hf <;> simp [hrw] at hf

/-- **In every state a handler can reach, an open RPC's client can still be told the end.** -/
theorem reachable_can_tell (w : World) (tb : Tables) (pl : HandlePlan) (script : List BOp) (total0 : Nat)
    (st : St) (skip : Bool) (rd : Reader) (hrw : st.rw = {}) :
    let st' := (runScript w tb pl script total0 { st := transcodeStartState st skip, rd := rd }).1.st
    st'.op.cform ≠ .rest → st'.rw.endWritten = false → CanTell st' := by
  intro st' hc hopen
  have hu : UInv st' := runScript_uinv w tb pl script total0 _ (start_uinv st skip hrw)
  refine ⟨hc, ?_⟩
  cases hl : st'.op.cform.hasLateEnd with
  | true => exact Or.inl rfl
  | false =>
    right
    cases hf : st'.rw.headersFlushed with
    | false => rfl
    | true =>
      have hm : st'.op.cform.endMustBeInHeaders = true := by
        cases hcf : st'.op.cform <;> simp [hcf, ClientForm.hasLateEnd, ClientForm.endMustBeInHeaders] at hl ⊢
      have := hu hm hf
      rw [hopen] at this; cases this

end Vanguard
