import Vanguard.Model.Basic
namespace Vanguard

/-- A predicate on bytes that holds for the 256 values `UInt8.ofNat n` holds for every byte.
    Used to lift `decide +kernel` over the whole finite table to `∀ b : UInt8`. -/
theorem forall_uint8 {p : UInt8 → Prop} (h : ∀ n : Fin 256, p (UInt8.ofNat n.val)) : ∀ b : UInt8, p b := by
  intro b
  have := h ⟨b.toNat, b.toNat_lt⟩
  simpa using this

end Vanguard
