import Vanguard.Lemmas.ReframeStream
import Vanguard.Lemmas.RespReframe
import Vanguard.Lemmas.CleanStream
set_option linter.unusedSimpArgs false
/-!
  What a streaming client receives for a well-formed backend stream is **well framed** in the client's
  own dialect (C03): a sequence of five-byte envelopes - flag byte 0 or 1, big-endian length - each
  followed by exactly as many payload bytes as it announces.
-/
namespace Vanguard
open Vanguard

/-- A sequence of data frames: flag 0 or 1, length = the number of payload bytes that follow. -/
inductive WellFramed : Bytes → Prop
  | nil : WellFramed []
  | cons (flag a b c d : UInt8) (payload rest : Bytes) :
      (flag = 0 ∨ flag = 1) → fromBe32 a b c d = payload.length → WellFramed rest →
      WellFramed (flag :: a :: b :: c :: d :: (payload ++ rest))

theorem fromBe32_of_be32 (n : Nat) (h : n < 4294967296) :
    ∀ a b c d, be32 n = [a, b, c, d] → fromBe32 a b c d = n := by
  intro a b c d hb
  unfold be32 at hb
  simp only [List.cons.injEq, and_true] at hb
  obtain ⟨h1, h2, h3, h4⟩ := hb
  subst h1 h2 h3 h4
  unfold fromBe32
  simp only [UInt8.toNat_ofNat']
  omega

/-- A data envelope in any dialect: flag 0/1 and the big-endian length. -/
theorem encode_data_envelope (cc : Enveloper) (env : Envelope) (hnt : env.trailer = false) (hlt : env.length < 4294967296) :
    ∃ flag a b c d, cc.encode env = [flag, a, b, c, d] ∧ (flag = 0 ∨ flag = 1) ∧ fromBe32 a b c d = env.length := by
  refine ⟨if env.compressed then 1 else 0, UInt8.ofNat (env.length / 16777216 % 256), UInt8.ofNat (env.length / 65536 % 256),
    UInt8.ofNat (env.length / 256 % 256), UInt8.ofNat (env.length % 256), ?_, ?_, ?_⟩
  · unfold Enveloper.encode Enveloper.encodeFlags be32
    cases cc <;> simp [hnt]
  · cases env.compressed <;> simp
  · exact fromBe32_of_be32 env.length hlt _ _ _ _ rfl

theorem WellFramed.frame (cc : Enveloper) (env : Envelope) (payload rest : Bytes) (hnt : env.trailer = false)
    (hlen : env.length = payload.length) (hlt : env.length < 4294967296) (hr : WellFramed rest) :
    WellFramed (cc.encode env ++ payload ++ rest) := by
  obtain ⟨flag, a, b, c, d, he, hf, hl⟩ := encode_data_envelope cc env hnt hlt
  rw [he]
  simp only [List.cons_append, List.nil_append, List.append_assoc]
  exact WellFramed.cons flag a b c d payload rest hf (hl.trans hlen) hr

/-- **Re-framing path**: the re-framed stream is well framed. -/
theorem respReframedAll_wellFramed (se cc : Enveloper) (maxMsg : Nat) (hmax : maxMsg < 4294967296) :
    ∀ fs : List Frame, (∀ x ∈ fs, x.ok se maxMsg) → WellFramed (respReframedAll se cc fs) := by
  intro fs
  induction fs with
  | nil => intro _; exact WellFramed.nil
  | cons x xs ih =>
    intro hok
    obtain ⟨env, hdec, hnt, hlen, hle⟩ := hok x List.mem_cons_self
    simp only [respReframedAll, hdec]
    exact WellFramed.frame cc env x.payload _ hnt hlen (by omega) (ih fun y hy => hok y (List.mem_cons_of_mem _ hy))

/-- **Re-encoding path**: the converted stream is well framed. -/
theorem respConvertedAll_wellFramed (w : World) (st : St) (se cc : Enveloper) (hmax : st.op.conf.maxMsg < 4294967296) :
    ∀ (fs : List Frame) (out : Bytes), respConvertedAll w st se cc fs = some out → WellFramed out := by
  intro fs
  induction fs with
  | nil => intro out h; simp only [respConvertedAll, Option.some.injEq] at h; subst h; exact WellFramed.nil
  | cons x xs ih =>
    intro out h
    simp only [respConvertedAll] at h
    cases hdec : se.decode x.f x.a x.b x.c x.d with
    | none => simp [hdec] at h
    | some env =>
      simp only [hdec] at h
      cases hc : respConverted w st cc env x.payload with
      | none => simp [hc] at h
      | some b =>
        cases hr : respConvertedAll w st se cc xs with
        | none => simp [hc, hr] at h
        | some bs =>
          simp only [hc, hr, Option.some.injEq] at h
          subst h
          -- the one converted message
          unfold respConverted at hc
          split at hc
          · rename_i o _
            split at hc
            · cases hc
            · rename_i hle
              simp only [Option.some.injEq] at hc
              subst hc
              exact WellFramed.frame cc _ o bs rfl rfl (by simp only; omega) (ih bs hr)
          · cases hc

/-- **Request direction, re-encoding path**: what the backend is to read for a sequence of convertible client
    frames (`convertedAll`: its own envelope and the converted message, per frame) is well framed. -/
theorem convertedAll_wellFramed (w : World) (pl : HandlePlan) (st : St) (ce se : Enveloper)
    (hse : st.op.serverEnveloper = some se) (hmax : st.op.conf.maxMsg < 4294967296) :
    ∀ (fs : List Frame) (out : Bytes), convertedAll w pl st ce fs = some out → WellFramed out := by
  intro fs
  induction fs with
  | nil => intro out h; simp only [convertedAll, Option.some.injEq] at h; subst h; exact WellFramed.nil
  | cons x xs ih =>
    intro out h
    simp only [convertedAll] at h
    cases hc : x.converted w pl st ce with
    | none => simp [hc] at h
    | some b =>
      cases hr : convertedAll w pl st ce xs with
      | none => simp [hc, hr] at h
      | some bs =>
        simp only [hc, hr, Option.some.injEq] at h
        subst h
        unfold Frame.converted trPrepare at hc
        cases hp : prepareRequestMessage w st.op pl (x.msg ce).1 (x.msg ce).2 with
        | error e => simp [hp, Except.bind] at hc
        | ok o =>
          simp only [hp, Except.bind, requestEnvelope, hse] at hc
          by_cases hle : o.length > st.op.conf.maxMsg
          · simp [hle, Except.map] at hc
          · simp only [hle, if_false, Except.map, Option.some.injEq] at hc
            subst hc
            have := WellFramed.frame se { compressed := (x.msg ce).2 && st.op.sReqComp.isSome, length := o.length } o bs rfl rfl
              (by simp only; omega) (ih bs hr)
            simpa [List.append_assoc] using this

/-- **Request direction, re-framing path**: the re-framed request stream is well framed. -/
theorem reframedAll_wellFramed (ce se : Enveloper) (maxMsg : Nat) (hmax : maxMsg < 4294967296) :
    ∀ fs : List Frame, (∀ x ∈ fs, x.ok ce maxMsg) → WellFramed (reframedAll ce se fs) := by
  intro fs
  induction fs with
  | nil => intro _; exact WellFramed.nil
  | cons x xs ih =>
    intro hok
    obtain ⟨env, hdec, hnt, hlen, hle⟩ := hok x List.mem_cons_self
    simp only [reframedAll, hdec]
    exact WellFramed.frame se env x.payload _ hnt hlen (by omega) (ih fun y hy => hok y (List.mem_cons_of_mem _ hy))

end Vanguard
