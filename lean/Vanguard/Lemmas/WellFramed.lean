import Vanguard.Props.C02
import Vanguard.Lemmas.RespReframe
set_option linter.unusedSimpArgs false
/-!
  What a streaming client receives for a well-formed backend stream is **well framed** in the client's
  own dialect (C03): a sequence of five-byte envelopes - flag byte 0 or 1, big-endian length - each
  followed by exactly as many payload bytes as it announces.
-/
namespace Vanguard
open Vanguard

/-- A sequence of data frames: flag 0 or 1, length = the number of payload bytes that follow. -/
inductive WellFramed : Bytes → Prop
  | nil : WellFramed []
  | cons (flag a b c d : UInt8) (payload rest : Bytes) :
      (flag = 0 ∨ flag = 1) → fromBe32 a b c d = payload.length → WellFramed rest →
      WellFramed (flag :: a :: b :: c :: d :: (payload ++ rest))

/-- A data envelope in any dialect: flag 0/1 and the big-endian length. -/
theorem encode_data_envelope (cc : Enveloper) (env : Envelope) (hnt : env.trailer = false) (hlt : env.length < 4294967296) :
    ∃ flag a b c d, cc.encode env = [flag, a, b, c, d] ∧ (flag = 0 ∨ flag = 1) ∧ fromBe32 a b c d = env.length := by
  refine ⟨if env.compressed then 1 else 0, UInt8.ofNat (env.length / 16777216 % 256), UInt8.ofNat (env.length / 65536 % 256),
    UInt8.ofNat (env.length / 256 % 256), UInt8.ofNat (env.length % 256), ?_, ?_, ?_⟩
  · unfold Enveloper.encode Enveloper.encodeFlags be32
    cases cc <;> simp [hnt]
  · cases env.compressed <;> simp
  · exact C02.fromBe32_be32 env.length hlt _ _ _ _ rfl

theorem WellFramed.frame (cc : Enveloper) (env : Envelope) (payload rest : Bytes) (hnt : env.trailer = false)
    (hlen : env.length = payload.length) (hlt : env.length < 4294967296) (hr : WellFramed rest) :
    WellFramed (cc.encode env ++ payload ++ rest) := by
  obtain ⟨flag, a, b, c, d, he, hf, hl⟩ := encode_data_envelope cc env hnt hlt
  rw [he]
  simp only [List.cons_append, List.nil_append, List.append_assoc]
  exact WellFramed.cons flag a b c d payload rest hf (hl.trans hlen) hr

/-- **Re-framing path**: the re-framed stream is well framed. -/
theorem respReframedAll_wellFramed (se cc : Enveloper) (maxMsg : Nat) (hmax : maxMsg < 4294967296) :
    ∀ fs : List Frame, (∀ x ∈ fs, x.ok se maxMsg) → WellFramed (respReframedAll se cc fs) := by
  intro fs
  induction fs with
  | nil => intro _; exact WellFramed.nil
  | cons x xs ih =>
    intro hok
    obtain ⟨env, hdec, hnt, hlen, hle⟩ := hok x List.mem_cons_self
    simp only [respReframedAll, hdec]
    exact WellFramed.frame cc env x.payload _ hnt hlen (by omega) (ih fun y hy => hok y (List.mem_cons_of_mem _ hy))

/-- **Re-encoding path**: the converted stream is well framed. -/
theorem respConvertedAll_wellFramed (w : World) (st : St) (se cc : Enveloper) (hmax : st.op.conf.maxMsg < 4294967296) :
    ∀ (fs : List Frame) (out : Bytes), respConvertedAll w st se cc fs = some out → WellFramed out := by
  intro fs
  induction fs with
  | nil => intro out h; simp only [respConvertedAll, Option.some.injEq] at h; subst h; exact WellFramed.nil
  | cons x xs ih =>
    intro out h
    simp only [respConvertedAll] at h
    cases hdec : se.decode x.f x.a x.b x.c x.d with
    | none => simp [hdec] at h
    | some env =>
      simp only [hdec] at h
      cases hc : respConverted w st cc env x.payload with
      | none => simp [hc] at h
      | some b =>
        cases hr : respConvertedAll w st se cc xs with
        | none => simp [hc, hr] at h
        | some bs =>
          simp only [hc, hr, Option.some.injEq] at h
          subst h
          -- the one converted message
          unfold respConverted at hc
          split at hc
          · rename_i o _
            split at hc
            · cases hc
            · rename_i hle
              simp only [Option.some.injEq] at hc
              subst hc
              exact WellFramed.frame cc _ o bs rfl rfl (by simp only; omega) (ih bs hr)
          · cases hc

end Vanguard
