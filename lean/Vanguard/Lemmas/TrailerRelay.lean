import Vanguard.Lemmas.EndRelay
set_option linter.unusedSimpArgs false
/-!
  Where the trailers of the RPC's end go (C05): the end-of-stream frame of a Connect-streaming
  client, the trailer frame of a gRPC-Web client, the HTTP trailers of a gRPC client - whatever
  carried them on the backend's side (`RespEnd.trailers` is what the backend's protocol handler
  extracted, or what the handler stored as pending trailers when the end itself has none).
-/
namespace Vanguard

/-- The trailers `reportEnd` sends with the end `e`: the end's own, or - when it has none - the
    trailers the handler stored before. -/
def effTrailers (st : St) (e : RespEnd) : Hdr :=
  match st.rw.respMeta with
  | some rm => if !rm.pendingTrailers.isEmpty && e.trailers.isEmpty then rm.pendingTrailers else e.trailers
  | none => e.trailers

/-- The header map `reportEnd` works on: pending trailer keys are taken out first. -/
def cleanedHdr (st : St) : Hdr :=
  match st.rw.respMeta with
  | some rm => (httpExtractTrailers st.sink.hdr rm.pendingTrailerKeys).2
  | none => st.sink.hdr

theorem endItem_flush (k : Sink) : k.flush.endItem = k.endItem := rfl

/-- The end item after `encodeEnd` on a body without end, head already sent. -/
theorem encodeEnd_late_item (c : ClientForm) (e : RespEnd) (k : Sink) (hk : k.endMarks = 0) :
    (encodeEnd c e false k).endItem =
      match c with
      | .grpcWeb => some (.endFrame 0x80 e)
      | .connectStream => some (.endFrame 2 e)
      | _ => none := by
  obtain ⟨h1, _, _⟩ := marks_zero_fields hk
  cases c <;> simp only [encodeEnd, Bool.false_eq_true, if_false]
  case grpc => exact find_end_none h1
  case grpcWeb => simp only [Sink.endItem, items_writeItem]; exact find_end_append h1 _ rfl
  case connectStream => simp only [Sink.endItem, items_writeItem]; exact find_end_append h1 _ rfl
  case rest => exact find_end_none h1
  case connectPost => cases e.err <;> exact find_end_none h1
  case connectGet => cases e.err <;> exact find_end_none h1

/-- **Late end, streaming client**: once the head is out, the end of the RPC reaches a gRPC-Web client as
    its trailer frame and a Connect-streaming client as its end-of-stream frame, carrying the error and
    the trailers of that end. -/
theorem reportEnd_late_frame (w : World) (st : St) (e : RespEnd) (hg : Good st) (hopen : st.rw.endWritten = false)
    (hfl : st.rw.headersFlushed = true) (hc : st.op.cform = .grpcWeb ∨ st.op.cform = .connectStream) :
    ∃ flags e', (reportEnd w st e).1.sink.endItem = some (.endFrame flags e') ∧
      e'.err = e.err ∧ e'.trailers = effTrailers st e ∧
      flags = (if st.op.cform = .grpcWeb then 0x80 else 2) := by
  have hm0 := hg.opened hopen
  unfold reportEnd effTrailers
  simp only [hopen, Bool.false_eq_true, if_false]
  cases hrm : st.rw.respMeta with
  | none =>
    simp only [hrm, hfl, if_true, writeEnd, endItem_flush]
    rw [encodeEnd_late_item _ _ _ hm0]
    rcases hc with h | h <;> rw [h] <;> exact ⟨_, _, rfl, rfl, rfl, by simp⟩
  | some rm =>
    simp only [hrm, hfl, if_true, writeEnd, endItem_flush]
    have hm1 : ({ st.sink with hdr := (httpExtractTrailers st.sink.hdr rm.pendingTrailerKeys).2 } : Sink).endMarks = 0 := hm0
    rw [encodeEnd_late_item _ _ _ hm1]
    by_cases hp : (!rm.pendingTrailers.isEmpty && e.trailers.isEmpty) = true <;>
      rcases hc with h | h <;> rw [h] <;> exact ⟨_, _, rfl, by simp [hp], by simp [hp], by simp⟩

/-- **Late end, gRPC client**: the trailers of the end are merged into the HTTP trailers (under the
    `Trailer:` prefix, replacing what was there for the same key) and the status is recorded as
    trailer status. -/
theorem reportEnd_late_grpc (w : World) (st : St) (e : RespEnd) (hopen : st.rw.endWritten = false)
    (hfl : st.rw.headersFlushed = true) (hc : st.op.cform = .grpc) :
    (reportEnd w st e).1.sink.hdr = httpMergeTrailers (cleanedHdr st) (effTrailers st e) ∧
    (reportEnd w st e).1.sink.trailerEndSet = true ∧ (reportEnd w st e).1.sink.trailerEnd = e.err := by
  unfold reportEnd effTrailers cleanedHdr
  simp only [hopen, Bool.false_eq_true, if_false]
  cases hrm : st.rw.respMeta with
  | none => simp [hrm, hfl, writeEnd, encodeEnd, hc, Sink.flush]
  | some rm =>
    by_cases hp : (!rm.pendingTrailers.isEmpty && e.trailers.isEmpty) = true <;>
      simp [hrm, hfl, writeEnd, encodeEnd, hc, Sink.flush, hp]

theorem good_setEnd (st : St) (e : RespEnd) (hg : Good st) :
    Good ({ st with rw := { st.rw with respMeta := some { (st.rw.respMeta.getD {}) with «end» := some e } } } : St) :=
  (Ev.rwUpdate st { st.rw with respMeta := some { (st.rw.respMeta.getD {}) with «end» := some e } } rfl (fun h => h) rfl hg).1

/-- Head and end together for a Connect-streaming client: the end-of-stream frame is the end item. -/
theorem flushHeaders_stream_item (w : World) (st : St) (e : RespEnd) (hg : Good st) (hf : st.rw.headersFlushed = false)
    (he : (st.rw.respMeta.getD {}).end = some e) (hc : st.op.cform = .connectStream) :
    (flushHeaders w st).1.sink.endItem = some (.endFrame 2 e) := by
  have hm0 := hg.opened (hg.not_flushed_open hf)
  obtain ⟨h1, _, _⟩ := marks_zero_fields hm0
  unfold flushHeaders
  simp only [hf, Bool.false_eq_true, if_false]
  have hs := fun rm => addResponseHeaders_status_isSome st.op.cform rm st.sink
  have hi := fun rm => (addResponseHeaders_items st.op.cform rm st.sink).1
  generalize hr : addResponseHeaders st.op.cform _ st.sink = r
  have hs' : r.1.isSome = true := by rw [← hr]; exact hs _
  have hi' : r.2.items = st.sink.items := by rw [← hr]; exact hi _
  obtain ⟨status, sink1⟩ := r
  cases status with
  | none => simp at hs'
  | some code =>
    simp only at hi'
    simp only [he, writeEnd, Option.bind_some, hc, encodeEnd, Sink.endItem, items_writeItem]
    have hcount : ∀ k : Sink, k.items = st.sink.items → k.items.countP Item.isEnd = 0 := fun k hk => by rw [hk]; exact h1
    have hwh : (sink1.writeHeader code).items = st.sink.items := (writeHeader_fields sink1 code).2.2.2.2.trans hi'
    cases hb : st.rw.buf with
    | none => exact find_end_append (hcount _ hwh) _ rfl
    | some b =>
      by_cases hee : (e.err).isSome = true
      · simp only [hee, if_true]; exact find_end_append (hcount _ hwh) _ rfl
      · simp only [hee, Bool.false_eq_true, if_false]
        refine find_end_append ?_ _ rfl
        have : ((sink1.writeHeader code).write b).endItem = none := by
          rw [endItem_write]; unfold Sink.endItem; exact find_end_none (hcount _ hwh)
        unfold Sink.endItem at this
        rw [List.find?_eq_none] at this
        exact List.countP_eq_zero.mpr (fun x hx => by simpa using this x hx)

/-- **A Connect-streaming client always gets the end of the RPC as its end-of-stream frame**, with the
    error and the trailers of that end - whether or not the head was already sent. -/
theorem reportEnd_stream_frame (w : World) (st : St) (e : RespEnd) (hg : Good st) (hopen : st.rw.endWritten = false)
    (hc : st.op.cform = .connectStream) :
    ∃ e', (reportEnd w st e).1.sink.endItem = some (.endFrame 2 e') ∧ e'.err = e.err ∧ e'.trailers = effTrailers st e := by
  by_cases hfl : st.rw.headersFlushed = true
  · obtain ⟨f, e', h1, h2, h3, h4⟩ := reportEnd_late_frame w st e hg hopen hfl (Or.inr hc)
    rw [hc] at h4; simp at h4; subst h4
    exact ⟨e', h1, h2, h3⟩
  · have hf : st.rw.headersFlushed = false := by simpa using hfl
    unfold reportEnd effTrailers
    simp only [hopen, Bool.false_eq_true, if_false]
    cases hrm : st.rw.respMeta with
    | none =>
      simp only [hrm]
      rw [if_neg hfl]
      simp only [endItem_flush]
      have hg2 : Good ({ st with rw := { st.rw with respMeta := some { (none : Option RespMeta).getD {} with «end» := some e } } } : St) :=
        (Ev.rwUpdate st { st.rw with respMeta := some { (none : Option RespMeta).getD {} with «end» := some e } } rfl (fun h => h) rfl hg).1
      exact ⟨e, flushHeaders_stream_item w _ e hg2 hf rfl hc, rfl, rfl⟩
    | some rm =>
      simp only [hrm]
      rw [if_neg hfl]
      simp only [endItem_flush]
      have hg1 := (Ev.sinkHdr st (httpExtractTrailers st.sink.hdr rm.pendingTrailerKeys).2 hopen hg).1
      by_cases hp : (!rm.pendingTrailers.isEmpty && e.trailers.isEmpty) = true
      · simp only [hp, if_true]
        generalize hee : ({ e with trailers := rm.pendingTrailers } : RespEnd) = ee
        refine ⟨ee, ?_, by rw [← hee], by rw [← hee]⟩
        refine flushHeaders_stream_item w _ _ ?_ hf rfl hc
        have hgs := good_setEnd { st with sink := { st.sink with hdr := (httpExtractTrailers st.sink.hdr rm.pendingTrailerKeys).2 } } ee hg1
        simp only [hrm] at hgs
        exact hgs
      · simp only [hp, Bool.false_eq_true, if_false]
        generalize hee : e = ee
        refine ⟨ee, ?_, rfl, rfl⟩
        refine flushHeaders_stream_item w _ _ ?_ hf rfl hc
        have hgs := good_setEnd { st with sink := { st.sink with hdr := (httpExtractTrailers st.sink.hdr rm.pendingTrailerKeys).2 } } ee hg1
        simp only [hrm] at hgs
        exact hgs

end Vanguard
