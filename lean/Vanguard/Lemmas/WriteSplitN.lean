import Vanguard.Lemmas.WriteSplit
set_option linter.unusedSimpArgs false
/-!
  The re-encoding writer (`transformingWriter`) and **any number of `Write` pieces**: the two-piece
  theorem `twLoop_split` lifted to lists of pieces, for every backend output (well-formed or not).
-/
namespace Vanguard
open Vanguard Vanguard.C11

/-- Latched or buffering: what `Write` establishes before the loop and the loop keeps. -/
def TwBuf (t : TW) : Prop := t.err = true ∨ t.buffer.isSome = true

theorem twLoop_keeps_buffer (w : World) (tb : Tables) : ∀ (n : Nat) (st : St) (t : TW) (data : Bytes),
    TwBuf t → TwBuf (twLoop w tb n st t data).2.1 := by
  intro n
  induction n with
  | zero => intro st t data h; exact h
  | succ m ih =>
    intro st t data hb
    unfold twLoop
    by_cases herr : t.err = true
    · simp only [herr, if_true]; exact hb
    · simp only [herr, Bool.false_eq_true, if_false]
      by_cases hwe : t.writingEnvelope = true
      · simp only [hwe, if_true]
        repeat' split
        all_goals first
          | exact hb
          | exact Or.inr rfl
          | exact ih _ _ _ (Or.inr rfl)
      · simp only [hwe, Bool.false_eq_true, if_false]
        split
        · exact hb
        · split
          · exact Or.inr rfl
          · generalize hr : twFlushMessage w tb st _ = r
            have hfl : r.2.1.buffer.isSome = true := by
              rw [← hr]; exact twFlushMessage_buffer _ _ _ _ rfl
            obtain ⟨s1, t1, e1, p1⟩ := r
            simp only at hfl ⊢
            repeat' split
            all_goals first
              | exact Or.inr hfl
              | exact ih _ _ _ (Or.inr hfl)

/-- The `Write` calls that follow a first one (each with the fuel `Write` gives its loop); a failed call
    ends the sequence. -/
def thenLoops (w : World) (tb : Tables) (r : St × TW × Bool × Bool) : List Bytes → St × TW × Bool × Bool
  | [] => r
  | d :: ds => thenLoops w tb (thenLoop w tb (2 * d.length + 4) d r) ds

theorem thenLoops_failed (w : World) (tb : Tables) (r : St × TW × Bool × Bool) (h : (r.2.2.1 || r.2.2.2) = true) :
    ∀ ds, thenLoops w tb r ds = r := by
  intro ds
  induction ds with
  | nil => rfl
  | cons d ds ih =>
    have : thenLoop w tb (2 * d.length + 4) d r = r := by unfold thenLoop; rw [if_pos h]
    rw [thenLoops, this, ih]

theorem muT_lt (t : TW) (d : Bytes) : muT t d < 2 * d.length + 4 := by
  unfold muT; split <;> omega

/-- **Any number of pieces** (re-encoding path, any backend output): writing `d ++ d₂ ++ … ++ dₙ` in one call
    or in `n` calls leaves the client's connection and the panic flag the same. -/
theorem twLoop_pieces (w : World) (tb : Tables) :
    ∀ (ds : List Bytes) (d : Bytes) (F : Nat) (st : St) (t : TW), TwInv t → TwBuf t → muT t (d ++ ds.flatten) < F →
      Visible (twLoop w tb F st t (d ++ ds.flatten)) = Visible (thenLoops w tb (twLoop w tb (2 * d.length + 4) st t d) ds) := by
  intro ds
  induction ds with
  | nil =>
    intro d F st t hinv _ hF
    simp only [List.flatten_nil, List.append_nil] at hF ⊢
    rw [twLoop_any_fuel w tb st t d hinv F (2 * d.length + 4) hF (muT_lt t d)]
    rfl
  | cons d2 ds ih =>
    intro d F st t hinv hbuf hF
    simp only [List.flatten_cons] at hF ⊢
    have hmud : muT t d < F := by
      unfold muT at hF ⊢
      simp only [List.length_append] at hF
      by_cases h : t.writingEnvelope = true <;> simp only [h, if_true, Bool.false_eq_true, if_false] at hF ⊢ <;> omega
    rw [twLoop_split w tb (d2 ++ ds.flatten) (2 * (d2 ++ ds.flatten).length + 4) (by omega) F st t d hinv hbuf hF]
    rw [twLoop_any_fuel w tb st t d hinv F (2 * d.length + 4) hmud (muT_lt t d)]
    generalize hr1 : twLoop w tb (2 * d.length + 4) st t d = r1
    by_cases hfail : (r1.2.2.1 || r1.2.2.2) = true
    · rw [thenLoops_failed w tb r1 hfail]
      unfold thenLoop; rw [if_pos hfail]
    · have hp : r1.2.2.2 = false := by
        cases h : r1.2.2.2 with
        | false => rfl
        | true => simp [h] at hfail
      have hinv1 : TwInv r1.2.1 := by
        rw [← hr1]; exact twLoop_keeps_inv w tb _ st t d hinv (by rw [hr1]; exact hp)
      have hbuf1 : TwBuf r1.2.1 := by
        rw [← hr1]; exact twLoop_keeps_buffer w tb _ st t d hbuf
      have h1 : thenLoop w tb (2 * (d2 ++ ds.flatten).length + 4) (d2 ++ ds.flatten) r1 =
          twLoop w tb (2 * (d2 ++ ds.flatten).length + 4) r1.1 r1.2.1 (d2 ++ ds.flatten) := by
        unfold thenLoop; rw [if_neg hfail]
      have h2 : thenLoop w tb (2 * d2.length + 4) d2 r1 = twLoop w tb (2 * d2.length + 4) r1.1 r1.2.1 d2 := by
        unfold thenLoop; rw [if_neg hfail]
      rw [h1, thenLoops, h2]
      exact ih d2 _ r1.1 r1.2.1 hinv1 hbuf1 (muT_lt _ _)

end Vanguard
