import Vanguard.Props.C11
/-!
  How the backend splits its response across `Write` calls does not matter (C08), for the
  re-encoding writer (`transformingWriter`): writing `a` and then `b` leaves the client's
  connection and the outcome exactly as writing `a ++ b` in one call.
-/
namespace Vanguard
open Vanguard Vanguard.C11

/-- With enough fuel the amount of fuel is irrelevant. -/
theorem twLoop_any_fuel (w : World) (tb : Tables) (st : St) (t : TW) (d : Bytes) (hinv : TwInv t) :
    ∀ (n m : Nat), muT t d < n → muT t d < m → twLoop w tb n st t d = twLoop w tb m st t d := by
  have up : ∀ k n, muT t d < n → twLoop w tb n st t d = twLoop w tb (n + k) st t d := by
    intro k
    induction k with
    | zero => intro n _; rfl
    | succ k ih =>
      intro n hn
      rw [ih n hn]
      exact twLoop_fuel w tb (n + k) st t d hinv (by omega)
  intro n m hn hm
  by_cases h : n ≤ m
  · have := up (m - n) n hn
    rw [this]; congr 1; omega
  · have := up (n - m) m hm
    rw [this]; congr 1; omega

/-- **Pre-buffering**: bytes that do not complete the envelope or message in progress may as well
    have been in the writer's buffer already. -/
theorem twLoop_prebuffer (w : World) (tb : Tables) (F : Nat) (st : St) (t : TW) (a d : Bytes)
    (herr : t.err = false) (hbuf : t.buffer.isSome = true)
    (hshort : (a.length : Int) < t.expecting - ((t.buffer.getD []).length : Int)) :
    twLoop w tb (F + 1) st t (a ++ d) = twLoop w tb (F + 1) st { t with buffer := some (t.buffer.getD [] ++ a) } d := by
  obtain ⟨buf, hb⟩ := Option.isSome_iff_exists.mp hbuf
  unfold twLoop
  simp only [herr, Bool.false_eq_true, if_false, hb, Option.getD_some, List.length_append]
  have hneg : ¬ (t.expecting - (buf.length : Int) < 0) := by rw [hb] at hshort; simp at hshort; omega
  have hneg' : ¬ (t.expecting - ((buf.length + a.length : Nat) : Int) < 0) := by
    rw [hb] at hshort; simp at hshort; omega
  simp only [hneg, hneg', if_false]
  by_cases hall : ((a.length + d.length : Nat) : Int) < t.expecting - (buf.length : Int)
  · have h2 : (d.length : Int) < t.expecting - ((buf.length + a.length : Nat) : Int) := by omega
    simp only [hall, h2, if_true, List.append_assoc]
  · have h2 : ¬ (d.length : Int) < t.expecting - ((buf.length + a.length : Nat) : Int) := by omega
    simp only [hall, h2, if_false]
    have hk : (t.expecting - (buf.length : Int)).toNat = a.length + (t.expecting - ((buf.length + a.length : Nat) : Int)).toNat := by
      rw [hb] at hshort; simp at hshort; omega
    have htake : (a ++ d).take (t.expecting - (buf.length : Int)).toNat
        = a ++ d.take (t.expecting - ((buf.length + a.length : Nat) : Int)).toNat := by
      rw [hk]; exact List.take_length_add_append _
    have hdrop : (a ++ d).drop (t.expecting - (buf.length : Int)).toNat
        = d.drop (t.expecting - ((buf.length + a.length : Nat) : Int)).toNat := by
      rw [hk]; exact List.drop_length_add_append _
    simp only [htake, hdrop, List.append_assoc]

theorem twFlushMessage_trailer_latched (w : World) (tb : Tables) (st : St) (t : TW) (ht : t.latest.trailer = true) :
    (twFlushMessage w tb st t).2.2.1 = none → (twFlushMessage w tb st t).2.2.2 = false →
    (twFlushMessage w tb st t).2.1.err = true := by
  unfold twFlushMessage
  simp only [ht, if_true]
  split
  · intro h1 h2; simp_all
  · intro _ _; rfl

theorem twFlushMessage_buffer (w : World) (tb : Tables) (st : St) (t : TW) (hb : t.buffer.isSome = true) :
    (twFlushMessage w tb st t).2.1.buffer.isSome = true := by
  have hr : ∀ s', (twReset s' t).buffer.isSome = true := by intro s'; unfold twReset; split <;> rfl
  unfold twFlushMessage
  simp only
  split
  · split <;> exact hb
  · split
    · exact hb
    · cases hce : st.op.clientEnveloper with
      | none =>
        simp only [Option.isSome_none, Bool.false_eq_true, if_false, Bool.or_self]
        split
        · exact hb
        · exact hr _
      | some ce =>
        simp only
        split
        · exact hb
        · simp only
          split
          · exact hb
          · split
            · exact hb
            · split
              · exact hb
              · exact hr _

theorem twFlushMessage_latest (w : World) (tb : Tables) (st : St) (t : TW) :
    (twFlushMessage w tb st t).2.1.latest = t.latest := by
  have hr : ∀ s', (twReset s' t).latest = t.latest := by intro s'; unfold twReset; split <;> rfl
  unfold twFlushMessage
  simp only
  split
  · split <;> rfl
  · split
    · rfl
    · cases hce : st.op.clientEnveloper with
      | none =>
        simp only [Option.isSome_none, Bool.false_eq_true, if_false, Bool.or_self]
        split
        · rfl
        · exact hr _
      | some ce =>
        simp only
        split
        · rfl
        · simp only
          split
          · rfl
          · split
            · rfl
            · split
              · rfl
              · exact hr _

/-- What the client's connection and the panic flag are after a loop. -/
def Visible (x : St × TW × Bool × Bool) : St × Bool := (x.1, x.2.2.2)

/-- The second `Write` of a split, or nothing when the first one failed. -/
def thenLoop (w : World) (tb : Tables) (G : Nat) (b : Bytes) (r1 : St × TW × Bool × Bool) : St × TW × Bool × Bool :=
  if (r1.2.2.1 || r1.2.2.2) = true then r1 else twLoop w tb G r1.1 r1.2.1 b

theorem visible_err (w : World) (tb : Tables) (n : Nat) (st : St) (t : TW) (d : Bytes) (h : t.err = true) :
    Visible (twLoop w tb (n + 1) st t d) = (st, false) := by
  rw [twLoop_err w tb n st t d h]; rfl

/-- **Splitting the backend's output across two `Write` calls changes nothing the client sees.** -/
theorem twLoop_split (w : World) (tb : Tables) (b : Bytes) (G : Nat) (hG : 2 * b.length + 2 ≤ G) :
    ∀ (F : Nat) (st : St) (t : TW) (a : Bytes), TwInv t → (t.err = true ∨ t.buffer.isSome = true) →
      muT t (a ++ b) < F →
      Visible (twLoop w tb F st t (a ++ b)) = Visible (thenLoop w tb G b (twLoop w tb F st t a)) := by
  intro F
  induction F with
  | zero => intro _ _ _ _ _ h; omega
  | succ m ih =>
    intro st t a hinv hbuf hmu
    obtain ⟨G', rfl⟩ : ∃ G', G = G' + 1 := ⟨G - 1, by omega⟩
    by_cases herr : t.err = true
    · -- latched: nothing happens in either case
      rw [visible_err w tb m st t _ herr]
      unfold thenLoop
      rw [twLoop_err w tb m st t a herr]
      simp [Visible]
    · have herrf : t.err = false := by simpa using herr
      have hsome : t.buffer.isSome = true := by
        rcases hbuf with h | h
        · exact absurd h herr
        · exact h
      by_cases hshort : (a.length : Int) < t.expecting - ((t.buffer.getD []).length : Int)
      · -- `a` does not complete what is in progress: it is buffered, `b` continues from there
        have hneg : ¬ (t.expecting - ((t.buffer.getD []).length : Int) < 0) := by omega
        have h1 : twLoop w tb (m + 1) st t a = (st, { t with buffer := some (t.buffer.getD [] ++ a) }, false, false) := by
          unfold twLoop
          simp only [herr, Bool.false_eq_true, if_false, hneg, hshort, if_true]
        rw [twLoop_prebuffer w tb m st t a b herrf hsome hshort]
        unfold thenLoop
        rw [h1]
        simp only [Bool.or_self, Bool.false_eq_true, if_false]
        have hinv1 : TwInv ({ t with buffer := some (t.buffer.getD [] ++ a) } : TW) := by
          intro _ hw
          obtain ⟨he, _⟩ := hinv herrf hw
          refine ⟨he, ?_⟩
          simp only [Option.getD_some, List.length_append]
          rw [he] at hshort; omega
        rw [twLoop_any_fuel w tb st _ b hinv1 (m + 1) (G' + 1)
          (by unfold muT at hmu ⊢; simp only [List.length_append] at hmu; simp only at hmu ⊢; split at hmu <;> split <;> simp_all <;> omega)
          (by unfold muT; split <;> omega)]
      · by_cases hneg : (t.expecting - ((t.buffer.getD []).length : Int)) < 0
        · have e1 : ∀ d, twLoop w tb (m + 1) st t d = (st, t, true, true) := by
            intro d; unfold twLoop; simp [herr, hneg]
          rw [e1, e1]; simp [thenLoop]
        · have hk : (t.expecting - ((t.buffer.getD []).length : Int)).toNat ≤ a.length := by omega
          have htake : (a ++ b).take (t.expecting - ((t.buffer.getD []).length : Int)).toNat
              = a.take (t.expecting - ((t.buffer.getD []).length : Int)).toNat := List.take_append_of_le_length hk
          have hdrop : (a ++ b).drop (t.expecting - ((t.buffer.getD []).length : Int)).toNat
              = a.drop (t.expecting - ((t.buffer.getD []).length : Int)).toNat ++ b := List.drop_append_of_le_length hk
          have hlenab : ¬ (((a ++ b).length : Nat) : Int) < t.expecting - ((t.buffer.getD []).length : Int) := by
            simp only [List.length_append]; omega
          have hrest : (a.drop (t.expecting - ((t.buffer.getD []).length : Int)).toNat).length
              = a.length - (t.expecting - ((t.buffer.getD []).length : Int)).toNat := List.length_drop
          unfold twLoop
          simp only [herr, Bool.false_eq_true, if_false, hneg, hshort, hlenab, htake, hdrop]
          by_cases hw : t.writingEnvelope = true
          · -- an envelope is completed by `a`
            obtain ⟨hexp, hgot⟩ := hinv herrf hw
            simp only [hw, if_true]
            split
            · split
              · simp [thenLoop]
              · split
                · simp [thenLoop]
                · apply ih
                  · intro _ h; simp at h
                  · right; rfl
                  · unfold muT at hmu ⊢
                    simp only [hw, if_true, Bool.false_eq_true, if_false, List.length_append, hrest] at hmu ⊢
                    rw [hexp] at hk ⊢
                    omega
            · simp [thenLoop]
          · -- a message is completed by `a`
            have hwf : t.writingEnvelope = false := by simpa using hw
            simp only [hwf, Bool.false_eq_true, if_false]
            have hm : ∃ m', m = m' + 1 := by
              unfold muT at hmu; simp only [hwf, Bool.false_eq_true, if_false] at hmu
              exact ⟨m - 1, by omega⟩
            obtain ⟨m', rfl⟩ := hm
            have hwr := fun tt => twFlushMessage_writer w tb st tt
            have hlat := fun tt => twFlushMessage_trailer_latched w tb st tt
            have hbf := fun tt => twFlushMessage_buffer w tb st tt
            generalize hr : twFlushMessage w tb st _ = r
            have hwr' : r.2.2.1 = none → r.2.2.2 = false → (r.2.1.err = true ∨ r.2.1.buffer = some []) := by
              rw [← hr]; exact hwr _
            have hbf' : r.2.1.buffer.isSome = true := by
              rw [← hr]; exact hbf _ rfl
            have hlat' : r.2.1.latest.trailer = true → r.2.2.1 = none → r.2.2.2 = false → r.2.1.err = true := by
              rw [← hr]; intro h; rw [twFlushMessage_latest] at h; exact hlat _ h
            obtain ⟨s1, t1, err, p⟩ := r
            simp only at hwr' hbf' hlat' ⊢
            by_cases hp : p = true
            · simp [hp, thenLoop]
            · have hpf : p = false := by simpa using hp
              simp only [hp, Bool.false_eq_true, if_false]
              cases err with
              | some e => simp [thenLoop]
              | none =>
                simp only
                by_cases htr : t1.latest.trailer = true
                · -- the end of the stream was handled: the writer is latched, nothing else is visible
                  have he1 : t1.err = true := hlat' htr rfl hpf
                  have hL : ∀ d, Visible (twLoop w tb (m' + 1) s1 { t1 with expecting := 5, writingEnvelope := true } d) = (s1, false) :=
                    fun d => visible_err w tb m' s1 _ d he1
                  have hR : ∀ d, Visible (twLoop w tb (G' + 1) s1 t1 d) = (s1, false) := fun d => visible_err w tb G' s1 t1 d he1
                  simp only [htr, Bool.true_and]
                  by_cases h1 : (a.drop (t.expecting - ((t.buffer.getD []).length : Int)).toNat).isEmpty = true
                  · have h1' : a.drop (t.expecting - ((t.buffer.getD []).length : Int)).toNat = [] := List.isEmpty_iff.mp h1
                    simp only [h1', List.nil_append, List.isEmpty_nil, if_true]
                    by_cases h2 : b.isEmpty = true
                    · simp only [h2, if_true]
                      unfold thenLoop
                      simp only [Bool.or_self, Bool.false_eq_true, if_false]
                      rw [hR]; rfl
                    · simp only [h2, Bool.false_eq_true, if_false]
                      unfold thenLoop
                      simp only [Bool.or_self, Bool.false_eq_true, if_false]
                      rw [hL, hR]
                  · have h3 : (a.drop (t.expecting - ((t.buffer.getD []).length : Int)).toNat ++ b).isEmpty = false := by
                      cases hd : a.drop (t.expecting - ((t.buffer.getD []).length : Int)).toNat with
                      | nil => rw [hd] at h1; simp at h1
                      | cons x xs => rfl
                    simp only [h1, h3, Bool.false_eq_true, if_false]
                    rw [hL]
                    unfold thenLoop
                    rw [twLoop_err w tb m' s1 ({ t1 with expecting := 5, writingEnvelope := true } : TW) _ he1]
                    simp [Visible]
                · simp only [htr, Bool.false_and, Bool.false_eq_true, if_false]
                  apply ih
                  · intro he _
                    rcases hwr' rfl hpf with hl | hempty
                    · simp only at he; rw [hl] at he; cases he
                    · exact ⟨rfl, by simp [hempty]⟩
                  · right; exact hbf'
                  · unfold muT at hmu ⊢
                    simp only [hwf, if_true, Bool.false_eq_true, if_false, List.length_append, hrest] at hmu ⊢
                    omega

end Vanguard
