import Vanguard.Model.Validate
/-! Header-map algebra and preservation of application headers on the request side. -/
namespace Vanguard
open Vanguard

theorem Hdr.values_del_ne (h : Hdr) (a b : Bytes) (hne : canonKey a ≠ canonKey b) :
    (Hdr.del h a).values b = h.values b := by
  unfold Hdr.values Hdr.del
  induction h with
  | nil => rfl
  | cons e rest ih =>
    simp only [List.filter_cons]
    by_cases h1 : e.1 = canonKey a
    · have : (e.1 != canonKey a) = false := by simp [h1]
      have h2 : (e.1 == canonKey b) = false := by
        simp only [beq_eq_false_iff_ne, ne_eq]; rw [h1]; exact hne
      simp only [this, Bool.false_eq_true, if_false, List.find?_cons, h2]
      exact ih
    · have : (e.1 != canonKey a) = true := by simp [h1]
      simp only [this, if_true, List.find?_cons]
      by_cases h2 : (e.1 == canonKey b) = true
      · simp [h2]
      · simp only [h2]; exact ih

theorem Hdr.values_append_ne (h : Hdr) (k : Bytes) (vs : List Bytes) (b : Bytes) (hne : k ≠ canonKey b) :
    Hdr.values (h ++ [(k, vs)]) b = h.values b := by
  unfold Hdr.values
  rw [List.find?_append]
  have : ([(k, vs)] : Hdr).find? (fun e => e.1 == canonKey b) = none := by
    simp [hne]
  rw [this]
  cases List.find? (fun e => e.1 == canonKey b) h <;> rfl

theorem Hdr.values_set_ne (h : Hdr) (a v b : Bytes) (hne : canonKey a ≠ canonKey b) :
    (Hdr.set h a v).values b = h.values b := by
  unfold Hdr.set
  rw [Hdr.values_append_ne _ _ _ _ hne, Hdr.values_del_ne _ _ _ hne]

theorem setIf_values_ne (h : Hdr) (c : Bool) (a v b : Bytes) (hne : canonKey a ≠ canonKey b) :
    (setIf h c a v).values b = h.values b := by
  unfold setIf; split
  · exact Hdr.values_set_ne h a v b hne
  · rfl


/-- Header names the protocol handlers read, delete or set. Everything else is application metadata. -/
def controlNames : List Bytes :=
  [s "Content-Type", s "Content-Length", s "Content-Encoding", s "Accept-Encoding", s "Te", s "Grpc-Timeout",
   s "Grpc-Encoding", s "Grpc-Accept-Encoding", s "Connect-Timeout-Ms", s "Connect-Content-Encoding",
   s "Connect-Accept-Encoding", s "Connect-Protocol-Version"]

def NotControl (k : Bytes) : Prop := ∀ c ∈ controlNames, canonKey c ≠ canonKey k

theorem grpcExtract_preserves (a b : Bytes) (h : Hdr) (rm : ReqMeta) (h' : Hdr) (k : Bytes) (hk : NotControl k)
    (hex : grpcExtractRequestMeta a b h = some (rm, h')) : h'.values k = h.values k := by
  unfold grpcExtractRequestMeta at hex
  split at hex
  · simp at hex
  · simp only [Option.some.injEq, Prod.mk.injEq] at hex
    rw [← hex.2]
    rw [Hdr.values_del_ne _ _ _ (hk _ (by simp [controlNames])),
        Hdr.values_del_ne _ _ _ (hk _ (by simp [controlNames])),
        Hdr.values_del_ne _ _ _ (hk _ (by simp [controlNames])),
        Hdr.values_del_ne _ _ _ (hk _ (by simp [controlNames]))]

/-- **Request side.** Whatever the client protocol, extracting its control headers leaves every
    other header (name and all values) untouched. -/
theorem extract_preserves (c : ClientForm) (q : Query) (h : Hdr) (rm : ReqMeta) (h' : Hdr) (k : Bytes)
    (hk : NotControl k) (hex : c.extractRequestHeaders q h = some (rm, h')) : h'.values k = h.values k := by
  have hd : ∀ (h : Hdr) (a : Bytes), a ∈ controlNames → (Hdr.del h a).values k = h.values k :=
    fun h a ha => Hdr.values_del_ne h a k (hk a ha)
  cases c <;> simp only [ClientForm.extractRequestHeaders] at hex
  · -- connectGet
    split at hex
    · simp at hex
    · simp only [Option.some.injEq, Prod.mk.injEq] at hex
      rw [← hex.2]
      repeat rw [hd _ _ (by simp [controlNames])]
  · -- connectPost
    split at hex
    · simp at hex
    · simp only [Option.some.injEq, Prod.mk.injEq] at hex
      rw [← hex.2]
      repeat rw [hd _ _ (by simp [controlNames])]
  · -- connectStream
    split at hex
    · simp at hex
    · simp only [Option.some.injEq, Prod.mk.injEq] at hex
      rw [← hex.2]
      repeat rw [hd _ _ (by simp [controlNames])]
  · -- grpc
    rw [grpcExtract_preserves _ _ _ _ _ k hk hex, hd _ _ (by simp [controlNames])]
  · exact grpcExtract_preserves _ _ _ _ _ k hk hex
  · simp at hex

/-- **Request side, second half.** Adding the target protocol's control headers touches no other header. -/
theorem add_request_headers_preserves (p : ServerForm) (m : ReqMeta) (h : Hdr) (k : Bytes) (hk : NotControl k) :
    (p.addRequestHeaders m h).values k = h.values k := by
  have hs : ∀ (h : Hdr) (a v : Bytes), a ∈ controlNames → (h.set a v).values k = h.values k :=
    fun h a v ha => Hdr.values_set_ne h a v k (hk a ha)
  have hsi : ∀ (h : Hdr) (c : Bool) (a v : Bytes), a ∈ controlNames → (setIf h c a v).values k = h.values k :=
    fun h c a v ha => setIf_values_ne h c a v k (hk a ha)
  cases p <;> simp only [ServerForm.addRequestHeaders]
  all_goals (repeat' split)
  all_goals (repeat (first | rw [hs _ _ _ (by simp [controlNames])] | rw [hsi _ _ _ _ (by simp [controlNames])]))


/-- **Request headers survive validation.** For every accepted request, every header that is not a
    protocol control header is, after `validate`, exactly what the client sent. -/
theorem validate_preserves_headers (w : World) (t : TConf) (r : Req) (o : Op) (k : Bytes) (hk : NotControl k)
    (hv : validate w t r = .ok o) : o.headers.values k = r.headers.values k := by
  have hd : ∀ (h : Hdr) (a : Bytes), a ∈ controlNames → (Hdr.del h a).values k = h.values k :=
    fun h a ha => Hdr.values_del_ne h a k (hk a ha)
  unfold validate at hv
  split at hv
  · simp at hv
  · rename_i c _
    split at hv
    · simp at hv
    · split at hv
      · simp at hv
      · rename_i m _
        split at hv
        · simp at hv
        · split at hv
          · simp at hv
          · split at hv
            · simp at hv
            · split at hv
              · simp at hv
              · rename_i rm h' hex
                simp only at hv
                repeat' split at hv
                all_goals first
                  | (simp at hv; done)
                  | (simp only [Except.ok.injEq] at hv
                     rw [← hv]
                     simp only
                     rw [hd _ _ (by simp [controlNames]), hd _ _ (by simp [controlNames]), hd _ _ (by simp [controlNames])]
                     exact extract_preserves c r.query r.headers rm h' k hk hex)

end Vanguard
