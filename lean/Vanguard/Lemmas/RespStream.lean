import Vanguard.Lemmas.Chunking
import Vanguard.Lemmas.WriteSplit
namespace Vanguard
open Vanguard

/-- The message bytes of a response body (end frames and error bodies left out). -/
def rawBytes (items : List Item) : Bytes :=
  items.flatMap fun i => match i with
    | .raw b => b
    | _ => []

theorem rawBytes_write (k : Sink) (b : Bytes) : rawBytes (k.write b).items = rawBytes k.items ++ b := by
  unfold Sink.write
  by_cases hb : b.isEmpty = true
  · have : b = [] := by simpa using hb
    subst this
    simp only [List.isEmpty_nil, if_true, List.append_nil]
    split <;> rfl
  · simp only [hb, Bool.false_eq_true, if_false]
    split <;> simp [rawBytes, List.flatMap_append]

/-- What the client is to receive for one frame of the backend: its own envelope and the converted message. -/
def respConverted (w : World) (st : St) (cc : Enveloper) (env : Envelope) (payload : Bytes) : Option Bytes :=
  match transformMsg w st.op.conf.maxMsg st.rw.sameRespCodec true env.compressed st.rw.cRespComp st.rw.cRespComp
          st.op.scodec st.op.ccodec payload with
  | .ok out =>
    if out.length > st.op.conf.maxMsg then none
    else some (cc.encode { compressed := env.compressed && st.rw.cRespComp.isSome, length := out.length } ++ out)
  | .error _ => none

def respConvertedAll (w : World) (st : St) (se cc : Enveloper) : List Frame → Option Bytes
  | [] => some []
  | x :: xs =>
    match se.decode x.f x.a x.b x.c x.d with
    | none => none
    | some env =>
      match respConverted w st cc env x.payload, respConvertedAll w st se cc xs with
      | some b, some bs => some (b ++ bs)
      | _, _ => none

/-- The re-encoding writer between two messages. -/
structure TW.AtStart (t : TW) : Prop where
  err : t.err = false
  buf : t.buffer = some []
  exp : t.expecting = 5
  we : t.writingEnvelope = true

/-- Same response writer and operation, another connection state. -/
structure SameRw (a b : St) : Prop where
  rw : b.rw = a.rw
  op : b.op = a.op

theorem respConvertedAll_same (w : World) (a b : St) (h : SameRw a b) (se cc : Enveloper) :
    ∀ fs, respConvertedAll w b se cc fs = respConvertedAll w a se cc fs := by
  intro fs
  induction fs with
  | nil => rfl
  | cons x xs ih =>
    simp only [respConvertedAll, respConverted]
    rw [h.rw, h.op, ih]

/-- One round of the loop: a complete, legal envelope. -/
theorem twLoop_envelope (w : World) (tb : Tables) (fuel : Nat) (st : St) (t : TW) (f a b c d : UInt8) (data : Bytes)
    (se : Enveloper) (env : Envelope) (hse : st.op.serverEnveloper = some se) (ht : t.AtStart)
    (hdec : se.decode f a b c d = some env) (hfit : ¬ env.length > st.op.conf.maxMsg) :
    twLoop w tb (fuel + 1) st t (f :: a :: b :: c :: d :: data) =
      twLoop w tb fuel st { t with buffer := some [], expecting := env.length, writingEnvelope := false,
                                   msgCompressed := env.compressed, latest := env } data := by
  rw [twLoop]
  simp only [ht.err, ht.buf, ht.exp, ht.we, Bool.false_eq_true, if_false, Option.getD_some, List.length_nil,
    Int.natCast_zero, Int.sub_zero, List.length_cons, List.nil_append, if_true]
  have hneg : ¬ ((5 : Int) < 0) := by omega
  have hlt : ¬ ((data.length + 1 + 1 + 1 + 1 + 1 : Nat) : Int) < 5 := by omega
  simp only [hneg, hlt, if_false, show (5 : Int).toNat = 5 from rfl, List.take, List.drop, hse, hdec, hfit]

/-- One round of the loop: a complete message that converts. -/
theorem twLoop_message (w : World) (tb : Tables) (fuel : Nat) (st : St) (t : TW) (payload rest out : Bytes)
    (se cc : Enveloper) (env : Envelope)
    (hb : st.rw.buf = none) (hse : st.op.serverEnveloper = some se) (hcc : st.op.clientEnveloper = some cc)
    (h1 : t.err = false) (h2 : t.buffer = some []) (h3 : t.expecting = env.length) (h4 : t.writingEnvelope = false)
    (h5 : t.msgCompressed = env.compressed) (h6 : t.latest = env)
    (hnt : env.trailer = false) (hlen : env.length = payload.length)
    (htr : transformMsg w st.op.conf.maxMsg st.rw.sameRespCodec true env.compressed st.rw.cRespComp st.rw.cRespComp
      st.op.scodec st.op.ccodec payload = .ok out) (hol : ¬ out.length > st.op.conf.maxMsg) :
    ∃ st' t', twLoop w tb (fuel + 1) st t (payload ++ rest) = twLoop w tb fuel st' t' rest ∧
      SameRw st st' ∧ t'.AtStart ∧
      rawBytes st'.sink.items = rawBytes st.sink.items ++
        (cc.encode { compressed := env.compressed && st.rw.cRespComp.isSome, length := out.length } ++ out) ∧
      st'.sink.flushedN = some st'.sink.items.length := by
  rw [twLoop]
  simp only [h1, h2, h3, h4, Bool.false_eq_true, if_false, Option.getD_some, List.length_nil, Int.natCast_zero, Int.sub_zero, List.nil_append]
  have hneg : ¬ ((env.length : Int) < 0) := by omega
  have hlt : ¬ (((payload ++ rest).length : Nat) : Int) < (env.length : Int) := by
    rw [List.length_append]; omega
  simp only [hneg, hlt, if_false, Int.toNat_natCast]
  have htake : (payload ++ rest).take env.length = payload := by rw [hlen]; simp
  have hdrop : (payload ++ rest).drop env.length = rest := by rw [hlen]; simp
  rw [htake, hdrop]
  unfold twFlushMessage
  simp only [h6, h5, hnt, Bool.false_eq_true, if_false, Option.getD_some, htr, hcc, hol, writeDown, hb, Option.isSome_none,
    Bool.or_self, Bool.and_false, Option.isSome_some]
  have hl : ∀ (s : St) (tt : TW), (twReset s tt).latest = tt.latest := by
    intro s tt; unfold twReset; split <;> rfl
  simp only [hl, hnt, Bool.false_and, Bool.false_eq_true, if_false]
  have hfm : ∀ (s : St), s.rw.buf = none → flushMessage s = { s with sink := s.sink.flush } := by
    intro s h; unfold flushMessage; simp [h]
  refine ⟨_, _, rfl, ⟨by rw [hfm _ (by exact hb)], by rw [hfm _ (by exact hb)]⟩, ?_, ?_, ?_⟩
  · unfold twReset
    simp only [flushMessage, hb, Option.isSome_none, Bool.false_eq_true, if_false, hse, Option.isSome_some, if_true]
    exact ⟨rfl, rfl, rfl, rfl⟩
  · simp only [flushMessage, hb, Option.isSome_none, Bool.false_eq_true, if_false, Sink.flush]
    rw [rawBytes_write, rawBytes_write, List.append_assoc]
  · simp only [flushMessage, hb, Option.isSome_none, Bool.false_eq_true, if_false, Sink.flush]

/-- **A well-formed response stream on the re-encoding path reaches the client as exactly its messages,
    converted, each under the client's envelope, in order, and flushed**: the loop of
    `transformingWriter.Write` on the bytes of a sequence of legal backend frames. -/
theorem twLoop_clean_stream (w : World) (tb : Tables) (se cc : Enveloper) :
    ∀ (fs : List Frame) (fuel : Nat) (st : St) (t : TW) (outs : Bytes),
      2 * fs.length < fuel →
      st.rw.buf = none → st.op.serverEnveloper = some se → st.op.clientEnveloper = some cc → t.AtStart →
      (∀ x ∈ fs, x.ok se st.op.conf.maxMsg) → respConvertedAll w st se cc fs = some outs →
      (twLoop w tb fuel st t (framesBytes fs)).2.2.1 = false ∧ (twLoop w tb fuel st t (framesBytes fs)).2.2.2 = false ∧
      rawBytes (twLoop w tb fuel st t (framesBytes fs)).1.sink.items = rawBytes st.sink.items ++ outs ∧
      (fs ≠ [] → (twLoop w tb fuel st t (framesBytes fs)).1.sink.flushedN
                  = some (twLoop w tb fuel st t (framesBytes fs)).1.sink.items.length) := by
  intro fs
  induction fs with
  | nil =>
    intro fuel st t outs hf hb hse hcc ht _ hconv
    simp only [respConvertedAll, Option.some.injEq] at hconv
    subst hconv
    obtain ⟨m, rfl⟩ : ∃ m, fuel = m + 1 := ⟨fuel - 1, by omega⟩
    rw [show framesBytes [] = [] from rfl, twLoop]
    simp only [ht.err, ht.buf, ht.exp, Bool.false_eq_true, if_false, Option.getD_some, List.length_nil, Int.natCast_zero,
      Int.sub_zero]
    have h1 : ¬ ((5 : Int) < 0) := by omega
    have h2 : (0 : Int) < 5 := by omega
    simp only [h1, h2, if_false, if_true, List.append_nil]
    exact ⟨by simp, by simp, by simp, fun h => absurd rfl h⟩
  | cons x xs ih =>
    intro fuel st t outs hf hb hse hcc ht hok hconv
    obtain ⟨env, hdec, hnt, hlen, hfit⟩ := hok x (List.mem_cons_self)
    obtain ⟨m, rfl⟩ : ∃ m, fuel = m + 2 := ⟨fuel - 2, by simp only [List.length_cons] at hf; omega⟩
    have hbytes : framesBytes (x :: xs) = x.f :: x.a :: x.b :: x.c :: x.d :: (x.payload ++ framesBytes xs) := by
      simp [framesBytes, Frame.bytes]
    simp only [respConvertedAll, hdec] at hconv
    cases hc1 : respConverted w st cc env x.payload with
    | none => simp [hc1] at hconv
    | some b1 =>
      cases hc2 : respConvertedAll w st se cc xs with
      | none => simp [hc1, hc2] at hconv
      | some bs =>
        simp only [hc1, hc2, Option.some.injEq] at hconv
        subst hconv
        -- the conversion of this frame
        have hc1' := hc1
        unfold respConverted at hc1'
        cases htr : transformMsg w st.op.conf.maxMsg st.rw.sameRespCodec true env.compressed st.rw.cRespComp st.rw.cRespComp
            st.op.scodec st.op.ccodec x.payload with
        | error e => rw [htr] at hc1'; cases hc1'
        | ok out =>
          rw [htr] at hc1'
          simp only at hc1'
          by_cases hol : out.length > st.op.conf.maxMsg
          · rw [if_pos hol] at hc1'; cases hc1'
          · rw [if_neg hol] at hc1'
            simp only [Option.some.injEq] at hc1'
            subst hc1'
            rw [hbytes, twLoop_envelope w tb (m + 1) st t x.f x.a x.b x.c x.d _ se env hse ht hdec hfit]
            obtain ⟨st', t', heq, hsame, hat, hraw, hfl⟩ :=
              twLoop_message w tb m st ({ t with buffer := some [], expecting := env.length, writingEnvelope := false, msgCompressed := env.compressed, latest := env }) x.payload (framesBytes xs) out se cc env hb hse hcc ht.err rfl rfl rfl rfl rfl
                hnt hlen htr hol
            rw [heq]
            have hb' : st'.rw.buf = none := by rw [hsame.rw]; exact hb
            have := ih m st' t' bs (by simp only [List.length_cons] at hf; omega) hb'
              (by rw [hsame.op]; exact hse) (by rw [hsame.op]; exact hcc) hat
              (fun y hy => by rw [hsame.op]; exact hok y (List.mem_cons_of_mem _ hy))
              (by rw [respConvertedAll_same w st st' hsame se cc xs]; exact hc2)
            obtain ⟨r1, r2, r3, r4⟩ := this
            refine ⟨r1, r2, ?_, fun _ => ?_⟩
            · rw [r3, hraw, List.append_assoc]
            · by_cases hxs : xs = []
              · subst hxs
                -- nothing more to process: the state after this frame
                obtain ⟨m', rfl⟩ : ∃ m', m = m' + 1 := ⟨m - 1, by simp only [List.length_cons, List.length_nil] at hf; omega⟩
                rw [show framesBytes [] = [] from rfl, twLoop]
                simp only [hat.err, hat.buf, hat.exp, Bool.false_eq_true, if_false, Option.getD_some, List.length_nil,
                  Int.natCast_zero, Int.sub_zero]
                have h1 : ¬ ((5 : Int) < 0) := by omega
                have h2 : (0 : Int) < 5 := by omega
                simp only [h1, h2, if_false, if_true]
                exact hfl
              · exact r4 hxs

theorem framesBytes_length (fs : List Frame) : fs.length ≤ (framesBytes fs).length := by
  induction fs with
  | nil => simp
  | cons x xs ih =>
    have : framesBytes (x :: xs) = x.bytes ++ framesBytes xs := by simp [framesBytes]
    rw [this, List.length_append]
    simp only [List.length_cons, Frame.bytes, List.length_append, List.length_nil]
    omega

/-- **C01, response direction, re-encoding path**: the first `Write` of a backend that hands over a whole
    well-formed response stream - a sequence of legal frames in its own framing - puts on the client's
    connection exactly those messages, each converted (decompressed, re-encoded, recompressed as the
    negotiation says) and under the client's envelope, in order, and flushes them; no error, no panic.
    (`write_split_does_not_matter` in C08 extends this to the same bytes written in pieces.) -/
theorem twWrite_clean_stream (w : World) (tb : Tables) (se cc : Enveloper) (st : St) (fs : List Frame) (outs : Bytes)
    (hb : st.rw.buf = none) (hse : st.op.serverEnveloper = some se) (hcc : st.op.clientEnveloper = some cc)
    (hok : ∀ x ∈ fs, x.ok se st.op.conf.maxMsg) (hconv : respConvertedAll w st se cc fs = some outs) :
    (twWrite w tb st {} (framesBytes fs)).2.2.1 = false ∧ (twWrite w tb st {} (framesBytes fs)).2.2.2 = false ∧
    rawBytes (twWrite w tb st {} (framesBytes fs)).1.sink.items = rawBytes st.sink.items ++ outs ∧
    (fs ≠ [] → (twWrite w tb st {} (framesBytes fs)).1.sink.flushedN
                = some (twWrite w tb st {} (framesBytes fs)).1.sink.items.length) := by
  have hstart : (twReset st {}).AtStart := by
    unfold twReset
    simp only [hse, Option.isSome_some, if_true]
    exact ⟨rfl, rfl, rfl, rfl⟩
  have hexp : ((twReset st {}).expecting == -1) = false := by rw [hstart.exp]; rfl
  have heq : twWrite w tb st {} (framesBytes fs) = twLoop w tb (2 * (framesBytes fs).length + 4) st (twReset st {}) (framesBytes fs) := by
    unfold twWrite
    simp only [Bool.false_eq_true, if_false, Option.isNone_none, if_true, hexp]
  rw [heq]
  exact twLoop_clean_stream w tb se cc fs _ st _ outs (by have := framesBytes_length fs; omega) hb hse hcc hstart hok hconv

end Vanguard
