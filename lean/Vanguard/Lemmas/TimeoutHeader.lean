import Vanguard.Lemmas.TargetHeaders
/-! The timeout header of the backend request (C12). -/
namespace Vanguard
open Vanguard

/-- The header in which each target protocol carries the timeout. -/
def ServerForm.timeoutHeader (p : ServerForm) : Option Bytes :=
  match p with
  | .grpc | .grpcWeb => some (s "Grpc-Timeout")
  | .connectStream | .connectUnary => some (s "Connect-Timeout-Ms")
  | .rest => none

/-- The text each target protocol writes for a timeout. -/
def ServerForm.timeoutText (p : ServerForm) (d : Int) : Bytes :=
  match p with
  | .grpc | .grpcWeb => grpcEncodeTimeout d
  | _ => connectEncodeTimeout d

private theorem t1 : canonKey (s "Te") ≠ canonKey (s "Grpc-Timeout") := by decide +kernel

/-- **A timeout the client supplied is in the backend request**, in the target protocol's own header, as exactly
    the text that protocol's encoder makes of it. -/
theorem target_timeout_header (p : ServerForm) (m : ReqMeta) (h : Hdr) (k : Bytes) (d : Int)
    (hp : p.timeoutHeader = some k) (hm : m.timeout = some d) (hne : (p.timeoutText d).isEmpty = false) :
    (p.addRequestHeaders m h).values k = [p.timeoutText d] := by
  cases p <;> simp only [ServerForm.timeoutHeader, Option.some.injEq, reduceCtorEq] at hp <;> subst hp <;>
    simp only [ServerForm.addRequestHeaders, hm, ServerForm.timeoutText] at hne ⊢
  case grpc =>
    have hc : (ServerForm.grpc == ServerForm.grpc) = true := by decide
    simp only [hc, if_true]
    rw [Hdr.values_set_ne _ _ _ _ t1, Hdr.values_set_same]
  case grpcWeb =>
    have hc : (ServerForm.grpcWeb == ServerForm.grpc) = false := by decide
    simp only [hc, Bool.false_eq_true, if_false, Hdr.values_set_same]
  case connectStream => simp only [Hdr.values_set_same]
  case connectUnary => simp only [hne, Bool.false_eq_true, if_false, Hdr.values_set_same]

private theorem n1 : canonKey (s "Content-Type") ≠ canonKey (s "Grpc-Timeout") := by decide +kernel
private theorem n2 : canonKey (s "Grpc-Encoding") ≠ canonKey (s "Grpc-Timeout") := by decide +kernel
private theorem n3 : canonKey (s "Grpc-Accept-Encoding") ≠ canonKey (s "Grpc-Timeout") := by decide +kernel
private theorem n4 : canonKey (s "Content-Type") ≠ canonKey (s "Connect-Timeout-Ms") := by decide +kernel
private theorem n5 : canonKey (s "Connect-Content-Encoding") ≠ canonKey (s "Connect-Timeout-Ms") := by decide +kernel
private theorem n6 : canonKey (s "Connect-Accept-Encoding") ≠ canonKey (s "Connect-Timeout-Ms") := by decide +kernel
private theorem n7 : canonKey (s "Content-Encoding") ≠ canonKey (s "Connect-Timeout-Ms") := by decide +kernel
private theorem n8 : canonKey (s "Accept-Encoding") ≠ canonKey (s "Connect-Timeout-Ms") := by decide +kernel
private theorem n9 : canonKey (s "Connect-Protocol-Version") ≠ canonKey (s "Connect-Timeout-Ms") := by decide +kernel

/-- **No timeout is invented**: without a client timeout the target protocol's timeout header is whatever the
    headers handed on already had (nothing, for a client of the same protocol family: `no_leftover_control_headers`). -/
theorem target_no_timeout_header (p : ServerForm) (m : ReqMeta) (h : Hdr) (k : Bytes)
    (hp : p.timeoutHeader = some k) (hm : m.timeout = none) :
    (p.addRequestHeaders m h).values k = h.values k := by
  cases p <;> simp only [ServerForm.timeoutHeader, Option.some.injEq, reduceCtorEq] at hp <;> subst hp <;>
    simp only [ServerForm.addRequestHeaders, hm]
  case grpc =>
    have hc : (ServerForm.grpc == ServerForm.grpc) = true := by decide
    simp only [hc, if_true]
    rw [Hdr.values_set_ne _ _ _ _ t1]
    simp only [setIf_values_ne _ _ _ _ _ n3, setIf_values_ne _ _ _ _ _ n2, Hdr.values_set_ne _ _ _ _ n1]
  case grpcWeb =>
    have hc : (ServerForm.grpcWeb == ServerForm.grpc) = false := by decide
    simp only [hc, Bool.false_eq_true, if_false]
    simp only [setIf_values_ne _ _ _ _ _ n3, setIf_values_ne _ _ _ _ _ n2, Hdr.values_set_ne _ _ _ _ n1]
  case connectStream =>
    simp only [setIf_values_ne _ _ _ _ _ n6, setIf_values_ne _ _ _ _ _ n5, Hdr.values_set_ne _ _ _ _ n4]
  case connectUnary =>
    simp only [Hdr.values_set_ne _ _ _ _ n9, setIf_values_ne _ _ _ _ _ n8, setIf_values_ne _ _ _ _ _ n7, Hdr.values_set_ne _ _ _ _ n4]

/-- The client's timeout as `extractProtocolRequestHeaders` of its protocol reads it off the request headers. -/
def ClientForm.timeoutOf (c : ClientForm) (h : Hdr) : Extracted :=
  match c with
  | .grpc | .grpcWeb => grpcExtractTimeout (h.get (s "Grpc-Timeout"))
  | .connectStream | .connectPost | .connectGet => connectExtractTimeout (h.get (s "Connect-Timeout-Ms"))
  | .rest => none

private theorem d1 : canonKey (s "Te") ≠ canonKey (s "Grpc-Timeout") := by decide +kernel

theorem extract_timeout (c : ClientForm) (q : Query) (h : Hdr) (rm : ReqMeta) (h' : Hdr)
    (hex : c.extractRequestHeaders q h = some (rm, h')) : c.timeoutOf h = some rm.timeout := by
  cases c <;> simp only [ClientForm.extractRequestHeaders, ClientForm.timeoutOf] at hex ⊢
  case grpc =>
    unfold grpcExtractRequestMeta at hex
    have hg : (Hdr.del h (s "Te")).get (s "Grpc-Timeout") = h.get (s "Grpc-Timeout") := by
      unfold Hdr.get; rw [Hdr.values_del_ne _ _ _ d1]
    rw [hg] at hex
    split at hex
    · simp at hex
    · rename_i t ht
      simp only [Option.some.injEq, Prod.mk.injEq] at hex
      rw [ht, ← hex.1]
  case grpcWeb =>
    unfold grpcExtractRequestMeta at hex
    split at hex
    · simp at hex
    · rename_i t ht
      simp only [Option.some.injEq, Prod.mk.injEq] at hex
      rw [ht, ← hex.1]
  case connectStream =>
    split at hex
    · simp at hex
    · rename_i t ht
      simp only [Option.some.injEq, Prod.mk.injEq] at hex
      rw [ht, ← hex.1]
  case connectPost =>
    split at hex
    · simp at hex
    · rename_i t ht
      simp only [Option.some.injEq, Prod.mk.injEq] at hex
      rw [ht, ← hex.1]
  case connectGet =>
    split at hex
    · simp at hex
    · rename_i t ht
      simp only [Option.some.injEq, Prod.mk.injEq] at hex
      rw [ht, ← hex.1]
  case rest => simp at hex

/-- The request metadata of a validated operation is what the client form's extraction gave. -/
theorem validate_timeout (w : World) (t : TConf) (r : Req) (o : Op) (hv : validate w t r = .ok o) :
    o.cform.timeoutOf r.headers = some o.reqMeta.timeout := by
  unfold validate at hv
  split at hv
  · simp at hv
  · rename_i c _
    split at hv
    · simp at hv
    · split at hv
      · simp at hv
      · rename_i m _
        split at hv
        · simp at hv
        · split at hv
          · simp at hv
          · split at hv
            · simp at hv
            · split at hv
              · simp at hv
              · rename_i rm h' hex
                have ht := extract_timeout c r.query r.headers rm h' hex
                simp only at hv
                repeat' split at hv
                all_goals first
                  | (simp at hv; done)
                  | (simp only [Except.ok.injEq] at hv
                     rw [← hv]
                     exact ht)
private theorem k1 : canonKey (s "Connect-Timeout-Ms") ≠ canonKey (s "Connect-Protocol-Version") := by decide +kernel

/-- **The fixed markers of the target protocol**: a gRPC backend request says `Te: trailers`, a unary Connect one
    `Connect-Protocol-Version: 1` - exactly once, whatever the client sent under these names. -/
theorem target_protocol_markers (p : ServerForm) (m : ReqMeta) (h : Hdr) :
    (p = .grpc → (p.addRequestHeaders m h).values (s "Te") = [s "trailers"]) ∧
    (p = .connectUnary → (p.addRequestHeaders m h).values (s "Connect-Protocol-Version") = [s "1"]) := by
  constructor
  · intro hp; subst hp
    simp only [ServerForm.addRequestHeaders]
    have hc : (ServerForm.grpc == ServerForm.grpc) = true := by decide
    simp only [hc, if_true, Hdr.values_set_same]
  · intro hp; subst hp
    simp only [ServerForm.addRequestHeaders]
    split
    · split <;> simp only [Hdr.values_set_ne _ _ _ _ k1, Hdr.values_set_same]
    · simp only [Hdr.values_set_same]
end Vanguard
