import Vanguard.Lemmas.Headers
import Vanguard.Model.Validate
/-! The control headers of the backend request agree with the negotiated target (C02). -/
namespace Vanguard
open Vanguard

theorem Hdr.find_del_same (h : Hdr) (k : Bytes) : (Hdr.del h k).find? (fun e => e.1 == canonKey k) = none := by
  unfold Hdr.del
  rw [List.find?_eq_none]
  intro e he
  have := (List.mem_filter.mp he).2
  simpa using this

/-- `Header.Set` then `Header.Values` of the same key. -/
theorem Hdr.values_set_same (h : Hdr) (k v : Bytes) : (Hdr.set h k v).values k = [v] := by
  unfold Hdr.set Hdr.values
  rw [List.find?_append, Hdr.find_del_same]
  simp

/-- The content type each target protocol prescribes for a codec. -/
def ServerForm.contentType (p : ServerForm) (codec : Bytes) : Option Bytes :=
  match p with
  | .grpc => some (s "application/grpc+" ++ codec)
  | .grpcWeb => some (s "application/grpc-web+" ++ codec)
  | .connectStream => some (s "application/connect+" ++ codec)
  | .connectUnary => some (s "application/" ++ codec)
  | .rest => none

/-- The header in which each target protocol announces the request compression. -/
def ServerForm.encodingHeader (p : ServerForm) : Option Bytes :=
  match p with
  | .grpc | .grpcWeb => some (s "Grpc-Encoding")
  | .connectStream => some (s "Connect-Content-Encoding")
  | .connectUnary => some (s "Content-Encoding")
  | .rest => none

private theorem ne1 : canonKey (s "Grpc-Encoding") ≠ canonKey (s "Content-Type") := by decide +kernel
private theorem ne2 : canonKey (s "Grpc-Accept-Encoding") ≠ canonKey (s "Content-Type") := by decide +kernel
private theorem ne3 : canonKey (s "Grpc-Timeout") ≠ canonKey (s "Content-Type") := by decide +kernel
private theorem ne4 : canonKey (s "Te") ≠ canonKey (s "Content-Type") := by decide +kernel
private theorem ne5 : canonKey (s "Connect-Content-Encoding") ≠ canonKey (s "Content-Type") := by decide +kernel
private theorem ne6 : canonKey (s "Connect-Accept-Encoding") ≠ canonKey (s "Content-Type") := by decide +kernel
private theorem ne7 : canonKey (s "Connect-Timeout-Ms") ≠ canonKey (s "Content-Type") := by decide +kernel
private theorem ne8 : canonKey (s "Content-Encoding") ≠ canonKey (s "Content-Type") := by decide +kernel
private theorem ne9 : canonKey (s "Accept-Encoding") ≠ canonKey (s "Content-Type") := by decide +kernel
private theorem ne10 : canonKey (s "Connect-Protocol-Version") ≠ canonKey (s "Content-Type") := by decide +kernel

/-- **The backend request carries the content type of the negotiated protocol and codec**, and only
    that one - whatever content type and other headers the client sent. -/
theorem target_content_type (p : ServerForm) (m : ReqMeta) (h : Hdr) (ct : Bytes)
    (hp : p.contentType m.codec = some ct) : (p.addRequestHeaders m h).values (s "Content-Type") = [ct] := by
  cases p <;> simp only [ServerForm.contentType, Option.some.injEq, reduceCtorEq] at hp <;> subst hp <;>
    simp only [ServerForm.addRequestHeaders]
  case grpc =>
    have hc : (ServerForm.grpc == ServerForm.grpc) = true := by decide
    simp only [hc, if_true]
    rw [Hdr.values_set_ne _ _ _ _ ne4]
    split <;> simp only [Hdr.values_set_ne _ _ _ _ ne3, setIf_values_ne _ _ _ _ _ ne2, setIf_values_ne _ _ _ _ _ ne1, Hdr.values_set_same]
  case grpcWeb =>
    have hc : (ServerForm.grpcWeb == ServerForm.grpc) = false := by decide
    simp only [hc, Bool.false_eq_true, if_false]
    split <;> simp only [Hdr.values_set_ne _ _ _ _ ne3, setIf_values_ne _ _ _ _ _ ne2, setIf_values_ne _ _ _ _ _ ne1, Hdr.values_set_same]
  case connectStream =>
    split <;> simp only [Hdr.values_set_ne _ _ _ _ ne7, setIf_values_ne _ _ _ _ _ ne6, setIf_values_ne _ _ _ _ _ ne5, Hdr.values_set_same]
  case connectUnary =>
    split
    · split <;> simp only [Hdr.values_set_ne _ _ _ _ ne7, Hdr.values_set_ne _ _ _ _ ne10, setIf_values_ne _ _ _ _ _ ne9,
        setIf_values_ne _ _ _ _ _ ne8, Hdr.values_set_same]
    · simp only [Hdr.values_set_ne _ _ _ _ ne10, setIf_values_ne _ _ _ _ _ ne9, setIf_values_ne _ _ _ _ _ ne8, Hdr.values_set_same]

private theorem g1 : canonKey (s "Grpc-Accept-Encoding") ≠ canonKey (s "Grpc-Encoding") := by decide +kernel
private theorem g2 : canonKey (s "Grpc-Timeout") ≠ canonKey (s "Grpc-Encoding") := by decide +kernel
private theorem g3 : canonKey (s "Te") ≠ canonKey (s "Grpc-Encoding") := by decide +kernel
private theorem c1 : canonKey (s "Connect-Accept-Encoding") ≠ canonKey (s "Connect-Content-Encoding") := by decide +kernel
private theorem c2 : canonKey (s "Connect-Timeout-Ms") ≠ canonKey (s "Connect-Content-Encoding") := by decide +kernel
private theorem u1 : canonKey (s "Accept-Encoding") ≠ canonKey (s "Content-Encoding") := by decide +kernel
private theorem u2 : canonKey (s "Connect-Protocol-Version") ≠ canonKey (s "Content-Encoding") := by decide +kernel
private theorem u3 : canonKey (s "Connect-Timeout-Ms") ≠ canonKey (s "Content-Encoding") := by decide +kernel

theorem setIf_values_same (h : Hdr) (k v : Bytes) : (setIf h true k v).values k = [v] := by
  unfold setIf; simp only [if_true]; exact Hdr.values_set_same h k v

/-- **A negotiated request compression is announced in the target protocol's own header**, with
    exactly that name as its only value. -/
theorem target_encoding_header (p : ServerForm) (m : ReqMeta) (h : Hdr) (k : Bytes)
    (hp : p.encodingHeader = some k) (hc : m.compression.isEmpty = false) :
    (p.addRequestHeaders m h).values k = [m.compression] := by
  have hne : (!m.compression.isEmpty) = true := by simp [hc]
  cases p <;> simp only [ServerForm.encodingHeader, Option.some.injEq, reduceCtorEq] at hp <;> subst hp <;>
    simp only [ServerForm.addRequestHeaders, hne]
  case grpc =>
    have hc' : (ServerForm.grpc == ServerForm.grpc) = true := by decide
    simp only [hc', if_true]
    rw [Hdr.values_set_ne _ _ _ _ g3]
    split <;> simp only [Hdr.values_set_ne _ _ _ _ g2, setIf_values_ne _ _ _ _ _ g1, setIf_values_same]
  case grpcWeb =>
    have hc' : (ServerForm.grpcWeb == ServerForm.grpc) = false := by decide
    simp only [hc', Bool.false_eq_true, if_false]
    split <;> simp only [Hdr.values_set_ne _ _ _ _ g2, setIf_values_ne _ _ _ _ _ g1, setIf_values_same]
  case connectStream =>
    split <;> simp only [Hdr.values_set_ne _ _ _ _ c2, setIf_values_ne _ _ _ _ _ c1, setIf_values_same]
  case connectUnary =>
    split
    · split <;> simp only [Hdr.values_set_ne _ _ _ _ u3, Hdr.values_set_ne _ _ _ _ u2, setIf_values_ne _ _ _ _ _ u1, setIf_values_same]
    · simp only [Hdr.values_set_ne _ _ _ _ u2, setIf_values_ne _ _ _ _ _ u1, setIf_values_same]

/-! ### no control header of the client's own protocol is left over -/

theorem Hdr.has_del_same (h : Hdr) (k : Bytes) : (Hdr.del h k).has k = false := by
  unfold Hdr.has Hdr.del
  rw [List.any_eq_false]
  intro e he
  have := (List.mem_filter.mp he).2
  simpa using this

theorem Hdr.has_del_of_not (h : Hdr) (a k : Bytes) (hn : h.has k = false) : (Hdr.del h a).has k = false := by
  unfold Hdr.has Hdr.del at *
  rw [List.any_eq_false] at *
  intro e he
  exact hn e (List.mem_filter.mp he).1

/-- The control headers of each client protocol (`extractProtocolRequestHeaders` reads and deletes them). -/
def ClientForm.ownControlNames (c : ClientForm) : List Bytes :=
  match c with
  | .grpc => [s "Te", s "Grpc-Timeout", s "Content-Type", s "Grpc-Encoding", s "Grpc-Accept-Encoding"]
  | .grpcWeb => [s "Grpc-Timeout", s "Content-Type", s "Grpc-Encoding", s "Grpc-Accept-Encoding"]
  | .connectStream => [s "Connect-Timeout-Ms", s "Content-Type", s "Connect-Content-Encoding", s "Connect-Accept-Encoding"]
  | .connectPost => [s "Connect-Timeout-Ms", s "Content-Type", s "Content-Encoding", s "Accept-Encoding", s "Connect-Protocol-Version"]
  | .connectGet => [s "Connect-Timeout-Ms", s "Accept-Encoding", s "Content-Type", s "Connect-Protocol-Version"]
  | .rest => []

theorem grpcExtract_removes (a b : Bytes) (h : Hdr) (rm : ReqMeta) (h' : Hdr)
    (hex : grpcExtractRequestMeta a b h = some (rm, h')) :
    h'.has (s "Grpc-Timeout") = false ∧ h'.has (s "Content-Type") = false ∧
    h'.has (s "Grpc-Encoding") = false ∧ h'.has (s "Grpc-Accept-Encoding") = false := by
  unfold grpcExtractRequestMeta at hex
  split at hex
  · simp at hex
  · simp only [Option.some.injEq, Prod.mk.injEq] at hex
    rw [← hex.2]
    refine ⟨?_, ?_, ?_, ?_⟩
    · exact Hdr.has_del_of_not _ _ _ (Hdr.has_del_of_not _ _ _ (Hdr.has_del_of_not _ _ _ (Hdr.has_del_same _ _)))
    · exact Hdr.has_del_of_not _ _ _ (Hdr.has_del_of_not _ _ _ (Hdr.has_del_same _ _))
    · exact Hdr.has_del_of_not _ _ _ (Hdr.has_del_same _ _)
    · exact Hdr.has_del_same _ _

/-- **No control header of the client's own protocol survives the extraction** (so none can
    contradict what the target protocol's headers say afterwards). -/
theorem extract_removes_own_controls (c : ClientForm) (q : Query) (h : Hdr) (rm : ReqMeta) (h' : Hdr)
    (hex : c.extractRequestHeaders q h = some (rm, h')) : ∀ k ∈ c.ownControlNames, h'.has k = false := by
  cases c <;> simp only [ClientForm.extractRequestHeaders] at hex
  case grpc =>
    obtain ⟨h1, h2, h3, h4⟩ := grpcExtract_removes _ _ _ _ _ hex
    have hte : h'.has (s "Te") = false := by
      unfold grpcExtractRequestMeta at hex
      split at hex
      · simp at hex
      · simp only [Option.some.injEq, Prod.mk.injEq] at hex
        rw [← hex.2]
        exact Hdr.has_del_of_not _ _ _ (Hdr.has_del_of_not _ _ _ (Hdr.has_del_of_not _ _ _ (Hdr.has_del_of_not _ _ _ (Hdr.has_del_same _ _))))
    intro k hk
    simp only [ClientForm.ownControlNames, List.mem_cons, List.mem_nil_iff, or_false] at hk
    rcases hk with rfl | rfl | rfl | rfl | rfl <;> assumption
  case grpcWeb =>
    obtain ⟨h1, h2, h3, h4⟩ := grpcExtract_removes _ _ _ _ _ hex
    intro k hk
    simp only [ClientForm.ownControlNames, List.mem_cons, List.mem_nil_iff, or_false] at hk
    rcases hk with rfl | rfl | rfl | rfl <;> assumption
  case connectStream =>
    split at hex
    · simp at hex
    · simp only [Option.some.injEq, Prod.mk.injEq] at hex
      rw [← hex.2]
      intro k hk
      simp only [ClientForm.ownControlNames, List.mem_cons, List.mem_nil_iff, or_false] at hk
      rcases hk with rfl | rfl | rfl | rfl
      · exact Hdr.has_del_of_not _ _ _ (Hdr.has_del_of_not _ _ _ (Hdr.has_del_of_not _ _ _ (Hdr.has_del_same _ _)))
      · exact Hdr.has_del_of_not _ _ _ (Hdr.has_del_of_not _ _ _ (Hdr.has_del_same _ _))
      · exact Hdr.has_del_of_not _ _ _ (Hdr.has_del_same _ _)
      · exact Hdr.has_del_same _ _
  case connectPost =>
    split at hex
    · simp at hex
    · simp only [Option.some.injEq, Prod.mk.injEq] at hex
      rw [← hex.2]
      intro k hk
      simp only [ClientForm.ownControlNames, List.mem_cons, List.mem_nil_iff, or_false] at hk
      rcases hk with rfl | rfl | rfl | rfl | rfl
      · exact Hdr.has_del_of_not _ _ _ (Hdr.has_del_of_not _ _ _ (Hdr.has_del_of_not _ _ _ (Hdr.has_del_of_not _ _ _ (Hdr.has_del_same _ _))))
      · exact Hdr.has_del_of_not _ _ _ (Hdr.has_del_of_not _ _ _ (Hdr.has_del_of_not _ _ _ (Hdr.has_del_same _ _)))
      · exact Hdr.has_del_of_not _ _ _ (Hdr.has_del_of_not _ _ _ (Hdr.has_del_same _ _))
      · exact Hdr.has_del_of_not _ _ _ (Hdr.has_del_same _ _)
      · exact Hdr.has_del_same _ _
  case connectGet =>
    split at hex
    · simp at hex
    · simp only [Option.some.injEq, Prod.mk.injEq] at hex
      rw [← hex.2]
      intro k hk
      simp only [ClientForm.ownControlNames, List.mem_cons, List.mem_nil_iff, or_false] at hk
      rcases hk with rfl | rfl | rfl | rfl
      · exact Hdr.has_del_of_not _ _ _ (Hdr.has_del_of_not _ _ _ (Hdr.has_del_of_not _ _ _ (Hdr.has_del_same _ _)))
      · exact Hdr.has_del_of_not _ _ _ (Hdr.has_del_of_not _ _ _ (Hdr.has_del_same _ _))
      · exact Hdr.has_del_of_not _ _ _ (Hdr.has_del_same _ _)
      · exact Hdr.has_del_same _ _
  case rest => simp at hex

/-- After `validate`, the request headers handed on contain no control header of the client's own
    protocol, and none of `Content-Encoding`, `Accept-Encoding`, `Content-Length`. -/
theorem validate_removes_own_controls (w : World) (t : TConf) (r : Req) (o : Op) (hv : validate w t r = .ok o) :
    (∀ k ∈ o.cform.ownControlNames, o.headers.has k = false) ∧
    o.headers.has (s "Content-Encoding") = false ∧ o.headers.has (s "Accept-Encoding") = false ∧
    o.headers.has (s "Content-Length") = false := by
  unfold validate at hv
  split at hv
  · simp at hv
  · rename_i c _
    split at hv
    · simp at hv
    · split at hv
      · simp at hv
      · rename_i m _
        split at hv
        · simp at hv
        · split at hv
          · simp at hv
          · split at hv
            · simp at hv
            · split at hv
              · simp at hv
              · rename_i rm h' hex
                have hown := extract_removes_own_controls c r.query r.headers rm h' hex
                simp only at hv
                repeat' split at hv
                all_goals first
                  | (simp at hv; done)
                  | (simp only [Except.ok.injEq] at hv
                     rw [← hv]
                     simp only
                     refine ⟨fun k hk => ?_, ?_, ?_, ?_⟩
                     · exact Hdr.has_del_of_not _ _ _ (Hdr.has_del_of_not _ _ _ (Hdr.has_del_of_not _ _ _ (hown k hk)))
                     · exact Hdr.has_del_of_not _ _ _ (Hdr.has_del_of_not _ _ _ (Hdr.has_del_same _ _))
                     · exact Hdr.has_del_of_not _ _ _ (Hdr.has_del_same _ _)
                     · exact Hdr.has_del_same _ _)

end Vanguard
