import Vanguard.Model.Run
/-! Segmentation independence of the primitive readers over the client's body. -/
namespace Vanguard

/-- All bytes the client will still deliver. -/
def Source.data (src : Source) : Bytes := src.chunks.flatten

theorem filter_nonempty_flatten (cs : List Bytes) : (cs.filter (fun c => !c.isEmpty)).flatten = cs.flatten := by
  induction cs with
  | nil => rfl
  | cons c rest ih =>
    cases c with
    | nil => simp [ih]
    | cons _ _ => simp [ih]

theorem filter_nonempty_nil_of_flatten (cs : List Bytes) (h : cs.flatten = []) :
    cs.filter (fun c => !c.isEmpty) = [] := by
  have hf := filter_nonempty_flatten cs
  rw [h] at hf
  cases hc : cs.filter (fun c => !c.isEmpty) with
  | nil => rfl
  | cons c rest =>
    rw [hc] at hf
    have hcm : c ∈ cs.filter (fun c => !c.isEmpty) := by rw [hc]; simp
    have hcne : c ≠ [] := by simpa using (List.mem_filter.mp hcm).2
    simp at hf; exact absurd hf.1 hcne

/-- A `Read` on an exhausted body reports how the body ends. -/
theorem Source.read_empty (src : Source) (n : Nat) (h : src.data = []) :
    src.read n = ([], some src.ending.err, { src with chunks := [] }) := by
  unfold Source.read
  rw [filter_nonempty_nil_of_flatten src.chunks h]

/-- One `Read(n)` with `n > 0` on a source that still has data returns a non-empty prefix of the
    remaining data and leaves the rest; an `io.EOF` can come along only with the very last bytes. -/
theorem Source.read_spec (src : Source) (n : Nat) (hn : 0 < n) (hd : src.data ≠ []) :
    let r := src.read n
    (r.2.1 = none ∨ (r.2.1 = some .eof ∧ r.2.2.data = [])) ∧
    r.1 ≠ [] ∧ r.1.length ≤ n ∧ r.1 ++ r.2.2.data = src.data ∧ r.2.2.ending = src.ending := by
  unfold Source.read Source.data
  have hf := filter_nonempty_flatten src.chunks
  cases hc : src.chunks.filter (fun c => !c.isEmpty) with
  | nil =>
    rw [hc] at hf
    exact absurd hf.symm (by simpa [Source.data] using hd)
  | cons c rest =>
    rw [hc] at hf
    have hcne : c ≠ [] := by
      have : c ∈ src.chunks.filter (fun c => !c.isEmpty) := by rw [hc]; simp
      simpa using (List.mem_filter.mp this).2
    have hrest : ∀ x ∈ rest, x ≠ [] := by
      intro x hx
      have : x ∈ src.chunks.filter (fun c => !c.isEmpty) := by rw [hc]; simp [hx]
      simpa using (List.mem_filter.mp this).2
    have hn0 : (n == 0) = false := by simp; omega
    simp only [hn0, Bool.false_eq_true, if_false]
    refine ⟨?_, ?_, by simp; omega, ?_, trivial⟩
    · by_cases he : ((if (c.drop n).isEmpty then rest else c.drop n :: rest).isEmpty && src.ending == .eofWithData) = true
      · right
        rw [if_pos he]
        refine ⟨rfl, ?_⟩
        have h1 : (if (c.drop n).isEmpty then rest else c.drop n :: rest).isEmpty = true := by
          simp only [Bool.and_eq_true] at he; exact he.1
        show (if (c.drop n).isEmpty then rest else c.drop n :: rest).flatten = []
        rw [List.isEmpty_iff.mp h1]; rfl
      · left; rw [if_neg he]
    · cases c with
      | nil => exact absurd rfl hcne
      | cons x xs => cases n with
        | zero => omega
        | succ m => simp
    · rw [← hf]
      split
      · rename_i hdn
        simp only [List.flatten_cons]
        have : c.take n = c := by
          have := List.take_append_drop n c
          rw [List.isEmpty_iff.mp hdn] at this; simpa using this
        rw [this]
      · simp only [List.flatten_cons, ← List.append_assoc, List.take_append_drop]

/-- **`io.ReadFull` / `io.CopyN` do not depend on how the body arrives in pieces.**  For every
    chunking of the same bytes: if at least `k` bytes are left, exactly the next `k` bytes are
    returned and the rest stays. -/
theorem readExactly_enough : ∀ (fuel : Nat) (src : Source) (k : Nat) (acc : Bytes),
    k < fuel → k ≤ src.data.length →
    ∃ src', readExactly fuel src k acc = (acc ++ src.data.take k, none, src') ∧
      src'.data = src.data.drop k ∧ src'.ending = src.ending := by
  intro fuel
  induction fuel with
  | zero => intro _ _ _ h; omega
  | succ fuel ih =>
    intro src k acc hf hk
    unfold readExactly
    by_cases hk0 : k = 0
    · subst hk0; exact ⟨src, by simp, by simp, rfl⟩
    · have hk0' : (k == 0) = false := by simpa using hk0
      simp only [hk0', Bool.false_eq_true, if_false]
      have hne : src.data ≠ [] := by intro h; rw [h] at hk; simp at hk; omega
      have hspec := Source.read_spec src k (by omega) hne
      generalize hr : src.read k = r at hspec
      obtain ⟨b, e, src1⟩ := r
      simp only at hspec
      obtain ⟨he, hb, hbl, hcat, hend⟩ := hspec
      have hlen : src.data.length = b.length + src1.data.length := by rw [← hcat]; simp
      have htake : b.take k = b := List.take_of_length_le hbl
      have hdrop : b.drop k = [] := List.drop_of_length_le hbl
      by_cases hfull : b.length ≥ k
      · simp only [hfull, if_true]
        refine ⟨src1, ?_, ?_, hend⟩
        · rw [← hcat, List.take_append, htake]
          have : k - b.length = 0 := by omega
          simp [this]
        · rw [← hcat, List.drop_append, hdrop]
          have : k - b.length = 0 := by omega
          simp [this]
      · simp only [hfull, if_false]
        -- more bytes are needed, so this was not the last piece and no EOF came along
        have he' : e = none := by
          rcases he with h | ⟨_, h2⟩
          · exact h
          · rw [h2] at hlen; simp at hlen; omega
        subst he'
        simp only
        obtain ⟨src', h1, h2, h3⟩ := ih src1 (k - b.length) (acc ++ b) (by
          have : 0 < b.length := List.length_pos_iff.mpr hb
          omega) (by omega)
        refine ⟨src', ?_, ?_, by rw [h3, hend]⟩
        · rw [h1]
          congr 1
          rw [← hcat, List.append_assoc]
          congr 1
          rw [List.take_append, htake]
        · rw [h2, ← hcat, List.drop_append, hdrop]; simp

/-- The error a reader gets when the body ends before `k` bytes were read. -/
def shortErr (ending : SrcEnd) (got : Bytes) : Err :=
  if ending == .unexpected then .unexpectedEOF else if got.isEmpty then .eof else .unexpectedEOF

theorem readExactly_short : ∀ (fuel : Nat) (src : Source) (k : Nat) (acc : Bytes),
    src.data.length + 1 < fuel → src.data.length < k →
    ∃ src', readExactly fuel src k acc = (acc ++ src.data, some (shortErr src.ending (acc ++ src.data)), src') ∧
      src'.data = [] := by
  intro fuel
  induction fuel with
  | zero => intro _ _ _ h; omega
  | succ fuel ih =>
    intro src k acc hf hk
    unfold readExactly
    have hk0' : (k == 0) = false := by simp; omega
    simp only [hk0', Bool.false_eq_true, if_false]
    by_cases hd : src.data = []
    · rw [Source.read_empty src k hd]
      have hk' : ¬ (([] : Bytes).length ≥ k) := by simp; omega
      simp only [hk', if_false, hd, List.append_nil]
      refine ⟨{ src with chunks := [] }, ?_, rfl⟩
      unfold SrcEnd.err shortErr
      cases src.ending <;> simp
    · have hspec := Source.read_spec src k (by omega) hd
      generalize hr : src.read k = r at hspec
      obtain ⟨b, e, src1⟩ := r
      simp only at hspec
      obtain ⟨he, hb, hbl, hcat, hend⟩ := hspec
      have hlen : src.data.length = b.length + src1.data.length := by rw [← hcat]; simp
      have hbpos : 0 < b.length := List.length_pos_iff.mpr hb
      have hfull : ¬ (b.length ≥ k) := by omega
      simp only [hfull, if_false]
      rcases he with he | ⟨he, hnil⟩
      · subst he
        simp only
        obtain ⟨src', h1, h2⟩ := ih src1 (k - b.length) (acc ++ b) (by omega) (by omega)
        refine ⟨src', ?_, h2⟩
        rw [h1, hend, ← hcat]
        simp [List.append_assoc]
      · subst he
        simp only
        refine ⟨src1, ?_, hnil⟩
        rw [← hcat, hnil, List.append_nil]
        -- the end came with the last bytes: only possible for a body that ends cleanly
        have hne : (acc ++ b).isEmpty = false := by
          cases b with
          | nil => exact absurd rfl hb
          | cons _ _ => simp
        unfold shortErr
        have : src.ending ≠ .unexpected := by
          intro hu
          unfold Source.read at hr
          cases hc : src.chunks.filter (fun c => !c.isEmpty) with
          | nil => rw [hc] at hr; simp at hr; exact hb hr.1
          | cons c rest =>
            rw [hc] at hr
            have hn0 : (k == 0) = false := hk0'
            simp only [hn0, Bool.false_eq_true, if_false, Prod.mk.injEq] at hr
            rw [hu] at hr
            simp at hr
        have hu : (src.ending == SrcEnd.unexpected) = false := by simpa using this
        simp [hu, hne]

end Vanguard
