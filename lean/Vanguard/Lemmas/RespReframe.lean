import Vanguard.Lemmas.RespStream
namespace Vanguard
open Vanguard

/-- What the client is to receive for a list of backend frames on the re-framing path: for each its own
    envelope (same flags and length in the client's dialect), then the payload, untouched. -/
def respReframedAll (se cc : Enveloper) : List Frame → Bytes
  | [] => []
  | x :: xs =>
    (match se.decode x.f x.a x.b x.c x.d with
      | some env => cc.encode env
      | none => []) ++ x.payload ++ respReframedAll se cc xs

/-- The re-framing writer between two messages. -/
structure EW.AtStart (e : EW) : Prop where
  err : e.err = false
  we : e.writingEnvelope = true
  env : e.env = []
  rem : e.remaining = 5
  notTrailer : e.currentIsTrailer = false

/-- One message through the loop: envelope, then payload. -/
theorem ewLoop_frame (w : World) (tb : Tables) (fuel : Nat) (st : St) (e : EW) (x : Frame) (rest : Bytes)
    (se cc : Enveloper) (env : Envelope)
    (hb : st.rw.buf = none) (hse : st.op.serverEnveloper = some se) (hcc : st.op.clientEnveloper = some cc)
    (he : e.AtStart) (hdec : se.decode x.f x.a x.b x.c x.d = some env) (hnt : env.trailer = false)
    (hlen : env.length = x.payload.length) :
    ∃ st' e', ewLoop w tb (fuel + 2) st e (x.f :: x.a :: x.b :: x.c :: x.d :: (x.payload ++ rest)) = ewLoop w tb fuel st' e' rest ∧
      SameRw st st' ∧ e'.AtStart ∧
      rawBytes st'.sink.items = rawBytes st.sink.items ++ (cc.encode env ++ x.payload) ∧
      st'.sink.flushedN = some st'.sink.items.length := by
  -- first round: the envelope
  have h1 : ewLoop w tb (fuel + 2) st e (x.f :: x.a :: x.b :: x.c :: x.d :: (x.payload ++ rest)) =
      ewLoop w tb (fuel + 1) { st with sink := st.sink.write (cc.encode env) }
        { e with writingEnvelope := false, env := [], current := .down, remaining := env.length } (x.payload ++ rest) := by
    rw [ewLoop]
    simp only [he.err, he.rem, Bool.false_eq_true, if_false, List.length_cons]
    have hlt : ¬ (((x.payload ++ rest).length + 1 + 1 + 1 + 1 + 1 : Nat) : Int) < 5 := by omega
    simp only [hlt, if_false, show (5 : Int).toNat = 5 from rfl, List.take, List.drop]
    unfold ewWritePiece
    simp only [he.we, if_true, he.env, List.nil_append, Bool.false_or, Bool.false_eq_true, if_false, Bool.or_self]
    unfold ewEnvelopeWritten
    simp only [hse, hdec, hnt, Bool.false_eq_true, if_false, hcc, writeDown, hb, Bool.or_self, Int.sub_self]
    rw [he.err]
  -- second round: the payload
  have h2 : ∃ st' e', ewLoop w tb (fuel + 1) { st with sink := st.sink.write (cc.encode env) }
        { e with writingEnvelope := false, env := [], current := .down, remaining := env.length } (x.payload ++ rest)
        = ewLoop w tb fuel st' e' rest ∧
      SameRw st st' ∧ e'.AtStart ∧
      rawBytes st'.sink.items = rawBytes st.sink.items ++ (cc.encode env ++ x.payload) ∧
      st'.sink.flushedN = some st'.sink.items.length := by
    rw [ewLoop]
    simp only [he.err, Bool.false_eq_true, if_false]
    have hlt : ¬ (((x.payload ++ rest).length : Nat) : Int) < (env.length : Int) := by
      rw [List.length_append]; omega
    simp only [hlt, if_false, Int.toNat_natCast]
    have htake : (x.payload ++ rest).take env.length = x.payload := by rw [hlen]; simp
    have hdrop : (x.payload ++ rest).drop env.length = rest := by rw [hlen]; simp
    rw [htake, hdrop]
    unfold ewWritePiece
    simp only [Bool.false_eq_true, if_false, writeDown, hb, Bool.or_self, he.notTrailer, Int.sub_self]
    refine ⟨_, _, rfl, ?_, ?_, ?_, ?_⟩
    · constructor <;> simp [flushMessage, hb]
    · exact ⟨by first | rfl | exact he.err, rfl, rfl, rfl, by first | rfl | exact he.notTrailer⟩
    · simp only [flushMessage, hb, Option.isSome_none, Bool.false_eq_true, if_false, Sink.flush]
      rw [rawBytes_write, rawBytes_write, List.append_assoc]
    · simp only [flushMessage, hb, Option.isSome_none, Bool.false_eq_true, if_false, Sink.flush]
  obtain ⟨st', e', h2e, hrest⟩ := h2
  exact ⟨st', e', h1.trans h2e, hrest⟩

theorem ewLoop_clean_stream (w : World) (tb : Tables) (se cc : Enveloper) :
    ∀ (fs : List Frame) (fuel : Nat) (st : St) (e : EW),
      2 * fs.length < fuel →
      st.rw.buf = none → st.op.serverEnveloper = some se → st.op.clientEnveloper = some cc → e.AtStart →
      (∀ x ∈ fs, x.ok se st.op.conf.maxMsg) →
      (ewLoop w tb fuel st e (framesBytes fs)).2.2.1 = false ∧ (ewLoop w tb fuel st e (framesBytes fs)).2.2.2 = false ∧
      rawBytes (ewLoop w tb fuel st e (framesBytes fs)).1.sink.items = rawBytes st.sink.items ++ respReframedAll se cc fs ∧
      (fs ≠ [] → (ewLoop w tb fuel st e (framesBytes fs)).1.sink.flushedN
                  = some (ewLoop w tb fuel st e (framesBytes fs)).1.sink.items.length) := by
  intro fs
  induction fs with
  | nil =>
    intro fuel st e hf hb hse hcc he _
    obtain ⟨m, rfl⟩ : ∃ m, fuel = m + 1 := ⟨fuel - 1, by omega⟩
    have hbase : ewLoop w tb (m + 1) st e [] = (st, { e with env := e.env ++ [], remaining := 5 - 0, err := false || false }, false, false) := by
      rw [ewLoop]
      simp only [he.err, he.rem, Bool.false_eq_true, if_false, List.length_nil, Int.natCast_zero]
      have h2 : (0 : Int) < 5 := by omega
      simp only [h2, if_true]
      unfold ewWritePiece
      simp only [he.we, if_true, he.rem, he.err]
    rw [show framesBytes [] = [] from rfl, hbase]
    exact ⟨rfl, rfl, by simp [respReframedAll], fun h => absurd rfl h⟩
  | cons x xs ih =>
    intro fuel st e hf hb hse hcc he hok
    obtain ⟨env, hdec, hnt, hlen, _⟩ := hok x (List.mem_cons_self)
    obtain ⟨m, rfl⟩ : ∃ m, fuel = m + 2 := ⟨fuel - 2, by simp only [List.length_cons] at hf; omega⟩
    have hbytes : framesBytes (x :: xs) = x.f :: x.a :: x.b :: x.c :: x.d :: (x.payload ++ framesBytes xs) := by
      simp [framesBytes, Frame.bytes]
    obtain ⟨st', e', heq, hsame, hat, hraw, hfl⟩ :=
      ewLoop_frame w tb m st e x (framesBytes xs) se cc env hb hse hcc he hdec hnt hlen
    rw [hbytes, heq]
    have hb' : st'.rw.buf = none := by rw [hsame.rw]; exact hb
    obtain ⟨r1, r2, r3, r4⟩ := ih m st' e' (by simp only [List.length_cons] at hf; omega) hb'
      (by rw [hsame.op]; exact hse) (by rw [hsame.op]; exact hcc) hat
      (fun y hy => by rw [hsame.op]; exact hok y (List.mem_cons_of_mem _ hy))
    refine ⟨r1, r2, ?_, fun _ => ?_⟩
    · rw [r3, hraw]
      simp [respReframedAll, hdec, List.append_assoc]
    · by_cases hxs : xs = []
      · subst hxs
        obtain ⟨m', rfl⟩ : ∃ m', m = m' + 1 := ⟨m - 1, by simp only [List.length_cons, List.length_nil] at hf; omega⟩
        have hbase : ewLoop w tb (m' + 1) st' e' [] = (st', { e' with env := e'.env ++ [], remaining := 5 - 0, err := false || false }, false, false) := by
          rw [ewLoop]
          simp only [hat.err, hat.rem, Bool.false_eq_true, if_false, List.length_nil, Int.natCast_zero]
          have h2 : (0 : Int) < 5 := by omega
          simp only [h2, if_true]
          unfold ewWritePiece
          simp only [hat.we, if_true, hat.rem, hat.err]
        rw [show framesBytes [] = [] from rfl, hbase]
        exact hfl
      · exact r4 hxs

/-- **C01, response direction, re-framing path** (same codec and compression on both sides; messages
    are streamed through): the first `Write` of a backend that hands over a whole well-formed response
    stream puts on a streaming client's connection exactly those messages, payloads untouched, each
    under the client's own envelope, in order, flushed; no error, no panic. -/
theorem ewWrite_clean_stream (w : World) (tb : Tables) (se cc : Enveloper) (st : St) (fs : List Frame)
    (hb : st.rw.buf = none) (hse : st.op.serverEnveloper = some se) (hcc : st.op.clientEnveloper = some cc)
    (hok : ∀ x ∈ fs, x.ok se st.op.conf.maxMsg) :
    (ewWrite w tb st {} (framesBytes fs)).2.2.1 = false ∧ (ewWrite w tb st {} (framesBytes fs)).2.2.2 = false ∧
    rawBytes (ewWrite w tb st {} (framesBytes fs)).1.sink.items = rawBytes st.sink.items ++ respReframedAll se cc fs ∧
    (fs ≠ [] → (ewWrite w tb st {} (framesBytes fs)).1.sink.flushedN
                = some (ewWrite w tb st {} (framesBytes fs)).1.sink.items.length) := by
  have hinit : ewInit w st {} = (st, { initialized := true, writingEnvelope := true, remaining := 5 }, false) := by
    unfold ewInit
    simp [hse]
  have heq : ewWrite w tb st {} (framesBytes fs) =
      ewLoop w tb (2 * (framesBytes fs).length + 4) st { initialized := true, writingEnvelope := true, remaining := 5 } (framesBytes fs) := by
    unfold ewWrite
    rw [hinit]
    simp
  rw [heq]
  exact ewLoop_clean_stream w tb se cc fs _ st _ (by have := framesBytes_length fs; omega) hb hse hcc
    ⟨rfl, rfl, rfl, rfl, rfl⟩ hok

end Vanguard
