import Vanguard.Lemmas.Outcome
set_option linter.unusedSimpArgs false
/-!
  The end of the RPC as the client reads it (C04, C05).

  `Sink.clientErr c k` is the RPC error a client of form `c` reads off what it received (`none` = it
  sees no error): the gRPC status in headers or trailers, the error of the end-of-stream / trailer
  frame, or the error body of a unary Connect response.  `Sink.clientTrailers` is the trailer
  metadata delivered inside an end frame.

  `reportEnd_relays`: the **first** end reported on an open response is exactly what the client
  reads - same error value (code, message, details), for every client form.  `SameWire` keeps it,
  so by C03's `nothing_after_the_end` nothing a handler does afterwards changes it.
-/
namespace Vanguard

def Item.err : Item → Option RpcErr
  | .raw _ => none
  | .endFrame _ e => e.err
  | .errBody e => some e

/-- The end item of the body, if any. -/
def Sink.endItem (k : Sink) : Option Item := k.items.find? Item.isEnd

/-- The RPC error the client reads off its response. -/
def Sink.clientErr (c : ClientForm) (k : Sink) : Option RpcErr :=
  match c with
  | .grpc => if k.hdrEndSet then k.hdrEnd else if k.trailerEndSet then k.trailerEnd else none
  | .grpcWeb => if k.hdrEndSet then k.hdrEnd else k.endItem.bind Item.err
  | .connectStream | .connectPost | .connectGet => k.endItem.bind Item.err
  | .rest => none

theorem SameWire.clientErr {a b : Sink} (h : SameWire a b) (c : ClientForm) : b.clientErr c = a.clientErr c := by
  unfold Sink.clientErr Sink.endItem
  rw [h.items, h.hdrEnd, h.hdrEndSet, h.trailerEnd, h.trailerEndSet]

theorem SameWire.endItem {a b : Sink} (h : SameWire a b) : b.endItem = a.endItem := by
  unfold Sink.endItem; rw [h.items]

theorem marks_zero_fields {k : Sink} (hk : k.endMarks = 0) :
    k.items.countP Item.isEnd = 0 ∧ k.hdrEndSet = false ∧ k.trailerEndSet = false := by
  unfold Sink.endMarks at hk
  cases h1 : k.hdrEndSet <;> cases h2 : k.trailerEndSet <;> simp [h1, h2] at hk ⊢ <;> omega

theorem find_end_none {l : List Item} (h : l.countP Item.isEnd = 0) : l.find? Item.isEnd = none := by
  rw [List.find?_eq_none]
  intro x hx
  have := (List.countP_eq_zero.mp h) x hx
  simpa using this

theorem find_end_append {l : List Item} (h : l.countP Item.isEnd = 0) (i : Item) (hi : i.isEnd = true) :
    (l ++ [i]).find? Item.isEnd = some i := by
  rw [List.find?_append, find_end_none h]
  simp [hi]

theorem endItem_write (k : Sink) (b : Bytes) : (k.write b).endItem = k.endItem := by
  unfold Sink.write Sink.endItem
  by_cases hs : k.status.isNone = true <;> by_cases hb : b.isEmpty = true <;>
    simp [hs, hb, List.find?_append, Item.isEnd]

theorem endItem_writeHeader (k : Sink) (c : Nat) : (k.writeHeader c).endItem = k.endItem := by
  unfold Sink.writeHeader Sink.endItem; split <;> rfl

theorem items_writeItem (k : Sink) (i : Item) : (k.writeItem i).items = k.items ++ [i] := by
  unfold Sink.writeItem; by_cases hs : k.status.isNone = true <;> simp [hs]

theorem writeItem_fields (k : Sink) (i : Item) :
    (k.writeItem i).hdrEndSet = k.hdrEndSet ∧ (k.writeItem i).hdrEnd = k.hdrEnd ∧
    (k.writeItem i).trailerEndSet = k.trailerEndSet ∧ (k.writeItem i).trailerEnd = k.trailerEnd := by
  unfold Sink.writeItem; by_cases hs : k.status.isNone = true <;> simp [hs]

theorem write_fields (k : Sink) (b : Bytes) :
    (k.write b).hdrEndSet = k.hdrEndSet ∧ (k.write b).hdrEnd = k.hdrEnd ∧
    (k.write b).trailerEndSet = k.trailerEndSet ∧ (k.write b).trailerEnd = k.trailerEnd := by
  unfold Sink.write
  by_cases hs : k.status.isNone = true <;> by_cases hb : b.isEmpty = true <;> simp [hs, hb]

theorem writeHeader_fields (k : Sink) (c : Nat) :
    (k.writeHeader c).hdrEndSet = k.hdrEndSet ∧ (k.writeHeader c).hdrEnd = k.hdrEnd ∧
    (k.writeHeader c).trailerEndSet = k.trailerEndSet ∧ (k.writeHeader c).trailerEnd = k.trailerEnd ∧
    (k.writeHeader c).items = k.items := by
  unfold Sink.writeHeader; split <;> simp

/-- Does the client form lose an error that arrives after the head went out?  Only a unary Connect
    response (and REST, which this model does not render) has no place for it. -/
def ClientForm.hasLateEnd : ClientForm → Bool
  | .grpc | .grpcWeb | .connectStream => true
  | _ => false

/-- `encodeEnd` on a sink without any end mark, head already sent: the client reads `e.err`. -/
theorem encodeEnd_late (c : ClientForm) (e : RespEnd) (k : Sink) (hk : k.endMarks = 0) (hc : c.hasLateEnd = true) :
    (encodeEnd c e false k).clientErr c = e.err := by
  obtain ⟨h1, h2, h3⟩ := marks_zero_fields hk
  cases c <;> simp [ClientForm.hasLateEnd] at hc
  case grpc => simp [encodeEnd, Sink.clientErr, h2]
  case grpcWeb =>
    simp only [encodeEnd, Sink.clientErr, Bool.false_eq_true, if_false, (writeItem_fields k _).1, h2, Sink.endItem,
      items_writeItem, find_end_append h1 (.endFrame 0x80 e) rfl]
    rfl
  case connectStream =>
    simp only [encodeEnd, Sink.clientErr, Sink.endItem, items_writeItem, find_end_append h1 (.endFrame 2 e) rfl]
    rfl

/-- The head and the end together (`flushHeaders` with the end known): the client reads `e.err`. -/
theorem head_with_end (c : ClientForm) (rm : RespMeta) (e : RespEnd) (k : Sink) (buf : Option Bytes) (code : Nat)
    (hk : k.endMarks = 0) (hend : rm.end = some e) (hc : c ≠ .rest) :
    (encodeEnd c e true
      (match buf with
        | some b => if (e.err).isSome then ((addResponseHeaders c rm k).2.writeHeader code) else ((addResponseHeaders c rm k).2.writeHeader code).write b
        | none => (addResponseHeaders c rm k).2.writeHeader code)).clientErr c = e.err := by
  obtain ⟨h1, h2, h3⟩ := marks_zero_fields hk
  have hi := (addResponseHeaders_items c rm k)
  generalize hr : (addResponseHeaders c rm k).2 = k1 at hi ⊢
  have h1' : k1.items.countP Item.isEnd = 0 := by rw [hi.1]; exact h1
  -- the sink the end is encoded into
  generalize hk2 : (match buf with
        | some b => if (e.err).isSome then (k1.writeHeader code) else (k1.writeHeader code).write b
        | none => k1.writeHeader code) = k2
  have hk2f : k2.hdrEndSet = k1.hdrEndSet ∧ k2.hdrEnd = k1.hdrEnd ∧ k2.endItem = none := by
    have hn : (k1.writeHeader code).endItem = none := by
      rw [endItem_writeHeader]; exact find_end_none h1'
    have hf := writeHeader_fields k1 code
    rw [← hk2]
    cases buf with
    | none => exact ⟨hf.1, hf.2.1, hn⟩
    | some b =>
      by_cases he : (e.err).isSome = true
      · simp only [he, if_true]; exact ⟨hf.1, hf.2.1, hn⟩
      · simp only [he, Bool.false_eq_true, if_false]
        have hw := write_fields (k1.writeHeader code) b
        exact ⟨hw.1.trans hf.1, hw.2.1.trans hf.2.1, by rw [endItem_write]; exact hn⟩
  have hcount : k2.items.countP Item.isEnd = 0 := by
    have := hk2f.2.2
    unfold Sink.endItem at this
    rw [List.find?_eq_none] at this
    exact List.countP_eq_zero.mpr (fun x hx => by simpa using this x hx)
  cases c
  case rest => exact absurd rfl hc
  case grpc =>
    have : k1.hdrEndSet = true ∧ k1.hdrEnd = e.err := by
      rw [← hr]; unfold addResponseHeaders; simp [hend, writeEndToHeaders]
    simp [encodeEnd, Sink.clientErr, hk2f.1, hk2f.2.1, this.1, this.2]
  case grpcWeb =>
    have : k1.hdrEndSet = true ∧ k1.hdrEnd = e.err := by
      rw [← hr]; unfold addResponseHeaders; simp [hend, writeEndToHeaders]
    simp [encodeEnd, Sink.clientErr, hk2f.1, hk2f.2.1, this.1, this.2]
  case connectStream =>
    simp only [encodeEnd, Sink.clientErr, Sink.endItem, items_writeItem, find_end_append hcount (.endFrame 2 e) rfl]
    rfl
  case connectPost =>
    cases he : e.err with
    | none =>
      simp only [encodeEnd, he, Sink.clientErr]
      rw [hk2f.2.2]; rfl
    | some err =>
      simp only [encodeEnd, he, Sink.clientErr, if_true, Sink.endItem, items_writeItem, find_end_append hcount (.errBody err) rfl]
      rfl
  case connectGet =>
    cases he : e.err with
    | none =>
      simp only [encodeEnd, he, Sink.clientErr]
      rw [hk2f.2.2]; rfl
    | some err =>
      simp only [encodeEnd, he, Sink.clientErr, if_true, Sink.endItem, items_writeItem, find_end_append hcount (.errBody err) rfl]
      rfl

/-- `flushHeaders` with the end known (trailers-only response, error before any body, buffered unary
    response): the client reads that end's error. -/
theorem flushHeaders_relays (w : World) (st : St) (e : RespEnd) (hg : Good st) (hf : st.rw.headersFlushed = false)
    (he : (st.rw.respMeta.getD {}).end = some e) (hc : st.op.cform ≠ .rest) :
    (flushHeaders w st).1.sink.clientErr st.op.cform = e.err ∧ (flushHeaders w st).1.op = st.op := by
  have hm0 := hg.opened (hg.not_flushed_open hf)
  unfold flushHeaders
  simp only [hf, Bool.false_eq_true, if_false]
  have hs := fun rm => addResponseHeaders_status_isSome st.op.cform rm st.sink
  have hw := fun rm code (hrm : rm.end = some e) => head_with_end st.op.cform rm e st.sink st.rw.buf code hm0 hrm hc
  generalize hcli : ({ «end» := (st.rw.respMeta.getD {}).end, codec := st.op.ccodec, compression := (st.rw.cRespComp.getD []), acceptCompression := (intersection w.knownCompression (st.rw.respMeta.getD {}).acceptCompression), pendingTrailers := (st.rw.respMeta.getD {}).pendingTrailers, pendingTrailerKeys := (st.rw.respMeta.getD {}).pendingTrailerKeys } : RespMeta) = cli
  have hce : cli.end = some e := by rw [← hcli]; exact he
  have hs' := hs cli
  have hw' := fun code => hw cli code hce
  generalize hr : addResponseHeaders st.op.cform cli st.sink = r at hs' hw'
  obtain ⟨status, sink1⟩ := r
  cases status with
  | none => simp at hs'
  | some code =>
    simp only [he, writeEnd, Option.bind_some]
    refine ⟨?_, trivial⟩
    have := hw' code
    simp only at this
    cases hb : st.rw.buf with
    | none => rw [hb] at this; exact this
    | some b => rw [hb] at this; exact this

/-- **The first end reported on an open response is what the client reads.**  For a client form
    that can still be told after the head went out (gRPC, gRPC-Web, Connect streaming) in every state;
    for a unary Connect client while the head has not been sent (its response is buffered until the end
    is known). -/
theorem reportEnd_relays (w : World) (st : St) (e : RespEnd) (hg : Good st) (hopen : st.rw.endWritten = false)
    (hc : st.op.cform ≠ .rest) (hlate : st.op.cform.hasLateEnd = true ∨ st.rw.headersFlushed = false) :
    (reportEnd w st e).1.sink.clientErr st.op.cform = e.err ∧ (reportEnd w st e).1.op = st.op := by
  unfold reportEnd
  simp only [hopen, Bool.false_eq_true, if_false]
  -- the header map is cleaned of pending trailer keys first: still `Good`, same flags
  have key : ∀ (st1 : St) (e1 : RespEnd), Good st1 → st1.rw.endWritten = false → st1.op = st.op →
      st1.rw.headersFlushed = st.rw.headersFlushed → e1.err = e.err →
      (({ (if st1.rw.headersFlushed then (writeEnd st1 e1 false, false) else
          flushHeaders w { st1 with rw := { st1.rw with respMeta := some { (st1.rw.respMeta.getD {}) with «end» := some e1 } } }).1 with
          sink := (if st1.rw.headersFlushed then (writeEnd st1 e1 false, false) else
          flushHeaders w { st1 with rw := { st1.rw with respMeta := some { (st1.rw.respMeta.getD {}) with «end» := some e1 } } }).1.sink.flush,
          rw := { (if st1.rw.headersFlushed then (writeEnd st1 e1 false, false) else
          flushHeaders w { st1 with rw := { st1.rw with respMeta := some { (st1.rw.respMeta.getD {}) with «end» := some e1 } } }).1.rw with err := true } } : St).sink.clientErr st.op.cform = e.err) ∧
      (if st1.rw.headersFlushed then (writeEnd st1 e1 false, false) else
          flushHeaders w { st1 with rw := { st1.rw with respMeta := some { (st1.rw.respMeta.getD {}) with «end» := some e1 } } }).1.op = st.op := by
    intro st1 e1 hg1 hopen1 hop hfl he1
    by_cases hf : st1.rw.headersFlushed = true
    · simp only [hf, if_true, writeEnd]
      refine ⟨?_, hop⟩
      have hl : st.op.cform.hasLateEnd = true := by
        rcases hlate with h | h
        · exact h
        · rw [← hfl, hf] at h; cases h
      rw [(sameWire_flush _).clientErr, hop, ← he1]
      exact encodeEnd_late _ _ _ (hg1.opened hopen1) hl
    · have hf' : st1.rw.headersFlushed = false := by simpa using hf
      rw [if_neg hf]
      have hg2 : Good ({ st1 with rw := { st1.rw with respMeta := some { (st1.rw.respMeta.getD {}) with «end» := some e1 } } } : St) :=
        (Ev.rwUpdate st1 { st1.rw with respMeta := some { (st1.rw.respMeta.getD {}) with «end» := some e1 } } rfl (fun h => h) rfl hg1).1
      have := flushHeaders_relays w _ e1 hg2 hf' rfl (by rw [hop]; exact hc)
      refine ⟨?_, this.2.trans hop⟩
      rw [(sameWire_flush _).clientErr, ← he1, ← hop]
      exact this.1
  cases hrm : st.rw.respMeta with
  | none =>
    simp only
    have := key st e hg hopen rfl rfl rfl
    simp only [hrm] at this ⊢
    exact this
  | some rm =>
    simp only [hrm]
    have hg1 := (Ev.sinkHdr st (httpExtractTrailers st.sink.hdr rm.pendingTrailerKeys).2 hopen hg).1
    have := key { st with sink := { st.sink with hdr := (httpExtractTrailers st.sink.hdr rm.pendingTrailerKeys).2 } }
      (if (!rm.pendingTrailers.isEmpty && e.trailers.isEmpty) = true then { e with trailers := rm.pendingTrailers } else e)
      hg1 hopen rfl rfl (by split <;> rfl)
    simp only [hrm] at this
    exact this

/-- Condition under which a client form can be told the end in the current state. -/
def CanTell (st : St) : Prop :=
  st.op.cform ≠ .rest ∧ (st.op.cform.hasLateEnd = true ∨ st.rw.headersFlushed = false)

theorem reportEnd_relays' (w : World) (st : St) (e : RespEnd) (hg : Good st) (hopen : st.rw.endWritten = false)
    (ht : CanTell st) : (reportEnd w st e).1.sink.clientErr st.op.cform = e.err :=
  (reportEnd_relays w st e hg hopen ht.1 ht.2).1

/-- An error vanguard reports itself reaches the client with the code it was reported with. -/
theorem reportError_relays (w : World) (st : St) (err : Err) (hg : Good st) (hopen : st.rw.endWritten = false)
    (ht : CanTell st) :
    (reportError w st err).1.sink.clientErr st.op.cform =
      some (genErr (match err with | .rpc code => code | _ => 2)) := by
  unfold reportError
  split
  · rename_i code
    split
    · rename_i h
      have := httpStatusFromRPC_isSome code
      rw [h] at this; simp at this
    · exact reportEnd_relays' w st _ hg hopen ht
  · rename_i hne
    rw [reportEnd_relays' w st _ hg hopen ht]
    cases err <;> first | rfl | exact absurd rfl (hne _)

/-- The end of the RPC taken from the HTTP trailers the backend handler set (a gRPC backend's
    `Grpc-Status`, `Grpc-Message`, `Grpc-Status-Details-Bin`) is what the client reads. -/
theorem rwCloseEnd_relays_trailers (w : World) (tb : Tables) (st : St) (e : RespEnd) (hg : Good st)
    (hopen : st.rw.endWritten = false) (ht : CanTell st) (hrm : (st.rw.respMeta.getD {}).end = none)
    (hx : st.op.sform.extractEndFromTrailers tb (httpExtractTrailers st.hdr (st.rw.respMeta.getD {}).pendingTrailerKeys).1 = some e) :
    (rwCloseEnd w tb st).1.sink.clientErr st.op.cform = e.err := by
  unfold rwCloseEnd
  simp only [hopen, Bool.false_eq_true, if_false, hrm]
  have hop : (st.setHdr (httpExtractTrailers st.hdr (st.rw.respMeta.getD {}).pendingTrailerKeys).2).op = st.op := by
    unfold St.setHdr; split <;> rfl
  have hrw : (st.setHdr (httpExtractTrailers st.hdr (st.rw.respMeta.getD {}).pendingTrailerKeys).2).rw = st.rw := by
    unfold St.setHdr; split <;> rfl
  rw [hop, hx]
  simp only
  have hg1 := (setHdr_ev st (httpExtractTrailers st.hdr (st.rw.respMeta.getD {}).pendingTrailerKeys).2 hg).1
  have := reportEnd_relays' w _ e hg1 (by rw [hrw]; exact hopen) ⟨by rw [hop]; exact ht.1, by rw [hop, hrw]; exact ht.2⟩
  rw [hop] at this
  exact this

/-- The end the backend announced in its response head (trailers-only gRPC response, Connect unary
    error status) is what the client reads when the response is closed. -/
theorem rwCloseEnd_relays_meta (w : World) (tb : Tables) (st : St) (e : RespEnd) (hg : Good st)
    (hopen : st.rw.endWritten = false) (ht : CanTell st) (hrm : (st.rw.respMeta.getD {}).end = some e) :
    (rwCloseEnd w tb st).1.sink.clientErr st.op.cform = e.err := by
  unfold rwCloseEnd
  simp only [hopen, Bool.false_eq_true, if_false, hrm]
  exact reportEnd_relays' w st e hg hopen ht

/-- `d` is the end-of-stream message as the writers see it after inflating it (when it is flagged
    compressed, not empty, and a response compression is in force). -/
def EndPlain (w : World) (st : St) (compressed : Bool) (data d : Bytes) : Prop :=
  ((compressed && !data.isEmpty) = false ∧ d = data) ∨
  ((compressed && !data.isEmpty) = true ∧ st.rw.cRespComp = none ∧ d = data) ∨
  (∃ z, (compressed && !data.isEmpty) = true ∧ st.rw.cRespComp = some z ∧
     decompressLimited w z data st.op.conf.maxMsg = .ok d)

/-- The end-of-stream message of a Connect streaming / gRPC-Web backend, once decoded, is what the
    client reads. -/
theorem handleEndMessage_relays (w : World) (tb : Tables) (st : St) (compressed : Bool) (data d : Bytes) (r : Bool)
    (e : RespEnd) (hg : Good st) (hopen : st.rw.endWritten = false) (ht : CanTell st)
    (hplain : EndPlain w st compressed data d)
    (hdec : decodeEndFromMessage tb st.op.sform d = some e) :
    (handleEndMessage w tb st compressed data r).1.sink.clientErr st.op.cform = e.err := by
  unfold handleEndMessage
  rcases hplain with ⟨h1, h2⟩ | ⟨h1, h2, h3⟩ | ⟨z, h1, h2, h3⟩
  · subst h2
    simp only [h1, Bool.false_eq_true, if_false, hdec]
    exact reportEnd_relays' w st _ hg hopen ht
  · subst h3
    simp only [h1, if_true, h2, hdec]
    exact reportEnd_relays' w st _ hg hopen ht
  · simp only [h1, if_true, h2, h3, hdec]
    exact reportEnd_relays' w st _ hg hopen ht

/-! ### the end is final -/

theorem runScript_keeps_clientErr (w : World) (tb : Tables) (pl : HandlePlan) (script : List BOp) (total0 : Nat) (f : Flight)
    (c : ClientForm) (hg : Good f.st) (he : f.st.rw.endWritten = true) :
    (runScript w tb pl script total0 f).1.st.sink.clientErr c = f.st.sink.clientErr c :=
  (((runScript_ev w tb pl script total0 f hg).2 he).1).clientErr c

theorem rwClose_keeps_clientErr (w : World) (tb : Tables) (st : St) (c : ClientForm) (hg : Good st)
    (he : st.rw.endWritten = true) : (rwClose w tb st).1.sink.clientErr c = st.sink.clientErr c :=
  (((rwClose_ev w tb st hg).2 he).1).clientErr c

end Vanguard
