import Vanguard.Lemmas.RespReframe
set_option linter.unusedSimpArgs false
/-!
  The re-framing writer (`envelopingWriter`) fed a well-formed stream of backend frames **in arbitrary
  pieces** (C01, C08).

  `Phase` describes the writer between two `Write` calls as a function of the frames completed so far
  (`done`) and the bytes of the stream still to come (`rem`): between messages with nothing left
  (`fin`), inside an envelope of which `need` bytes are missing, or inside a payload of which `left`
  bytes are missing.  `ewLoop_phase`: a `Write` whose data is a prefix of `rem` succeeds and leaves
  the writer in the phase that belongs to the rest.  What the client has received is, in every phase,
  the re-framed completed messages plus - inside a payload - the client's envelope and the payload
  bytes seen so far.  `ewWrites_clean_stream`: hence any sequence of pieces whose concatenation is the
  stream puts exactly `respReframedAll` on the client's connection.
-/
namespace Vanguard
open Vanguard

theorem framesBytes_cons (x : Frame) (xs : List Frame) :
    framesBytes (x :: xs) = [x.f, x.a, x.b, x.c, x.d] ++ (x.payload ++ framesBytes xs) := by
  simp [framesBytes, Frame.bytes]

theorem respReframedAll_snoc (se cc : Enveloper) (done : List Frame) (x : Frame) (env : Envelope)
    (hdec : se.decode x.f x.a x.b x.c x.d = some env) :
    respReframedAll se cc (done ++ [x]) = respReframedAll se cc done ++ (cc.encode env ++ x.payload) := by
  induction done with
  | nil => simp [respReframedAll, hdec]
  | cons y ys ih => simp [respReframedAll, ih, List.append_assoc]

/-- `c` is a proper prefix of `a`. -/
theorem split_short {a b c t : Bytes} (h : a ++ b = c ++ t) (hl : c.length < a.length) :
    ∃ a', a' ≠ [] ∧ a = c ++ a' ∧ t = a' ++ b := by
  rcases List.append_eq_append_iff.mp h with ⟨a', h1, h2⟩ | ⟨c', h1, h2⟩
  · -- c = a ++ a'
    rw [h1, List.length_append] at hl; omega
  · refine ⟨c', ?_, h1, h2⟩
    intro hc; rw [h1, hc, List.append_nil] at hl; omega

/-- `a` is a prefix of `c`. -/
theorem split_long {a b c t : Bytes} (h : a ++ b = c ++ t) (hl : a.length ≤ c.length) :
    ∃ c', c = a ++ c' ∧ b = c' ++ t := by
  rcases List.append_eq_append_iff.mp h with ⟨a', h1, h2⟩ | ⟨c', h1, h2⟩
  · exact ⟨a', h1, h2⟩
  · have : c' = [] := by
      have := congrArg List.length h1
      rw [List.length_append] at this
      exact List.eq_nil_of_length_eq_zero (by omega)
    subst this
    refine ⟨[], by simpa using h1.symm, by simpa using h2.symm⟩

/-- What every phase has in common: nothing is buffered, both sides use envelopes, the writer is live. -/
structure PCommon (se cc : Enveloper) (st : St) (e : EW) : Prop where
  buf : st.rw.buf = none
  hse : st.op.serverEnveloper = some se
  hcc : st.op.clientEnveloper = some cc
  err : e.err = false
  notTrailer : e.currentIsTrailer = false

/-- Between messages, nothing more to come. -/
structure PFin (se cc : Enveloper) (R0 : Bytes) (fs : List Frame) (st : St) (e : EW) (done : List Frame) (rem : Bytes) : Prop where
  common : PCommon se cc st e
  we : e.writingEnvelope = true
  env : e.env = []
  remaining : e.remaining = 5
  raw : rawBytes st.sink.items = R0 ++ respReframedAll se cc done
  tot : done = fs
  rem : rem = []

/-- Inside the envelope of frame `x`: `need` bytes of it are missing. -/
structure PEnv (se cc : Enveloper) (R0 : Bytes) (fs : List Frame) (st : St) (e : EW) (done : List Frame) (rem : Bytes)
    (x : Frame) (xs : List Frame) (need : Bytes) : Prop where
  common : PCommon se cc st e
  we : e.writingEnvelope = true
  need_ne : need ≠ []
  env : e.env ++ need = [x.f, x.a, x.b, x.c, x.d]
  remaining : e.remaining = need.length
  raw : rawBytes st.sink.items = R0 ++ respReframedAll se cc done
  ok : ∀ y ∈ x :: xs, y.ok se st.op.conf.maxMsg
  tot : done ++ x :: xs = fs
  rem : rem = need ++ (x.payload ++ framesBytes xs)

/-- Inside the payload of frame `x`: `written` is out, `left` is missing. -/
structure PPay (se cc : Enveloper) (R0 : Bytes) (fs : List Frame) (st : St) (e : EW) (done : List Frame) (rem : Bytes)
    (x : Frame) (xs : List Frame) (env : Envelope) (written left : Bytes) : Prop where
  common : PCommon se cc st e
  we : e.writingEnvelope = false
  envNil : e.env = []
  cur : e.current = .down
  dec : se.decode x.f x.a x.b x.c x.d = some env
  split : written ++ left = x.payload
  remaining : e.remaining = left.length
  raw : rawBytes st.sink.items = R0 ++ respReframedAll se cc done ++ (cc.encode env ++ written)
  ok : ∀ y ∈ xs, y.ok se st.op.conf.maxMsg
  tot : done ++ x :: xs = fs
  rem : rem = left ++ framesBytes xs

/-- The writer between two `Write` calls of a well-formed stream. `exit` = as a `Write` leaves it
    (inside a payload at least one byte is missing). -/
def Phase (se cc : Enveloper) (R0 : Bytes) (fs : List Frame) (exit : Bool) (st : St) (e : EW) (done : List Frame) (rem : Bytes) : Prop :=
  PFin se cc R0 fs st e done rem ∨
  (∃ x xs need, PEnv se cc R0 fs st e done rem x xs need) ∨
  (∃ x xs env written left, PPay se cc R0 fs st e done rem x xs env written left ∧ (exit = true → left ≠ []))

theorem Phase.weaken {se cc : Enveloper} {R0 : Bytes} {fs : List Frame} {st : St} {e : EW} {done : List Frame} {rem : Bytes}
    (h : Phase se cc R0 fs true st e done rem) : Phase se cc R0 fs false st e done rem := by
  rcases h with h | h | ⟨x, xs, env, wr, lf, h, _⟩
  · exact Or.inl h
  · exact Or.inr (Or.inl h)
  · exact Or.inr (Or.inr ⟨x, xs, env, wr, lf, h, fun h => by cases h⟩)

/-- The phase at the start of a frame list. -/
theorem Phase.start (se cc : Enveloper) (st : St) (e : EW) (done todo : List Frame)
    (hc : PCommon se cc st e) (hwe : e.writingEnvelope = true) (henv : e.env = []) (hrem : e.remaining = 5)
    (R0 : Bytes) (hraw : rawBytes st.sink.items = R0 ++ respReframedAll se cc done)
    (hok : ∀ y ∈ todo, y.ok se st.op.conf.maxMsg) (fs : List Frame) (htot : done ++ todo = fs) :
    Phase se cc R0 fs true st e done (framesBytes todo) := by
  cases todo with
  | nil => exact Or.inl ⟨hc, hwe, henv, hrem, hraw, by simpa using htot, rfl⟩
  | cons x xs =>
    refine Or.inr (Or.inl ⟨x, xs, [x.f, x.a, x.b, x.c, x.d], hc, hwe, by simp, by simp [henv], by simp [hrem], hraw, hok, htot, ?_⟩)
    rw [framesBytes_cons]

def phaseFuel (e : EW) (d : Bytes) : Nat := 2 * d.length + (if e.writingEnvelope then 1 else 2)

/-- **One `Write` of a prefix of what is still to come.** -/
theorem ewLoop_phase (w : World) (tb : Tables) (se cc : Enveloper) (R0 : Bytes) (fs : List Frame) :
    ∀ (fuel : Nat) (st : St) (e : EW) (done : List Frame) (rem d tail : Bytes),
      Phase se cc R0 fs false st e done rem → rem = d ++ tail → phaseFuel e d ≤ fuel →
      ∃ st' e' done', ewLoop w tb fuel st e d = (st', e', false, false) ∧ Phase se cc R0 fs true st' e' done' tail ∧
        st'.op = st.op ∧ e'.initialized = e.initialized := by
  intro fuel
  induction fuel with
  | zero => intro st e done rem d tail _ _ hf; unfold phaseFuel at hf; split at hf <;> omega
  | succ n ih =>
    intro st e done rem d tail hp hrem hf
    rcases hp with hfin | ⟨x, xs, need, henv⟩ | ⟨x, xs, env, written, left, hpay, _⟩
    · -- nothing to come: `d` is empty
      have hd : d = [] := by
        have := hfin.rem; rw [hrem] at this
        exact (List.append_eq_nil_iff.mp this).1
      have ht : tail = [] := by
        have := hfin.rem; rw [hrem] at this
        exact (List.append_eq_nil_iff.mp this).2
      subst hd; subst ht
      refine ⟨st, { e with env := e.env ++ [], remaining := 5 - 0, err := false || false }, done, ?_, ?_, rfl, rfl⟩
      · rw [ewLoop]
        simp only [hfin.common.err, hfin.remaining, Bool.false_eq_true, if_false, List.length_nil, Int.natCast_zero]
        have h2 : (0 : Int) < 5 := by omega
        simp only [h2, if_true]
        unfold ewWritePiece
        simp only [hfin.we, if_true, hfin.remaining, hfin.common.err]
      · exact Or.inl ⟨⟨hfin.common.buf, hfin.common.hse, hfin.common.hcc, rfl, hfin.common.notTrailer⟩, hfin.we,
          by simp [hfin.env], by simp, hfin.raw, hfin.tot, rfl⟩
    · -- inside an envelope
      have hc := henv.common
      have hrem' : need ++ (x.payload ++ framesBytes xs) = d ++ tail := by rw [← henv.rem, hrem]
      by_cases hlt : d.length < need.length
      · -- the piece ends inside the envelope
        obtain ⟨need', hne, hneed, htail⟩ := split_short hrem' hlt
        refine ⟨st, { e with env := e.env ++ d, remaining := e.remaining - d.length, err := false || false }, done, ?_, ?_, rfl, rfl⟩
        · rw [ewLoop]
          simp only [hc.err, henv.remaining, Bool.false_eq_true, if_false]
          have : ((d.length : Nat) : Int) < ((need.length : Nat) : Int) := by omega
          simp only [this, if_true]
          unfold ewWritePiece
          simp only [henv.we, if_true, henv.remaining, hc.err]
        · refine Or.inr (Or.inl ⟨x, xs, need', ⟨hc.buf, hc.hse, hc.hcc, rfl, hc.notTrailer⟩, henv.we, hne, ?_, ?_, henv.raw, henv.ok, henv.tot, htail⟩)
          · simp only []
            rw [List.append_assoc, ← hneed]; exact henv.env
          · simp only [henv.remaining]
            rw [hneed, List.length_append]; omega
      · -- the piece completes the envelope
        have hge : need.length ≤ d.length := by omega
        obtain ⟨d2, hd, hrest⟩ := split_long hrem' hge
        obtain ⟨env, hdec, hnt, hlen, hmax⟩ := henv.ok x List.mem_cons_self
        have hnpos : 0 < need.length := List.length_pos_iff.mpr henv.need_ne
        -- the state after the envelope
        have hstep : ewLoop w tb (n + 1) st e d =
            ewLoop w tb n { st with sink := st.sink.write (cc.encode env) }
              { e with writingEnvelope := false, env := [], current := .down, remaining := env.length } d2 := by
          rw [ewLoop]
          simp only [hc.err, henv.remaining, Bool.false_eq_true, if_false]
          have : ¬ ((d.length : Nat) : Int) < ((need.length : Nat) : Int) := by omega
          simp only [this, if_false, Int.toNat_natCast]
          have htake : d.take need.length = need := by rw [hd]; simp
          have hdrop : d.drop need.length = d2 := by rw [hd]; simp
          rw [htake, hdrop]
          unfold ewWritePiece
          simp only [henv.we, if_true, Bool.false_or, Bool.false_eq_true, if_false, Bool.or_self, henv.env]
          unfold ewEnvelopeWritten
          simp only [hc.hse, hdec, hnt, Bool.false_eq_true, if_false, hc.hcc, writeDown, hc.buf, Bool.or_self, Int.sub_self]
          rw [hc.err]
        rw [hstep]
        have hp' : Phase se cc R0 fs false { st with sink := st.sink.write (cc.encode env) }
            { e with writingEnvelope := false, env := [], current := .down, remaining := env.length } done
            (x.payload ++ framesBytes xs) := by
          refine Or.inr (Or.inr ⟨x, xs, env, [], x.payload, ⟨⟨hc.buf, hc.hse, hc.hcc, hc.err, hc.notTrailer⟩, rfl, rfl, rfl, hdec, rfl, ?_, ?_,
            fun y hy => henv.ok y (List.mem_cons_of_mem _ hy), henv.tot, rfl⟩, fun h => by cases h⟩)
          · simp only [hlen]
          · simp only [rawBytes_write, henv.raw, List.append_nil, List.append_assoc]
        have hfuel : phaseFuel ({ e with writingEnvelope := false, env := [], current := .down, remaining := env.length } : EW) d2 ≤ n := by
          unfold phaseFuel at hf ⊢
          simp only [henv.we, if_true, Bool.false_eq_true, if_false] at hf ⊢
          rw [hd, List.length_append] at hf; omega
        obtain ⟨st', e', done', h1, h2, h3, h4⟩ := ih _ _ done (x.payload ++ framesBytes xs) d2 tail hp' hrest hfuel
        exact ⟨st', e', done', h1, h2, h3, h4⟩
    · -- inside a payload
      have hc := hpay.common
      have hrem' : left ++ framesBytes xs = d ++ tail := by rw [← hpay.rem, hrem]
      by_cases hlt : d.length < left.length
      · -- the piece ends inside the payload
        obtain ⟨left', hne, hleft, htail⟩ := split_short hrem' hlt
        refine ⟨{ st with sink := st.sink.write d }, { e with remaining := e.remaining - d.length, err := false || false }, done, ?_, ?_, rfl, rfl⟩
        · rw [ewLoop]
          simp only [hc.err, hpay.remaining, Bool.false_eq_true, if_false]
          have : ((d.length : Nat) : Int) < ((left.length : Nat) : Int) := by omega
          simp only [this, if_true]
          unfold ewWritePiece
          simp only [hpay.we, Bool.false_eq_true, if_false, hpay.cur, writeDown, hc.buf, hpay.remaining, hc.err]
        · refine Or.inr (Or.inr ⟨x, xs, env, written ++ d, left', ⟨⟨hc.buf, hc.hse, hc.hcc, rfl, hc.notTrailer⟩, hpay.we, hpay.envNil, hpay.cur, hpay.dec, ?_, ?_, ?_,
            hpay.ok, hpay.tot, htail⟩, fun _ => hne⟩)
          · rw [List.append_assoc, ← hleft]; exact hpay.split
          · simp only [hpay.remaining]
            rw [hleft, List.length_append]; omega
          · simp only [rawBytes_write, hpay.raw, List.append_assoc]
      · -- the piece completes the message
        have hge : left.length ≤ d.length := by omega
        obtain ⟨d2, hd, hrest⟩ := split_long hrem' hge
        have hstep : ewLoop w tb (n + 1) st e d =
            ewLoop w tb n (flushMessage { st with sink := st.sink.write left })
              { e with remaining := 5, writingEnvelope := true } d2 := by
          rw [ewLoop]
          simp only [hc.err, hpay.remaining, Bool.false_eq_true, if_false]
          have : ¬ ((d.length : Nat) : Int) < ((left.length : Nat) : Int) := by omega
          simp only [this, if_false, Int.toNat_natCast]
          have htake : d.take left.length = left := by rw [hd]; simp
          have hdrop : d.drop left.length = d2 := by rw [hd]; simp
          rw [htake, hdrop]
          unfold ewWritePiece
          simp only [hpay.we, Bool.false_eq_true, if_false, hpay.cur, writeDown, hc.buf, Bool.or_self, hc.notTrailer, Int.sub_self]
          rw [hc.err]
        rw [hstep]
        have hfl : (flushMessage { st with sink := st.sink.write left }) =
            { st with sink := (st.sink.write left).flush } := by
          simp [flushMessage, hc.buf]
        have hraw' : rawBytes (flushMessage { st with sink := st.sink.write left }).sink.items =
            R0 ++ respReframedAll se cc (done ++ [x]) := by
          rw [hfl, respReframedAll_snoc se cc done x env hpay.dec]
          simp only [Sink.flush, rawBytes_write, hpay.raw, List.append_assoc, ← hpay.split]
        have hp' : Phase se cc R0 fs false (flushMessage { st with sink := st.sink.write left })
            { e with remaining := 5, writingEnvelope := true } (done ++ [x]) (framesBytes xs) := by
          refine Phase.weaken (Phase.start se cc _ ({ e with remaining := 5, writingEnvelope := true }) (done ++ [x]) xs ?_ rfl hpay.envNil rfl R0 hraw' ?_ fs (by rw [← hpay.tot]; simp))
          · rw [hfl]; exact ⟨hc.buf, hc.hse, hc.hcc, hc.err, hc.notTrailer⟩
          · rw [hfl]; exact hpay.ok
        have hfuel : phaseFuel ({ e with remaining := 5, writingEnvelope := true } : EW) d2 ≤ n := by
          unfold phaseFuel at hf ⊢
          simp only [hpay.we, if_true, Bool.false_eq_true, if_false] at hf ⊢
          rw [hd, List.length_append] at hf; omega
        obtain ⟨st', e', done', h1, h2, h3, h4⟩ := ih _ _ (done ++ [x]) (framesBytes xs) d2 tail hp' hrest hfuel
        refine ⟨st', e', done', h1, h2, ?_, h4⟩
        rw [h3, hfl]

/-- In every phase the writer is live and its `remaining` is a byte count. -/
theorem Phase.live {se cc : Enveloper} {R0 : Bytes} {fs : List Frame} {x : Bool} {st : St} {e : EW} {done : List Frame} {rem : Bytes}
    (h : Phase se cc R0 fs x st e done rem) : e.err = false ∧ 0 ≤ e.remaining := by
  rcases h with h | ⟨_, _, _, h⟩ | ⟨_, _, _, _, _, h, _⟩
  · exact ⟨h.common.err, by rw [h.remaining]; omega⟩
  · exact ⟨h.common.err, by rw [h.remaining]; omega⟩
  · exact ⟨h.common.err, by rw [h.remaining]; omega⟩

/-- One `Write` call (`envelopingWriter.Write`) of a prefix of what is still to come. -/
theorem ewWrite_phase (w : World) (tb : Tables) (se cc : Enveloper) (R0 : Bytes) (fs : List Frame)
    (st : St) (e : EW) (done : List Frame) (rem d tail : Bytes) (hi : e.initialized = true)
    (hp : Phase se cc R0 fs true st e done rem) (hrem : rem = d ++ tail) :
    ∃ st' e' done', ewWrite w tb st e d = (st', e', false, false) ∧ Phase se cc R0 fs true st' e' done' tail ∧
      st'.op = st.op ∧ e'.initialized = true := by
  obtain ⟨herr, hr⟩ := hp.live
  have hne : (e.remaining == -1) = false := by
    cases h : e.remaining == -1 with
    | false => rfl
    | true => have := eq_of_beq h; omega
  have heq : ewWrite w tb st e d = ewLoop w tb (2 * d.length + 4) st e d := by
    unfold ewWrite ewInit
    simp [hi, herr, hne]
  rw [heq]
  obtain ⟨st', e', done', h1, h2, h3, h4⟩ := ewLoop_phase w tb se cc R0 fs (2 * d.length + 4) st e done rem d tail hp.weaken hrem
    (by unfold phaseFuel; split <;> omega)
  exact ⟨st', e', done', h1, h2, h3, h4.trans hi⟩

/-- The handler's `Write` calls one after the other; the first failing call ends the sequence. -/
def ewWrites (w : World) (tb : Tables) : St → EW → List Bytes → St × EW × Bool × Bool
  | st, e, [] => (st, e, false, false)
  | st, e, d :: ds =>
    if ((ewWrite w tb st e d).2.2.1 || (ewWrite w tb st e d).2.2.2) = true then ewWrite w tb st e d
    else ewWrites w tb (ewWrite w tb st e d).1 (ewWrite w tb st e d).2.1 ds

theorem ewWrites_phase (w : World) (tb : Tables) (se cc : Enveloper) (R0 : Bytes) (fs : List Frame) :
    ∀ (ds : List Bytes) (st : St) (e : EW) (done : List Frame) (rem tail : Bytes), e.initialized = true →
      Phase se cc R0 fs true st e done rem → rem = ds.flatten ++ tail →
      ∃ st' e' done', ewWrites w tb st e ds = (st', e', false, false) ∧ Phase se cc R0 fs true st' e' done' tail := by
  intro ds
  induction ds with
  | nil =>
    intro st e done rem tail _ hp hrem
    simp only [List.flatten_nil, List.nil_append] at hrem
    subst hrem
    exact ⟨st, e, done, rfl, hp⟩
  | cons d ds ih =>
    intro st e done rem tail hi hp hrem
    simp only [List.flatten_cons, List.append_assoc] at hrem
    obtain ⟨st1, e1, done1, h1, h2, _, h4⟩ := ewWrite_phase w tb se cc R0 fs st e done rem d (ds.flatten ++ tail) hi hp hrem
    obtain ⟨st', e', done', h5, h6⟩ := ih st1 e1 done1 (ds.flatten ++ tail) tail h4 h2 rfl
    refine ⟨st', e', done', ?_, h6⟩
    rw [ewWrites, h1]
    simpa using h5

/-- With nothing left to come the writer is between messages and all frames are done. -/
theorem Phase.finished {se cc : Enveloper} {R0 : Bytes} {fs : List Frame} {st : St} {e : EW} {done : List Frame}
    (h : Phase se cc R0 fs true st e done []) : rawBytes st.sink.items = R0 ++ respReframedAll se cc fs := by
  rcases h with h | ⟨x, xs, need, h⟩ | ⟨x, xs, env, wr, lf, h, hx⟩
  · rw [← h.tot]; exact h.raw
  · have := h.rem
    have hn : need = [] := (List.append_eq_nil_iff.mp this.symm).1
    exact absurd hn h.need_ne
  · have := h.rem
    have hn : lf = [] := (List.append_eq_nil_iff.mp this.symm).1
    exact absurd hn (hx rfl)

/-- **A well-formed response stream handed over in arbitrary pieces** (re-framing path): whatever the
    `Write` calls of the backend handler are - split inside envelopes, inside payloads, between messages,
    empty - as long as their concatenation is a sequence of legal frames, every call succeeds and the
    client's connection carries exactly those messages, payloads untouched, each under the client's own
    envelope, in order. -/
theorem ewWrites_clean_stream (w : World) (tb : Tables) (se cc : Enveloper) (st : St) (fs : List Frame) (ds : List Bytes)
    (hb : st.rw.buf = none) (hse : st.op.serverEnveloper = some se) (hcc : st.op.clientEnveloper = some cc)
    (hok : ∀ x ∈ fs, x.ok se st.op.conf.maxMsg) (hds : ds.flatten = framesBytes fs) :
    ∃ st' e', ewWrites w tb st { initialized := true, writingEnvelope := true, remaining := 5 } ds = (st', e', false, false) ∧
      rawBytes st'.sink.items = rawBytes st.sink.items ++ respReframedAll se cc fs := by
  have hstart : Phase se cc (rawBytes st.sink.items) fs true st { initialized := true, writingEnvelope := true, remaining := 5 } [] (framesBytes fs) :=
    Phase.start se cc st _ [] fs ⟨hb, hse, hcc, rfl, rfl⟩ rfl rfl rfl _ (by simp [respReframedAll]) hok fs rfl
  obtain ⟨st', e', done', h1, h2⟩ := ewWrites_phase w tb se cc _ fs ds st _ [] (framesBytes fs) [] rfl hstart (by simp [hds])
  exact ⟨st', e', h1, h2.finished⟩

/-- A fresh writer's first `Write` is the first `Write` of the initialised writer. -/
theorem ewWrite_fresh (w : World) (tb : Tables) (se : Enveloper) (st : St) (d : Bytes) (hse : st.op.serverEnveloper = some se) :
    ewWrite w tb st {} d = ewWrite w tb st { initialized := true, writingEnvelope := true, remaining := 5 } d := by
  unfold ewWrite ewInit
  simp [hse]

end Vanguard
