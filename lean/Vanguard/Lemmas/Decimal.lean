import Vanguard.Model.Decimal
namespace Vanguard

theorem digitByte_isDigit (n : Nat) : isDigitByte (digitByte n) = true := by
  have h : ∀ k : Fin 10, isDigitByte (UInt8.ofNat (48 + k.val)) = true := by decide
  exact h ⟨n % 10, Nat.mod_lt _ (by omega)⟩

theorem digitByte_val (n : Nat) : (digitByte n).toNat - 48 = n % 10 := by
  have h : ∀ k : Fin 10, (UInt8.ofNat (48 + k.val)).toNat - 48 = k.val := by decide
  exact h ⟨n % 10, Nat.mod_lt _ (by omega)⟩

theorem digitByte_ne_sign (n : Nat) : (digitByte n == 0x2D) = false ∧ (digitByte n == 0x2B) = false := by
  have h : ∀ k : Fin 10, ((UInt8.ofNat (48 + k.val)) == 0x2D) = false ∧ ((UInt8.ofNat (48 + k.val)) == 0x2B) = false := by decide
  exact h ⟨n % 10, Nat.mod_lt _ (by omega)⟩

theorem parseNatAcc_snoc (acc : Nat) (a : Bytes) (d : UInt8) :
    parseNatAcc acc (a ++ [d]) =
      (parseNatAcc acc a).bind (fun x => if isDigitByte d then some (x * 10 + (d.toNat - 48)) else none) := by
  induction a generalizing acc with
  | nil => simp [parseNatAcc]
  | cons c rest ih =>
    simp only [List.cons_append, parseNatAcc]
    split
    · exact ih _
    · rfl

theorem parseNatAcc_formatNat (n : Nat) : parseNatAcc 0 (formatNat n) = some n := by
  induction n using Nat.strongRecOn with
  | _ n ih =>
    unfold formatNat
    split
    · rename_i h
      simp [parseNatAcc, digitByte_isDigit, digitByte_val]
      omega
    · rename_i h
      rw [parseNatAcc_snoc, ih (n / 10) (by omega)]
      simp [digitByte_isDigit, digitByte_val]
      omega

theorem formatNat_ne_nil (n : Nat) : formatNat n ≠ [] := by
  unfold formatNat; split <;> simp

theorem formatNat_head_not_sign (n : Nat) :
    ∃ c rest, formatNat n = c :: rest ∧ (c == 0x2D) = false ∧ (c == 0x2B) = false := by
  induction n using Nat.strongRecOn with
  | _ n ih =>
    unfold formatNat
    split
    · exact ⟨_, [], rfl, digitByte_ne_sign n⟩
    · obtain ⟨c, rest, h, hc⟩ := ih (n / 10) (by omega)
      exact ⟨c, rest ++ [digitByte n], by rw [h]; rfl, hc⟩

theorem parseNat_formatNat (n : Nat) : parseNat (formatNat n) = some n := by
  unfold parseNat
  have := formatNat_ne_nil n
  cases h : formatNat n with
  | nil => exact absurd h this
  | cons c rest => simp [← h, parseNatAcc_formatNat, this]

/-- `ParseInt(FormatInt(n)) = n` for every non-negative `int64`. -/
theorem parseInt64_formatNat (n : Nat) (h : n < 2^63) : parseInt64 (formatNat n) = some (n : Int) := by
  obtain ⟨c, rest, hf, h1, h2⟩ := formatNat_head_not_sign n
  have hp := parseNat_formatNat n
  unfold parseInt64
  rw [hf] at hp ⊢
  simp only [h1, h2, Bool.false_eq_true, if_false, hp]
  have : ¬ n ≥ 2^63 := by omega
  simp [this]

theorem formatNat_length_le (k n : Nat) (h : n < 10 ^ (k + 1)) : (formatNat n).length ≤ k + 1 := by
  induction k generalizing n with
  | zero =>
    unfold formatNat
    have : n < 10 := by simpa using h
    simp [this]
  | succ k ih =>
    unfold formatNat
    split
    · simp
    · have : n / 10 < 10 ^ (k + 1) := by
        rw [Nat.pow_succ] at h; omega
      have := ih (n / 10) this
      simp; omega

theorem formatNat_length_gt (k n : Nat) (h : 10 ^ k ≤ n) : k < (formatNat n).length := by
  induction k generalizing n with
  | zero =>
    have := formatNat_ne_nil n
    cases hf : formatNat n with
    | nil => exact absurd hf this
    | cons _ _ => simp
  | succ k ih =>
    unfold formatNat
    have h10 : 10 ≤ n := by
      have : 10 ^ (k + 1) ≥ 10 := by
        have := Nat.one_le_two_pow (n := 0)
        calc 10 ^ (k+1) = 10 ^ k * 10 := Nat.pow_succ _ _
          _ ≥ 1 * 10 := Nat.mul_le_mul_right 10 (Nat.one_le_pow _ _ (by omega))
          _ = 10 := by omega
      omega
    have hn : ¬ n < 10 := by omega
    simp only [hn, if_false]
    have : 10 ^ k ≤ n / 10 := by
      rw [Nat.pow_succ] at h; omega
    have := ih (n / 10) this
    simp; omega

end Vanguard

namespace Vanguard

theorem isDigit_not_sign (c : UInt8) (h : isDigitByte c = true) : (c == 0x2D) = false ∧ (c == 0x2B) = false := by
  unfold isDigitByte at h
  simp only [Bool.and_eq_true, decide_eq_true_eq] at h
  constructor <;> simp <;> intro hc <;> subst hc <;> simp at h

theorem parseNatAcc_nondigit (acc : Nat) (s : Bytes) (h : s.all isDigitByte = false) : parseNatAcc acc s = none := by
  induction s generalizing acc with
  | nil => simp at h
  | cons c rest ih =>
    unfold parseNatAcc
    split
    · rename_i hc
      simp only [List.all_cons, hc, Bool.true_and] at h
      exact ih _ h
    · rfl

theorem parseNatAcc_digits (acc : Nat) (s : Bytes) (h : s.all isDigitByte = true) :
    ∃ v, parseNatAcc acc s = some v ∧ v < (acc + 1) * 10 ^ s.length := by
  induction s generalizing acc with
  | nil => exact ⟨acc, rfl, by simp⟩
  | cons c rest ih =>
    simp only [List.all_cons, Bool.and_eq_true] at h
    obtain ⟨v, hv, hlt⟩ := ih (acc * 10 + (c.toNat - 48)) h.2
    refine ⟨v, by simp [parseNatAcc, h.1, hv], ?_⟩
    have hd : c.toNat - 48 < 10 := by
      have := h.1
      unfold isDigitByte at this
      simp only [Bool.and_eq_true, decide_eq_true_eq, UInt8.le_iff_toNat_le] at this
      have h2 : c.toNat ≤ 57 := this.2
      omega
    have : (acc * 10 + (c.toNat - 48) + 1) * 10 ^ rest.length ≤ (acc + 1) * 10 ^ (rest.length + 1) := by
      have e : (acc + 1) * 10 ^ (rest.length + 1) = ((acc + 1) * 10) * 10 ^ rest.length := by
        rw [Nat.pow_succ, Nat.mul_comm (10 ^ rest.length) 10, Nat.mul_assoc]
      rw [e]
      apply Nat.mul_le_mul_right
      omega
    simp only [List.length_cons]
    omega

/-- On a non-empty all-digit string `ParseInt` is plain decimal parsing with the int64 range check. -/
theorem parseInt64_digits (s : Bytes) (hne : s ≠ []) (h : s.all isDigitByte = true) :
    ∃ n, parseNat s = some n ∧ n < 10 ^ s.length ∧
      parseInt64 s = if n ≥ 2^63 then none else some (n : Int) := by
  obtain ⟨n, hn, hlt⟩ := parseNatAcc_digits 0 s h
  have hp : parseNat s = some n := by
    unfold parseNat
    cases s with
    | nil => exact absurd rfl hne
    | cons _ _ => simpa using hn
  refine ⟨n, hp, by simpa using hlt, ?_⟩
  cases s with
  | nil => exact absurd rfl hne
  | cons c rest =>
    simp only [List.all_cons, Bool.and_eq_true] at h
    have hs := isDigit_not_sign c h.1
    unfold parseInt64
    simp only [hs.1, hs.2, Bool.false_eq_true, if_false, hp]

end Vanguard

namespace Vanguard

theorem formatNat_allDigits (n : Nat) : (formatNat n).all isDigitByte = true := by
  induction n using Nat.strongRecOn with
  | _ n ih =>
    unfold formatNat
    split
    · simp [digitByte_isDigit]
    · simp [ih (n / 10) (by omega), digitByte_isDigit]

theorem formatInt_nonneg (x : Int) (h : 0 ≤ x) : formatInt x = formatNat x.toNat := by
  unfold formatInt
  have : ¬ x < 0 := by omega
  have e : x.natAbs = x.toNat := by omega
  simp [this, e]

theorem parseNatAcc_ge (acc : Nat) (s : Bytes) (n : Nat) (h : parseNatAcc acc s = some n) : acc ≤ n := by
  induction s generalizing acc with
  | nil => simp [parseNatAcc] at h; omega
  | cons c rest ih =>
    unfold parseNatAcc at h
    split at h
    · have := ih _ h; omega
    · simp at h

theorem parseNatAcc_pos (acc : Nat) (s : Bytes) (n : Nat) (h : parseNatAcc acc s = some n)
    (hnz : s.any (· != 0x30) = true) : 0 < n := by
  induction s generalizing acc with
  | nil => simp at hnz
  | cons c rest ih =>
    unfold parseNatAcc at h
    split at h
    · rename_i hc
      simp only [List.any_cons, Bool.or_eq_true] at hnz
      rcases hnz with h0 | hr
      · have hge := parseNatAcc_ge _ _ _ h
        have : c.toNat - 48 ≥ 1 := by
          unfold isDigitByte at hc
          simp only [Bool.and_eq_true, decide_eq_true_eq, UInt8.le_iff_toNat_le] at hc
          have h1 : 48 ≤ c.toNat := hc.1
          have : c.toNat ≠ 48 := by
            intro e
            have : c = 0x30 := UInt8.toNat_inj.mp (by simpa using e)
            simp [this] at h0
          omega
        omega
      · exact ih _ h hr
    · simp at h

end Vanguard
