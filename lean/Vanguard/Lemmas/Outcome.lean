import Vanguard.Lemmas.Serve
set_option linter.unusedSimpArgs false
/-!
  "Exactly one outcome" (C03) as an invariant of the whole response path.

  `Sink.endMarks` counts the terminal dispositions a client can see in what it received: end frames
  and error bodies in the body, a gRPC status in the headers, a gRPC status in the trailers.
  `Good st` says: the end flag of the response writer is consistent with that count (nothing that
  looks like an end before `endWritten`, at most one afterwards) and a written end latches the
  writer's error flag and implies that the head was flushed.
  `Ev a b` ("`a` evolves to `b`") says: `Good` is kept, and once the end was written nothing that the
  client can observe (`SameWire`) changes any more.
  Every function of the model that touches the request state is shown to be an `Ev` step.
-/
namespace Vanguard

def Item.isEnd : Item → Bool
  | .raw _ => false
  | _ => true

/-- Terminal dispositions visible to the client. -/
def Sink.endMarks (k : Sink) : Nat :=
  k.items.countP Item.isEnd + (if k.hdrEndSet then 1 else 0) + (if k.trailerEndSet then 1 else 0)

/-- What the client can observe of a response, except flush bookkeeping. -/
structure SameWire (a b : Sink) : Prop where
  status : b.status = a.status
  snap : b.snap = a.snap
  hdr : b.hdr = a.hdr
  items : b.items = a.items
  hdrEnd : b.hdrEnd = a.hdrEnd
  hdrEndSet : b.hdrEndSet = a.hdrEndSet
  trailerEnd : b.trailerEnd = a.trailerEnd
  trailerEndSet : b.trailerEndSet = a.trailerEndSet

theorem SameWire.refl (a : Sink) : SameWire a a := ⟨rfl, rfl, rfl, rfl, rfl, rfl, rfl, rfl⟩

theorem SameWire.trans {a b c : Sink} (h1 : SameWire a b) (h2 : SameWire b c) : SameWire a c :=
  ⟨h2.status.trans h1.status, h2.snap.trans h1.snap, h2.hdr.trans h1.hdr, h2.items.trans h1.items,
   h2.hdrEnd.trans h1.hdrEnd, h2.hdrEndSet.trans h1.hdrEndSet, h2.trailerEnd.trans h1.trailerEnd,
   h2.trailerEndSet.trans h1.trailerEndSet⟩

/-- No body item is an end. -/
def Sink.bodyRaw (k : Sink) : Prop := ∀ i ∈ k.items, i.isEnd = false

/-- An end item, if there is one, is the last item of the body: no message data follows it. -/
def Sink.endLast (k : Sink) : Prop := ∀ i ∈ k.items.dropLast, i.isEnd = false

theorem Sink.bodyRaw_of_marks {k : Sink} (h : k.endMarks = 0) : k.bodyRaw := by
  intro i hi
  have h0 : k.items.countP Item.isEnd = 0 := by unfold Sink.endMarks at h; omega
  have := (List.countP_eq_zero.mp h0) i hi
  simpa using this

theorem Sink.endLast_of_bodyRaw {k : Sink} (h : k.bodyRaw) : k.endLast :=
  fun i hi => h i (List.dropLast_subset _ hi)

theorem Sink.endLast_of_marks {k : Sink} (h : k.endMarks = 0) : k.endLast :=
  Sink.endLast_of_bodyRaw (Sink.bodyRaw_of_marks h)

structure Good (st : St) : Prop where
  ended : st.rw.endWritten = true → st.rw.err = true ∧ st.rw.headersFlushed = true
  opened : st.rw.endWritten = false → st.sink.endMarks = 0
  atMost : st.sink.endMarks ≤ 1
  last : st.sink.endLast

/-- `a` evolves to `b`. -/
def Ev (a b : St) : Prop :=
  Good a → Good b ∧ (a.rw.endWritten = true → SameWire a.sink b.sink ∧ b.rw.endWritten = true)

theorem Ev.refl (a : St) : Ev a a := fun h => ⟨h, fun he => ⟨SameWire.refl _, he⟩⟩

theorem Ev.trans {a b c : St} (h1 : Ev a b) (h2 : Ev b c) : Ev a c := by
  intro ha
  obtain ⟨hb, sb⟩ := h1 ha
  obtain ⟨hc, sc⟩ := h2 hb
  refine ⟨hc, fun he => ?_⟩
  obtain ⟨w1, e1⟩ := sb he
  obtain ⟨w2, e2⟩ := sc e1
  exact ⟨w1.trans w2, e2⟩

/-- A step that keeps the three flags (the error flag may only be raised) and the sink's
    observable part. -/
theorem Ev.of_same {a b : St} (he : b.rw.endWritten = a.rw.endWritten) (herr : a.rw.err = true → b.rw.err = true)
    (hf : b.rw.headersFlushed = a.rw.headersFlushed) (hw : SameWire a.sink b.sink) : Ev a b := by
  intro ha
  have hm : b.sink.endMarks = a.sink.endMarks := by
    unfold Sink.endMarks; rw [hw.items, hw.hdrEndSet, hw.trailerEndSet]
  refine ⟨⟨fun h => ?_, fun h => ?_, ?_, ?_⟩, fun h => ⟨hw, by rw [he]; exact h⟩⟩
  · rw [he] at h; rw [hf]; exact ⟨herr (ha.ended h).1, (ha.ended h).2⟩
  · rw [he] at h; rw [hm]; exact ha.opened h
  · rw [hm]; exact ha.atMost
  · unfold Sink.endLast; rw [hw.items]; exact ha.last

/-- A step on a live response that changes only headers / raw body items / flush bookkeeping. -/
theorem Ev.of_open {a b : St} (hopen : a.rw.endWritten = false) (he : b.rw.endWritten = false)
    (hm : b.sink.endMarks = a.sink.endMarks) : Ev a b := by
  intro ha
  refine ⟨⟨fun h => ?_, fun _ => ?_, ?_, ?_⟩, fun h => ?_⟩
  · rw [he] at h; cases h
  · rw [hm]; exact ha.opened hopen
  · rw [hm]; exact ha.atMost
  · exact Sink.endLast_of_marks (by rw [hm]; exact ha.opened hopen)
  · rw [hopen] at h; cases h

theorem Good.not_flushed_open {st : St} (h : Good st) (hf : st.rw.headersFlushed = false) : st.rw.endWritten = false := by
  cases he : st.rw.endWritten with
  | false => rfl
  | true => have := (h.ended he).2; rw [hf] at this; cases this

theorem Good.live_open {st : St} (h : Good st) (hf : st.rw.err = false) : st.rw.endWritten = false := by
  cases he : st.rw.endWritten with
  | false => rfl
  | true => have := (h.ended he).1; rw [hf] at this; cases this

/-! ### the sink primitives -/

theorem endMarks_write (k : Sink) (b : Bytes) : (k.write b).endMarks = k.endMarks := by
  unfold Sink.write Sink.endMarks
  by_cases hs : k.status.isNone = true <;> by_cases hb : b.isEmpty = true <;>
    simp [hs, hb, List.countP_append, Item.isEnd]

theorem endMarks_writeHeader (k : Sink) (c : Nat) : (k.writeHeader c).endMarks = k.endMarks := by
  unfold Sink.writeHeader Sink.endMarks
  split <;> rfl

theorem endMarks_flush (k : Sink) : k.flush.endMarks = k.endMarks := rfl

theorem endMarks_hdr (k : Sink) (h : Hdr) : ({ k with hdr := h } : Sink).endMarks = k.endMarks := rfl

theorem endMarks_writeItem_end (k : Sink) (i : Item) (hi : i.isEnd = true) : (k.writeItem i).endMarks = k.endMarks + 1 := by
  unfold Sink.writeItem Sink.endMarks
  by_cases hs : k.status.isNone = true <;> simp [hs, List.countP_append, hi] <;> omega

@[simp] theorem endMarks_endFrame (k : Sink) (f : UInt8) (e : RespEnd) : (k.writeItem (.endFrame f e)).endMarks = k.endMarks + 1 :=
  endMarks_writeItem_end k _ rfl
@[simp] theorem endMarks_errBody (k : Sink) (e : RpcErr) : (k.writeItem (.errBody e)).endMarks = k.endMarks + 1 :=
  endMarks_writeItem_end k _ rfl

theorem sameWire_flush (k : Sink) : SameWire k k.flush := ⟨rfl, rfl, rfl, rfl, rfl, rfl, rfl, rfl⟩

/-! ### writing the end -/

theorem endMarks_writeEndToHeaders (k : Sink) (e : RespEnd) :
    (writeEndToHeaders k e).endMarks = k.items.countP Item.isEnd + 1 + (if k.trailerEndSet then 1 else 0) := by
  unfold writeEndToHeaders Sink.endMarks; simp

/-- The response head carries an end mark only for a gRPC / gRPC-Web client and only when the
    end is known by then (trailers-only response). -/
theorem addResponseHeaders_marks (c : ClientForm) (rm : RespMeta) (k : Sink) (hk : k.endMarks = 0) :
    (addResponseHeaders c rm k).2.endMarks =
      (if (c == .grpc || c == .grpcWeb) && rm.end.isSome then 1 else 0) := by
  have hk' : k.items.countP Item.isEnd = 0 ∧ k.hdrEndSet = false ∧ k.trailerEndSet = false := by
    unfold Sink.endMarks at hk
    cases h1 : k.hdrEndSet <;> cases h2 : k.trailerEndSet <;> simp [h1, h2] at hk ⊢ <;> omega
  obtain ⟨h1, h2, h3⟩ := hk'
  unfold addResponseHeaders
  cases c <;> simp only
  case grpc =>
    cases he : rm.end with
    | none => simp [Sink.endMarks, h1, h2, h3]
    | some e => simp [Sink.endMarks, writeEndToHeaders, h1, h3]
  case grpcWeb =>
    cases he : rm.end with
    | none => simp [Sink.endMarks, h1, h2, h3]
    | some e => simp [Sink.endMarks, writeEndToHeaders, h1, h3]
  case connectStream => simp [Sink.endMarks, h1, h2, h3]
  case rest => simp [Sink.endMarks, h1, h2, h3]
  case connectPost =>
    cases rm.end.bind (·.err) <;> simp [Sink.endMarks, h1, h2, h3]
  case connectGet =>
    cases rm.end.bind (·.err) <;> simp [Sink.endMarks, h1, h2, h3]

theorem addResponseHeaders_items (c : ClientForm) (rm : RespMeta) (k : Sink) :
    (addResponseHeaders c rm k).2.items = k.items ∧ (addResponseHeaders c rm k).2.trailerEndSet = k.trailerEndSet := by
  unfold addResponseHeaders
  cases c <;> simp only
  case grpc => cases he : rm.end <;> simp [writeEndToHeaders]
  case grpcWeb => cases he : rm.end <;> simp [writeEndToHeaders]
  case connectStream => simp
  case rest => simp
  case connectPost => cases rm.end.bind (·.err) <;> simp
  case connectGet => cases rm.end.bind (·.err) <;> simp

/-- `encodeEnd`: adds at most one mark, and none when the head already carries the end. -/
theorem encodeEnd_marks (c : ClientForm) (e : RespEnd) (inHdr : Bool) (k : Sink) :
    (encodeEnd c e inHdr k).endMarks ≤ k.endMarks + 1 ∧
    (((c == .grpc || c == .grpcWeb) && inHdr) = true → (encodeEnd c e inHdr k).endMarks = k.endMarks) := by
  unfold encodeEnd
  cases c <;> simp only
  case grpc =>
    cases inHdr
    · by_cases ht : k.trailerEndSet = true <;> simp [Sink.endMarks, ht]
    · simp
  case grpcWeb =>
    cases inHdr
    · simp
    · simp
  case connectStream => simp
  case rest => simp
  case connectPost =>
    cases e.err with
    | none => simp
    | some err => cases inHdr <;> simp
  case connectGet =>
    cases e.err with
    | none => simp
    | some err => cases inHdr <;> simp

theorem bodyRaw_write {k : Sink} (h : k.bodyRaw) (b : Bytes) : (k.write b).bodyRaw := by
  unfold Sink.write Sink.bodyRaw
  by_cases hs : k.status.isNone = true <;> by_cases hb : b.isEmpty = true <;> simp only [hs, hb, if_true, if_false]
  all_goals first
    | exact h
    | (intro i hi
       rcases List.mem_append.mp hi with hi | hi
       · exact h i hi
       · simp only [List.mem_singleton] at hi; rw [hi]; rfl)

theorem bodyRaw_writeHeader {k : Sink} (h : k.bodyRaw) (c : Nat) : (k.writeHeader c).bodyRaw := by
  unfold Sink.writeHeader Sink.bodyRaw
  split <;> exact h

theorem bodyRaw_of_items {k k' : Sink} (h : k.bodyRaw) (hi : k'.items = k.items) : k'.bodyRaw := by
  unfold Sink.bodyRaw; rw [hi]; exact h

theorem endLast_writeItem {k : Sink} (h : k.bodyRaw) (i : Item) : (k.writeItem i).endLast := by
  unfold Sink.writeItem Sink.endLast
  by_cases hs : k.status.isNone = true <;> simp only [hs, if_true, if_false, Bool.false_eq_true, List.dropLast_concat] <;> exact h

/-- `encodeEnd` puts its end (if any) after everything written so far. -/
theorem encodeEnd_endLast (c : ClientForm) (e : RespEnd) (inHdr : Bool) {k : Sink} (h : k.bodyRaw) :
    (encodeEnd c e inHdr k).endLast := by
  have hk := Sink.endLast_of_bodyRaw h
  unfold encodeEnd
  cases c <;> simp only
  case grpc => cases inHdr <;> simp only [Bool.false_eq_true, if_false, if_true] <;> exact hk
  case grpcWeb =>
    cases inHdr <;> simp only [Bool.false_eq_true, if_false, if_true]
    · exact endLast_writeItem h _
    · exact hk
  case connectStream => exact endLast_writeItem h _
  case rest => exact hk
  case connectPost =>
    cases e.err with
    | none => exact hk
    | some err =>
      cases inHdr <;> simp only [Bool.false_eq_true, if_false, if_true]
      · exact hk
      · exact endLast_writeItem h _
  case connectGet =>
    cases e.err with
    | none => exact hk
    | some err =>
      cases inHdr <;> simp only [Bool.false_eq_true, if_false, if_true]
      · exact hk
      · exact endLast_writeItem h _

theorem endMarks_bufWrite (k : Sink) (buf : Option Bytes) (c : Bool) :
    (match buf with
      | some b => if c then k else k.write b
      | none => k).endMarks = k.endMarks := by
  cases buf with
  | none => rfl
  | some b => cases c <;> simp [endMarks_write]

theorem flushHeaders_ev (w : World) (st : St) : Ev st (flushHeaders w st).1 := by
  intro hg
  by_cases hf : st.rw.headersFlushed = true
  · rw [flushHeaders_flushed w st hf]; exact Ev.refl st hg
  · have hf' : st.rw.headersFlushed = false := by simpa using hf
    have hopen := hg.not_flushed_open hf'
    have hm0 := hg.opened hopen
    refine ⟨?_, fun h => by rw [hopen] at h; cases h⟩
    have hmarks := fun cli => addResponseHeaders_marks st.op.cform cli st.sink hm0
    unfold flushHeaders
    simp only [hf', Bool.false_eq_true, if_false]
    generalize hr : addResponseHeaders st.op.cform _ st.sink = r
    have hm1 : r.2.endMarks = if ((st.op.cform == ClientForm.grpc || st.op.cform == ClientForm.grpcWeb)
        && (st.rw.respMeta.getD {}).end.isSome) = true then 1 else 0 := by
      rw [← hr]; exact hmarks _
    have hraw1 : r.2.bodyRaw := by
      rw [← hr]; exact bodyRaw_of_items (Sink.bodyRaw_of_marks hm0) (addResponseHeaders_items _ _ _).1
    obtain ⟨status, sink1⟩ := r
    simp only at hm1 hraw1 ⊢
    cases status with
    | none => exact hg
    | some code =>
      simp only
      cases hend : (st.rw.respMeta.getD {}).end with
      | none =>
        rw [hend] at hm1
        simp only [Option.isSome_none, Bool.and_false, Bool.false_eq_true, if_false] at hm1
        refine ⟨fun h => ?_, fun _ => ?_, ?_, ?_⟩
        · simp [hopen] at h
        · cases st.rw.buf <;> simp [endMarks_write, endMarks_writeHeader, hm1]
        · cases st.rw.buf <;> simp [endMarks_write, endMarks_writeHeader, hm1]
        · refine Sink.endLast_of_marks ?_
          cases st.rw.buf <;> simp [endMarks_write, endMarks_writeHeader, hm1]
      | some e =>
        rw [hend] at hm1
        simp only [Option.isSome_some, Bool.and_true] at hm1
        have henc := fun k => encodeEnd_marks st.op.cform e true k
        refine ⟨fun _ => ⟨rfl, rfl⟩, fun h => ?_, ?_, ?_⟩
        rotate_left 2
        · simp only [writeEnd]
          refine encodeEnd_endLast _ _ _ ?_
          cases st.rw.buf with
          | none => exact bodyRaw_writeHeader hraw1 _
          | some b =>
            by_cases hc : (e.err).isSome = true
            · simp only [Option.bind_some, hc, if_true]; exact bodyRaw_writeHeader hraw1 _
            · simp only [Option.bind_some, hc, Bool.false_eq_true, if_false]; exact bodyRaw_write (bodyRaw_writeHeader hraw1 _) _
        · simp [writeEnd] at h
        · simp only [writeEnd]
          by_cases hg2 : (st.op.cform == ClientForm.grpc || st.op.cform == ClientForm.grpcWeb) = true
          · rw [(henc _).2 (by simp [hg2])]
            simp only [hg2, if_true] at hm1
            cases st.rw.buf with
            | none => simp [endMarks_writeHeader, hm1]
            | some b => by_cases hc : (e.err).isSome = true <;> simp [hc, endMarks_write, endMarks_writeHeader, hm1]
          · simp only [hg2, Bool.false_eq_true, if_false] at hm1
            refine Nat.le_trans (henc _).1 ?_
            cases st.rw.buf with
            | none => simp [endMarks_writeHeader, hm1]
            | some b => by_cases hc : (e.err).isSome = true <;> simp [hc, endMarks_write, endMarks_writeHeader, hm1]

/-- Bookkeeping updates of the response writer that touch none of the three flags. -/
theorem Ev.rwUpdate (st : St) (r : RW) (he : r.endWritten = st.rw.endWritten) (herr : st.rw.err = true → r.err = true)
    (hf : r.headersFlushed = st.rw.headersFlushed) : Ev st { st with rw := r } :=
  Ev.of_same he herr hf (SameWire.refl _)

theorem Ev.sinkHdr (st : St) (h : Hdr) (hopen : st.rw.endWritten = false) :
    Ev st { st with sink := { st.sink with hdr := h } } :=
  Ev.of_open hopen hopen rfl

/-- `reportEnd`'s last step: flush and latch the error flag. -/
theorem Ev.finish (st : St) : Ev st { st with sink := st.sink.flush, rw := { st.rw with err := true } } :=
  Ev.of_same rfl (fun _ => rfl) rfl (sameWire_flush _)

theorem writeEnd_finish_good (st : St) (e : RespEnd) (hg : Good st) (hopen : st.rw.endWritten = false)
    (hfl : st.rw.headersFlushed = true) :
    Good { (writeEnd st e false) with sink := (writeEnd st e false).sink.flush,
                                      rw := { (writeEnd st e false).rw with err := true } } := by
  refine ⟨fun _ => ⟨rfl, hfl⟩, fun h => by simp [writeEnd] at h, ?_, ?_⟩
  · have := (encodeEnd_marks st.op.cform e false st.sink).1
    rw [hg.opened hopen] at this
    simpa [writeEnd, endMarks_flush] using this
  · exact encodeEnd_endLast st.op.cform e false (Sink.bodyRaw_of_marks (hg.opened hopen))

theorem flush_finish_good (w : World) (st : St) (r : RW) (he : r.endWritten = st.rw.endWritten)
    (herr : st.rw.err = true → r.err = true) (hf : r.headersFlushed = st.rw.headersFlushed) (hg : Good st) :
    Good { (flushHeaders w { st with rw := r }).1 with
             sink := (flushHeaders w { st with rw := r }).1.sink.flush,
             rw := { (flushHeaders w { st with rw := r }).1.rw with err := true } } :=
  (Ev.trans (Ev.trans (Ev.rwUpdate st r he herr hf) (flushHeaders_ev w _)) (Ev.finish _) hg).1

theorem reportEnd_ev (w : World) (st : St) (e : RespEnd) : Ev st (reportEnd w st e).1 := by
  intro hg
  by_cases h1 : st.rw.endWritten = true
  · rw [reportEnd_ended w st e h1]; exact Ev.refl st hg
  · have hopen : st.rw.endWritten = false := by simpa using h1
    refine ⟨?_, fun h => by rw [hopen] at h; cases h⟩
    unfold reportEnd
    simp only [hopen, Bool.false_eq_true, if_false]
    cases hrm : st.rw.respMeta with
    | none =>
      simp only
      by_cases hfl : st.rw.headersFlushed = true
      · rw [if_pos hfl]
        exact writeEnd_finish_good st _ hg hopen hfl
      · rw [if_neg hfl]
        exact flush_finish_good w st _ rfl (fun h => h) rfl hg
    | some rm =>
      simp only
      have hg1 := (Ev.sinkHdr st (httpExtractTrailers st.sink.hdr rm.pendingTrailerKeys).2 hopen hg).1
      by_cases hfl : st.rw.headersFlushed = true
      · rw [if_pos hfl]
        exact writeEnd_finish_good _ _ hg1 hopen hfl
      · rw [if_neg hfl]
        exact flush_finish_good w { st with sink := { st.sink with hdr := (httpExtractTrailers st.sink.hdr rm.pendingTrailerKeys).2 } } _ rfl (fun h => h) rfl hg1

theorem reportError_ev (w : World) (st : St) (err : Err) : Ev st (reportError w st err).1 := by
  unfold reportError
  split
  · split
    · exact Ev.refl st
    · exact reportEnd_ev w st _
  · exact reportEnd_ev w st _

theorem setHdr_ev (st : St) (h : Hdr) : Ev st (st.setHdr h) := by
  unfold St.setHdr
  by_cases he : st.rw.endWritten = true
  · simp only [he, if_true]
    exact Ev.of_same rfl (fun h => h) rfl (SameWire.refl _)
  · have hopen : st.rw.endWritten = false := by simpa using he
    simp only [hopen, Bool.false_eq_true, if_false]
    exact Ev.sinkHdr st h hopen

theorem flushMessage_ev (st : St) : Ev st (flushMessage st) := by
  unfold flushMessage
  split
  · exact Ev.refl st
  · exact Ev.of_same rfl (fun h => h) rfl (sameWire_flush _)

theorem srcUpdate_ev (st : St) (s : Source) : Ev st { st with src := s } :=
  Ev.of_same rfl (fun h => h) rfl (SameWire.refl _)

/-- Writing message bytes towards the client is allowed only while the response is open. -/
theorem writeDown_ev (w : World) (st : St) (b : Bytes) (hopen : st.rw.endWritten = false) :
    Ev st (writeDown w st b).1 := by
  unfold writeDown
  split
  · split
    · exact reportError_ev w st _
    · exact Ev.rwUpdate st _ rfl (fun h => h) rfl
  · exact Ev.of_open hopen hopen (endMarks_write _ _)

/-- A write that did not fail left the response open. -/
theorem writeDown_ok (w : World) (st : St) (b : Bytes) (hopen : st.rw.endWritten = false)
    (hok : (writeDown w st b).2.1 = false) : (writeDown w st b).1.rw.endWritten = false := by
  unfold writeDown at hok ⊢
  split
  · rename_i buf hb
    simp only [hb] at hok
    split
    · rename_i hlim; simp [hlim] at hok
    · exact hopen
  · exact hopen

theorem flushMessage_open (st : St) : (flushMessage st).rw.endWritten = st.rw.endWritten := by
  unfold flushMessage; split <;> rfl

/-! ### the writers -/

theorem handleEndMessage_ev (w : World) (tb : Tables) (st : St) (c : Bool) (d : Bytes) (r : Bool) :
    Ev st (handleEndMessage w tb st c d r).1 := by
  unfold handleEndMessage
  simp only
  split
  · split
    · exact reportError_ev w st _
    · exact Ev.refl st
  · split
    · exact reportError_ev w st _
    · exact reportEnd_ev w st _

theorem ewInit_ev (w : World) (st : St) (e : EW) (hopen : st.rw.endWritten = false) : Ev st (ewInit w st e).1 := by
  unfold ewInit
  split
  · exact Ev.refl st
  · simp only
    split
    · exact Ev.refl st
    · split
      · exact Ev.refl st
      · split
        · exact Ev.refl st
        · split
          · exact reportError_ev w st _
          · split <;> exact writeDown_ev w st _ hopen

theorem ewInit_open (w : World) (st : St) (e : EW) (hopen : st.rw.endWritten = false) :
    (ewInit w st e).2.1.err = false → (ewInit w st e).1.rw.endWritten = false := by
  unfold ewInit
  split
  · exact fun _ => hopen
  · simp only
    split
    · exact fun _ => hopen
    · split
      · exact fun _ => hopen
      · split
        · exact fun _ => hopen
        · split
          · intro h; simp at h
          · split
            · intro h; simp at h
            · rename_i hfail
              intro _
              exact writeDown_ok w st _ hopen (by simpa using hfail)

theorem ewWritePiece_ev (w : World) (st : St) (e : EW) (piece : Bytes) (hopen : st.rw.endWritten = false) :
    Ev st (ewWritePiece w st e piece).1 := by
  unfold ewWritePiece
  split
  · exact Ev.refl st
  · split
    · exact writeDown_ev w st _ hopen
    · exact Ev.refl st
    · split
      · exact reportError_ev w st _
      · exact Ev.refl st
    · exact Ev.refl st

theorem ewWritePiece_open (w : World) (st : St) (e : EW) (piece : Bytes) (hopen : st.rw.endWritten = false) :
    (ewWritePiece w st e piece).2.2.1 = false → (ewWritePiece w st e piece).1.rw.endWritten = false := by
  unfold ewWritePiece
  split
  · exact fun _ => hopen
  · split
    · intro h; exact writeDown_ok w st _ hopen h
    · exact fun _ => hopen
    · split
      · intro h; simp at h
      · exact fun _ => hopen
    · exact fun _ => hopen

theorem ewEnvelopeWritten_ev (w : World) (st : St) (e : EW) (hopen : st.rw.endWritten = false) :
    Ev st (ewEnvelopeWritten w st e).1 := by
  unfold ewEnvelopeWritten
  simp only
  split
  · exact reportError_ev w st _
  · split
    · split
      · exact reportError_ev w st _
      · split
        · split
          · exact reportError_ev w st _
          · exact Ev.refl st
        · split
          · split <;> exact writeDown_ev w st _ hopen
          · split <;> exact Ev.refl st
    · exact Ev.refl st

theorem ewEnvelopeWritten_open (w : World) (st : St) (e : EW) (hopen : st.rw.endWritten = false) :
    (ewEnvelopeWritten w st e).2.2.1 = false → (ewEnvelopeWritten w st e).1.rw.endWritten = false := by
  unfold ewEnvelopeWritten
  simp only
  split
  · intro h; simp at h
  · split
    · split
      · intro h; simp at h
      · split
        · split
          · intro h; simp at h
          · exact fun _ => hopen
        · split
          · split
            · intro h; simp at h
            · rename_i hfail; intro _; exact writeDown_ok w st _ hopen (by simpa using hfail)
          · split
            · intro h; simp at h
            · exact fun _ => hopen
    · intro h; simp at h

/-- **The re-framing writer, any number of `Write` bytes.** -/
theorem ewLoop_ev (w : World) (tb : Tables) : ∀ (n : Nat) (st : St) (e : EW) (data : Bytes),
    (e.err = true ∨ st.rw.endWritten = false) → Ev st (ewLoop w tb n st e data).1 := by
  intro n
  induction n with
  | zero => intro st e data _; simpa [ewLoop] using Ev.refl st
  | succ m ih =>
    intro st e data hpre
    unfold ewLoop
    by_cases herr : e.err = true
    · simp only [herr, if_true]; exact Ev.refl st
    · have hopen : st.rw.endWritten = false := by
        cases hpre with
        | inl h => exact absurd h herr
        | inr h => exact h
      simp only [herr, Bool.false_eq_true, if_false]
      by_cases hlt : (data.length : Int) < e.remaining
      · simp only [hlt, if_true]
        exact ewWritePiece_ev w st e data hopen
      · simp only [hlt, if_false]
        have hev1 := ewWritePiece_ev w st e (data.take e.remaining.toNat) hopen
        have hop1 := ewWritePiece_open w st e (data.take e.remaining.toNat) hopen
        generalize ewWritePiece w st e (data.take e.remaining.toNat) = r1 at hev1 hop1 ⊢
        obtain ⟨s1, e1, f1, p1⟩ := r1
        simp only at hev1 hop1 ⊢
        by_cases hbad : (f1 || p1) = true
        · simp only [hbad, if_true]; exact hev1
        · simp only [hbad, Bool.false_eq_true, if_false]
          have hf1 : f1 = false := by cases f1 <;> simp_all
          have hs1 := hop1 hf1
          by_cases hw : e1.writingEnvelope = true
          · simp only [hw, if_true]
            have hev2 := fun ee => ewEnvelopeWritten_ev w s1 ee hs1
            have hop2 := fun ee => ewEnvelopeWritten_open w s1 ee hs1
            generalize hr2 : ewEnvelopeWritten w s1 _ = r2
            have hev2' : Ev s1 r2.1 := by rw [← hr2]; exact hev2 _
            have hop2' : r2.2.2.1 = false → r2.1.rw.endWritten = false := by rw [← hr2]; exact hop2 _
            obtain ⟨s2, e2, f2, p2⟩ := r2
            simp only at hev2' hop2' ⊢
            by_cases hbad2 : (f2 || p2) = true
            · simp only [hbad2, if_true]; exact Ev.trans hev1 hev2'
            · simp only [hbad2, Bool.false_eq_true, if_false]
              have hf2 : f2 = false := by cases f2 <;> simp_all
              exact Ev.trans hev1 (Ev.trans hev2' (ih _ _ _ (Or.inr (hop2' hf2))))
          · have hwf : e1.writingEnvelope = false := by simpa using hw
            simp only [hwf, Bool.false_eq_true, if_false]
            by_cases ht : e1.currentIsTrailer = true
            · simp only [ht, if_true]
              split
              · have hev3 := fun c d => handleEndMessage_ev w tb s1 c d true
                generalize hr3 : handleEndMessage w tb s1 _ _ true = r3
                have hev3' : Ev s1 r3.1 := by rw [← hr3]; exact hev3 _ _
                obtain ⟨s2, err, p2⟩ := r3
                simp only at hev3' ⊢
                by_cases hbad3 : (err.isSome || p2) = true
                · simp only [hbad3, if_true]; exact Ev.trans hev1 hev3'
                · simp only [hbad3, Bool.false_eq_true, if_false]
                  by_cases hre : (data.drop e.remaining.toNat).isEmpty = true
                  · simp only [hre, if_true]; exact Ev.trans hev1 hev3'
                  · simp only [hre, Bool.false_eq_true, if_false]
                    exact Ev.trans hev1 (Ev.trans hev3' (ih _ _ _ (Or.inl rfl)))
              · exact hev1
            · simp only [ht, Bool.false_eq_true, if_false]
              refine Ev.trans hev1 (Ev.trans (flushMessage_ev s1) (ih _ _ _ (Or.inr ?_)))
              rw [flushMessage_open]; exact hs1

theorem ewWrite_ev (w : World) (tb : Tables) (st : St) (e : EW) (data : Bytes) (hopen : st.rw.endWritten = false) :
    Ev st (ewWrite w tb st e data).1 := by
  unfold ewWrite
  have hev0 := ewInit_ev w st e hopen
  have hop0 := ewInit_open w st e hopen
  generalize ewInit w st e = r0 at hev0 hop0 ⊢
  obtain ⟨s0, e0, p0⟩ := r0
  simp only at hev0 hop0 ⊢
  split
  · exact hev0
  · split
    · exact hev0
    · rename_i herr
      have hs0 := hop0 (by simpa using herr)
      split
      · exact Ev.trans hev0 (ewWritePiece_ev w s0 e0 data hs0)
      · exact Ev.trans hev0 (ewLoop_ev w tb _ s0 e0 data (Or.inr hs0))

theorem ewCloseFlush_ev (w : World) (st : St) (e : EW) : Ev st (ewCloseFlush w st e).1 := by
  unfold ewCloseFlush
  split
  · split
    · rename_i hcond
      have hopen : st.rw.endWritten = false := by
        cases h : st.rw.endWritten with
        | false => rfl
        | true => simp [h] at hcond
      split
      · exact Ev.refl st
      · split
        · simp only
          split
          · exact writeDown_ev w st _ hopen
          · rename_i hbad
            simp only [Bool.or_eq_true, not_or, Bool.not_eq_true] at hbad
            exact Ev.trans (writeDown_ev w st _ hopen) (writeDown_ev w _ _ (writeDown_ok w st _ hopen hbad.1))
        · exact Ev.refl st
    · exact Ev.refl st
  · exact Ev.refl st

theorem ewClose_ev (w : World) (st : St) (e : EW) : Ev st (ewClose w st e).1 := by
  unfold ewClose
  have h := ewCloseFlush_ev w st e
  generalize ewCloseFlush w st e = r at h ⊢
  obtain ⟨s1, e1, p1⟩ := r
  simp only at h ⊢
  split
  · exact h
  · split
    · exact h
    · split
      · exact Ev.trans h (reportError_ev w s1 _)
      · exact h

theorem twFlushMessage_ev (w : World) (tb : Tables) (st : St) (t : TW) (hopen : st.rw.endWritten = false) :
    Ev st (twFlushMessage w tb st t).1 ∧
    ((twFlushMessage w tb st t).2.2.1 = none → (twFlushMessage w tb st t).2.2.2 = false →
      ((twFlushMessage w tb st t).2.1.err = true ∨ (twFlushMessage w tb st t).1.rw.endWritten = false)) := by
  unfold twFlushMessage
  simp only
  split
  · -- end-of-stream message
    split
    · exact ⟨handleEndMessage_ev w tb st _ _ _, fun h => by simp_all⟩
    · exact ⟨handleEndMessage_ev w tb st _ _ _, fun _ _ => Or.inl rfl⟩
  · split
    · exact ⟨Ev.refl st, fun h => by simp at h⟩
    · rename_i out _
      have tail : ∀ (s1 : St), Ev st s1 → s1.rw.endWritten = false →
          Ev st (if ((writeDown w s1 out).2.1 || (writeDown w s1 out).2.2) = true
                  then ((writeDown w s1 out).1, { t with err := true }, some Err.closed, (writeDown w s1 out).2.2)
                  else (flushMessage (writeDown w s1 out).1, twReset (flushMessage (writeDown w s1 out).1) t, none, false)).1 ∧
          ((if ((writeDown w s1 out).2.1 || (writeDown w s1 out).2.2) = true
                  then ((writeDown w s1 out).1, { t with err := true }, some Err.closed, (writeDown w s1 out).2.2)
                  else (flushMessage (writeDown w s1 out).1, twReset (flushMessage (writeDown w s1 out).1) t, none, false)).2.2.1 = none →
           (if ((writeDown w s1 out).2.1 || (writeDown w s1 out).2.2) = true
                  then ((writeDown w s1 out).1, { t with err := true }, some Err.closed, (writeDown w s1 out).2.2)
                  else (flushMessage (writeDown w s1 out).1, twReset (flushMessage (writeDown w s1 out).1) t, none, false)).1.rw.endWritten = false) := by
        intro s1 h1 ho1
        split
        · exact ⟨Ev.trans h1 (writeDown_ev w s1 out ho1), fun h => by simp at h⟩
        · rename_i hbad
          simp only [Bool.or_eq_true, not_or, Bool.not_eq_true] at hbad
          refine ⟨Ev.trans h1 (Ev.trans (writeDown_ev w s1 out ho1) (flushMessage_ev _)), fun _ => ?_⟩
          simp only
          rw [flushMessage_open]
          exact writeDown_ok w s1 out ho1 hbad.1
      cases hce : st.op.clientEnveloper with
      | none =>
        simp only [Option.isSome_none, Bool.false_eq_true, if_false, Bool.or_self]
        have := tail st (Ev.refl st) hopen
        exact ⟨this.1, fun h _ => Or.inr (this.2 h)⟩
      | some ce =>
        simp only
        split
        · exact ⟨Ev.refl st, fun h => by simp at h⟩
        · simp only
          split
          · exact ⟨writeDown_ev w st _ hopen, fun h hp => by simp_all⟩
          · rename_i hbad
            have hok : (writeDown w st (ce.encode { compressed := t.msgCompressed && st.rw.cRespComp.isSome, length := out.length })).2.1 = false := by
              simpa using hbad
            split
            · exact ⟨writeDown_ev w st _ hopen, fun h hp => by simp_all⟩
            · have := tail _ (writeDown_ev w st _ hopen) (writeDown_ok w st _ hopen hok)
              exact ⟨this.1, fun h _ => Or.inr (this.2 h)⟩

/-- **The re-encoding writer, any number of `Write` bytes.** -/
theorem twLoop_ev (w : World) (tb : Tables) : ∀ (n : Nat) (st : St) (t : TW) (data : Bytes),
    (t.err = true ∨ st.rw.endWritten = false) → Ev st (twLoop w tb n st t data).1 := by
  intro n
  induction n with
  | zero => intro st t data _; simpa [twLoop] using Ev.refl st
  | succ m ih =>
    intro st t data hpre
    unfold twLoop
    split
    · exact Ev.refl st
    · rename_i herr
      have hopen : st.rw.endWritten = false := by
        cases hpre with
        | inl h => exact absurd h herr
        | inr h => exact h
      simp only
      split
      · exact Ev.refl st
      · split
        · exact Ev.refl st
        · split
          · -- an envelope has been completed
            split
            · split
              · exact reportError_ev w st _
              · split
                · exact reportError_ev w st _
                · exact ih _ _ _ (Or.inr hopen)
            · exact Ev.refl st
          · -- a message has been completed
            have key := fun tt => twFlushMessage_ev w tb st tt hopen
            generalize hr : twFlushMessage w tb st _ = r
            have hev : Ev st r.1 := by rw [← hr]; exact (key _).1
            have hpost : r.2.2.1 = none → r.2.2.2 = false → (r.2.1.err = true ∨ r.1.rw.endWritten = false) := by
              rw [← hr]; exact (key _).2
            obtain ⟨s1, t1, err, p⟩ := r
            simp only at hev hpost ⊢
            split
            · exact hev
            · rename_i hp
              split
              · exact Ev.trans hev (reportError_ev w s1 _)
              · rename_i herr1
                have hnone : err = none := by
                  cases err with
                  | none => rfl
                  | some e => exact absurd rfl (herr1 e)
                split
                · exact hev
                · refine Ev.trans hev (ih _ _ _ ?_)
                  exact hpost hnone (by simpa using hp)

theorem twWrite_ev (w : World) (tb : Tables) (st : St) (t : TW) (data : Bytes) (hopen : st.rw.endWritten = false) :
    Ev st (twWrite w tb st t data).1 := by
  unfold twWrite
  split
  · exact Ev.refl st
  · simp only
    generalize (if t.buffer.isNone = true then twReset st t else t) = t'
    split
    · split
      · exact reportError_ev w st _
      · exact Ev.refl st
    · exact twLoop_ev w tb _ st _ data (Or.inr hopen)

theorem twClose_ev (w : World) (tb : Tables) (st : St) (t : TW) : Ev st (twClose w tb st t).1 := by
  unfold twClose
  split
  · exact Ev.refl st
  · rename_i hne
    have hopen : st.rw.endWritten = false := by simpa using hne
    split
    · have key := twFlushMessage_ev w tb st t hopen
      generalize twFlushMessage w tb st t = r at key ⊢
      obtain ⟨s1, t1, err, p⟩ := r
      simp only at key ⊢
      split
      · exact key.1
      · split
        · exact Ev.trans key.1 (reportError_ev w s1 _)
        · exact key.1
    · split
      · exact reportError_ev w st _
      · exact Ev.refl st

/-! ### the response writer -/

theorem Ev.ite {a x y : St} (c : Prop) [Decidable c] (hx : Ev a x) (hy : Ev a y) : Ev a (if c then x else y) := by
  split <;> assumption

theorem rwPrepareMeta_ev (tb : Tables) (st : St) (status : Nat) (cl : Int) (clText : Bytes) :
    Ev st (rwPrepareMeta tb st status cl clText).1 := by
  unfold rwPrepareMeta
  refine Ev.trans ?_ (Ev.rwUpdate _ _ rfl (fun h => h) rfl)
  refine Ev.trans ?_ (setHdr_ev _ _)
  refine Ev.ite _ ?_ (Ev.trans ?_ (setHdr_ev _ _)) <;>
  · refine Ev.trans ?_ (setHdr_ev _ _)
    refine Ev.trans ?_ (Ev.rwUpdate _ _ rfl (fun h => h) rfl)
    exact Ev.ite _ (Ev.refl st) (setHdr_ev _ _)

theorem rwSetRespComp_ev (st : St) (comp : Bytes) : Ev st (rwSetRespComp st comp) := by
  unfold rwSetRespComp
  exact Ev.ite _ (Ev.refl st) (Ev.rwUpdate st _ rfl (fun h => h) rfl)

theorem rwSetWriter_ev (st : St) (k : WK) : Ev st (rwSetWriter st k) :=
  Ev.rwUpdate st _ rfl (fun h => h) rfl

theorem rwStartBody_ev (w : World) (st : St) : Ev st (rwStartBody w st).1 := by
  unfold rwStartBody
  refine Ev.trans ?_ (rwSetWriter_ev _ _)
  refine Ev.trans (Ev.rwUpdate st { st.rw with sameRespCodec := st.op.ccodec == st.op.scodec } rfl (fun h => h) rfl) ?_
  simp only
  split
  · exact Ev.rwUpdate _ _ rfl (fun h => h) rfl
  · exact flushHeaders_ev w _

theorem rwChooseWriter_ev (w : World) (st : St) (rm : RespMeta) (eb : EndBody) : Ev st (rwChooseWriter w st rm eb).1 := by
  unfold rwChooseWriter
  generalize (if rm.compression == identityName then [] else rm.compression) = comp
  simp only
  split
  · exact reportError_ev w st _
  · split
    · split
      · exact Ev.trans (rwSetRespComp_ev st _) (rwSetWriter_ev _ _)
      · exact Ev.trans (rwSetRespComp_ev st _) (Ev.trans (flushHeaders_ev w _) (rwSetWriter_ev _ _))
    · split
      · exact Ev.trans (rwSetRespComp_ev st _) (reportError_ev w _ _)
      · exact Ev.trans (rwSetRespComp_ev st _) (rwStartBody_ev w _)

theorem rwWriteHeader_ev (w : World) (tb : Tables) (st : St) (status : Nat) : Ev st (rwWriteHeader w tb st status).1 := by
  unfold rwWriteHeader
  split
  · exact Ev.refl st
  · have h0 : Ev st { st with rw := { st.rw with headersWritten := true, statusCode := status } } :=
      Ev.rwUpdate st _ rfl (fun h => h) rfl
    simp only
    split
    · exact h0
    · split
      · exact Ev.trans h0 (reportError_ev w _ _)
      · exact Ev.trans h0 (Ev.trans (rwPrepareMeta_ev tb _ status _ _) (rwChooseWriter_ev w _ _ _))

theorem rwHeaderFirst_ev (w : World) (tb : Tables) (st : St) :
    Ev st (if st.rw.headersWritten = true then (st, false) else rwWriteHeader w tb st 200).1 := by
  split
  · exact Ev.refl st
  · exact rwWriteHeader_ev w tb st 200

/-- **`Write` on the response writer**, whatever the state. -/
theorem rwWrite_ev (w : World) (tb : Tables) (st : St) (data : Bytes) : Ev st (rwWrite w tb st data).1 := by
  intro hg
  have h0 := rwHeaderFirst_ev w tb st
  have hg0 := (h0 hg).1
  refine Ev.trans h0 ?_ hg
  unfold rwWrite
  generalize (if st.rw.headersWritten = true then (st, false) else rwWriteHeader w tb st 200) = r0 at hg0 ⊢
  simp only
  split
  · exact Ev.refl _
  · split
    · exact Ev.refl _
    · rename_i herr
      have hopen := hg0.live_open (by simpa using herr)
      split
      · exact Ev.trans (ewWrite_ev w tb r0.1 _ data hopen) (Ev.rwUpdate _ _ rfl (fun h => h) rfl)
      · exact Ev.trans (twWrite_ev w tb r0.1 _ data hopen) (Ev.rwUpdate _ _ rfl (fun h => h) rfl)
      · split
        · exact Ev.refl _
        · split
          · exact reportError_ev w _ _
          · exact Ev.rwUpdate _ _ rfl (fun h => h) rfl
      · exact Ev.refl _
      · exact Ev.refl _

theorem errorWriterClose_ev (w : World) (tb : Tables) (st : St) (body : Bytes) (kind : EndBody) :
    Ev st (errorWriterClose w tb st body kind).1 := by
  unfold errorWriterClose
  refine Ev.trans ?_ (flushHeaders_ev w _)
  exact Ev.rwUpdate st _ rfl (fun h => h) rfl

theorem rwCloseWriter_ev (w : World) (tb : Tables) (st : St) : Ev st (rwCloseWriter w tb st).1 := by
  unfold rwCloseWriter
  split
  · split
    · exact ewClose_ev w st _
    · rename_i hne
      have hopen : st.rw.endWritten = false := by simpa using hne
      simp only
      split
      · exact ewWrite_ev w tb st _ [] hopen
      · exact Ev.trans (ewWrite_ev w tb st _ [] hopen) (ewClose_ev w _ _)
  · split
    · exact twClose_ev w tb st _
    · rename_i hne
      have hopen : st.rw.endWritten = false := by simpa using hne
      simp only
      split
      · exact twWrite_ev w tb st _ [] hopen
      · exact Ev.trans (twWrite_ev w tb st _ [] hopen) (twClose_ev w tb _ _)
  · split
    · exact errorWriterClose_ev w tb st _ _
    · exact Ev.refl st
  · exact Ev.refl st

theorem rwCloseEnd_ev (w : World) (tb : Tables) (st : St) : Ev st (rwCloseEnd w tb st).1 := by
  unfold rwCloseEnd
  split
  · exact Ev.refl st
  · simp only
    split
    · exact reportEnd_ev w st _
    · split
      · exact Ev.trans (setHdr_ev st _) (reportError_ev w _ _)
      · exact Ev.trans (setHdr_ev st _) (reportEnd_ev w _ _)

/-- **Closing the response writer**, whatever the state. -/
theorem rwClose_ev (w : World) (tb : Tables) (st : St) : Ev st (rwClose w tb st).1 := by
  unfold rwClose
  have h0 := rwHeaderFirst_ev w tb st
  generalize (if st.rw.headersWritten = true then (st, false) else rwWriteHeader w tb st 200) = r0 at h0 ⊢
  simp only
  split
  · exact h0
  · split
    · exact Ev.trans h0 (rwCloseWriter_ev w tb _)
    · exact Ev.trans h0 (Ev.trans (rwCloseWriter_ev w tb _) (rwCloseEnd_ev w tb _))

/-! ### the request side (it reports its errors through the same response writer) -/

theorem hardLimitRead_ev (w : World) (st : St) (limit read n : Nat) (report : Bool) :
    Ev st (hardLimitRead w st limit read n report).2.2.2.1 := by
  unfold hardLimitRead
  generalize (if n > limit - read then limit - read + 1 else n) = n'
  cases report
  · simp only [Bool.false_eq_true, if_false]
    split
    · exact Ev.refl st
    · split <;> exact srcUpdate_ev st _
  · simp only [if_true]
    split
    · exact Ev.refl st
    · split
      · exact Ev.trans (srcUpdate_ev st _) (reportError_ev w _ _)
      · exact srcUpdate_ev st _

theorem copyAllLimited_ev (w : World) (report : Bool) (limit : Nat) : ∀ (fuel : Nat) (st : St) (read : Nat) (acc : Bytes),
    Ev st (copyAllLimited w report limit fuel st read acc).2.2.1 := by
  intro fuel
  induction fuel with
  | zero => intro st read acc; simpa [copyAllLimited] using Ev.refl st
  | succ m ih =>
    intro st read acc
    unfold copyAllLimited
    have h1 := hardLimitRead_ev w st limit read (limit + 2) report
    generalize hardLimitRead w st limit read (limit + 2) report = r at h1 ⊢
    obtain ⟨b, e, rd, s1, p⟩ := r
    simp only at h1 ⊢
    split
    · exact h1
    · split
      · exact Ev.trans h1 (ih _ _ _)
      · exact h1
      · exact h1

theorem readRequestMessage_ev (w : World) (st : St) (report : Bool) : Ev st (readRequestMessage w st report).2.1 := by
  unfold readRequestMessage
  simp only
  split
  · -- enveloped client
    split
    · exact srcUpdate_ev st _
    · split
      · have fail : ∀ (s1 : St) (err : Err), Ev st s1 →
            Ev st (if report = true then reportError w s1 err else (s1, false)).1 := by
          intro s1 err h
          split
          · exact Ev.trans h (reportError_ev w _ _)
          · exact h
        split
        · exact fail _ _ (srcUpdate_ev st _)
        · split
          · exact fail _ _ (srcUpdate_ev st _)
          · split
            · exact fail _ _ (srcUpdate_ev st _)
            · split <;> exact Ev.trans (srcUpdate_ev st _) (srcUpdate_ev _ _)
      · exact srcUpdate_ev st _
  · split
    · split
      · exact reportError_ev w st _
      · exact Ev.refl st
    · have h := copyAllLimited_ev w report (if (st.op.contentLen == -1) = true then st.op.conf.maxMsg else st.op.contentLen.toNat)
        st.src.fuel st 0 []
      generalize copyAllLimited w report _ st.src.fuel st 0 [] = r at h ⊢
      obtain ⟨data, e, s1, p⟩ := r
      simp only at h ⊢
      split
      · exact h
      · split <;> exact h

theorem Ev.ite_proj {a : St} {β γ δ : Type} (c : Prop) [Decidable c] (x y : β × γ × St × δ)
    (hx : Ev a x.2.2.1) (hy : Ev a y.2.2.1) : Ev a (if c then x else y).2.2.1 := by
  split <;> assumption

theorem trRead_ev (w : World) (pl : HandlePlan) : ∀ (fuel : Nat) (st : St) (r : TR) (n : Nat),
    Ev st (trRead w pl fuel st r n).2.2.1 := by
  intro fuel
  induction fuel with
  | zero => intro st r n; simpa [trRead] using Ev.refl st
  | succ m ih =>
    intro st r n
    unfold trRead
    split
    · exact Ev.refl st
    · refine Ev.ite_proj _ _ _ (Ev.refl st) ?_
      simp only
      refine Ev.ite_proj _ _ _ (Ev.refl st) ?_
      have h1 := readRequestMessage_ev w st true
      generalize readRequestMessage w st true = rr at h1 ⊢
      obtain ⟨res, s1, p⟩ := rr
      simp only at h1 ⊢
      refine Ev.ite_proj _ _ _ h1 ?_
      split
      · exact h1
      · split
        · exact Ev.trans h1 (reportError_ev w _ _)
        · exact Ev.trans h1 (ih _ _ _)

theorem erCurRead_ev (w : World) (st : St) (cur : RCur) (n : Nat) : Ev st (erCurRead w st cur n).2.2.1 := by
  unfold erCurRead
  split
  · exact Ev.refl st
  · exact srcUpdate_ev st _
  · exact hardLimitRead_ev w st _ _ n true
  · split <;> exact Ev.refl st
  · split
    · exact Ev.refl st
    · exact srcUpdate_ev st _

theorem erPrepareNext_ev (w : World) (st : St) (r : ER) : Ev st (erPrepareNext w st r).2.1 := by
  unfold erPrepareNext
  simp only
  split
  · exact Ev.refl st
  · split
    · split
      · split
        · exact reportError_ev w st _
        · split <;> exact Ev.refl st
      · have h := copyAllLimited_ev w true (bufferedBodyLimit st.op.conf.maxMsg) st.src.fuel st 0 []
        generalize copyAllLimited w true (bufferedBodyLimit st.op.conf.maxMsg) st.src.fuel st 0 [] = rr at h ⊢
        obtain ⟨data, e, s1, p⟩ := rr
        simp only at h ⊢
        split
        · exact h
        · split <;> exact h
    · exact Ev.refl st
  · split
    · exact srcUpdate_ev st _
    · split
      · split
        · exact Ev.trans (srcUpdate_ev st _) (reportError_ev w _ _)
        · split <;> exact srcUpdate_ev st _
      · exact srcUpdate_ev st _

def phaseSt (x : Sum (Bytes × Option Err × St × ER × Bool) (St × ER)) : St :=
  match x with
  | .inl res => res.2.2.1
  | .inr y => y.1

theorem erPhase1_ev (w : World) (st : St) (r : ER) (n : Nat) : Ev st (phaseSt (erPhase1 w st r n)) := by
  unfold erPhase1
  split
  · exact Ev.refl st
  · simp only
    split
    · exact erCurRead_ev w st r.current n
    · split
      · exact erCurRead_ev w st r.current n
      · split <;> exact erCurRead_ev w st r.current n

theorem erPhase2_ev (w : World) (st : St) (r : ER) (n : Nat) : Ev st (erPhase2 w st r n).2.2.1 := by
  unfold erPhase2
  have h := erPrepareNext_ev w st r
  generalize erPrepareNext w st r = rr at h ⊢
  obtain ⟨e, s1, r1, p⟩ := rr
  simp only at h ⊢
  split
  · exact h
  · split
    · exact h
    · split
      · exact h
      · generalize (if r1.envRemain > 0 then List.drop (5 - r1.envRemain) r1.env else []) = envPart
        split
        · exact Ev.trans h (erCurRead_ev w s1 _ _)
        · exact h

theorem erRead_ev (w : World) (st : St) (r : ER) (n : Nat) : Ev st (erRead w st r n).2.2.1 := by
  unfold erRead
  split
  · exact Ev.refl st
  · split
    · exact Ev.refl st
    · have h1 := erPhase1_ev w st r n
      generalize erPhase1 w st r n = ph at h1 ⊢
      cases ph with
      | inl res => exact h1
      | inr x =>
        obtain ⟨s1, r1⟩ := x
        exact Ev.trans h1 (erPhase2_ev w s1 r1 n)

theorem Flight.read_ev (w : World) (pl : HandlePlan) (f : Flight) (n : Nat) : Ev f.st (f.read w pl n).2.2.st := by
  unfold Flight.read
  split
  · exact Ev.refl _
  · split
    · exact srcUpdate_ev _ _
    · exact erRead_ev w f.st _ n
    · exact trRead_ev w pl _ f.st _ n

/-! ### whole handler scripts -/

theorem flightReadN_ev (w : World) (pl : HandlePlan) (k buf : Nat) (capped : Bool) :
    ∀ (fuel : Nat) (f : Flight) (got : Nat) (rd : Bytes) (re : Option Err),
      Ev f.st (flightReadN w pl k buf capped fuel f got rd re).1.st := by
  intro fuel
  induction fuel with
  | zero => intro f got rd re; simpa [flightReadN] using Ev.refl f.st
  | succ m ih =>
    intro f got rd re
    unfold flightReadN
    split
    · exact Ev.refl _
    · have h := fun n => Flight.read_ev w pl f n
      generalize hr : f.read w pl _ = r
      have h' : Ev f.st r.2.2.st := by rw [← hr]; exact h _
      obtain ⟨bs, e, f1⟩ := r
      simp only at h' ⊢
      split
      · exact h'
      · exact Ev.trans h' (ih _ _ _ _)

theorem flightReadAll_ev (w : World) (pl : HandlePlan) (buf : Nat) :
    ∀ (fuel : Nat) (f : Flight) (rd : Bytes), Ev f.st (flightReadAll w pl buf fuel f rd).1.st := by
  intro fuel
  induction fuel with
  | zero => intro f rd; simpa [flightReadAll] using Ev.refl f.st
  | succ m ih =>
    intro f rd
    unfold flightReadAll
    split
    · exact Ev.refl _
    · have h := Flight.read_ev w pl f buf
      generalize f.read w pl buf = r at h ⊢
      obtain ⟨bs, e, f1⟩ := r
      simp only at h ⊢
      split
      · exact h
      · exact Ev.trans h (ih _ _)

theorem foldl_ev {β : Type} (g : Flight × β → BOp → Flight × β) (hg : ∀ acc op, Ev acc.1.st (g acc op).1.st) :
    ∀ (l : List BOp) (acc : Flight × β), Ev acc.1.st (l.foldl g acc).1.st := by
  intro l
  induction l with
  | nil => intro acc; exact Ev.refl _
  | cons x xs ih => intro acc; simp only [List.foldl_cons]; exact Ev.trans (hg acc x) (ih _)

/-- **Every handler script** - any sequence of reads, header changes, `WriteHeader`, `Write`,
    `Flush` and `Close` calls - is an `Ev` step of the request state. -/
theorem runScript_ev (w : World) (tb : Tables) (pl : HandlePlan) (script : List BOp) (total0 : Nat) (f : Flight) :
    Ev f.st (runScript w tb pl script total0 f).1.st := by
  unfold runScript
  refine foldl_ev (β := BackendObs) _ ?_ script (f, ({} : BackendObs))
  intro acc op
  obtain ⟨f1, b1⟩ := acc
  simp only
  split
  · exact Ev.refl _
  · split
    · exact flightReadN_ev w pl _ _ true _ f1 0 _ _
    · exact flightReadN_ev w pl _ _ false _ f1 0 _ _
    · exact flightReadAll_ev w pl _ _ f1 _
    · exact setHdr_ev _ _
    · exact setHdr_ev _ _
    · exact rwWriteHeader_ev w tb f1.st _
    · exact rwWrite_ev w tb f1.st _
    · exact Ev.refl _
    · exact Ev.refl _

/-! ### reading the first message before a response writer exists (`report = false`) -/

def SameResp (a b : St) : Prop := b.rw = a.rw ∧ b.sink = a.sink

theorem hardLimitRead_quiet (w : World) (st : St) (limit read n : Nat) :
    SameResp st (hardLimitRead w st limit read n false).2.2.2.1 := by
  unfold hardLimitRead
  generalize (if n > limit - read then limit - read + 1 else n) = n'
  simp only [Bool.false_eq_true, if_false]
  split
  · exact ⟨rfl, rfl⟩
  · split <;> exact ⟨rfl, rfl⟩

theorem copyAllLimited_quiet (w : World) (limit : Nat) : ∀ (fuel : Nat) (st : St) (read : Nat) (acc : Bytes),
    SameResp st (copyAllLimited w false limit fuel st read acc).2.2.1 := by
  intro fuel
  induction fuel with
  | zero => intro st read acc; simp [copyAllLimited, SameResp]
  | succ m ih =>
    intro st read acc
    unfold copyAllLimited
    have h1 := hardLimitRead_quiet w st limit read (limit + 2)
    generalize hardLimitRead w st limit read (limit + 2) false = r at h1 ⊢
    obtain ⟨b, e, rd, s1, p⟩ := r
    simp only at h1 ⊢
    split
    · exact h1
    · split
      · have := ih s1 rd (acc ++ b)
        exact ⟨this.1.trans h1.1, this.2.trans h1.2⟩
      · exact h1
      · exact h1

theorem readRequestMessage_quiet (w : World) (st : St) : SameResp st (readRequestMessage w st false).2.1 := by
  unfold readRequestMessage
  simp only [Bool.false_eq_true, if_false]
  split
  · split
    · exact ⟨rfl, rfl⟩
    · split
      · split
        · exact ⟨rfl, rfl⟩
        · split
          · exact ⟨rfl, rfl⟩
          · split
            · exact ⟨rfl, rfl⟩
            · split <;> exact ⟨rfl, rfl⟩
      · exact ⟨rfl, rfl⟩
  · split
    · exact ⟨rfl, rfl⟩
    · have h := copyAllLimited_quiet w (if (st.op.contentLen == -1) = true then st.op.conf.maxMsg else st.op.contentLen.toNat)
        st.src.fuel st 0 []
      generalize copyAllLimited w false _ st.src.fuel st 0 [] = r at h ⊢
      obtain ⟨data, e, s1, p⟩ := r
      simp only at h ⊢
      split
      · exact h
      · split <;> exact h

/-! ### responses that never reach a response writer -/

theorem opReportError_marks (o : Op) (k : Sink) (err : Err) (hk : k.endMarks = 0) :
    (opReportError o k err).1.endMarks ≤ 1 := by
  unfold opReportError
  simp only
  split
  · rw [hk]; omega
  · have hm := fun rm => addResponseHeaders_marks o.cform rm k hk
    generalize hr : addResponseHeaders o.cform _ k = r
    have hm' : r.2.endMarks = if ((o.cform == ClientForm.grpc || o.cform == ClientForm.grpcWeb) && true) = true then 1 else 0 := by
      rw [← hr]; exact hm _
    obtain ⟨status, k1⟩ := r
    simp only at hm' ⊢
    cases status with
    | none => simp only; rw [hm']; split <;> omega
    | some sc =>
      simp only
      have henc := fun e => encodeEnd_marks o.cform e true (k1.writeHeader sc)
      by_cases hg2 : (o.cform == ClientForm.grpc || o.cform == ClientForm.grpcWeb) = true
      · rw [(henc _).2 (by simp [hg2]), endMarks_writeHeader, hm']; simp [hg2]
      · refine Nat.le_trans (henc _).1 ?_
        rw [endMarks_writeHeader, hm']; simp [hg2]

theorem opReportError_endLast (o : Op) (k : Sink) (err : Err) (hk : k.endMarks = 0) :
    (opReportError o k err).1.endLast := by
  unfold opReportError
  simp only
  split
  · exact Sink.endLast_of_marks hk
  · generalize hr : addResponseHeaders o.cform _ k = r
    have hraw : r.2.bodyRaw := by
      rw [← hr]; exact bodyRaw_of_items (Sink.bodyRaw_of_marks hk) (addResponseHeaders_items _ _ _).1
    obtain ⟨status, k1⟩ := r
    simp only at hraw ⊢
    cases status with
    | none => exact Sink.endLast_of_bodyRaw hraw
    | some sc => exact encodeEnd_endLast _ _ _ (bodyRaw_writeHeader hraw _)

theorem httpErrorResponse_marks (code : Nat) (allow : Option Bytes) : (httpErrorResponse {} code allow).endMarks = 0 := by
  unfold httpErrorResponse
  simp [Sink.endMarks, Sink.writeItem, Sink.writeHeader, Item.isEnd]

theorem foldl_inv {α β : Type} (P : α → Prop) (g : α → β → α) (hg : ∀ a b, P a → P (g a b)) :
    ∀ (l : List β) (a : α), P a → P (l.foldl g a) := by
  intro l
  induction l with
  | nil => intro a h; exact h
  | cons x xs ih => intro a h; simp only [List.foldl_cons]; exact ih _ (hg a x h)

/-- A handler that works directly on the client's writer (pass-through, unknown endpoint) writes
    bytes of its own; the transcoder adds no end of its own to them. -/
theorem runRaw_marks (script : List BOp) (src : Source) (sink : Sink) (h : sink.endMarks = 0) :
    (runRaw script src sink).sink.endMarks = 0 := by
  unfold runRaw
  refine foldl_inv (fun (a : RawRun) => a.sink.endMarks = 0) _ ?_ script _ h
  intro a op ha
  cases op <;> simp only
  case readn k buf => split <;> exact ha
  case readfix k buf => split <;> exact ha
  case readall buf => split <;> exact ha
  case sethdr k v => exact ha
  case addhdr k v => exact ha
  case status c => rw [endMarks_writeHeader]; exact ha
  case write b => rw [endMarks_write]; exact ha
  case flush => exact ha
  case close => exact ha

/-! ### `ServeHTTP` -/

theorem good_init (o : Op) (src : Source) : Good { op := o, src := src, sink := {} } := by
  refine ⟨?_, ?_, ?_, ?_⟩
  · intro h; cases h
  · intro _; rfl
  · simp [Sink.endMarks]
  · intro i hi; simp at hi

theorem Good.of_sameResp {a b : St} (h : SameResp a b) (hg : Good a) : Good b := by
  obtain ⟨h1, h2⟩ := h
  refine ⟨?_, ?_, ?_, ?_⟩
  · intro he; rw [h1] at he ⊢; exact hg.ended he
  · intro he; rw [h1] at he; rw [h2]; exact hg.opened he
  · rw [h2]; exact hg.atMost
  · rw [h2]; exact hg.last

/-- What `transcodePre` may produce: a finished response with at most one end, or a state to go on with. -/
def PreOk (x : Except (Sink × Bool) (St × Option (Bytes × Bool))) : Prop :=
  match x with
  | .error y => y.1.endMarks ≤ 1 ∧ y.1.endLast
  | .ok y => Good y.1

theorem transcodePre_spec (w : World) (o : Op) (pl : HandlePlan) (st0 : St) (hg : Good st0)
    (hopen : st0.rw.endWritten = false) : PreOk (transcodePre w o pl st0) := by
  unfold transcodePre
  split
  · have hq := readRequestMessage_quiet w st0
    have hmarks : (readRequestMessage w st0 false).2.1.sink.endMarks = 0 := by
      rw [hq.2]; exact hg.opened hopen
    simp only
    split
    · exact ⟨opReportError_marks o _ _ hmarks, opReportError_endLast o _ _ hmarks⟩
    · split
      · exact ⟨opReportError_marks o _ _ hmarks, opReportError_endLast o _ _ hmarks⟩
      · exact Good.of_sameResp hq hg
  · exact hg

theorem transcodeStartState_ev (st : St) (skip : Bool) : Ev st (transcodeStartState st skip) := by
  unfold transcodeStartState
  cases skip
  · exact Ev.rwUpdate st { st.rw with active := true } rfl (fun h => h) rfl
  · exact Ev.trans (Ev.rwUpdate st { st.rw with active := true } rfl (fun h => h) rfl)
      (srcUpdate_ev { st with rw := { st.rw with active := true } } { st.src with chunks := [] })

theorem transcodeFinish_ev (w : World) (tb : Tables) (f : Flight) : Ev f.st (transcodeFinish w tb f).1 := by
  unfold transcodeFinish
  split
  · exact Ev.refl _
  · exact rwClose_ev w tb f.st

/-- The state `ServeHTTP` ends in, for any start state, reader and script. -/
theorem transcode_chain (w : World) (tb : Tables) (pl : HandlePlan) (script : List BOp) (total0 : Nat)
    (st : St) (skip : Bool) (rd : Reader) :
    Ev st (transcodeFinish w tb (runScript w tb pl script total0 { st := transcodeStartState st skip, rd := rd }).1).1 :=
  Ev.trans (transcodeStartState_ev st skip)
    (Ev.trans (runScript_ev w tb pl script total0 { st := transcodeStartState st skip, rd := rd }) (transcodeFinish_ev w tb _))

theorem transcodeRun_good (w : World) (sc : Scenario) (o : Op) (pl : HandlePlan) (st : St)
    (first : Option (Bytes × Bool)) (hg : Good st) :
    (transcodeRun w sc o pl st first).sink.endMarks ≤ 1 ∧ (transcodeRun w sc o pl st first).sink.endLast := by
  unfold transcodeRun
  simp only
  have key := fun skip rd => ((transcode_chain w sc.tables pl sc.script sc.src.left st skip rd) hg).1
  exact ⟨(key _ _).atMost, (key _ _).last⟩

theorem serveTranscode_marks (w : World) (sc : Scenario) (o : Op) :
    (serveTranscode w sc o).sink.endMarks ≤ 1 ∧ (serveTranscode w sc o).sink.endLast := by
  unfold serveTranscode
  have h := transcodePre_spec w o (o.plan w) { op := o, src := sc.src, sink := {} } (good_init o sc.src) rfl
  simp only
  generalize transcodePre w o (o.plan w) { op := o, src := sc.src, sink := {} } = r at h ⊢
  cases r with
  | error x => exact h
  | ok x => exact transcodeRun_good w sc o _ x.1 x.2 h

theorem httpErrorResponse_endLast (code : Nat) (allow : Option Bytes) : (httpErrorResponse {} code allow).endLast :=
  Sink.endLast_of_marks (httpErrorResponse_marks code allow)

/-- **Every response of the transcoder carries at most one end, and nothing follows it in the
    body**: whatever the request, the configuration, the backend's script and the client's body are. -/
theorem serve_marks (w : World) (sc : Scenario) : (serve w sc).sink.endMarks ≤ 1 ∧ (serve w sc).sink.endLast := by
  unfold serve
  simp only
  have hraw : ∀ d, (forwardObs sc d).sink.endMarks ≤ 1 ∧ (forwardObs sc d).sink.endLast := by
    intro d
    unfold forwardObs
    simp only
    have h0 := runRaw_marks sc.script sc.src {} (by simp [Sink.endMarks])
    exact ⟨by rw [h0]; omega, Sink.endLast_of_marks h0⟩
  split
  · split
    · exact hraw _
    · simp only; exact ⟨by rw [httpErrorResponse_marks]; omega, httpErrorResponse_endLast _ _⟩
  · simp only; exact ⟨by rw [httpErrorResponse_marks]; omega, httpErrorResponse_endLast _ _⟩
  · split
    · split
      · exact hraw .svc
      · exact hraw .svc
    · exact serveTranscode_marks w sc _

/-! ### at least one end: a completed RPC has its end written -/

theorem flushHeaders_ends (w : World) (st : St) (e : RespEnd) (hf : st.rw.headersFlushed = false)
    (he : (st.rw.respMeta.getD {}).end = some e) : (flushHeaders w st).1.rw.endWritten = true := by
  unfold flushHeaders
  simp only [hf, Bool.false_eq_true, if_false]
  have hs := fun rm => addResponseHeaders_status_isSome st.op.cform rm st.sink
  generalize hr : addResponseHeaders st.op.cform _ st.sink = r
  have hs' : r.1.isSome = true := by rw [← hr]; exact hs _
  obtain ⟨status, sink1⟩ := r
  cases status with
  | none => simp at hs'
  | some code => simp only [he, writeEnd]

theorem reportEnd_ends (w : World) (st : St) (e : RespEnd) : (reportEnd w st e).1.rw.endWritten = true := by
  by_cases h1 : st.rw.endWritten = true
  · rw [reportEnd_ended w st e h1]; exact h1
  · have hopen : st.rw.endWritten = false := by simpa using h1
    unfold reportEnd
    simp only [hopen, Bool.false_eq_true, if_false]
    by_cases hfl : st.rw.headersFlushed = true
    · cases hrm : st.rw.respMeta <;> simp only <;> rw [if_pos hfl] <;> rfl
    · have hfl' : st.rw.headersFlushed = false := by simpa using hfl
      cases hrm : st.rw.respMeta with
      | none =>
        simp only
        rw [if_neg hfl]
        exact flushHeaders_ends w _ _ hfl' rfl
      | some rm =>
        simp only
        rw [if_neg hfl]
        exact flushHeaders_ends w _ _ hfl' rfl

theorem reportError_ends (w : World) (st : St) (err : Err) : (reportError w st err).1.rw.endWritten = true := by
  unfold reportError
  split
  · split
    · rename_i code _ h
      have := httpStatusFromRPC_isSome code
      rw [h] at this; simp at this
    · exact reportEnd_ends w st _
  · exact reportEnd_ends w st _

theorem rwCloseEnd_ends (w : World) (tb : Tables) (st : St) : (rwCloseEnd w tb st).1.rw.endWritten = true := by
  unfold rwCloseEnd
  split
  · assumption
  · simp only
    split
    · exact reportEnd_ends w st _
    · split
      · exact reportError_ends w _ _
      · exact reportEnd_ends w _ _

/-- `responseWriter.close` that returns (no panic) has written the end. -/
theorem rwClose_ends (w : World) (tb : Tables) (st : St) (h : (rwClose w tb st).2 = false) :
    (rwClose w tb st).1.rw.endWritten = true := by
  unfold rwClose at h ⊢
  generalize (if st.rw.headersWritten = true then (st, false) else rwWriteHeader w tb st 200) = r0 at h ⊢
  simp only at h ⊢
  by_cases hp : r0.2 = true
  · simp [hp] at h
  · simp only [hp, if_false] at h ⊢
    by_cases hp2 : (rwCloseWriter w tb r0.1).2 = true
    · simp [hp2] at h
    · simp only [hp2, if_false]
      exact rwCloseEnd_ends w tb _

end Vanguard
