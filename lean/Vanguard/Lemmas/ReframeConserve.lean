import Vanguard.Lemmas.ReframeStream
/-!
  The re-framing reader conserves bytes: nothing is held back between the client and the handler but
  (part of) one envelope for the backend (C16, request direction, whole runs).
-/
namespace Vanguard
open Vanguard

/-- A `Read` on the client's body hands out a prefix of what is left and keeps the rest. -/
theorem Source.read_conserves (src : Source) (n : Nat) : (src.read n).1 ++ (src.read n).2.2.data = src.data := by
  by_cases hd : src.data = []
  · rw [Source.read_empty src n hd, hd]; rfl
  · by_cases hn : n = 0
    · subst hn
      unfold Source.read
      have hf := filter_nonempty_flatten src.chunks
      split
      · rename_i hc; rw [hc] at hf; simp [Source.data] at hf ⊢; exact hf
      · rename_i c rest hc
        simp only [beq_self_eq_true, if_true, List.nil_append]
        unfold Source.data
        simp only
        rw [← hf, hc]
    · have hs := Source.read_spec src n (by omega) hd
      simp only at hs
      exact hs.2.2.2.1

theorem limited_conserves (w : World) (st : St) (k m : Nat) :
    (erCurRead w st (.limited k) m).1 ++ (erCurRead w st (.limited k) m).2.2.1.src.data = st.src.data := by
  unfold erCurRead
  simp only
  split
  · simp
  · exact Source.read_conserves st.src (min m k)

theorem prepareNext_len (w : World) (st : St) (r : ER) (ce : Enveloper) (hce : st.op.clientEnveloper = some ce) :
    (erPrepareNext w st r).1 = none → (erPrepareNext w st r).2.1.src.data.length + 5 = st.src.data.length := by
  generalize hres : erPrepareNext w st r = res
  unfold erPrepareNext at hres
  simp only [hce] at hres
  have hf := C11.fuel_covers_data st.src
  by_cases hk : 5 ≤ st.src.data.length
  · obtain ⟨src', heq, hdata, _⟩ := readExactly_enough st.src.fuel st.src 5 [] (by omega) hk
    rw [heq] at hres
    simp only [List.nil_append] at hres
    intro hnone
    have hl : src'.data.length + 5 = st.src.data.length := by rw [hdata, List.length_drop]; omega
    split at hres
    · split at hres
      · subst hres; cases hnone
      · split at hres <;> (subst hres; exact hl)
    · subst hres; cases hnone
  · obtain ⟨src', heq, _⟩ := readExactly_short st.src.fuel st.src 5 [] (by omega) (by omega)
    rw [heq] at hres
    simp only [List.nil_append] at hres
    subst hres
    intro h; cases h

/-- Bytes the reader has taken from the client but not yet handed to the handler. -/
def ER.held (r : ER) : Nat := r.pending.length

theorem pending_length (r : ER) (hwf : r.WF) : r.pending.length = r.envRemain := by
  unfold ER.pending
  split
  · rename_i h
    obtain ⟨h5, hl⟩ := hwf.env h
    rw [List.length_drop, hl]; omega
  · simp; omega

theorem erPhase2_conserves (w : World) (ce se : Enveloper) (st : St) (r : ER) (n : Nat)
    (hce : st.op.clientEnveloper = some ce) (hse : st.op.serverEnveloper = some se) :
    (erPhase2 w st r n).2.1 = none →
      (erPhase2 w st r n).1.length + (erPhase2 w st r n).2.2.2.1.pending.length + (erPhase2 w st r n).2.2.1.src.data.length
        = st.src.data.length := by
  obtain ⟨hp, _, hgood⟩ := prepareNext_enveloped w st r ce se hce hse
  have hlen := prepareNext_len w st r ce hce
  generalize hres : erPhase2 w st r n = res
  unfold erPhase2 at hres
  generalize erPrepareNext w st r = pn at hp hgood hlen hres
  obtain ⟨e0, s1, r1, p1⟩ := pn
  simp only at hp hgood hlen hres
  subst hp
  rw [if_neg Bool.false_ne_true] at hres
  cases e0 with
  | some err => simp only at hres; subst hres; intro h; cases h
  | none =>
    obtain ⟨env, hr1, _, _, _⟩ := hgood rfl
    have hl1 := hlen rfl
    subst hr1
    simp only at hres
    have hl := encode_length se env
    by_cases hn5 : n < 5
    · rw [if_pos hn5] at hres
      subst hres
      intro _
      simp only [ER.pending, Nat.sub_self, List.drop_zero]
      have hpos : 5 - n > 0 := by omega
      simp only [hpos, if_true, List.length_take, List.length_drop, hl]
      omega
    · rw [if_neg hn5] at hres
      simp only [Nat.lt_irrefl, if_false, show (5 : Nat) > 0 by omega, if_true, Nat.sub_self, List.drop_zero] at hres
      by_cases hn6 : n > (se.encode env).length
      · rw [if_pos hn6] at hres
        have hc := limited_conserves w s1 env.length (n - (se.encode env).length)
        generalize erCurRead w s1 (.limited env.length) (n - (se.encode env).length) = cr at hc hres
        obtain ⟨b, e, s2, cur, p2⟩ := cr
        simp only at hc hres
        subst hres
        intro _
        simp only [ER.pending, Nat.lt_irrefl, if_false, List.length_nil, List.length_append, hl]
        have : b.length + s2.src.data.length = s1.src.data.length := by rw [← hc, List.length_append]
        omega
      · rw [if_neg hn6] at hres
        subst hres
        intro _
        simp only [ER.pending, Nat.lt_irrefl, if_false, List.length_nil, hl]
        omega

/-- **The re-framing reader holds back nothing but (part of) one envelope** - whole runs, request
    direction: every `Read` that reports no error conserves bytes: what it hands to the handler, plus the
    envelope bytes still pending, plus what is left of the client's body, is what was pending plus what
    was left before.  So between the client and the handler the reader never keeps more than the (at
    most five) bytes of the backend's envelope it has prepared but not yet handed out - in particular
    no byte of a later message is taken before the current one has been handed over completely. -/
theorem erRead_conserves (w : World) (ce se : Enveloper) (st : St) (r : ER) (n : Nat)
    (hce : st.op.clientEnveloper = some ce) (hse : st.op.serverEnveloper = some se) (hwf : r.WF) (herr : r.err = none) :
    (erRead w st r n).2.1 = none →
      (erRead w st r n).1.length + (erRead w st r n).2.2.2.1.pending.length + (erRead w st r n).2.2.1.src.data.length
        = r.pending.length + st.src.data.length := by
  generalize hres : erRead w st r n = res
  unfold erRead at hres
  simp only [herr] at hres
  by_cases hrem : r.envRemain > 0
  · rw [if_pos hrem] at hres
    subst hres
    obtain ⟨h5, hl⟩ := hwf.env hrem
    intro _
    simp only [ER.pending, hrem, if_true, List.length_take, List.length_drop, hl]
    split
    · simp only [List.length_drop, hl]; omega
    · simp only [List.length_nil]; omega
  · rw [if_neg hrem] at hres
    have hpend : r.pending.length = 0 := by unfold ER.pending; rw [if_neg hrem]; rfl
    rw [hpend, Nat.zero_add]
    rcases hwf.cur with hc | ⟨k, hc⟩
    · have hp1 : erPhase1 w st r n = .inr (st, r) := by unfold erPhase1; rw [hc]
      rw [hp1] at hres
      simp only at hres
      subst hres
      exact erPhase2_conserves w ce se st r n hce hse
    · unfold erPhase1 at hres
      rw [hc] at hres
      simp only at hres
      have hcons := limited_conserves w st k n
      have hcur' : ∃ k', (erCurRead w st (.limited k) n).2.2.2.1 = .limited k' := by
        unfold erCurRead; simp only; split <;> exact ⟨_, rfl⟩
      have hop' : (erCurRead w st (.limited k) n).2.2.1.op = st.op := by
        unfold erCurRead; simp only; split <;> rfl
      have hpf' : (erCurRead w st (.limited k) n).2.2.2.2 = false := by
        unfold erCurRead; simp only; split <;> rfl
      generalize erCurRead w st (.limited k) n = cr at hcons hcur' hop' hpf' hres
      obtain ⟨b, e, s1, cur, p1⟩ := cr
      simp only at hcons hcur' hop' hpf' hres
      obtain ⟨k2, hk2⟩ := hcur'
      subst hk2 hpf'
      rw [if_neg Bool.false_ne_true] at hres
      have hlen : b.length + s1.src.data.length = st.src.data.length := by rw [← hcons, List.length_append]
      by_cases hdel : (!b.isEmpty && (e.isNone || e == some .eof)) = true
      · rw [if_pos hdel] at hres
        simp only at hres
        subst hres
        intro _
        simp only [ER.pending, hrem, if_false, List.length_nil]
        omega
      · rw [if_neg hdel] at hres
        cases e with
        | none =>
          simp only at hres
          subst hres
          intro hh
          have h2 := erPhase2_conserves w ce se s1 { r with current := .limited k2 } n (by rw [hop']; exact hce) (by rw [hop']; exact hse) hh
          have hbe : b = [] := by
            cases b with
            | nil => rfl
            | cons x xs => exfalso; apply hdel; simp
          subst hbe
          simp only [List.length_nil, Nat.zero_add] at hlen
          omega
        | some ee =>
          by_cases heof : ee = .eof
          · subst heof
            simp only at hres
            subst hres
            intro hh
            have h2 := erPhase2_conserves w ce se s1 { r with current := .limited k2 } n (by rw [hop']; exact hce) (by rw [hop']; exact hse) hh
            have hbe : b = [] := by
              cases b with
              | nil => rfl
              | cons x xs => exfalso; apply hdel; simp
            subst hbe
            simp only [List.length_nil, Nat.zero_add] at hlen
            omega
          · simp only at hres
            have hres' : res = (b, some ee, s1, { r with current := .limited k2, err := some ee }, false) := by
              rw [← hres]
            subst hres'
            intro h; cases h

/-- A handler reads with buffer sizes `ns` (each at least one byte) and no `Read` reports an error: it
    has been given `o`, and reader and client body are in the states `st'`, `r'`. -/
inductive EOkReads (w : World) : St → ER → List Nat → Bytes → St → ER → Prop
  | nil (st : St) (r : ER) : EOkReads w st r [] [] st r
  | cons (st : St) (r : ER) (n : Nat) (ns : List Nat) (b : Bytes) (s1 : St) (r1 : ER) (p : Bool) (o : Bytes) (st' : St) (r' : ER) :
      1 ≤ n → erRead w st r n = (b, none, s1, r1, p) → EOkReads w s1 r1 ns o st' r' →
      EOkReads w st r (n :: ns) (b ++ o) st' r'

/-- **Whole runs**: after any sequence of successful reads, what the handler has been given plus the
    pending envelope bytes plus what is left of the client's body is what there was at the start; the
    pending bytes are at most five. -/
theorem EOkReads.conserves {w : World} {st : St} {r : ER} {ns : List Nat} {o : Bytes} {st' : St} {r' : ER}
    (ce se : Enveloper) (h : EOkReads w st r ns o st' r') :
    st.op.clientEnveloper = some ce → st.op.serverEnveloper = some se → r.WF → r.err = none →
    o.length + r'.pending.length + st'.src.data.length = r.pending.length + st.src.data.length ∧ r'.pending.length ≤ 5 := by
  induction h with
  | nil st r =>
    intro _ _ hwf _
    refine ⟨by simp, ?_⟩
    rw [pending_length r hwf]
    by_cases h : r.envRemain > 0
    · exact (hwf.env h).1
    · omega
  | cons st r n ns b s1 r1 p o st' r' hn hrd _ ih =>
    intro hce hse hwf herr
    have hs := erRead_step w ce se st r n hn hce hse hwf herr
    have hc := erRead_conserves w ce se st r n hce hse hwf herr
    rw [hrd] at hs hc
    obtain ⟨hwf1, herr1, hop1, _⟩ := hs.2.1 rfl
    simp only at hwf1 herr1 hop1 hc
    obtain ⟨i1, i2⟩ := ih (by rw [hop1]; exact hce) (by rw [hop1]; exact hse) hwf1 herr1
    have := hc trivial
    refine ⟨?_, i2⟩
    rw [List.length_append]
    omega

end Vanguard
