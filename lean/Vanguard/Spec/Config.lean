import Vanguard.Model.Config
/-!
  What C17 demands of `NewTranscoder`, stated without reference to the order in which the Go code
  checks things: when a configuration is servable, and which methods a rule selector names.
-/
namespace Vanguard.Spec
open Vanguard Vanguard.Cfg

/-- A selector names: exactly the method whose full name it is; or, when it ends in `*`, every
    method whose full name starts with the part before the `*`, which must be empty or end at a
    name boundary (`.`), and a `*` anywhere else is not a selector at all. -/
def selectorNames (sel fullName : Bytes) : Bool :=
  if sel.contains 0x2A then
    let p := sel.dropLast
    sel.getLast? == some 0x2A && !p.contains 0x2A && (p.isEmpty || p.getLast? == some 0x2E) && p.isPrefixOf fullName
  else !sel.isEmpty && sel == fullName

/-- The options a service ends up with can be served. -/
def optsServable (c : Config) (o : SvcOpts) : Bool :=
  !o.protocols.isEmpty && o.protocols.all (fun p => 1 ≤ p && p ≤ 4) &&
  !o.codecs.isEmpty && o.codecs.all c.knownCodecs.contains &&
  o.compressors.all c.knownCompressors.contains && o.maxMsg != 0 && o.maxGet != 0

/-- Every method of every registered service, with the options of its service. -/
def allMethods (c : Config) : List MethodReg :=
  c.services.flatMap fun r =>
    match c.schema.services.find? (·.fullName == r.svc) with
    | some sd => methodConfsOf sd (resolveOpts c.defaults r.opts)
    | none => []

/-! The last setting of each option kind in a list of options (the specification of "later options
    override earlier ones"). -/

def lastProtocols : List SvcOpt → Option (List Nat)
  | [] => none
  | o :: rest => match lastProtocols rest with
    | some l => some l
    | none => match o with | .protocols l => some l | _ => none

def lastMaxMsg : List SvcOpt → Option Nat
  | [] => none
  | o :: rest => match lastMaxMsg rest with
    | some l => some l
    | none => match o with | .maxMsg l => some l | _ => none

def lastCodecs : List SvcOpt → Option (List Bytes)
  | [] => none
  | o :: rest => match lastCodecs rest with
    | some l => some l
    | none => match o with | .codecs l => some l | _ => none

def lastCompress : List SvcOpt → Option (List Bytes)
  | [] => none
  | o :: rest => match lastCompress rest with
    | some l => some l
    | none => match o with | .compress l => some l | _ => none


/-- The protocols a service must end up with: its own last setting, else the last default, else
    Connect, gRPC, gRPC-Web. -/
def expectedProtocols (defaults own : List SvcOpt) : List Nat :=
  match lastProtocols own with
  | some l => l
  | none => match lastProtocols defaults with
    | some l => l
    | none => [1, 2, 3]

end Vanguard.Spec
