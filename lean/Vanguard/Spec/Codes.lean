import Vanguard.Model.Basic
/-!
  Published tables, written independently of the model (as `match`es, not as list lookups).
  * Connect protocol, "Error codes": RPC code → HTTP status.
  * gRPC "HTTP to gRPC Status Code Mapping": HTTP status → RPC code.
-/
namespace Vanguard.Spec

/-- Connect's code → HTTP status table; everything outside 0..16 is a server error (500). -/
def httpOfCode : Nat → Nat
  | 0 => 200   -- ok
  | 1 => 499   -- canceled
  | 2 => 500   -- unknown
  | 3 => 400   -- invalid_argument
  | 4 => 504   -- deadline_exceeded
  | 5 => 404   -- not_found
  | 6 => 409   -- already_exists
  | 7 => 403   -- permission_denied
  | 8 => 429   -- resource_exhausted
  | 9 => 400   -- failed_precondition
  | 10 => 409  -- aborted
  | 11 => 400  -- out_of_range
  | 12 => 501  -- unimplemented
  | 13 => 500  -- internal
  | 14 => 503  -- unavailable
  | 15 => 500  -- data_loss
  | 16 => 401  -- unauthenticated
  | _ => 500

/-- Published HTTP → RPC code mapping (400 internal, 401 unauthenticated, 403 permission_denied,
    404 unimplemented, 429/502/503/504 unavailable, everything else unknown; 200 is OK). -/
def codeOfHTTP (status : Int) : Nat :=
  match status with
  | 200 => 0
  | 400 => 13
  | 401 => 16
  | 403 => 7
  | 404 => 12
  | 429 => 14
  | 502 => 14
  | 503 => 14
  | 504 => 14
  | _ => 2

/-- Oracle for one call of `httpStatusCodeFromRPC`: no panic, and the published status. -/
def statusFromRPCOk (code : Nat) (out : Option Nat) : Bool := out == some (httpOfCode code)

/-- Oracle for one call of `httpStatusCodeToRPC`. -/
def statusToRPCOk (status : Int) (out : Nat) : Bool := out == codeOfHTTP status

/-- `grpc-message` must be printable ASCII with `%` only as an escape introducer. -/
def printableAscii (b : Bytes) : Bool := b.all fun c => 0x20 ≤ c && c ≤ 0x7E

end Vanguard.Spec
