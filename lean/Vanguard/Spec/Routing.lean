import Vanguard.Model.Router
/-!
  Declarative template matching (google.api.http grammar at segment level), independent of the
  trie walk: a template segment matches a request segment if it is that literal, or is `*`; a final
  `**` matches everything that remains (at least one segment).
-/
namespace Vanguard.Spec
open Vanguard

def segMatch : List Bytes → List Bytes → Bool
  | [], [] => true
  | t :: ts, p :: ps =>
    (t == p && segMatch ts ps) || (t == starSeg && segMatch ts ps) || (t == dstarSeg && ts.isEmpty)
  | _, _ => false

/-- Route `r` (still to match `r.segs`) matches the rest of the path and the verb. -/
def routeMatches (path : List Bytes) (verb : Bytes) (r : Route) : Bool :=
  segMatch r.segs path && r.verb == verb

/-- The key that must be unique among bindings (what `insert` checks). -/
def key (r : Route) : List Bytes × Bytes × Bytes := (r.segs, r.verb, r.method)

end Vanguard.Spec

namespace Vanguard.Spec
open Vanguard

/-- Oracle for one `routeTrie.match` call, stated with the declarative matcher only.
    * a binding is returned only if it matches path, verb and method, with the spec's captures;
    * `Allow` lists only methods of matching bindings and never the request's own method;
    * 404 only if nothing matches (or a matching binding's captured segment has an invalid escape);
    * if some binding's template is literally the path, the outcome comes from such a binding. -/
def routeOutcomeOk (routes : List Route) (uriPath method : Bytes) (res : MatchRes) : Bool :=
  match uriPath with
  | 0x2F :: rest =>
    if uriPath.getLast? == some 0x3A then res == .none else
    let pv := splitVerb (splitOnByte 0x2F rest)
    let matching := routes.filter (routeMatches pv.1 pv.2)
    let lits := matching.filter (fun r => r.segs == pv.1)
    match res with
    | .found idx vars =>
      matching.any (fun r => r.idx == idx && (r.method == method || r.method == wildcardMethod) &&
        captureAll pv.1 r.tmpl.vars == .ok vars && (lits.isEmpty || r.segs == pv.1))
    | .allow ms =>
      !ms.isEmpty && !ms.contains method && !ms.contains wildcardMethod &&
        ms.all (fun m => matching.any (fun r => r.method == m && (lits.isEmpty || r.segs == pv.1)))
    | .none => matching.isEmpty || matching.any (fun r => captureAll pv.1 r.tmpl.vars == .err)
    | .panic => false
  | _ => res == .none

end Vanguard.Spec
