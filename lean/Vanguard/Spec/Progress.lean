import Vanguard.Model.Basic
/-!
  Specification of message-by-message progress (C16), as executable predicates over the progress
  log of a run: after every handler operation, how much of the response is on the wire and how
  much of the client's body had to be taken.  Independent of how the transcoder works inside.
-/
namespace Vanguard.Spec
open Vanguard

/-- End offsets of the complete 5-byte-prefixed frames of `b` with their flag bytes
    (fuel = `b.length + 1` suffices). -/
def frameEnds : Nat → Nat → Bytes → List (Nat × UInt8)
  | 0, _, _ => []
  | fuel + 1, off, b =>
    match b with
    | f :: l3 :: l2 :: l1 :: l0 :: rest =>
      let n := l3.toNat * 16777216 + l2.toNat * 65536 + l1.toNat * 256 + l0.toNat
      if rest.length < n then [] else (off + 5 + n, f) :: frameEnds fuel (off + 5 + n) (rest.drop n)
    | _ => []

def framesOf (b : Bytes) : List (Nat × UInt8) := frameEnds (b.length + 1) 0 b

/-- Number of complete data frames (no `endFlag` bit) that end at or before `upTo`. -/
def dataFramesWithin (frames : List (Nat × UInt8)) (endFlag : UInt8) (upTo : Nat) : Nat :=
  (frames.filter fun f => f.2 &&& endFlag == 0 && f.1 ≤ upTo).length

/-- **Response direction.**  `written` = the backend's cumulative output after a write operation,
    in the backend's framing (`srvEndFlag` marks its end-of-stream frame); `clientFrames` = the
    frames of the client's final body, `flushed` = how many bytes of it were on the wire when that
    write returned.  Every message the backend has completed, and that the client gets at all, is
    on the wire. -/
def respStepOk (written : Bytes) (srvEndFlag : UInt8) (clientFrames : List (Nat × UInt8)) (cliEndFlag : UInt8)
    (flushed : Nat) : Bool :=
  let done := dataFramesWithin (framesOf written) srvEndFlag written.length
  let delivered := dataFramesWithin clientFrames cliEndFlag (clientFrames.foldl (fun m f => max m f.1) 0)
  let onWire := dataFramesWithin clientFrames cliEndFlag flushed
  onWire ≥ min done delivered

/-- **Request direction.**  `delivered` = bytes handed to the handler so far, in the backend's
    framing with frame ends `srvEnds`; `cliEnds` = the message boundaries of the client's body,
    `total` its length; `pulled` = bytes taken from the client's body so far.  Handing out message
    `k` (or a part of it) never needs more than the client's first `k` messages. -/
def reqStepOk (srvEnds : List Nat) (cliEnds : List Nat) (total delivered pulled : Nat) : Bool :=
  let k := (srvEnds.filter (· ≤ delivered)).length
  let lastEnd := (srvEnds.filter (· ≤ delivered)).foldl max 0
  let need := if delivered > lastEnd then k + 1 else k
  let allowed := if need == 0 then 0 else (cliEnds[need - 1]?).getD total
  pulled ≤ allowed

end Vanguard.Spec
