import Vanguard.Model.Decimal
/-!
  Reference grammars of the timeout headers, independent of the model's decoders.
  * gRPC: `Grpc-Timeout = 1*8DIGIT Unit`, `Unit ∈ H M S m u n` (PROTOCOL-HTTP2).
  * Connect: `Connect-Timeout-Ms = 1*10DIGIT` milliseconds.
-/
namespace Vanguard.Spec
open Vanguard

def unitNanos : UInt8 → Option Int
  | 0x6E => some 1
  | 0x75 => some 1000
  | 0x6D => some 1000000
  | 0x53 => some 1000000000
  | 0x4D => some 60000000000
  | 0x48 => some 3600000000000
  | _ => none

def allDigits (s : Bytes) : Bool := s.all isDigitByte

/-- A syntactically valid gRPC timeout and its value in nanoseconds. -/
def grpcValue (s : Bytes) : Option Int :=
  match s.getLast? with
  | none => none
  | some u =>
    match unitNanos u with
    | none => none
    | some unit =>
      let ds := s.dropLast
      if allDigits ds && 1 ≤ ds.length && ds.length ≤ 8 then (parseNat ds).map (fun n => (n : Int) * unit) else none

/-- A number text that `ParseInt`-like readers cannot accept under any lenient reading: empty, a
    lone sign, or a character that is neither a digit nor a leading sign. -/
def numberMalformed : Bytes → Bool
  | [] => true
  | c :: rest => !(isDigitByte c || c == 0x2B || c == 0x2D) || !allDigits rest || (rest.isEmpty && !isDigitByte c)

/-- Definitely malformed gRPC timeout: no unit, or a malformed number.
    (Leading `+`/`-0`, more than 8 digits are a grey zone: either behaviour is accepted.) -/
def grpcDefinitelyMalformed (s : Bytes) : Bool :=
  match s.getLast? with
  | none => false   -- absent header, not malformed
  | some u => (unitNanos u).isNone || numberMalformed s.dropLast

def eightHours : Int := 8 * 3600000000000

/-- Oracle for `Grpc-Timeout` extraction (result: `none` reject, `some none` no timeout,
    `some (some d)`): valid values are conveyed exactly, or treated as unbounded when beyond
    eight hours (the practical range); definitely malformed ones are rejected. -/
def grpcExtractOk (s : Bytes) (out : Option (Option Int)) : Bool :=
  if s.isEmpty then out == some none
  else match grpcValue s with
    | some v => out == some (some v) || (v > eightHours && out == some none)
    | none => if grpcDefinitelyMalformed s then out == none else true

/-- Oracle for `grpcEncodeTimeout d`: the text is a valid gRPC timeout whose value does not exceed
    `d` and falls short by less than its own unit; durations of 6·10¹⁸ ns (190 years) and more may
    be expressed in hours, which every gRPC peer treats as unbounded. -/
def grpcEncodeOk (d : Int) (enc : Bytes) : Bool :=
  if d ≤ 0 then enc == [0x30, 0x6E]
  else match grpcValue enc, enc.getLast? >>= unitNanos with
    | some v, some unit => v ≤ d && (d - v < unit)
    | _, _ => false

def connectValue (s : Bytes) : Option Int :=
  if allDigits s && 1 ≤ s.length && s.length ≤ 10 then (parseNat s).map (fun n => (n : Int) * 1000000) else none

def connectDefinitelyMalformed (s : Bytes) : Bool :=
  match s with
  | [] => false
  | c :: rest => numberMalformed s || (c == 0x2D && rest.any (· != 0x30))   -- malformed or negative

/-- More than ten digits: beyond the grammar and the practical range. It may be rejected or
    clamped (to no less than the ten-digit maximum and no more than its own value); it must not
    turn into a short deadline. -/
def connectOverlong (s : Bytes) : Option Nat :=
  if allDigits s && s.length > 10 then parseNat s else none

/-- What may happen to an over-long (more than ten digits) value `n`: rejected, or conveyed /
    clamped to no less than the ten-digit maximum and no more than `n` — never a shorter deadline. -/
def overlongOk (n : Nat) : Option (Option Int) → Bool
  | none => true
  | some (some d) => (decide (9999999999000000 ≤ d) || decide ((n : Int) * 1000000 ≤ d)) && decide (d ≤ (n : Int) * 1000000)
  | some none => false

def connectExtractOk (s : Bytes) (out : Option (Option Int)) : Bool :=
  if s.isEmpty then out == some none
  else match connectValue s with
    | some v => out == some (some v)
    | none =>
      if connectDefinitelyMalformed s then out == none
      else match connectOverlong s with
        | some n => overlongOk n out
        | none => true

/-- Oracle for `connectEncodeTimeout d` (`d ≥ 0`): 1–10 digits; never more than `d`; short by less
    than a millisecond unless clamped to the 10-digit maximum. -/
def connectEncodeOk (d : Int) (enc : Bytes) : Bool :=
  if d < 0 then true
  else match connectValue enc with
    | some v => v ≤ d && (d - v < 1000000 || v == 9999999999000000)
    | none => false

end Vanguard.Spec
