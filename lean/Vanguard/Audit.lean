import Lean.Elab.Command
import Lean.Util.CollectAxioms
/-!
  `#audit_ns Foo.Bar` prints, for every theorem whose name starts with `Foo.Bar`, one JSON line
  `{"theorem": …, "axioms": […]}` (the output of `#print axioms`, machine readable).
  The check counts these as the proof obligations of a property and rejects any axiom other
  than `propext`, `Classical.choice`, `Quot.sound`.
-/
open Lean Elab Command

elab "#audit_ns " ns:ident : command => do
  let env ← getEnv
  let nsName := ns.getId
  let names : Array Name := env.constants.fold (init := #[]) fun acc n ci =>
    if nsName.isPrefixOf n && !n.isInternalDetail then
      match ci with
      | .thmInfo _ => acc.push n
      | _ => acc
    else acc
  let sorted := names.qsort (fun a b => a.toString < b.toString)
  for n in sorted do
    let axs ← liftCoreM (collectAxioms n)
    let axStrs := axs.toList.map (fun a => "\"" ++ a.toString ++ "\"")
    IO.println s!"AUDIT \{\"theorem\": \"{n}\", \"axioms\": [{", ".intercalate axStrs}]}"
