import Lean
/-!
  `#audit_ns Foo.Bar` prints, for every theorem whose name starts with `Foo.Bar`, one JSON line
  `{"theorem": …, "axioms": […]}` (the output of `#print axioms`, machine readable).
  The check counts these as the proof obligations of a property and rejects any axiom other
  than `propext`, `Classical.choice`, `Quot.sound`.
-/
open Lean Elab Command

elab "#audit_ns " ns:ident : command => do
  let env ← getEnv
  let nsName := ns.getId
  let mut names : Array Name := #[]
  for (n, ci) in env.constants.toList do
    if nsName.isPrefixOf n && !n.isInternalDetail then
      match ci with
      | .thmInfo _ => names := names.push n
      | _ => pure ()
  let sorted := names.qsort (fun a b => a.toString < b.toString)
  for n in sorted do
    let axs ← liftCoreM (collectAxioms n)
    let axStrs := axs.toList.map (fun a => "\"" ++ a.toString ++ "\"")
    IO.println s!"AUDIT \{\"theorem\": \"{n}\", \"axioms\": [{", ".intercalate axStrs}]}"
