import Vanguard.Model.Codes
import Vanguard.Model.Percent
import Vanguard.Spec.Codes
import Vanguard.Lemmas.UInt8
/-!
  C04 — RPC errors keep their code, message and details across protocols.
  Property theorems only (helper lemmas live in `Vanguard/Lemmas`).
-/
namespace Vanguard.C04
open Vanguard

/-- The table in the source is the published Connect table. -/
theorem status_table_is_published : statusTable = (List.range 17).map Spec.httpOfCode := by decide

/-- `httpStatusCodeFromRPC` never panics and returns the published status for *every* code
    (codes outside 0..16 are server errors).  `none` models Go's index-out-of-range panic, so
    this is also the "numeric codes outside the defined range never crash" clause. -/
theorem status_from_rpc_spec (code : Nat) : Spec.statusFromRPCOk code (httpStatusFromRPC code) = true := by
  unfold Spec.statusFromRPCOk httpStatusFromRPC httpStatusFromRPCWith
  by_cases h : code ≥ statusTable.length
  · have h17 : 17 ≤ code := h
    have : Spec.httpOfCode code = 500 := by
      unfold Spec.httpOfCode
      split <;> first | omega | rfl
    simp [h, this]
  · have hlt : code < 17 := by simpa [statusTable] using h
    simp only [h]
    have : ∀ c : Fin 17, (statusTable[c.val]? == some (Spec.httpOfCode c.val)) = true := by decide
    simpa using this ⟨code, hlt⟩

/-- The pinned-tree guard (`>` instead of `>=`) does panic: code 17 is the witness.  Kept so a
    regression to the old guard is recognised by the model-side search immediately. -/
theorem status_from_rpc_strict_guard_panics : httpStatusFromRPCWith statusTable true 17 = none := by decide

/-- `httpStatusCodeToRPC` is the published mapping for every status. -/
theorem status_to_rpc_spec (status : Int) : Spec.statusToRPCOk status (httpStatusToRPC status) = true := by
  unfold Spec.statusToRPCOk httpStatusToRPC Spec.codeOfHTTP
  repeat' split
  all_goals first | rfl | (simp_all; done) | omega | (exfalso; simp_all <;> omega)

/-- Bare HTTP statuses the property names explicitly. -/
example : httpStatusToRPC 401 = 16 ∧ httpStatusToRPC 403 = 7 ∧ httpStatusToRPC 404 = 12 ∧
    httpStatusToRPC 429 = 14 ∧ httpStatusToRPC 502 = 14 ∧ httpStatusToRPC 503 = 14 ∧
    httpStatusToRPC 504 = 14 := by decide

set_option maxRecDepth 100000 in
private theorem upperhex_roundtrip (c : UInt8) :
    ishex (upperhex (c >>> 4)) = true ∧ ishex (upperhex (c &&& 15)) = true ∧
    (unhex (upperhex (c >>> 4)) <<< 4 ||| unhex (upperhex (c &&& 15))) = c := by
  revert c; apply forall_uint8; decide +kernel

/-- Any message (arbitrary bytes, so in particular all of UTF-8) survives the `grpc-message`
    percent coding unchanged. -/
theorem percent_roundtrip (m : Bytes) : grpcPercentDecode (grpcPercentEncode m) = some m := by
  induction m with
  | nil => rfl
  | cons c rest ih =>
    unfold grpcPercentEncode
    split
    · have h := upperhex_roundtrip c
      simp [grpcPercentDecode, h.1, h.2.1, h.2.2, ih]
    · rename_i hc
      have : c ≠ 0x25 := by
        intro h; subst h; simp [grpcShouldEscape] at hc
      unfold grpcPercentDecode
      split <;> simp_all

set_option maxRecDepth 100000 in
private theorem upperhex_printable (c : UInt8) :
    ((0x20 : UInt8) ≤ upperhex (c >>> 4) && upperhex (c >>> 4) ≤ (0x7E : UInt8)) = true ∧
    ((0x20 : UInt8) ≤ upperhex (c &&& 15) && upperhex (c &&& 15) ≤ (0x7E : UInt8)) = true := by
  revert c; apply forall_uint8; decide +kernel

set_option maxRecDepth 100000 in
private theorem unescaped_printable (c : UInt8) (h : grpcShouldEscape c = false) :
    ((0x20 : UInt8) ≤ c && c ≤ (0x7E : UInt8)) = true := by
  revert h; revert c; apply forall_uint8; decide +kernel

/-- The encoded `grpc-message` is always printable ASCII (a legal HTTP header value). -/
theorem percent_encode_printable (m : Bytes) : Spec.printableAscii (grpcPercentEncode m) = true := by
  induction m with
  | nil => rfl
  | cons c rest ih =>
    unfold grpcPercentEncode
    split
    · have h := upperhex_printable c
      simp only [Spec.printableAscii, List.all_cons] at ih ⊢
      simp [h.1, h.2, ih]
    · rename_i hc
      have := unescaped_printable c (by simpa using hc)
      simp only [Spec.printableAscii, List.all_cons] at ih ⊢
      simp [this, ih]

/-- Non-vacuity: a message with non-ASCII bytes, `%` and a control character. -/
example : grpcPercentDecode (grpcPercentEncode [0x66, 0xC3, 0xA9, 0x25, 0x0A]) = some [0x66, 0xC3, 0xA9, 0x25, 0x0A] := by
  decide


/-! The ties of these tables to the source as it reads now (`Vanguard.Gen`, regenerated on every run) are in
    `Props/C04e2e.lean` (`source_*_is_model`): this file must not depend on generated facts, because the
    lemma libraries of the response path are built on top of it. -/

end Vanguard.C04
