import Vanguard.Model.Run
/-!
  C19 — GET is accepted and issued only for side-effect-free methods.

  Proved about the model of `resolveMethod` and of the Connect request line
  (`connectUnaryServerProtocol.useGet/requestLine`), for every configuration and request:
  * a non-POST request is accepted iff it is a Connect GET request (classified as such) with HTTP
    method GET on a method declared side-effect-free; otherwise 405 with `Allow: POST`, or
    `Allow: GET,POST` when the method would allow GET but the HTTP method is neither;
  * toward a Connect backend GET is issued iff the client's own request was a GET, the method is
    side-effect-free, the target codec has a stable encoding and path + "?" + query fits the
    configured maximum — with the boundary exact; in every other case POST.
  GET/POST decoding equality and the decision on the implementation are checked by `oracleC19` on
  the e2e stream and on the `getpost` stream (same content sent both ways).
-/
namespace Vanguard.C19
open Vanguard

/-- Acceptance of non-POST requests. -/
theorem get_accepted_iff (t : TConf) (c : ClientForm) (r : Req) (m : MethodConf)
    (hfind : t.methods.find? (fun m => m.path == r.path) = some m) (hnp : r.method ≠ sPOST) :
    (resolveMethod t c r = .ok m ↔ (c = .connectGet ∧ m.noSideEffects = true ∧ r.method = sGET)) ∧
    (¬ (c = .connectGet ∧ m.noSideEffects = true) → resolveMethod t c r = .error (.status 405 (some sPOST))) ∧
    (c = .connectGet → m.noSideEffects = true → r.method ≠ sGET →
        resolveMethod t c r = .error (.status 405 (some (s "GET,POST")))) := by
  unfold resolveMethod
  simp only [hfind]
  have hnp' : (r.method != sPOST) = true := by simpa using hnp
  simp only [hnp', if_true]
  refine ⟨⟨fun h => ?_, fun ⟨hc, hn, hg⟩ => ?_⟩, fun hno => ?_, fun hc hn hg => ?_⟩
  · by_cases hall : (c == .connectGet && m.noSideEffects) = true
    · simp only [hall, Bool.not_true, Bool.false_eq_true, if_false] at h
      by_cases hg : r.method = sGET
      · simp only [Bool.and_eq_true, beq_iff_eq] at hall
        exact ⟨hall.1, hall.2, hg⟩
      · have : (r.method != sGET) = true := by simpa using hg
        simp [this] at h
    · simp [hall] at h
  · subst hc
    simp [hn, hg]
  · have : (c == .connectGet && m.noSideEffects) = false := by
      cases hc : (c == .connectGet) <;> cases hn : m.noSideEffects <;> simp_all
    simp [this]
  · subst hc
    have : (r.method != sGET) = true := by simpa using hg
    simp [hn, this]

/-- POST is always accepted for a known method (the GET rules do not apply). -/
theorem post_accepted (t : TConf) (c : ClientForm) (r : Req) (m : MethodConf)
    (hfind : t.methods.find? (fun m => m.path == r.path) = some m) (hp : r.method = sPOST) :
    resolveMethod t c r = .ok m := by
  unfold resolveMethod; simp [hfind, hp]

/-- **GET is issued iff…** (`useGet`): the client's request was a GET, the method is side-effect-free,
    the target is Connect unary and its codec has a stable encoding. -/
theorem use_get_iff (w : World) (o : Op) :
    (o.plan w).useGet = true ↔
      (o.sform = .connectUnary ∧ o.reqMethod = sGET ∧ w.stable o.scodec = true ∧ o.conf.noSideEffects = true) := by
  unfold Op.plan
  simp [Bool.and_eq_true, and_assoc]

/-- … **and the URL fits, exactly.**  With `useGet`, GET is issued iff
    `len(path) + 1 + len(query) ≤ maxGetURL`; one byte more falls back to POST. -/
theorem get_url_limit_exact (w : World) (o : Op) (v : Bytes) :
    (connectGetQuery w o v).isSome = true ↔
      o.conf.path.length + 1 + (connectGetQueryString w o v).length ≤ o.conf.maxGetURL := by
  unfold connectGetQuery
  simp only
  split <;> simp <;> omega

/-- When GET is issued, the query is the canonical one (it re-parses to the message, see C19 oracle). -/
theorem get_query_is_canonical (w : World) (o : Op) (v q : Bytes) (h : connectGetQuery w o v = some q) :
    q = connectGetQueryString w o v := by
  unfold connectGetQuery at h
  simp only at h
  split at h <;> simp_all

end Vanguard.C19
