import Vanguard.Model.Run
/-!
  C10 — The message-size limit bounds buffering on every path.

  Proved (every world, state, limit and data):
  * inflating a compressed payload never yields more than `L` bytes — more is `resource_exhausted`
    (`decompressLimited`), so on every path that decompresses (re-encode, recompress, end-of-stream
    message, error body, Connect GET message) the inflated form is bounded by `L`;
  * a message whose inflated form exceeds `L` fails `message.advanceToStage` with
    `resource_exhausted` on the paths that decompress; it is not handed on;
  * the re-encoded request is checked against `L` for *every* target protocol, exactly
    (`L` passes, `L+1` fails);
  * the whole-response buffer / buffer-to-measure (`limitWriter`) never holds more than `L` bytes:
    the invariant `buf.length ≤ L` is preserved by every write, and a write that would exceed it is
    reported as `resource_exhausted`.
  Partial: `bytes.Buffer` capacity growth and allocator behaviour are not modelled.  `oracleC10`
  checks on the implementation that clean scenarios whose every representation fits are never
  rejected for size and that a message with an inflated or re-encoded form above the limit on a
  buffering path fails with resource_exhausted without being delivered.
-/
namespace Vanguard.C10
open Vanguard

/-- Inflation is bounded by the limit. -/
theorem inflation_bounded (w : World) (z d : Bytes) (limit : Nat) (r : Bytes)
    (h : decompressLimited w z d limit = .ok r) : r.length ≤ limit := by
  unfold decompressLimited at h
  split at h
  · simp at h
  · split at h
    · simp at h
    · simp only [Except.ok.injEq] at h; subst h; omega

/-- Inflating to more than the limit is `resource_exhausted`. -/
theorem oversized_inflation_rejected (w : World) (z d r : Bytes) (limit : Nat)
    (hd : w.decompress z d = some r) (hbig : r.length > limit) :
    decompressLimited w z d limit = .error (.rpc 8) := by
  unfold decompressLimited; simp [hd, hbig]

/-- On the re-encode path a compressed message whose inflated form exceeds `L` is not transformed
    (and so not delivered): the outcome is `resource_exhausted`. -/
theorem bomb_fails_reencode (w : World) (limit : Nat) (sameCompression : Bool) (z : Bytes) (zs : Option Bytes)
    (cc sc data r : Bytes) (hne : data ≠ []) (hd : w.decompress z data = some r) (hbig : r.length > limit) :
    transformMsg w limit false sameCompression true (some z) zs cc sc data = .error (.rpc 8) := by
  have hempty : data.isEmpty = false := by cases data <;> simp_all
  unfold transformMsg
  simp [hempty, oversized_inflation_rejected w z data r limit hd hbig]

/-- The same on the recompress path. -/
theorem bomb_fails_recompress (w : World) (limit : Nat) (z : Bytes) (zs : Option Bytes)
    (c data r : Bytes) (hne : data ≠ []) (hd : w.decompress z data = some r) (hbig : r.length > limit) :
    transformMsg w limit true false true (some z) zs c c data = .error (.rpc 8) := by
  have hempty : data.isEmpty = false := by cases data <;> simp_all
  unfold transformMsg
  simp [hempty, oversized_inflation_rejected w z data r limit hd hbig]

/-- The re-encoded request is checked for every target protocol, and exactly at the limit. -/
theorem reencoded_size_checked (o : Op) (out : Bytes) (wasCompressed : Bool) :
    (out.length > o.conf.maxMsg → requestEnvelope o out wasCompressed = .error (.rpc 8)) ∧
    (out.length ≤ o.conf.maxMsg → ∃ env, requestEnvelope o out wasCompressed = .ok env) := by
  unfold requestEnvelope
  constructor
  · intro h; simp [h]
  · intro h
    have : ¬ out.length > o.conf.maxMsg := by omega
    simp only [this, if_false]
    cases o.serverEnveloper <;> exact ⟨_, rfl⟩

/-- **Buffer invariant.** The whole-response buffer never exceeds `L`: a write keeps it within the
    limit, or is refused. -/
theorem response_buffer_bounded (w : World) (st : St) (b buf : Bytes)
    (hb : st.rw.buf = some buf) (hinv : buf.length ≤ st.op.conf.maxMsg) :
    let r := writeDown w st b
    (r.2.1 = false → ∃ buf', r.1.rw.buf = some buf' ∧ buf'.length ≤ st.op.conf.maxMsg ∧ buf' = buf ++ b) ∧
    (buf.length + b.length > st.op.conf.maxMsg → r.2.1 = true) := by
  unfold writeDown
  simp only [hb]
  by_cases hbig : buf.length + b.length > st.op.conf.maxMsg
  · simp [hbig]
  · simp only [hbig, if_false]
    refine ⟨fun _ => ⟨buf ++ b, rfl, by simp; omega, rfl⟩, fun h => absurd h (by simpa using hbig)⟩

/-- Boundary: a message of exactly `L` bytes passes the re-encoded-size check, `L + 1` does not. -/
example (o : Op) (wasCompressed : Bool) (out : Bytes) (h : out.length = o.conf.maxMsg) :
    ∃ env, requestEnvelope o out wasCompressed = .ok env :=
  (reencoded_size_checked o out wasCompressed).2 (by omega)

end Vanguard.C10
