import Vanguard.Model.Run
import Vanguard.Lemmas.Chunking
import Vanguard.Gen.Facts
/-!
  C10 — The message-size limit bounds buffering on every path.

  Proved (every world, state, limit and data):
  * inflating a compressed payload never yields more than `L` bytes — more is `resource_exhausted`
    (`decompressLimited`), so on every path that decompresses (re-encode, recompress, end-of-stream
    message, error body, Connect GET message) the inflated form is bounded by `L`;
  * a message whose inflated form exceeds `L` fails `message.advanceToStage` with
    `resource_exhausted` on the paths that decompress; it is not handed on;
  * the re-encoded request is checked against `L` for *every* target protocol, exactly
    (`L` passes, `L+1` fails);
  * the whole-response buffer / buffer-to-measure (`limitWriter`) never holds more than `L` bytes:
    the invariant `buf.length ≤ L` is preserved by every write, and a write that would exceed it is
    reported as `resource_exhausted`.
  * the body of a client without envelopes that is buffered to be measured (`io.Copy` through
    `hardLimitReader`) is accepted **iff it has at most `L` bytes**, for every segmentation: `L` bytes pass,
    `L + 1` bytes are `resource_exhausted` (`unenveloped_body_bounded`, `unenveloped_body_boundary` - the
    pinned tree accepted `L + 1`, fix fefc337), and the message reader never returns more than `L` bytes
    (`unenveloped_message_bounded`).
  Partial: `bytes.Buffer` capacity growth and allocator behaviour are not modelled.  `oracleC10`
  checks on the implementation that clean scenarios whose every representation fits are never
  rejected for size and that a message with an inflated or re-encoded form above the limit on a
  buffering path fails with resource_exhausted without being delivered.
-/
namespace Vanguard.C10
open Vanguard

/-- Inflation is bounded by the limit. -/
theorem inflation_bounded (w : World) (z d : Bytes) (limit : Nat) (r : Bytes)
    (h : decompressLimited w z d limit = .ok r) : r.length ≤ limit := by
  unfold decompressLimited at h
  split at h
  · simp at h
  · split at h
    · simp at h
    · simp only [Except.ok.injEq] at h; subst h; omega

/-- Inflating to more than the limit is `resource_exhausted`. -/
theorem oversized_inflation_rejected (w : World) (z d r : Bytes) (limit : Nat)
    (hd : w.decompress z d = some r) (hbig : r.length > limit) :
    decompressLimited w z d limit = .error (.rpc 8) := by
  unfold decompressLimited; simp [hd, hbig]

/-- On the re-encode path a compressed message whose inflated form exceeds `L` is not transformed
    (and so not delivered): the outcome is `resource_exhausted`. -/
theorem bomb_fails_reencode (w : World) (limit : Nat) (sameCompression : Bool) (z : Bytes) (zs : Option Bytes)
    (cc sc data r : Bytes) (hne : data ≠ []) (hd : w.decompress z data = some r) (hbig : r.length > limit) :
    transformMsg w limit false sameCompression true (some z) zs cc sc data = .error (.rpc 8) := by
  have hempty : data.isEmpty = false := by cases data <;> simp_all
  unfold transformMsg
  simp [hempty, oversized_inflation_rejected w z data r limit hd hbig]

/-- The same on the recompress path. -/
theorem bomb_fails_recompress (w : World) (limit : Nat) (z : Bytes) (zs : Option Bytes)
    (c data r : Bytes) (hne : data ≠ []) (hd : w.decompress z data = some r) (hbig : r.length > limit) :
    transformMsg w limit true false true (some z) zs c c data = .error (.rpc 8) := by
  have hempty : data.isEmpty = false := by cases data <;> simp_all
  unfold transformMsg
  simp [hempty, oversized_inflation_rejected w z data r limit hd hbig]

/-- The re-encoded request is checked for every target protocol, and exactly at the limit. -/
theorem reencoded_size_checked (o : Op) (out : Bytes) (wasCompressed : Bool) :
    (out.length > o.conf.maxMsg → requestEnvelope o out wasCompressed = .error (.rpc 8)) ∧
    (out.length ≤ o.conf.maxMsg → ∃ env, requestEnvelope o out wasCompressed = .ok env) := by
  unfold requestEnvelope
  constructor
  · intro h; simp [h]
  · intro h
    have : ¬ out.length > o.conf.maxMsg := by omega
    simp only [this, if_false]
    cases o.serverEnveloper <;> exact ⟨_, rfl⟩

/-- **Buffer invariant.** The whole-response buffer never exceeds `L`: a write keeps it within the
    limit, or is refused. -/
theorem response_buffer_bounded (w : World) (st : St) (b buf : Bytes)
    (hb : st.rw.buf = some buf) (hinv : buf.length ≤ st.op.conf.maxMsg) :
    let r := writeDown w st b
    (r.2.1 = false → ∃ buf', r.1.rw.buf = some buf' ∧ buf'.length ≤ st.op.conf.maxMsg ∧ buf' = buf ++ b) ∧
    (buf.length + b.length > st.op.conf.maxMsg → r.2.1 = true) := by
  unfold writeDown
  simp only [hb]
  by_cases hbig : buf.length + b.length > st.op.conf.maxMsg
  · simp [hbig]
  · simp only [hbig, if_false]
    refine ⟨fun _ => ⟨buf ++ b, rfl, by simp; omega, rfl⟩, fun h => absurd h (by simpa using hbig)⟩

/-- Boundary: a message of exactly `L` bytes passes the re-encoded-size check, `L + 1` does not. -/
example (o : Op) (wasCompressed : Bool) (out : Bytes) (h : out.length = o.conf.maxMsg) :
    ∃ env, requestEnvelope o out wasCompressed = .ok env :=
  (reencoded_size_checked o out wasCompressed).2 (by omega)

/-- **A buffered request body is bounded**: whatever the segmentation, reading a whole body under the
    limit succeeds only with at most `limit` bytes, and then returns exactly the body. -/
theorem unenveloped_body_bounded (w : World) (limit fuel : Nat) (st : St) (hf : st.src.data.length + 1 < fuel)
    (hok : (copyAllLimited w false limit fuel st 0 []).2.1 = none) :
    (copyAllLimited w false limit fuel st 0 []).1 = st.src.data ∧ st.src.data.length ≤ limit := by
  have h := copyAllLimited_spec w limit fuel st 0 [] hf (Nat.zero_le _)
  simp only [Nat.zero_add, List.nil_append] at h
  have hle : st.src.data.length ≤ limit := by
    rw [h.1] at hok
    unfold copySpecErr at hok
    split at hok
    · cases hok
    · omega
  exact ⟨h.2 hle, hle⟩

/-- **The boundary is exact**: a body of `limit + 1` bytes is `resource_exhausted`, a body of
    `limit` bytes that ends cleanly is accepted - for every segmentation of the body. -/
theorem unenveloped_body_boundary (w : World) (limit fuel : Nat) (st : St) (hf : st.src.data.length + 1 < fuel) :
    (st.src.data.length = limit + 1 → (copyAllLimited w false limit fuel st 0 []).2.1 = some (.rpc 8)) ∧
    (st.src.data.length = limit → st.src.ending ≠ .unexpected → (copyAllLimited w false limit fuel st 0 []).2.1 = none) := by
  have h := copyAllLimited_spec w limit fuel st 0 [] hf (Nat.zero_le _)
  simp only [Nat.zero_add] at h
  constructor
  · intro hl; rw [h.1]; unfold copySpecErr; rw [if_pos (by omega)]
  · intro hl he
    rw [h.1]; unfold copySpecErr
    rw [if_neg (by omega)]
    cases hend : st.src.ending <;> simp_all

/-- The one message of a client without envelopes, as `readRequestMessage` returns it, has at most
    `L` bytes (when the request declares no length; a declared length above `L` is refused up front). -/
theorem unenveloped_message_bounded (w : World) (st : St) (data : Bytes) (c : Bool)
    (hce : st.op.clientEnveloper = none) (hcl : st.op.contentLen = -1)
    (hok : (readRequestMessage w st false).1 = .ok (data, c)) : data.length ≤ st.op.conf.maxMsg := by
  unfold readRequestMessage at hok
  simp only [hce, hcl] at hok
  have hcond : ((-1 : Int) != -1 && decide ((-1 : Int) > (st.op.conf.maxMsg : Int))) = false := by simp
  simp only [hcond, Bool.false_eq_true, if_false, beq_self_eq_true, if_true] at hok
  have hsp := unenveloped_body_bounded w st.op.conf.maxMsg st.src.fuel st (by have := Source.fuel_ge st.src; omega)
  generalize copyAllLimited w false st.op.conf.maxMsg st.src.fuel st 0 [] = r at hok hsp
  obtain ⟨d, e, s1, p⟩ := r
  simp only at hok hsp
  cases e with
  | some err => simp at hok
  | none =>
    obtain ⟨hd, hl⟩ := hsp rfl
    simp only at hok
    split at hok
    · simp at hok
    · simp only [Except.ok.injEq, Prod.mk.injEq] at hok
      rw [← hok.1, hd]; exact hl

/-- **Tie to the source**: the limit `envelopingReader.prepareNext` hands to the reader through which it
    buffers a body of undeclared length is, in the repository's source as read on this run, the one of
    the model (`maxMsgBufferBytes + 0`; the pinned tree had `+ 1`). -/
theorem source_buffered_body_limit_is_model (m : Nat) : bufferedBodyLimit m = m + Gen.bufferedBodyLimitExtra := rfl

end Vanguard.C10
