import Vanguard.Lemmas.Headers
import Vanguard.Lemmas.TargetHeaders
import Vanguard.Lemmas.TimeoutHeader
import Vanguard.Model.Run
import Vanguard.Lemmas.ReframeStream
import Vanguard.Lemmas.WellFramed
/-!
  C02 — Backend sees only valid requests in a protocol, codec and compression it accepts.

  `negotiate` is the model of the negotiation block of `operation.validate`.  Proved for every method
  configuration, client form, codec and compression: the target protocol is one the service accepts,
  the target codec is one of its codecs, the target request compression is one of its compressions
  or none; and whatever of the client's triple is acceptable is kept rather than converted.
  Also proved, for every request that is converted (`transcodeRun`, any client, script and body): the
  backend request's **Content-Type is exactly the one the negotiated protocol and codec prescribe**
  (one value, whatever the client sent: `backend_content_type`), and a negotiated request compression
  is announced in the target protocol's own header with exactly its name (`backend_encoding_header`);
  no control header of the client's own protocol is left in the headers handed on (`no_leftover_control_headers`).
  The rest of the well-formedness of what the handler then receives (request line, content-type, control
  headers, envelopes with legal flags and exact lengths, compressed flag only under a declared
  compression, no contradicting left-over control header) is `oracleC02`, evaluated on every
  implementation observation, next to the field-by-field comparison with the model (`bm bp bq bh br`).
-/
namespace Vanguard.C02
open Vanguard

theorem serverForm_proto (p : Proto) (st : StreamType) : (p.serverForm st).proto = p := by
  cases p <;> cases st <;> rfl

private theorem all_protos (p : Proto) : p ∈ allProtocols := by cases p <;> simp [allProtocols]

/-- The target protocol is one the service is configured with. -/
theorem target_protocol_accepted (m : MethodConf) (c : ClientForm) (codec comp : Bytes) (n : Negotiated)
    (hne : m.protocols ≠ []) (h : negotiate m c codec comp = some n) : n.sform.proto ∈ m.protocols := by
  unfold negotiate at h
  simp only at h
  split at h
  · simp at h
  · simp only [Option.some.injEq] at h
    subst h
    simp only [serverForm_proto]
    unfold pickProto
    split
    · rename_i hc; simpa using hc
    · cases hf : allProtocols.find? (fun p => m.protocols.contains p) with
      | some p => have := List.find?_some hf; simpa using this
      | none =>
        exfalso
        rw [List.find?_eq_none] at hf
        cases hp : m.protocols with
        | nil => exact hne hp
        | cons p _ => have := hf p (all_protos p); simp [hp] at this

/-- The target codec is one of the service's codecs. -/
theorem target_codec_accepted (m : MethodConf) (c : ClientForm) (codec comp : Bytes) (n : Negotiated)
    (hne : m.codecs ≠ []) (h : negotiate m c codec comp = some n) : n.scodec ∈ m.codecs := by
  unfold negotiate at h
  simp only at h
  split at h
  · simp at h
  · simp only [Option.some.injEq] at h
    subst h
    simp only
    split
    · rename_i hc; simpa using hc
    · cases hcs : m.codecs with
      | nil => exact absurd hcs hne
      | cons x _ => simp

/-- The target request compression is one of the service's compressions (or none). -/
theorem target_compression_accepted (m : MethodConf) (c : ClientForm) (codec comp z : Bytes) (n : Negotiated)
    (h : negotiate m c codec comp = some n) (hz : n.sReqComp = some z) : z ∈ m.compressors := by
  unfold negotiate at h
  simp only at h
  split at h
  · simp at h
  · simp only [Option.some.injEq] at h
    subst h
    simp only at hz
    split at hz
    · rename_i hc
      simp only [Option.some.injEq] at hz
      subst hz
      simp only [Bool.and_eq_true] at hc
      simpa using hc.2
    · simp at hz

/-- **Kept rather than converted.** An acceptable client protocol, codec and compression are each
    kept for the target leg. -/
theorem acceptable_is_kept (m : MethodConf) (c : ClientForm) (codec comp : Bytes) (n : Negotiated)
    (h : negotiate m c codec comp = some n) :
    (c.proto ∈ m.protocols → n.sform.proto = c.proto) ∧
    (codec ∈ m.codecs → n.scodec = codec) ∧
    (comp ≠ [] → comp ∈ m.compressors → n.sReqComp = some comp) ∧
    (comp = [] → n.sReqComp = none) := by
  unfold negotiate at h
  simp only at h
  split at h
  · simp at h
  · simp only [Option.some.injEq] at h
    subst h
    refine ⟨fun hp => ?_, fun hc => ?_, fun hne hc => ?_, fun he => ?_⟩
    · simp only [serverForm_proto]; unfold pickProto; simp [hp]
    · simp [hc]
    · have : comp.isEmpty = false := by cases comp <;> simp_all
      simp [this, hc]
    · simp [he]

/-- If validation succeeds, the target leg never is a REST leg without binding (it would be 404). -/
theorem no_unbound_rest_target (m : MethodConf) (c : ClientForm) (codec comp : Bytes) (n : Negotiated)
    (h : negotiate m c codec comp = some n) : n.sform.proto ≠ .rest := by
  unfold negotiate at h
  simp only at h
  split at h
  · simp at h
  · rename_i hr
    simp only [Option.some.injEq] at h
    subst h
    simp only [serverForm_proto]
    simpa using hr

/-- **Content type of the backend request.** -/
theorem backend_content_type (w : World) (sc : Scenario) (o : Op) (pl : HandlePlan) (st : St)
    (first : Option (Bytes × Bool)) (ct : Bytes) (h : o.sform.contentType o.scodec = some ct) :
    (transcodeRun w sc o pl st first).backend.headers.values (s "Content-Type") = [ct] := by
  unfold transcodeRun
  simp only
  exact target_content_type o.sform _ o.headers ct h

/-- **Declared compression of the backend request.** -/
theorem backend_encoding_header (w : World) (sc : Scenario) (o : Op) (pl : HandlePlan) (st : St)
    (first : Option (Bytes × Bool)) (k z : Bytes) (hk : o.sform.encodingHeader = some k)
    (hz : o.sReqComp = some z) (hne : z.isEmpty = false) :
    (transcodeRun w sc o pl st first).backend.headers.values k = [z] := by
  unfold transcodeRun
  simp only
  have := target_encoding_header o.sform
    { o.reqMeta with codec := o.scodec, compression := o.sReqComp.getD [],
                     acceptCompression := intersection w.knownCompression o.reqMeta.acceptCompression } o.headers k hk
    (by simp [hz, hne])
  simpa [hz] using this

/-- **The fixed markers of the target protocol**: the request handed to a gRPC backend says `Te: trailers`, the one
    handed to a unary Connect backend `Connect-Protocol-Version: 1` - exactly once, whatever the client sent under
    these names. -/
theorem backend_protocol_markers (w : World) (sc : Scenario) (o : Op) (pl : HandlePlan) (st : St)
    (first : Option (Bytes × Bool)) :
    (o.sform = .grpc → (transcodeRun w sc o pl st first).backend.headers.values (s "Te") = [s "trailers"]) ∧
    (o.sform = .connectUnary →
      (transcodeRun w sc o pl st first).backend.headers.values (s "Connect-Protocol-Version") = [s "1"]) := by
  unfold transcodeRun
  simp only
  exact target_protocol_markers o.sform _ o.headers

/-- **No left-over control header**: after validation the headers handed on contain no control header
    of the client's own protocol and no `Content-Encoding` / `Accept-Encoding` / `Content-Length`, so the
    target protocol's headers added afterwards cannot be contradicted by them. -/
theorem no_leftover_control_headers (w : World) (t : TConf) (r : Req) (o : Op) (hv : validate w t r = .ok o) :
    (∀ k ∈ o.cform.ownControlNames, o.headers.has k = false) ∧
    o.headers.has (s "Content-Encoding") = false ∧ o.headers.has (s "Accept-Encoding") = false ∧
    o.headers.has (s "Content-Length") = false :=
  validate_removes_own_controls w t r o hv

/-- Non-vacuity: the content types and encoding headers of the four RPC target forms. -/
example : ServerForm.grpcWeb.contentType (s "proto") = some (s "application/grpc-web+" ++ s "proto") := rfl
example : ServerForm.connectUnary.encodingHeader = some (s "Content-Encoding") := rfl

/-- The four length bytes of an envelope decode to the length that was encoded (below 2^32). -/
theorem fromBe32_be32 (n : Nat) (h : n < 4294967296) :
    ∀ a b c d, be32 n = [a, b, c, d] → fromBe32 a b c d = n := by
  intro a b c d hb
  unfold be32 at hb
  simp only [List.cons.injEq, and_true] at hb
  obtain ⟨h1, h2, h3, h4⟩ := hb
  subst h1 h2 h3 h4
  unfold fromBe32
  simp only [UInt8.toNat_ofNat']
  omega

/-- **The envelopes the backend reads describe the bytes that follow them** (re-framing path): for every
    legal client frame the envelope written for the backend (`reframedAll` in C01 is the concatenation of
    these envelopes and the payloads) carries exactly the compressed bit of the client's frame as its flag
    byte and the payload's length as its length field. -/
theorem backend_envelopes_describe_their_payloads (ce se : Enveloper) (x : Frame) (maxMsg : Nat) (hok : x.ok ce maxMsg)
    (hlt : x.payload.length < 4294967296) :
    ∃ env a b c d, ce.decode x.f x.a x.b x.c x.d = some env ∧
      se.encode env = [if env.compressed then 1 else 0, a, b, c, d] ∧ fromBe32 a b c d = x.payload.length := by
  obtain ⟨env, hdec, hnt, hlen, _⟩ := hok
  refine ⟨env, UInt8.ofNat (env.length / 16777216 % 256), UInt8.ofNat (env.length / 65536 % 256), UInt8.ofNat (env.length / 256 % 256), UInt8.ofNat (env.length % 256), hdec, ?_, ?_⟩
  · unfold Enveloper.encode Enveloper.encodeFlags be32
    cases se <;> simp [hnt]
  · rw [← hlen]
    exact fromBe32_be32 env.length (by omega) _ _ _ _ rfl

/-! ### the body the backend reads is well framed

  `WellFramed` (`Lemmas/WellFramed.lean`): a sequence of five-byte envelopes - flag byte 0 or 1, big-endian
  length - each followed by exactly as many payload bytes as it announces. -/

/-- **Re-encoding path**: for a well-formed request body (legal client frames, every message convertible)
    a backend with envelopes reads, whatever its buffer sizes, a well-framed stream and then `io.EOF`. -/
theorem backend_body_is_well_framed (w : World) (pl : HandlePlan) (ce se : Enveloper) (fs : List Frame)
    (st : St) (ns : List Nat) (out o : Bytes) (e : Err)
    (hprep : pl.clientReqNeedsPrep = false) (hce : st.op.clientEnveloper = some ce) (hse : st.op.serverEnveloper = some se)
    (hok : ∀ x ∈ fs, x.ok ce st.op.conf.maxMsg) (hd : st.src.data = framesBytes fs)
    (he : st.src.ending ≠ .unexpected) (hconv : convertedAll w pl st ce fs = some out)
    (hmax : st.op.conf.maxMsg < 4294967296) (hreads : Reads w pl st {} ns o e) : WellFramed o ∧ e = .eof := by
  have hs := clean_stream w pl ce hprep fs st false out hce hok hd he hconv
  have hr := hreads.stream ⟨by decide, fun h => by simp at h⟩ rfl
  obtain ⟨h1, h2⟩ := hr.det hs
  exact ⟨h1 ▸ convertedAll_wellFramed w pl st ce se hse hmax fs out hconv, h2⟩

/-- **Re-framing path**: the same for a backend that is handed the client's payloads under its own envelopes. -/
theorem backend_body_is_well_framed_reframed (w : World) (ce se : Enveloper) (st : St) (fs : List Frame)
    (ns : List Nat) (o : Bytes) (e : Err)
    (hce : st.op.clientEnveloper = some ce) (hse : st.op.serverEnveloper = some se)
    (hok : ∀ x ∈ fs, x.ok ce st.op.conf.maxMsg) (hd : st.src.data = framesBytes fs) (he : st.src.ending ≠ .unexpected)
    (hmax : st.op.conf.maxMsg < 4294967296) (hreads : EReads w st {} ns o e) : WellFramed o ∧ e = .eof := by
  obtain ⟨h1, h2⟩ := reframed_clean_stream w ce se st fs ns o e hce hse hok hd he hreads
  exact ⟨h1 ▸ reframedAll_wellFramed ce se _ hmax fs hok, h2⟩

end Vanguard.C02
