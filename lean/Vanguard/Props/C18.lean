import Vanguard.Lemmas.Serve
import Vanguard.Gen.Facts
/-!
  C18 — At most one backend dispatch per request, none if rejected; context released.

  `serve` records which handler (if any) was invoked.  Proved: a request that `validate` rejects with
  an HTTP error is never dispatched (for every configuration, request and backend script); an
  unknown endpoint is dispatched to the unknown-endpoint handler only, and only if one is configured.
  Also proved: a request whose backend request cannot be built (undecodable leading message for a
  Connect GET target) reaches no handler and leaves the backend record empty
  (`setup_error_no_dispatch`, `undecodable_leading_message_no_dispatch`); exactly when a service
  handler runs (`svc_dispatch_iff`) and exactly when the unknown-endpoint handler runs
  (`unknown_dispatch_iff`).
  "At most one" is structural in the model (one `dispatch` per observation) and is *measured* on the
  implementation by the harness (call counter of the scripted handlers, `disp=MULTIPLE`); context
  cancellation after return (`ctx=1`) and absence of post-return I/O are observed by the harness.
-/
namespace Vanguard.C18
open Vanguard

/-- A request rejected during validation (unclassifiable content-type, wrong HTTP method or
    version, unsupported codec or compression, malformed timeout, stream type not supported by the
    client protocol) reaches no handler. -/
theorem rejected_no_dispatch (w : World) (sc : Scenario) (code : Nat) (allow : Option Bytes)
    (h : validate w sc.conf sc.req = .error (.status code allow)) : (serve w sc).dispatch = .none := by
  unfold serve; simp [h]

/-- An unknown endpoint goes to the unknown-endpoint handler when one is configured and to no
    handler otherwise; never to a service handler. -/
theorem unknown_endpoint_dispatch (w : World) (sc : Scenario)
    (h : validate w sc.conf sc.req = .error .notFound) :
    (serve w sc).dispatch = if sc.conf.unknownHandler then .unknown else .none := by
  unfold serve
  simp only [h]
  by_cases hu : sc.conf.unknownHandler = true
  · simp [hu, forwardObs]
  · simp [hu]

/-- A service handler is invoked only for a request that passed validation. -/
theorem svc_dispatch_only_if_valid (w : World) (sc : Scenario) (h : (serve w sc).dispatch = .svc) :
    ∃ o, validate w sc.conf sc.req = .ok o := by
  cases hv : validate w sc.conf sc.req with
  | ok o => exact ⟨o, rfl⟩
  | error e =>
    cases e with
    | status c a => rw [rejected_no_dispatch w sc c a hv] at h; cases h
    | notFound => rw [unknown_endpoint_dispatch w sc hv] at h; split at h <;> cases h

/-- A rejected request leaves the backend untouched: no handler is invoked, nothing is read from or
    written by a handler (the backend record stays empty), whatever the backend would have done. -/
theorem rejected_backend_untouched (w : World) (sc : Scenario) (code : Nat) (allow : Option Bytes)
    (h : validate w sc.conf sc.req = .error (.status code allow)) :
    (serve w sc).dispatch = .none ∧ (serve w sc).backend = {} := by
  unfold serve; simp [h]

/-- **Setup errors**: when the backend's request cannot be built - a Connect GET target needs the
    leading message, and that message cannot be read or decoded - the RPC ends with the error
    response and no handler is invoked. -/
theorem setup_error_no_dispatch (w : World) (sc : Scenario) (o : Op) (x : Sink × Bool)
    (hv : validate w sc.conf sc.req = .ok o) (hp : o.passThrough = false)
    (hpre : transcodePre w o (o.plan w) { op := o, src := sc.src, sink := {} } = .error x) :
    (serve w sc).dispatch = .none ∧ (serve w sc).backend = {} ∧ (serve w sc).sink = x.1 := by
  unfold serve
  simp only [hv, hp, Bool.false_eq_true, if_false]
  unfold serveTranscode
  simp [hpre]

/-- An undecodable leading message is such a setup error. -/
theorem undecodable_leading_message_no_dispatch (w : World) (sc : Scenario) (o : Op) (data : Bytes) (c : Bool) (e : Err)
    (hv : validate w sc.conf sc.req = .ok o) (hp : o.passThrough = false) (hg : (o.plan w).useGet = true)
    (hr : (readRequestMessage w { op := o, src := sc.src, sink := {} } false).1 = .ok (data, c))
    (hd : decodeRequest w o (o.plan w) data c = .error e) :
    (serve w sc).dispatch = .none := by
  have : ∃ x, transcodePre w o (o.plan w) { op := o, src := sc.src, sink := {} } = .error x := by
    unfold transcodePre
    simp only [hg, if_true, hr, hd]
    exact ⟨_, rfl⟩
  obtain ⟨x, hx⟩ := this
  exact (setup_error_no_dispatch w sc o x hv hp hx).1

/-- **Exactly when a service handler runs**: the request passed validation and either needs no
    conversion or its backend request could be built. -/
theorem svc_dispatch_iff (w : World) (sc : Scenario) :
    (serve w sc).dispatch = .svc ↔
      ∃ o, validate w sc.conf sc.req = .ok o ∧
        (o.passThrough = true ∨ ∃ y, transcodePre w o (o.plan w) { op := o, src := sc.src, sink := {} } = .ok y) := by
  constructor
  · intro h
    obtain ⟨o, hv⟩ := svc_dispatch_only_if_valid w sc h
    refine ⟨o, hv, ?_⟩
    by_cases hp : o.passThrough = true
    · exact Or.inl hp
    · right
      have hp' : o.passThrough = false := by simpa using hp
      cases hpre : transcodePre w o (o.plan w) { op := o, src := sc.src, sink := {} } with
      | ok y => exact ⟨y, rfl⟩
      | error x =>
        rw [(setup_error_no_dispatch w sc o x hv hp' hpre).1] at h; cases h
  · rintro ⟨o, hv, hor⟩
    unfold serve
    simp only [hv]
    by_cases hp : o.passThrough = true
    · simp only [hp, if_true]
      split <;> simp [forwardObs]
    · have hp' : o.passThrough = false := by simpa using hp
      rcases hor with h1 | ⟨y, hy⟩
      · exact absurd h1 hp
      · simp only [hp', Bool.false_eq_true, if_false]
        unfold serveTranscode
        simp only [hy]
        unfold transcodeRun
        simp only

/-- The handler that runs is the only one: the observation has a single dispatch, which is the
    unknown-endpoint handler exactly for unmatched paths with such a handler configured. -/
theorem unknown_dispatch_iff (w : World) (sc : Scenario) :
    (serve w sc).dispatch = .unknown ↔ validate w sc.conf sc.req = .error .notFound ∧ sc.conf.unknownHandler = true := by
  constructor
  · intro h
    cases hv : validate w sc.conf sc.req with
    | ok o =>
      have : (serve w sc).dispatch = .svc ∨ (serve w sc).dispatch = .none := by
        by_cases hs : (serve w sc).dispatch = .svc
        · exact Or.inl hs
        · right
          by_cases hp : o.passThrough = true
          · exfalso; exact hs ((svc_dispatch_iff w sc).2 ⟨o, hv, Or.inl hp⟩)
          · have hp' : o.passThrough = false := by simpa using hp
            cases hpre : transcodePre w o (o.plan w) { op := o, src := sc.src, sink := {} } with
            | ok y => exfalso; exact hs ((svc_dispatch_iff w sc).2 ⟨o, hv, Or.inr ⟨y, hpre⟩⟩)
            | error x => exact (setup_error_no_dispatch w sc o x hv hp' hpre).1
      rcases this with h1 | h1 <;> rw [h1] at h <;> cases h
    | error e =>
      cases e with
      | status c a => rw [rejected_no_dispatch w sc c a hv] at h; cases h
      | notFound =>
        rw [unknown_endpoint_dispatch w sc hv] at h
        by_cases hu : sc.conf.unknownHandler = true
        · exact ⟨rfl, hu⟩
        · simp [hu] at h
  · rintro ⟨hv, hu⟩
    rw [unknown_endpoint_dispatch w sc hv]; simp [hu]

/-! ### source tie: `classifyRequest`

  `Gen.classifyRequestSrc` is **translated from `classifyRequest` (transcoder.go) on every run**, statement by
  statement (header look-ups, `len` tests, the tagless `switch` with its `fallthrough`, every `return`), over the
  request's method, header values and first query values; the handler types it returns become the constructors of
  `Gen.ClientHandlerSrc`.  The theorem says that the model's classification *is* that function, for every request:
  a reordered case, a changed content-type prefix, a dropped `Connect-Protocol-Version` test or a new handler type
  breaks it. -/

/-- The client wire form each client protocol handler of the source stands for. -/
def formOfHandler : Gen.ClientHandlerSrc → ClientForm
  | .connectUnaryGetClientProtocol => .connectGet
  | .connectUnaryPostClientProtocol => .connectPost
  | .connectStreamClientProtocol => .connectStream
  | .grpcClientProtocol => .grpc
  | .grpcWebClientProtocol => .grpcWeb
  | .restClientProtocol => .rest

theorem source_classify_is_model (r : Req) :
    classifyRequest r = (Gen.classifyRequestSrc s hasPrefix r.method r.headers.values r.query.get).map formOfHandler := by
  have h1 : s "1" = [0x31] := by decide +kernel
  unfold classifyRequest Gen.classifyRequestSrc
  simp only []
  rcases hc : r.headers.values (s "Content-Type") with _ | ⟨ct, _ | ⟨ct2, rest⟩⟩
  · rcases hv : r.headers.values (s "Connect-Protocol-Version") with _ | ⟨v, _ | ⟨v2, vr⟩⟩ <;>
      simp [h1, sGET] <;> (repeat' split) <;> simp_all [formOfHandler]
  · rcases hv : r.headers.values (s "Connect-Protocol-Version") with _ | ⟨v, _ | ⟨v2, vr⟩⟩ <;>
      simp [h1, sGET] <;> (repeat' split) <;> simp_all [formOfHandler]
  · simp

/-- **A request the source's `classifyRequest` cannot classify reaches no handler** (it is answered 415), for
    every configuration and backend script. -/
theorem unclassifiable_request_no_dispatch (w : World) (sc : Scenario)
    (h : Gen.classifyRequestSrc s hasPrefix sc.req.method sc.req.headers.values sc.req.query.get = none) :
    (serve w sc).dispatch = .none := by
  apply rejected_no_dispatch w sc 415 none
  have hm := source_classify_is_model sc.req
  rw [h] at hm
  unfold validate
  rw [hm]; rfl

/-- Non-vacuity: two `Content-Type` values cannot be classified; `application/grpc+proto` is gRPC. -/
example : Gen.classifyRequestSrc s hasPrefix sPOST (fun k => if k == s "Content-Type" then [s "a/b", s "a/c"] else []) (fun _ => []) = none := by
  decide +kernel
example : Gen.classifyRequestSrc s hasPrefix sPOST (fun k => if k == s "Content-Type" then [s "application/grpc+proto"] else []) (fun _ => [])
    = some .grpcClientProtocol := by decide +kernel

/-! ### source tie: the small methods of the client protocol handlers

  `Gen.clientProtocolSrc`, `Gen.endMustBeInHeadersSrc` and `Gen.acceptsStreamTypeSrc` are translated on every run from
  the bodies of `protocol()`, `endMustBeInHeaders()` (an optional interface: a handler without the method answers
  false) and `acceptsStreamType()` of every handler type `classifyRequest` can return. -/

def streamOfSrc : Gen.StreamTypeSrc → StreamType
  | .Unary => .unary | .Client => .client | .Server => .server | .Bidi => .bidi

/-- The name of the `Protocol` constant (after the prefix `Protocol`). -/
def protoName : Proto → String
  | .connect => "Connect" | .grpc => "GRPC" | .grpcWeb => "GRPCWeb" | .rest => "REST"

/-- For every handler and stream type: the model's protocol, its answer to "must the end be in the head" (which
    decides whether the response is buffered: C16, C04) and the stream types it accepts (a rejection class of
    C18: 415) are the source's.  The two REST predicates over `google.api.HttpBody` methods are false in the
    modelled schema, which has no such method. -/
theorem source_handler_methods_are_model (h : Gen.ClientHandlerSrc) (st : Gen.StreamTypeSrc) :
    protoName (formOfHandler h).proto = Gen.clientProtocolSrc h ∧
    protoName (formOfHandler h).proto ∈ Gen.protocols ∧
    (formOfHandler h).endMustBeInHeaders = Gen.endMustBeInHeadersSrc h ∧
    (formOfHandler h).acceptsStreamType (streamOfSrc st) = Gen.acceptsStreamTypeSrc false false h st := by
  cases h <;> cases st <;> decide


/-! ### a rejection class stated outright: gRPC needs HTTP/2 -/

/-- **A gRPC request that did not arrive over HTTP/2 is never validated** - whatever the method, the service's
    target protocols and the headers - and therefore reaches no service handler. -/
theorem grpc_needs_http2 (w : World) (t : TConf) (r : Req) (c : ClientForm) (hc : classifyRequest r = some c)
    (hp : c.proto = .grpc) (hv : r.protoMajor ≠ 2) : ∀ o, validate w t r ≠ .ok o := by
  intro o h
  unfold validate at h
  simp only [hc] at h
  split at h
  · simp at h
  · split at h
    · simp at h
    · split at h
      · simp at h
      · split at h
        · simp at h
        · have hg : (c.proto == Proto.grpc && r.protoMajor != 2) = true := by simp [hp, hv]
          simp [hg] at h

theorem grpc_over_http1_no_service_dispatch (w : World) (sc : Scenario) (c : ClientForm)
    (hc : classifyRequest sc.req = some c) (hp : c.proto = .grpc) (hv : sc.req.protoMajor ≠ 2) :
    (serve w sc).dispatch ≠ .svc := by
  intro h
  obtain ⟨o, ho, _⟩ := (svc_dispatch_iff w sc).1 h
  exact grpc_needs_http2 w sc.conf sc.req c hc hp hv o ho


/-- **A bidirectional method needs HTTP/2**: a request for one that arrived over HTTP/1 is never validated. -/
theorem bidi_needs_http2 (w : World) (t : TConf) (r : Req) (c : ClientForm) (m : MethodConf)
    (hc : classifyRequest r = some c) (hm : resolveMethod t c r = .ok m) (hb : m.streamType = .bidi)
    (hv : r.protoMajor < 2) : ∀ o, validate w t r ≠ .ok o := by
  intro o h
  unfold validate at h
  simp only [hc, hm] at h
  split at h
  · simp at h
  · split at h
    · simp at h
    · have hg : (m.streamType == StreamType.bidi && decide (r.protoMajor < 2)) = true := by simp [hb, hv]
      simp [hg] at h

/-- **A stream type the client's protocol cannot carry is rejected** (a streaming method called with a unary
    Connect request, a unary one with a Connect streaming request): never validated. -/
theorem unacceptable_stream_type_rejected (w : World) (t : TConf) (r : Req) (c : ClientForm) (m : MethodConf)
    (hc : classifyRequest r = some c) (hm : resolveMethod t c r = .ok m)
    (hs : c.acceptsStreamType m.streamType = false) : ∀ o, validate w t r ≠ .ok o := by
  intro o h
  unfold validate at h
  simp only [hc, hm] at h
  split at h
  · simp at h
  · simp [hs] at h


/-- **A request in a codec the transcoder does not know is never validated** (unsupported codec: 415, no dispatch):
    every validated operation has a known client codec. -/
theorem validated_codec_known (w : World) (t : TConf) (r : Req) (o : Op) (hv : validate w t r = .ok o) :
    w.knownCodec o.ccodec = true := by
  unfold validate at hv
  split at hv
  · simp at hv
  · split at hv
    · simp at hv
    · split at hv
      · simp at hv
      · split at hv
        · simp at hv
        · split at hv
          · simp at hv
          · split at hv
            · simp at hv
            · split at hv
              · simp at hv
              · rename_i rm h' hex
                simp only at hv
                repeat' split at hv
                all_goals first
                  | (simp at hv; done)
                  | (simp only [Except.ok.injEq] at hv
                     rw [← hv]
                     simp_all)


theorem resolveMethod_mem (t : TConf) (c : ClientForm) (r : Req) (m : MethodConf)
    (h : resolveMethod t c r = .ok m) : m ∈ t.methods ∧ m.path = r.path := by
  unfold resolveMethod at h
  split at h
  · simp at h
  · rename_i m' hf
    have hm : m' ∈ t.methods ∧ m'.path = r.path := by
      refine ⟨List.mem_of_find?_eq_some hf, ?_⟩
      have := List.find?_some hf
      simpa using this
    simp only at h
    repeat' split at h
    all_goals first
      | (simp at h; done)
      | (simp only [Except.ok.injEq] at h; rw [← h]; exact hm)

/-- **Only a configured method is ever served**: the method of a validated operation is one of the transcoder's
    methods, and it is the one the request path names (RPC-style paths `/<service>/<method>` resolve to exactly
    that method; an unknown method is never validated). -/
theorem validated_method_is_configured (w : World) (t : TConf) (r : Req) (o : Op) (hv : validate w t r = .ok o) :
    o.conf ∈ t.methods ∧ o.conf.path = r.path := by
  unfold validate at hv
  split at hv
  · simp at hv
  · rename_i c _
    split at hv
    · simp at hv
    · split at hv
      · simp at hv
      · rename_i m hm
        have hmem := resolveMethod_mem t _ r m hm
        split at hv
        · simp at hv
        · split at hv
          · simp at hv
          · split at hv
            · simp at hv
            · split at hv
              · simp at hv
              · simp only at hv
                repeat' split at hv
                all_goals first
                  | (simp at hv; done)
                  | (simp only [Except.ok.injEq] at hv
                     rw [← hv]
                     exact hmem)


/-- **A request in a compression the transcoder does not know is never validated**: the request compression of
    every validated operation is either none (`identity` or absent) or a registered one. -/
theorem validated_compression_known (w : World) (t : TConf) (r : Req) (o : Op) (hv : validate w t r = .ok o) :
    o.reqMeta.compression.isEmpty = true ∨ o.reqMeta.compression = identityName ∨
      w.knownCompression o.reqMeta.compression = true := by
  unfold validate at hv
  split at hv
  · simp at hv
  · split at hv
    · simp at hv
    · split at hv
      · simp at hv
      · split at hv
        · simp at hv
        · split at hv
          · simp at hv
          · split at hv
            · simp at hv
            · split at hv
              · simp at hv
              · rename_i rm h' hex
                simp only at hv
                repeat' split at hv
                all_goals first
                  | (simp at hv; done)
                  | (simp only [Except.ok.injEq] at hv
                     rw [← hv]
                     by_cases he : rm.compression = [] <;> simp_all)

end Vanguard.C18
