import Vanguard.Lemmas.Serve
/-!
  C18 — At most one backend dispatch per request, none if rejected; context released.

  `serve` records which handler (if any) was invoked.  Proved: a request that `validate` rejects with
  an HTTP error is never dispatched (for every configuration, request and backend script); an
  unknown endpoint is dispatched to the unknown-endpoint handler only, and only if one is configured.
  "At most one" is structural in the model (one `dispatch` per observation) and is *measured* on the
  implementation by the harness (call counter of the scripted handlers, `disp=MULTIPLE`); context
  cancellation after return (`ctx=1`) and absence of post-return I/O are observed by the harness.
-/
namespace Vanguard.C18
open Vanguard

/-- A request rejected during validation (unclassifiable content-type, wrong HTTP method or
    version, unsupported codec or compression, malformed timeout, stream type not supported by the
    client protocol) reaches no handler. -/
theorem rejected_no_dispatch (w : World) (sc : Scenario) (code : Nat) (allow : Option Bytes)
    (h : validate w sc.conf sc.req = .error (.status code allow)) : (serve w sc).dispatch = .none := by
  unfold serve; simp [h]

/-- An unknown endpoint goes to the unknown-endpoint handler when one is configured and to no
    handler otherwise; never to a service handler. -/
theorem unknown_endpoint_dispatch (w : World) (sc : Scenario)
    (h : validate w sc.conf sc.req = .error .notFound) :
    (serve w sc).dispatch = if sc.conf.unknownHandler then .unknown else .none := by
  unfold serve
  simp only [h]
  by_cases hu : sc.conf.unknownHandler = true
  · simp [hu, forwardObs]
  · simp [hu]

/-- A service handler is invoked only for a request that passed validation. -/
theorem svc_dispatch_only_if_valid (w : World) (sc : Scenario) (h : (serve w sc).dispatch = .svc) :
    ∃ o, validate w sc.conf sc.req = .ok o := by
  cases hv : validate w sc.conf sc.req with
  | ok o => exact ⟨o, rfl⟩
  | error e =>
    cases e with
    | status c a => rw [rejected_no_dispatch w sc c a hv] at h; cases h
    | notFound => rw [unknown_endpoint_dispatch w sc hv] at h; split at h <;> cases h

end Vanguard.C18
