import Vanguard.Lemmas.Outcome
import Vanguard.Lemmas.RespHeaders
import Vanguard.Lemmas.TargetHeaders
import Vanguard.Lemmas.WellFramed
import Vanguard.Lemmas.ReframeSplit
/-!
  C03 — Client gets a valid response in its own protocol with exactly one outcome.

  Proved here, for the model of `Transcoder.ServeHTTP` (`serve`), every world (codecs, compressors),
  configuration, request, client body (any chunking, any end) and backend handler script (any sequence
  of reads, header changes, `WriteHeader`, `Write`, `Flush`, `Close`; well-formed or not):

  * **at most one end** (`at_most_one_end`): what the client receives contains at most one terminal
    disposition - end-of-stream frames and error bodies in the body, a gRPC status in the headers
    and a gRPC status in the trailers are counted together (`Sink.endMarks`), so success and error
    are never both signalled and no second end follows the first;
  * **the end is last** (`end_is_last`): an end-of-stream frame or error body is the last item of
    the body, no message data follows it;
  * **nothing after the end** (`nothing_after_the_end`, `write_after_end_is_dropped`,
    `close_after_end_changes_nothing`): once the end is written, no handler action - more writes,
    reads that fail and report errors, header changes, closing - changes anything the client can
    observe (status, headers as sent, live headers/trailers, body items, recorded status);
  * **at least one end** (`completed_rpc_has_end`, `reported_error_ends`): when `ServeHTTP` returns
    without a panic the end has been written, and every reported error ends the RPC;
  * the invariant behind them (`Good`) holds initially and is kept by every step
    (`script_keeps_good`, `close_keeps_good`).
  The bookkeeping lemmas of the first version are kept (`end_reported_once`, ...).

  The validity of the rendered response in the client's protocol (content type, envelope framing,
  compression flags, Content-Length) is the oracle `oracleC03`, evaluated on every implementation
  observation, and the model's responses are compared with the implementation's byte for byte.
  **Well-formed envelopes** (`WellFramed`: five-byte envelopes with flag 0 or 1 and a big-endian length, each
  followed by exactly as many payload bytes) are proved for what a streaming client receives for a well-formed
  backend stream: on the re-framing path for every split of the backend's output across `Write` calls
  (`reframed_response_is_well_framed`), on the re-encoding path for the whole stream in one `Write`
  (`converted_response_is_well_framed`; pieces: C08).
  Partial: that the model's full response always satisfies `oracleC03` (content type, compression flags
  against bytes, Content-Length, malformed backend output) is not a theorem.
-/
namespace Vanguard.C03
open Vanguard

/-- Only the first reported end counts: exactly one terminal disposition. -/
theorem end_reported_once (w : World) (st : St) (e : RespEnd) (h : st.rw.endWritten = true) :
    reportEnd w st e = (st, false) := reportEnd_ended w st e h

/-- Errors after the end are ignored as well (cascading errors cannot add a second outcome). -/
theorem error_after_end_ignored (w : World) (st : St) (err : Err) (h : st.rw.endWritten = true) :
    (reportError w st err).1 = st := by
  unfold reportError
  split
  · split
    · rfl
    · rw [reportEnd_ended w st _ h]
  · rw [reportEnd_ended w st _ h]

/-- The response head is rendered once. -/
theorem head_flushed_once (w : World) (st : St) (h : st.rw.headersFlushed = true) :
    flushHeaders w st = (st, false) := flushHeaders_flushed w st h

/-- Writing the end marks the RPC as ended. -/
theorem write_end_marks_end (st : St) (e : RespEnd) (b : Bool) : (writeEnd st e b).rw.endWritten = true :=
  writeEnd_endWritten st e b

/-! ### exactly one outcome, for whole runs -/

/-- The invariant holds when a request starts. -/
theorem good_start (o : Op) (src : Source) : Good { op := o, src := src, sink := {} } := good_init o src

/-- Every handler script keeps the invariant. -/
theorem script_keeps_good (w : World) (tb : Tables) (pl : HandlePlan) (script : List BOp) (total0 : Nat) (f : Flight)
    (h : Good f.st) : Good (runScript w tb pl script total0 f).1.st :=
  (runScript_ev w tb pl script total0 f h).1

/-- Closing the response writer keeps the invariant. -/
theorem close_keeps_good (w : World) (tb : Tables) (st : St) (h : Good st) : Good (rwClose w tb st).1 :=
  (rwClose_ev w tb st h).1

/-- **Nothing after the end.** Once the end of the RPC is written, no handler script changes what
    the client observes. -/
theorem nothing_after_the_end (w : World) (tb : Tables) (pl : HandlePlan) (script : List BOp) (total0 : Nat) (f : Flight)
    (h : Good f.st) (he : f.st.rw.endWritten = true) :
    SameWire f.st.sink (runScript w tb pl script total0 f).1.st.sink :=
  ((runScript_ev w tb pl script total0 f h).2 he).1

/-- A `Write` after the end reaches nobody. -/
theorem write_after_end_is_dropped (w : World) (tb : Tables) (st : St) (data : Bytes)
    (h : Good st) (he : st.rw.endWritten = true) : SameWire st.sink (rwWrite w tb st data).1.sink :=
  ((rwWrite_ev w tb st data h).2 he).1

/-- Closing after the end adds nothing (no second end, no data). -/
theorem close_after_end_changes_nothing (w : World) (tb : Tables) (st : St)
    (h : Good st) (he : st.rw.endWritten = true) : SameWire st.sink (rwClose w tb st).1.sink :=
  ((rwClose_ev w tb st h).2 he).1

/-- **At most one end**, for every request, configuration, client body and backend behaviour. -/
theorem at_most_one_end (w : World) (sc : Scenario) : (serve w sc).sink.endMarks ≤ 1 := (serve_marks w sc).1

/-- **No message data follows the end**: an end-of-stream frame or error body, if the response has
    one, is the last item of the body. -/
theorem end_is_last (w : World) (sc : Scenario) : (serve w sc).sink.endLast := (serve_marks w sc).2

/-- **At least one end**: a `close` that returns has written the end. -/
theorem completed_rpc_has_end (w : World) (tb : Tables) (st : St) (h : (rwClose w tb st).2 = false) :
    (rwClose w tb st).1.rw.endWritten = true := rwClose_ends w tb st h

/-- Every reported error ends the RPC. -/
theorem reported_error_ends (w : World) (st : St) (err : Err) : (reportError w st err).1.rw.endWritten = true :=
  reportError_ends w st err

/-! ### well-formed envelopes -/

/-- **Re-framing path**: whatever the pieces in which a backend writes a sequence of legal frames, what is
    added to a streaming client's body is well framed in the client's dialect. -/
theorem reframed_response_is_well_framed (w : World) (tb : Tables) (se cc : Enveloper) (st : St) (fs : List Frame)
    (pieces : List Bytes) (hb : st.rw.buf = none) (hse : st.op.serverEnveloper = some se)
    (hcc : st.op.clientEnveloper = some cc) (hok : ∀ x ∈ fs, x.ok se st.op.conf.maxMsg)
    (hp : pieces.flatten = framesBytes fs) (hmax : st.op.conf.maxMsg < 4294967296) :
    ∃ st' e' out, ewWrites w tb st { initialized := true, writingEnvelope := true, remaining := 5 } pieces = (st', e', false, false) ∧
      rawBytes st'.sink.items = rawBytes st.sink.items ++ out ∧ WellFramed out := by
  obtain ⟨st', e', h1, h2⟩ := ewWrites_clean_stream w tb se cc st fs pieces hb hse hcc hok hp
  exact ⟨st', e', _, h1, h2, respReframedAll_wellFramed se cc _ hmax fs hok⟩

/-- **Re-encoding path**: a backend that writes a sequence of legal, convertible frames adds a well-framed
    sequence of messages to a streaming client's body. -/
theorem converted_response_is_well_framed (w : World) (tb : Tables) (se cc : Enveloper) (st : St) (fs : List Frame) (outs : Bytes)
    (hb : st.rw.buf = none) (hse : st.op.serverEnveloper = some se) (hcc : st.op.clientEnveloper = some cc)
    (hok : ∀ x ∈ fs, x.ok se st.op.conf.maxMsg) (hconv : respConvertedAll w st se cc fs = some outs)
    (hmax : st.op.conf.maxMsg < 4294967296) :
    rawBytes (twWrite w tb st {} (framesBytes fs)).1.sink.items = rawBytes st.sink.items ++ outs ∧ WellFramed outs :=
  ⟨(twWrite_clean_stream w tb se cc st fs outs hb hse hcc hok hconv).2.2.1,
   respConvertedAll_wellFramed w st se cc hmax fs outs hconv⟩

/-- `WellFramed` is not vacuous: a frame whose length field does not match its payload is rejected. -/
example : WellFramed [0, 0, 0, 0, 1, 7] := WellFramed.cons 0 0 0 0 1 [7] [] (Or.inl rfl) rfl WellFramed.nil
theorem wellFramed_inv {l : Bytes} (h : WellFramed l) :
    l = [] ∨ ∃ flag a b c d payload rest, l = flag :: a :: b :: c :: d :: (payload ++ rest) ∧
      fromBe32 a b c d = payload.length := by
  cases h with
  | nil => exact Or.inl rfl
  | cons flag a b c d payload rest hf hl hr => exact Or.inr ⟨flag, a, b, c, d, payload, rest, rfl, hl⟩
example : ¬ WellFramed [0, 0, 0, 0, 2, 7] := by
  intro h
  rcases wellFramed_inv h with h0 | ⟨flag, a, b, c, d, payload, rest, heq, hl⟩
  · cases h0
  · simp only [List.cons.injEq] at heq
    obtain ⟨_, ha, hb, hc, hd, htl⟩ := heq
    subst ha hb hc hd
    have h1 : (payload ++ rest).length = 1 := by rw [← htl]; rfl
    have h2 : payload.length = 2 := by rw [← hl]; rfl
    rw [List.length_append] at h1; omega

/-- The count is not vacuous: a body with two end-of-stream frames has two marks, a gRPC response
    with a status in the headers and another one in the trailers has two marks. -/
example : ({ items := [.raw [1], .endFrame 2 {}, .endFrame 2 {}] } : Sink).endMarks = 2 := by decide
example : ({ hdrEndSet := true, trailerEndSet := true } : Sink).endMarks = 2 := by decide
/-- `endLast` rejects data after an end frame. -/
example : ¬ ({ items := [.endFrame 2 {}, .raw [1]] } : Sink).endLast := by
  intro h; have := h (.endFrame 2 {}) (by simp); simp [Item.isEnd] at this
/-- ... and the invariant rejects a state that claims to be open while an end frame is out. -/
example (o : Op) (src : Source) : ¬ Good { op := o, src := src, sink := { items := [.endFrame 2 {}] } } := by
  intro h; have := h.opened rfl; simp [Sink.endMarks, Item.isEnd] at this


/-! ### a trailers-only gRPC response announces no second status -/

private theorem ctNeTrailer : canonKey (s "Content-Type") ≠ canonKey (s "Trailer") := by decide +kernel

/-- **A gRPC response whose end is in the head announces no trailers** (the behaviour fix 6052d8d restored): when
    the response metadata already carries the end, `addProtocolResponseHeaders` of the gRPC client leaves the
    `Trailer` header as it was, so `Grpc-Status` / `Grpc-Message` are not announced - and then sent - a second time
    next to the status, message and details the head already has. -/
theorem grpc_trailers_only_declares_nothing (rm : RespMeta) (k : Sink) (e : RespEnd) (he : rm.end = some e)
    (hav : ∀ t ∈ e.trailers, t.1 ≠ canonKey (s "Trailer")) :
    (addResponseHeaders .grpc rm k).2.hdr.values (s "Trailer") = k.hdr.values (s "Trailer") := by
  unfold addResponseHeaders
  have hc : (ClientForm.grpc == ClientForm.grpc) = true := by decide
  have := foldl_setRaw_values id e.trailers (k.hdr.set (s "Content-Type") (s "application/grpc+" ++ rm.codec)) (s "Trailer")
    (fun t ht => hav t ht)
  simp only [id] at this
  simp only [hc, if_true, he, Option.isNone_some, Bool.and_false, Bool.false_eq_true, if_false, writeEndToHeaders, this,
    Hdr.values_set_ne _ _ _ _ ctNeTrailer]

/-- Non-vacuity: an error end with one application trailer. -/
example : (addResponseHeaders .grpc { «end» := some { err := some { code := 5, msg := .text (s "gone"), details := 1 }, trailers := [(s "X-T", [[7]])] } } {}).2.hdr.values (s "Trailer") = [] := by
  decide +kernel


/-! ### the content type of the response head -/

/-- The content type each client protocol prescribes for a response: of the codec, or `application/json` for the
    error body of a unary Connect client. -/
def _root_.Vanguard.ClientForm.responseContentType (c : ClientForm) (rm : RespMeta) : Option Bytes :=
  match c with
  | .grpc => some (s "application/grpc+" ++ rm.codec)
  | .grpcWeb => some (s "application/grpc-web+" ++ rm.codec)
  | .connectStream => some (s "application/connect+" ++ rm.codec)
  | .connectPost | .connectGet =>
    match rm.end.bind (·.err) with
    | some _ => some (s "application/json")
    | none => some (s "application/" ++ rm.codec)
  | .rest => none

private theorem r1 : canonKey (s "Grpc-Encoding") ≠ canonKey (s "Content-Type") := by decide +kernel
private theorem r2 : canonKey (s "Grpc-Accept-Encoding") ≠ canonKey (s "Content-Type") := by decide +kernel
private theorem r3 : canonKey (s "Trailer") ≠ canonKey (s "Content-Type") := by decide +kernel
private theorem r4 : canonKey (s "Connect-Content-Encoding") ≠ canonKey (s "Content-Type") := by decide +kernel
private theorem r5 : canonKey (s "Connect-Accept-Encoding") ≠ canonKey (s "Content-Type") := by decide +kernel
private theorem r6 : canonKey (s "Content-Encoding") ≠ canonKey (s "Content-Type") := by decide +kernel
private theorem r7 : canonKey (s "Accept-Encoding") ≠ canonKey (s "Content-Type") := by decide +kernel

/-- **The response head carries the content type of the client's own protocol**, once, whatever the handler
    stored under that name - provided no trailer of an end that travels in the head is itself called
    `Content-Type` (or `Trailer-…` to that effect). -/
theorem client_content_type (c : ClientForm) (rm : RespMeta) (sink : Sink) (ct : Bytes)
    (hct : c.responseContentType rm = some ct) (ha : EndAvoids rm.end (s "Content-Type")) :
    (addResponseHeaders c rm sink).2.hdr.values (s "Content-Type") = [ct] := by
  have hadd : ∀ (h : Hdr) (v : Bytes), (h.add (s "Trailer") v).values (s "Content-Type") = h.values (s "Content-Type") :=
    fun h v => Hdr.values_add_ne h _ v _ r3
  have hfadd : ∀ (ks : List Bytes) (h : Hdr),
      (ks.foldl (fun acc x => Hdr.add acc (s "Trailer") x) h).values (s "Content-Type") = h.values (s "Content-Type") :=
    fun ks h => foldl_add_values ks h _ _ r3
  unfold addResponseHeaders
  cases c <;> simp only [ClientForm.responseContentType, Option.some.injEq, reduceCtorEq] at hct <;> simp only
  case grpc =>
    subst hct
    have hc : (ClientForm.grpc == ClientForm.grpc) = true := by decide
    cases he : rm.end with
    | none =>
      simp only [hc, if_true, Option.isNone_none, Bool.and_self]
      split <;> split <;> simp only [hadd, hfadd, setIf_values_ne _ _ _ _ _ r1, setIf_values_ne _ _ _ _ _ r2, Hdr.values_set_same]
    | some e =>
      have := foldl_setRaw_values id e.trailers (sink.hdr.set (s "Content-Type") (s "application/grpc+" ++ rm.codec)) (s "Content-Type")
        (fun t ht => (ha e he t ht).1)
      simp only [id] at this
      simp only [hc, if_true, Option.isNone_some, Bool.and_false, Bool.false_eq_true, if_false, writeEndToHeaders, this, Hdr.values_set_same]
  case grpcWeb =>
    subst hct
    have hc : (ClientForm.grpcWeb == ClientForm.grpc) = false := by decide
    simp only [hc, Bool.false_and, Bool.false_eq_true, if_false]
    cases he : rm.end with
    | none => simp only [setIf_values_ne _ _ _ _ _ r1, setIf_values_ne _ _ _ _ _ r2, Hdr.values_set_same]
    | some e =>
      have := foldl_setRaw_values id e.trailers (sink.hdr.set (s "Content-Type") (s "application/grpc-web+" ++ rm.codec)) (s "Content-Type")
        (fun t ht => (ha e he t ht).1)
      simp only [id] at this
      simp only [writeEndToHeaders, this, Hdr.values_set_same]
  case connectStream =>
    subst hct
    simp only [setIf_values_ne _ _ _ _ _ r4, setIf_values_ne _ _ _ _ _ r5, Hdr.values_set_same]
  case connectPost =>
    cases he : rm.end with
    | none =>
      simp only [he, Option.bind_none, Option.some.injEq] at hct ⊢; subst hct
      simp only [setIf_values_ne _ _ _ _ _ r7, setIf_values_ne _ _ _ _ _ r6, Hdr.values_set_same]
    | some e =>
      have := fun h => foldl_setRaw_values (fun t => s "Trailer-" ++ t) e.trailers h (s "Content-Type") (fun t ht => (ha e he t ht).2)
      cases herr : e.err <;> simp only [he, Option.bind_some, herr, Option.some.injEq] at hct ⊢ <;> subst hct <;>
        simp only [setIf_values_ne _ _ _ _ _ r7, this, setIf_values_ne _ _ _ _ _ r6, Hdr.values_set_same]
  case connectGet =>
    cases he : rm.end with
    | none =>
      simp only [he, Option.bind_none, Option.some.injEq] at hct ⊢; subst hct
      simp only [setIf_values_ne _ _ _ _ _ r7, setIf_values_ne _ _ _ _ _ r6, Hdr.values_set_same]
    | some e =>
      have := fun h => foldl_setRaw_values (fun t => s "Trailer-" ++ t) e.trailers h (s "Content-Type") (fun t ht => (ha e he t ht).2)
      cases herr : e.err <;> simp only [he, Option.bind_some, herr, Option.some.injEq] at hct ⊢ <;> subst hct <;>
        simp only [setIf_values_ne _ _ _ _ _ r7, this, setIf_values_ne _ _ _ _ _ r6, Hdr.values_set_same]

/-- Non-vacuity: the error response of a unary Connect client is JSON whatever the codec of the RPC. -/
example : ClientForm.connectPost.responseContentType { codec := s "proto", «end» := some { err := some { code := 5, msg := .gen } } }
    = some (s "application/json") := by decide +kernel


/-- **The HTTP status of the response head is the one the client's protocol prescribes**: 200 for every gRPC,
    gRPC-Web and Connect streaming response whatever the outcome (the outcome travels in trailers or in the body);
    for a unary Connect client 200 without an error, and with an error the status `httpStatusCodeFromRPC` gives
    for its code (C04 proves that this is the published table). -/
theorem client_http_status (c : ClientForm) (rm : RespMeta) (sink : Sink) :
    ((c = .grpc ∨ c = .grpcWeb ∨ c = .connectStream) → (addResponseHeaders c rm sink).1 = some 200) ∧
    ((c = .connectPost ∨ c = .connectGet) → rm.end.bind (·.err) = none → (addResponseHeaders c rm sink).1 = some 200) ∧
    ((c = .connectPost ∨ c = .connectGet) → ∀ e, rm.end.bind (·.err) = some e →
      (addResponseHeaders c rm sink).1 = httpStatusFromRPC e.code) := by
  refine ⟨?_, ?_, ?_⟩
  · rintro (rfl | rfl | rfl) <;> unfold addResponseHeaders <;> simp only
    · split <;> rfl
    · split <;> rfl
  · rintro (rfl | rfl) h <;> unfold addResponseHeaders <;> simp only [h]
  · rintro (rfl | rfl) e h <;> unfold addResponseHeaders <;> simp only [h]


/-- The header in which each client protocol is told the compression of the response messages. -/
def _root_.Vanguard.ClientForm.responseEncodingHeader (c : ClientForm) : Option Bytes :=
  match c with
  | .grpc | .grpcWeb => some (s "Grpc-Encoding")
  | .connectStream => some (s "Connect-Content-Encoding")
  | .connectPost | .connectGet => some (s "Content-Encoding")
  | .rest => none

private theorem e1 : canonKey (s "Grpc-Accept-Encoding") ≠ canonKey (s "Grpc-Encoding") := by decide +kernel
private theorem e2 : canonKey (s "Trailer") ≠ canonKey (s "Grpc-Encoding") := by decide +kernel
private theorem e3 : canonKey (s "Connect-Accept-Encoding") ≠ canonKey (s "Connect-Content-Encoding") := by decide +kernel
private theorem e4 : canonKey (s "Accept-Encoding") ≠ canonKey (s "Content-Encoding") := by decide +kernel

/-- **A response compression is declared in the client protocol's own header**: while the RPC is open (no end in
    the head) and the response metadata names a compression, the head has exactly that name under the header the
    client's protocol reads - so the per-message compressed flags the client sees refer to a declared compression. -/
theorem client_encoding_header (c : ClientForm) (rm : RespMeta) (sink : Sink) (k : Bytes)
    (hk : c.responseEncodingHeader = some k) (he : rm.end = none) (hz : rm.compression.isEmpty = false) :
    (addResponseHeaders c rm sink).2.hdr.values k = [rm.compression] := by
  have hne : (!rm.compression.isEmpty) = true := by simp [hz]
  have hadd : ∀ (h : Hdr) (v : Bytes), (h.add (s "Trailer") v).values (s "Grpc-Encoding") = h.values (s "Grpc-Encoding") :=
    fun h v => Hdr.values_add_ne h _ v _ e2
  have hfadd : ∀ (ks : List Bytes) (h : Hdr),
      (ks.foldl (fun acc x => Hdr.add acc (s "Trailer") x) h).values (s "Grpc-Encoding") = h.values (s "Grpc-Encoding") :=
    fun ks h => foldl_add_values ks h _ _ e2
  unfold addResponseHeaders
  cases c <;> simp only [ClientForm.responseEncodingHeader, Option.some.injEq, reduceCtorEq] at hk <;> subst hk <;>
    simp only [he, hne]
  case grpc =>
    have hc : (ClientForm.grpc == ClientForm.grpc) = true := by decide
    simp only [hc, if_true, Option.isNone_none, Bool.and_self]
    split <;> split <;> simp only [hadd, hfadd, setIf_values_ne _ _ _ _ _ e1, setIf_values_same]
  case grpcWeb =>
    have hc : (ClientForm.grpcWeb == ClientForm.grpc) = false := by decide
    simp only [hc, Bool.false_and, Bool.false_eq_true, if_false, setIf_values_ne _ _ _ _ _ e1, setIf_values_same]
  case connectStream => simp only [setIf_values_ne _ _ _ _ _ e3, setIf_values_same]
  case connectPost => simp only [Option.bind_none, setIf_values_ne _ _ _ _ _ e4, setIf_values_same]
  case connectGet => simp only [Option.bind_none, setIf_values_ne _ _ _ _ _ e4, setIf_values_same]

example : ClientForm.grpcWeb.responseEncodingHeader = some (s "Grpc-Encoding") := rfl
example : (addResponseHeaders .connectStream { codec := s "proto", compression := s "gzip" } {}).2.hdr.values (s "Connect-Content-Encoding") = [s "gzip"] := by
  decide +kernel

end Vanguard.C03
