import Vanguard.Lemmas.Serve
/-!
  C03 — Client gets a valid response in its own protocol with exactly one outcome.

  Proved here (every state, end, client protocol): the end of an RPC is written at most once —
  once `endWritten` holds, `reportEnd` (and so every later `reportError`) changes nothing; the head
  is flushed at most once (`flushHeaders` is the identity once flushed); writing the end sets
  `endWritten`.  The validity of the rendered response in the client's protocol is the oracle
  `oracleC03`, evaluated on every implementation observation, and the model's own responses are
  compared with the implementation's byte for byte (frames, end token, status, headers, trailers).
  Partial: that the model's full response always satisfies `oracleC03` is not yet a theorem.
-/
namespace Vanguard.C03
open Vanguard

/-- Only the first reported end counts: exactly one terminal disposition. -/
theorem end_reported_once (w : World) (st : St) (e : RespEnd) (h : st.rw.endWritten = true) :
    reportEnd w st e = (st, false) := reportEnd_ended w st e h

/-- Errors after the end are ignored as well (cascading errors cannot add a second outcome). -/
theorem error_after_end_ignored (w : World) (st : St) (err : Err) (h : st.rw.endWritten = true) :
    (reportError w st err).1 = st := by
  unfold reportError
  split
  · split
    · rfl
    · rw [reportEnd_ended w st _ h]
  · rw [reportEnd_ended w st _ h]

/-- The response head is rendered once. -/
theorem head_flushed_once (w : World) (st : St) (h : st.rw.headersFlushed = true) :
    flushHeaders w st = (st, false) := flushHeaders_flushed w st h

/-- Writing the end marks the RPC as ended. -/
theorem write_end_marks_end (st : St) (e : RespEnd) (b : Bool) : (writeEnd st e b).rw.endWritten = true :=
  writeEnd_endWritten st e b

end Vanguard.C03
