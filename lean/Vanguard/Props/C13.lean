import Vanguard.Lemmas.Serve
/-!
  C13 — Pass-through and unknown-endpoint requests are forwarded untouched.

  `forwardObs` is the specification: the downstream handler works directly on the client's request
  record (method, URL, protocol version, every header, declared content length, body source) and on
  the client's own writer, so status, headers, body bytes and trailers are what the handler produced.
  Proved for every configuration, request and backend script: whenever the service accepts the
  client's protocol, codec and compression (`Op.passThrough`), and whenever no endpoint matches while
  an unknown-endpoint handler is configured, `serve` *is* `forwardObs` (for gRPC targets the protocol
  version is reported as 2, which is what the request already has).  The oracle evaluated on the
  implementation compares its observation with the rendering of `forwardObs`.
-/
namespace Vanguard.C13
open Vanguard

/-- When no conversion applies the request is forwarded untouched (to the service handler). -/
theorem passthrough_identity (w : World) (sc : Scenario) (o : Op)
    (hv : validate w sc.conf sc.req = .ok o) (hp : o.passThrough = true) (hg : o.sform ≠ .grpc) :
    serve w sc = forwardObs sc .svc := by
  unfold serve
  simp only [hv, hp, if_true]
  have : (o.sform == ServerForm.grpc) = false := by simpa using hg
  simp [this]

/-- gRPC pass-through: identical except that the version is stated as HTTP/2 — which a gRPC request
    that passed validation already is. -/
theorem passthrough_identity_grpc (w : World) (sc : Scenario) (o : Op)
    (hv : validate w sc.conf sc.req = .ok o) (hp : o.passThrough = true) (hg : o.sform = .grpc) :
    serve w sc = { forwardObs sc .svc with backend := { (forwardObs sc .svc).backend with protoMajor := 2 } } := by
  unfold serve
  simp only [hv, hp, if_true]
  simp [hg]

/-- An unmatched endpoint is delegated untouched to the unknown-endpoint handler. -/
theorem unknown_endpoint_identity (w : World) (sc : Scenario)
    (hv : validate w sc.conf sc.req = .error .notFound) (hu : sc.conf.unknownHandler = true) :
    serve w sc = forwardObs sc .unknown := by
  unfold serve
  simp [hv, hu]

/-- What forwarding means, spelled out: the handler's view of the request is the client's. -/
theorem forward_request_unchanged (sc : Scenario) (d : Dispatch) :
    let b := (forwardObs sc d).backend
    b.method = sc.req.method ∧ b.path = sc.req.path ∧ b.rawQuery = sc.req.rawQuery ∧
    b.protoMajor = sc.req.protoMajor ∧ b.contentLength = sc.req.contentLength ∧ b.headers = sc.req.headers := by
  simp [forwardObs]

end Vanguard.C13
