import Vanguard.Props.C04
import Vanguard.Lemmas.EndRelay
import Vanguard.Lemmas.UnaryHead
import Vanguard.Lemmas.UInt8
import Vanguard.Gen.Facts
/-!
  C04, second part — **the error a backend (or the transcoder) ends an RPC with is the error the client
  reads**, for the whole response path of the model of `Transcoder.ServeHTTP`.

  `Sink.clientErr c k` (`Lemmas/EndRelay.lean`) is the RPC error a client of form `c` reads off the
  response `k` it received: the gRPC status in the response head or in the HTTP trailers, the error
  inside the end-of-stream frame (Connect streaming) or trailer frame (gRPC-Web), the error body of
  a unary Connect response.  An `RpcErr` is code, message and the list of details (kept as the value
  the backend's own decoder produced; vanguard never looks inside).

  Proved, for every world, configuration and state the response writer can be in (`Good`, C03's
  invariant, which holds in every reachable state — `C03.script_keeps_good`):

  * `first_reported_end_reaches_client`: the first end reported on an open response is exactly what
    the client reads — for gRPC, gRPC-Web and Connect-streaming clients in every state; for a unary
    Connect client as long as the response head has not been sent (`CanTell`);
  * where the ends come from: the backend's HTTP trailers (`backend_trailer_status_reaches_client`,
    gRPC backends), the backend's response head (`backend_head_status_reaches_client`: trailers-only
    gRPC responses and the status/error body of a unary Connect backend), the backend's end-of-stream
    message (`backend_end_message_reaches_client`: Connect streaming and gRPC-Web backends, also when
    that message is compressed), and the transcoder itself (`transcoder_error_keeps_its_code`);
  * `reported_end_is_final`: whatever the handler does afterwards (more writes, header changes,
    reads that fail, returning) and the final `close`, the client still reads that same error —
    together with C03's `at_most_one_end` this is "the same code, message and details, once";
  * `unary_error_status_is_published`: the HTTP status of a unary Connect error response is the
    published status of its code.

  `CanTell` is no hypothesis on reachable states: `first_reported_end_reaches_client_in_every_run` and
  `backend_trailer_status_reaches_client_at_close` state the relay for every state a handler script can
  reach (a unary Connect client's head is never sent while the RPC is open: `UInv`, `Lemmas/UnaryHead.lean`).
  Partial: REST clients are outside the e2e model.  The encodings (JSON error bodies, `Grpc-Status-Details-Bin`, percent
  coding of `Grpc-Message`: `percent_roundtrip`) are functions outside resp. leaf theorems of part one.
-/
namespace Vanguard.C04
open Vanguard

/-- **The first end reported on an open response is what the client reads.** -/
theorem first_reported_end_reaches_client (w : World) (st : St) (e : RespEnd) (hg : Good st)
    (hopen : st.rw.endWritten = false) (ht : CanTell st) :
    (reportEnd w st e).1.sink.clientErr st.op.cform = e.err :=
  reportEnd_relays' w st e hg hopen ht

/-- A gRPC backend's status, message and details in the HTTP trailers reach the client. -/
theorem backend_trailer_status_reaches_client (w : World) (tb : Tables) (st : St) (e : RespEnd) (hg : Good st)
    (hopen : st.rw.endWritten = false) (ht : CanTell st) (hrm : (st.rw.respMeta.getD {}).end = none)
    (hx : st.op.sform.extractEndFromTrailers tb
            (httpExtractTrailers st.hdr (st.rw.respMeta.getD {}).pendingTrailerKeys).1 = some e) :
    (rwCloseEnd w tb st).1.sink.clientErr st.op.cform = e.err :=
  rwCloseEnd_relays_trailers w tb st e hg hopen ht hrm hx

/-- An end the backend announced in its response head reaches the client. -/
theorem backend_head_status_reaches_client (w : World) (tb : Tables) (st : St) (e : RespEnd) (hg : Good st)
    (hopen : st.rw.endWritten = false) (ht : CanTell st) (hrm : (st.rw.respMeta.getD {}).end = some e) :
    (rwCloseEnd w tb st).1.sink.clientErr st.op.cform = e.err :=
  rwCloseEnd_relays_meta w tb st e hg hopen ht hrm

/-- The end-of-stream message of a Connect-streaming or gRPC-Web backend reaches the client. -/
theorem backend_end_message_reaches_client (w : World) (tb : Tables) (st : St) (compressed : Bool) (data d : Bytes)
    (r : Bool) (e : RespEnd) (hg : Good st) (hopen : st.rw.endWritten = false) (ht : CanTell st)
    (hplain : EndPlain w st compressed data d) (hdec : decodeEndFromMessage tb st.op.sform d = some e) :
    (handleEndMessage w tb st compressed data r).1.sink.clientErr st.op.cform = e.err :=
  handleEndMessage_relays w tb st compressed data d r e hg hopen ht hplain hdec

/-- An error the transcoder reports itself reaches the client with the code it was reported with
    (any other Go error is `unknown`). -/
theorem transcoder_error_keeps_its_code (w : World) (st : St) (err : Err) (hg : Good st)
    (hopen : st.rw.endWritten = false) (ht : CanTell st) :
    (reportError w st err).1.sink.clientErr st.op.cform =
      some (genErr (match err with | .rpc code => code | _ => 2)) :=
  reportError_relays w st err hg hopen ht

/-- **The reported end is final**: after the first end, any handler script and the closing of the
    response leave the client reading the same error. -/
theorem reported_end_is_final (w : World) (tb : Tables) (pl : HandlePlan) (script : List BOp) (total0 : Nat)
    (f : Flight) (e : RespEnd) (hg : Good f.st) (hopen : f.st.rw.endWritten = false) (ht : CanTell f.st) :
    let f1 : Flight := { f with st := (reportEnd w f.st e).1 }
    (rwClose w tb (runScript w tb pl script total0 f1).1.st).1.sink.clientErr f.st.op.cform = e.err := by
  intro f1
  have hg1 : Good f1.st := (reportEnd_ev w f.st e hg).1
  have he1 : f1.st.rw.endWritten = true := reportEnd_ends w f.st e
  have hrun := runScript_ev w tb pl script total0 f1 hg1
  rw [rwClose_keeps_clientErr w tb _ _ hrun.1 (hrun.2 he1).2,
      runScript_keeps_clientErr w tb pl script total0 f1 _ hg1 he1]
  exact reportEnd_relays' w f.st e hg hopen ht

/-! ### ... in every state a handler can reach (no hypothesis on the head)

  `UInv` (`Lemmas/UnaryHead.lean`, on top of the frame lemmas `FL` of `Lemmas/FlushFrame.lean`): a client whose
  end must be in the response head (unary Connect) never gets the head while the RPC is open - kept by every
  reader, writer and handler operation.  So `CanTell` holds in every reachable open state and the relay
  theorems hold there for all five client forms of the e2e model. -/

/-- **Every run**: take any handler script (reads, header changes, `WriteHeader`, `Write` with any bytes,
    `Flush`, `Close`), stopped anywhere; if the RPC is still open, the end reported next is what the client
    reads - gRPC, gRPC-Web, Connect streaming and unary Connect alike. -/
theorem first_reported_end_reaches_client_in_every_run (w : World) (tb : Tables) (pl : HandlePlan) (script : List BOp)
    (total0 : Nat) (st : St) (skip : Bool) (rd : Reader) (e : RespEnd) (hrw : st.rw = {}) (hg : Good st) :
    let st' := (runScript w tb pl script total0 { st := transcodeStartState st skip, rd := rd }).1.st
    st'.op.cform ≠ .rest → st'.rw.endWritten = false →
      (reportEnd w st' e).1.sink.clientErr st'.op.cform = e.err := by
  intro st' hc hopen
  have hg' : Good st' := (runScript_ev w tb pl script total0 _ (transcodeStartState_ev st skip hg).1).1
  exact reportEnd_relays' w st' e hg' hopen (reachable_can_tell w tb pl script total0 st skip rd hrw hc hopen)

/-- **The close of every run**: when `close` takes the end from the backend's HTTP trailers (gRPC backends), the
    client reads that status - whatever the handler did before, for every client form of the e2e model. -/
theorem backend_trailer_status_reaches_client_at_close (w : World) (tb : Tables) (pl : HandlePlan) (script : List BOp)
    (total0 : Nat) (st : St) (skip : Bool) (rd : Reader) (e : RespEnd) (hrw : st.rw = {}) (hg : Good st) :
    let st' := (runScript w tb pl script total0 { st := transcodeStartState st skip, rd := rd }).1.st
    let s1 := (rwCloseWriter w tb (if st'.rw.headersWritten = true then (st', false) else rwWriteHeader w tb st' 200).1).1
    s1.op.cform ≠ .rest → s1.rw.endWritten = false → (s1.rw.respMeta.getD {}).end = none →
    s1.op.sform.extractEndFromTrailers tb (httpExtractTrailers s1.hdr (s1.rw.respMeta.getD {}).pendingTrailerKeys).1 = some e →
      (rwCloseEnd w tb s1).1.sink.clientErr s1.op.cform = e.err := by
  intro st' s1 hc hopen hrm hx
  have hg' : Good st' := (runScript_ev w tb pl script total0 _ (transcodeStartState_ev st skip hg).1).1
  have hu' : UInv st' := runScript_uinv w tb pl script total0 _ (start_uinv st skip hrw)
  have hg1 : Good s1 := (Ev.trans (rwHeaderFirst_ev w tb st') (rwCloseWriter_ev w tb _) hg').1
  exact rwCloseEnd_relays_trailers w tb s1 e hg1 hopen (close_can_tell w tb st' hu' hc hopen) hrm hx

/-- The HTTP status of a unary Connect error response is the published status of the error's code
    (`addProtocolResponseHeaders` of the unary Connect client forms). -/
theorem unary_error_status_is_published (c : ClientForm) (rm : RespMeta) (k : Sink) (e : RespEnd) (err : RpcErr)
    (hc : c = .connectPost ∨ c = .connectGet) (he : rm.end = some e) (herr : e.err = some err) :
    (addResponseHeaders c rm k).1 = some (Spec.httpOfCode err.code) := by
  have hs := status_from_rpc_spec err.code
  unfold Spec.statusFromRPCOk at hs
  rcases hc with h | h <;> subst h <;>
    simp only [addResponseHeaders, he, Option.bind_some, herr] <;>
    (cases hh : httpStatusFromRPC err.code with
     | none => simp [hh] at hs
     | some v => simp [hh] at hs; simp [hs])

/-! ### the model's tables are the ones in the source (regenerated by `/verif/extract` on every run) -/

/-- The table the model uses is, element for element, `httpStatusCodeFromRPCIndex` as the source
    reads now. -/
theorem source_status_table_is_model : Gen.statusTable = statusTable := by decide

/-- The range guard in the source is the non-strict one the model uses, and out-of-range codes
    get 500. -/
theorem source_status_guard_is_model : Gen.statusGuardStrict = false ∧ Gen.statusOutOfRange = 500 := by decide

/-- `httpStatusCodeToRPC` of the model is the switch in the source: first matching case, else the
    default - for every status value. -/
theorem source_to_rpc_is_model (status : Int) :
    httpStatusToRPC status =
      ((Gen.toRPCCases.find? fun c => (c.1 : Int) == status).map (·.2)).getD Gen.toRPCDefault := by
  unfold httpStatusToRPC
  simp only [Gen.toRPCCases, Gen.toRPCDefault, List.find?]
  by_cases h1 : status = 200
  · subst h1; rfl
  by_cases h2 : status = 400
  · subst h2; rfl
  by_cases h3 : status = 401
  · subst h3; rfl
  by_cases h4 : status = 403
  · subst h4; rfl
  by_cases h5 : status = 404
  · subst h5; rfl
  by_cases h6 : status = 429
  · subst h6; rfl
  by_cases h7 : status = 502
  · subst h7; rfl
  by_cases h8 : status = 503
  · subst h8; rfl
  by_cases h9 : status = 504
  · subst h9; rfl
  have e1 : ((200 : Int) == status) = false := by simp; omega
  have e2 : ((400 : Int) == status) = false := by simp; omega
  have e3 : ((401 : Int) == status) = false := by simp; omega
  have e4 : ((403 : Int) == status) = false := by simp; omega
  have e5 : ((404 : Int) == status) = false := by simp; omega
  have e6 : ((429 : Int) == status) = false := by simp; omega
  have e7 : ((502 : Int) == status) = false := by simp; omega
  have e8 : ((503 : Int) == status) = false := by simp; omega
  have e9 : ((504 : Int) == status) = false := by simp; omega
  simp [h1, h2, h3, h4, h5, h6, h7, h8, h9, e1, e2, e3, e4, e5, e6, e7, e8, e9]

/-! ### the character classes of the percent coding are the ones in the source as it reads now
  (`Gen.grpcShouldEscapeSrc`, `Gen.ishexSrc`: translated from `protocol_grpc.go` / `path_parser.go` on every run) -/

set_option maxRecDepth 100000 in
theorem source_percent_classes_are_model : ∀ c : UInt8,
    grpcShouldEscape c = Gen.grpcShouldEscapeSrc c ∧ ishex c = Gen.ishexSrc c :=
  forall_uint8 (by decide +kernel)

/-! ### non-vacuity -/

def xConf : MethodConf := { path := s "/p.S/M", streamType := .bidi, noSideEffects := false, protocols := [.grpc], codecs := [rawName], compressors := [], maxMsg := 100, maxGetURL := 100 }
def xOp (c : ClientForm) : Op := { conf := xConf, cform := c, sform := .grpc, reqMeta := {}, ccodec := rawName, scodec := rawName, cReqComp := none, sReqComp := none, headers := [], contentLen := -1, query := [], reqMethod := sPOST }
def xSt (c : ClientForm) : St := { op := xOp c, src := { chunks := [], ending := .eof }, sink := {} }
def xErr : RpcErr := { code := 5, msg := .text [0x6E, 0x6F], details := 2 }

/-- The hypotheses are satisfiable: a fresh request state is `Good`, open, and every client form of
    the e2e model can be told the end. -/
example (c : ClientForm) (hc : c ≠ .rest) : Good (xSt c) ∧ (xSt c).rw.endWritten = false ∧ CanTell (xSt c) :=
  ⟨good_init _ _, rfl, hc, Or.inr rfl⟩

/-- The hypotheses of the whole-run theorems hold for the state `ServeHTTP` starts from. -/
example (c : ClientForm) : (xSt c).rw = {} ∧ Good (xSt c) := ⟨rfl, good_init _ _⟩

/-- Kernel-evaluated: a unary Connect client in front of a gRPC backend that sent its head and one
    complete message - the RPC is open, the client's head has not gone out, and an error reported
    now is read back by the client. -/
def xRun : St := (runScript fakeWorld {} ((xOp .connectPost).plan fakeWorld)
  [.sethdr (s "Content-Type") (s "application/grpc+raw"), .status 200, .write [0, 0, 0, 0, 1, 7]] 0
  { st := transcodeStartState (xSt .connectPost) false, rd := .raw }).1.st
example : (xRun.rw.endWritten, xRun.rw.headersFlushed, xRun.rw.buf) = (false, false, some [7]) := by decide +kernel
example : (reportEnd fakeWorld xRun { err := some xErr }).1.sink.clientErr .connectPost = some xErr := by decide +kernel

/-- Kernel-evaluated instances: `not_found` with a message and two details, reported on a fresh
    response, is read back by clients of all five forms. -/
example : (reportEnd fakeWorld (xSt .grpc) { err := some xErr }).1.sink.clientErr .grpc = some xErr := by decide +kernel
example : (reportEnd fakeWorld (xSt .grpcWeb) { err := some xErr }).1.sink.clientErr .grpcWeb = some xErr := by decide +kernel
example : (reportEnd fakeWorld (xSt .connectStream) { err := some xErr }).1.sink.clientErr .connectStream = some xErr := by decide +kernel
example : (reportEnd fakeWorld (xSt .connectPost) { err := some xErr }).1.sink.clientErr .connectPost = some xErr := by decide +kernel
example : (reportEnd fakeWorld (xSt .connectPost) { err := some xErr }).1.sink.status = some 404 := by decide +kernel
/-- ... and `clientErr` does tell errors apart. -/
example : (reportEnd fakeWorld (xSt .grpc) { err := some xErr }).1.sink.clientErr .grpc ≠ some { xErr with code := 13 } := by decide +kernel

end Vanguard.C04
