import Vanguard.Lemmas.Timeout
import Vanguard.Lemmas.UInt8
import Vanguard.Gen.Facts
/-!
  C12 — Deadlines are propagated to the backend and never extended.
-/
namespace Vanguard.C12
open Vanguard

/-- **Grpc-Timeout, every header value.**  A syntactically valid value (1–8 digits and a unit) is
    never rejected and is conveyed exactly, or treated as unbounded beyond eight hours; a definitely
    malformed value is rejected (before any dispatch); an absent header stays absent. -/
theorem grpc_extract_spec (s : Bytes) : Spec.grpcExtractOk s (grpcExtractTimeout s) = true := by
  unfold Spec.grpcExtractOk grpcExtractTimeout
  by_cases hs : s.isEmpty = true
  · simp [hs]
  · simp only [hs, Bool.false_eq_true, if_false]
    unfold Spec.grpcValue grpcDecodeTimeout Spec.grpcDefinitelyMalformed
    cases hl : s.getLast? with
    | none => simp
    | some u =>
      simp only
      rcases unit_agree u with ⟨hn, h0⟩ | ⟨x, hx, hg, hpos, hle, hH⟩
      · simp [hn, h0]
      · simp only [hx, hg]
        have hx0 : (x == 0) = false := by simp; omega
        simp only [hx0, Bool.false_eq_true, if_false]
        by_cases hd : (Spec.allDigits s.dropLast && decide (1 ≤ s.dropLast.length) && decide (s.dropLast.length ≤ 8)) = true
        · -- valid value
          simp only [hd, if_true]
          simp only [Bool.and_eq_true, decide_eq_true_eq] at hd
          obtain ⟨⟨hall, h1⟩, h8⟩ := hd
          have hne : s.dropLast ≠ [] := by intro h; rw [h] at h1; simp at h1
          obtain ⟨n, hp, hlt, hpi⟩ := parseInt64_digits s.dropLast hne hall
          have hn8 : n < 100000000 := by
            have : 10 ^ s.dropLast.length ≤ 10 ^ 8 := Nat.pow_le_pow_right (by omega) h8
            rw [pow8] at this; omega
          have h63 : ¬ n ≥ 2^63 := by omega
          simp only [hpi, h63, if_false, hp]
          have hneg : ¬ ((n : Int) < 0) := by omega
          have hbig : ¬ ((n : Int) > 99999999) := by omega
          simp only [hneg, hbig, if_false]
          by_cases hh : (x == 3600000000000 && decide ((n : Int) > 8)) = true
          · simp only [hh, if_true]
            simp only [Bool.and_eq_true, decide_eq_true_eq] at hh
            have := hH.mp hh.1
            subst this
            simp [Spec.eightHours]; omega
          · simp [hh]
        · -- not a valid value: rejected whenever definitely malformed
          simp only [hd, Bool.false_eq_true, if_false, Option.isNone_some, Bool.false_or]
          by_cases hm : Spec.numberMalformed s.dropLast = true
          · simp [hm, parseInt64_malformed _ hm]
          · simp [hm]



private theorem grpcValue_format (k : Nat) (u : UInt8) (size : Int) (hu : Spec.unitNanos u = some size)
    (hk : k < 100000000) : Spec.grpcValue (formatNat k ++ [u]) = some ((k : Int) * size) := by
  unfold Spec.grpcValue
  simp only [List.getLast?_append, List.getLast?_singleton, Option.some_or, List.dropLast_concat, hu]
  have hlen : (formatNat k).length ≤ 8 := formatNat_length_le 7 k (by rw [pow8]; exact hk)
  have hne := formatNat_ne_nil k
  have h1 : 1 ≤ (formatNat k).length := by
    cases h : formatNat k with
    | nil => exact absurd h hne
    | cons _ _ => simp
  simp [Spec.allDigits, formatNat_allDigits, h1, hlen, parseNat_formatNat]

private theorem grpcEncode_shape (d : Int) (h0 : 0 < d) (hmax : d < 2^63) :
    ∃ size u, Spec.unitNanos u = some size ∧ 0 < size ∧ d / size < 100000000 ∧
      grpcEncodeTimeout d = formatInt (d / size) ++ [u] := by
  unfold grpcEncodeTimeout
  have : ¬ d ≤ 0 := by omega
  simp only [this, if_false]
  split
  · exact ⟨1, 0x6E, by decide, by omega, by rw [Int.ediv_one]; omega, by rw [Int.ediv_one]⟩
  split
  · exact ⟨1000, 0x75, by decide, by omega, by omega, rfl⟩
  split
  · exact ⟨1000000, 0x6D, by decide, by omega, by omega, rfl⟩
  split
  · exact ⟨1000000000, 0x53, by decide, by omega, by omega, rfl⟩
  split
  · exact ⟨60000000000, 0x4D, by decide, by omega, by omega, rfl⟩
  · exact ⟨3600000000000, 0x48, by decide, by omega, by omega, rfl⟩

/-- **grpcEncodeTimeout, every int64 duration.**  The text is a valid `Grpc-Timeout` (1–8 digits and a
    unit); its value never exceeds the duration and falls short of it by less than the unit used. -/
theorem grpc_encode_spec (d : Int) (hmax : d < 2^63) : Spec.grpcEncodeOk d (grpcEncodeTimeout d) = true := by
  by_cases h0 : d ≤ 0
  · unfold Spec.grpcEncodeOk grpcEncodeTimeout; simp [h0]
  · obtain ⟨size, u, hu, hs, hq, he⟩ := grpcEncode_shape d (by omega) hmax
    unfold Spec.grpcEncodeOk
    simp only [h0, if_false, he]
    have hq0 : 0 ≤ d / size := Int.ediv_nonneg (by omega) (by omega)
    rw [formatInt_nonneg _ hq0, grpcValue_format _ u size hu (by omega)]
    simp only [List.getLast?_append, List.getLast?_singleton, Option.some_or, Option.bind_eq_bind, Option.bind_some, hu]
    have e : ((d / size).toNat : Int) = d / size := by omega
    rw [e]
    have h1 := Int.ediv_mul_le d (Int.ne_of_gt hs)
    have h2 := Int.lt_ediv_add_one_mul_self d hs
    have h3 : (d / size + 1) * size = d / size * size + size := by rw [Int.add_mul]; omega
    simp; omega

private theorem neg_rejected (rest : Bytes) (hany : rest.any (· != 0x30) = true) :
    connectExtractTimeout (0x2D :: rest) = none := by
  unfold connectExtractTimeout parseInt64
  simp only [List.isEmpty_cons, Bool.false_eq_true, if_false, beq_self_eq_true, if_true]
  unfold parseNat
  cases hr : rest with
  | nil => simp
  | cons r rs =>
    simp only [List.isEmpty_cons, Bool.false_eq_true, if_false]
    cases hp : parseNatAcc 0 (r :: rs) with
    | none => simp
    | some n =>
      have hpos := parseNatAcc_pos 0 (r :: rs) n hp (by rw [← hr]; exact hany)
      simp only
      by_cases hbig : n > 2^63
      · simp [hbig]
      · rw [if_neg hbig]
        have : (-(n : Int)) < 0 := by omega
        simp only [this, if_true]


/-- The overflow test of `connectExtractTimeout` is complete: if `wrap64 (10^6·n) / 10^6 = n`
    (truncated division) then the product did not wrap. -/
theorem connect_no_silent_wrap (n : Int) (h0 : 0 ≤ n) (h : n < 2^63)
    (hd : Int.tdiv (wrap64 (1000000 * n)) 1000000 = n) : wrap64 (1000000 * n) = 1000000 * n := by
  -- wrap64 x = x - k·2^64 for the k below
  let k := (1000000 * n + 2^63) / 2^64
  have hk : wrap64 (1000000 * n) = 1000000 * n - k * 2^64 := by
    unfold wrap64
    have := Int.emod_def (1000000 * n + 2^63) (2^64)
    simp only [k]
    omega
  have hk0 : 0 ≤ k := Int.ediv_nonneg (by omega) (by decide)
  by_cases hkz : k = 0
  · rw [hk, hkz]; simp
  · exfalso
    have hk1 : 1 ≤ k := by omega
    have hr : -2^63 ≤ wrap64 (1000000 * n) ∧ wrap64 (1000000 * n) < 2^63 := by
      unfold wrap64
      have h1 := Int.emod_nonneg (1000000 * n + 2^63) (show (2:Int)^64 ≠ 0 by decide)
      have h2 := Int.emod_lt_of_pos (1000000 * n + 2^63) (show (0:Int) < 2^64 by decide)
      omega
    by_cases hpos : 0 ≤ wrap64 (1000000 * n)
    · rw [Int.tdiv_eq_ediv_of_nonneg hpos] at hd
      have h1 := Int.ediv_mul_le (wrap64 (1000000 * n)) (show (1000000:Int) ≠ 0 by decide)
      have h2 := Int.lt_ediv_add_one_mul_self (wrap64 (1000000 * n)) (show (0:Int) < 1000000 by decide)
      rw [hd] at h1 h2
      have : k * 2^64 ≥ 2^64 := by
        have := Int.mul_le_mul_of_nonneg_right hk1 (show (0:Int) ≤ 2^64 by decide)
        omega
      omega
    · have e : wrap64 (1000000 * n) = -(-(wrap64 (1000000 * n))) := by omega
      rw [e, Int.neg_tdiv, Int.tdiv_eq_ediv_of_nonneg (by omega)] at hd
      have : 0 ≤ (-wrap64 (1000000 * n)) / 1000000 := Int.ediv_nonneg (by omega) (by decide)
      have hn : n = 0 := by omega
      subst hn
      unfold wrap64 at hpos
      omega

private theorem connect_overlong_ok (s : Bytes) (n : Nat) (hne : s.isEmpty = false)
    (hpi : parseInt64 s = if n ≥ 2^63 then none else some (n : Int)) :
    Spec.overlongOk n (connectExtractTimeout s) = true := by
  unfold connectExtractTimeout
  rw [hne, if_neg (by decide), hpi]
  by_cases h63 : n ≥ 2^63
  · rw [if_pos h63]; rfl
  · rw [if_neg h63]
    have hn0 : ¬ ((n : Int) < 0) := Int.not_lt.mpr (Int.natCast_nonneg n)
    show Spec.overlongOk n (if (n:Int) < 0 then none else
      if (Int.tdiv (wrap64 (1000000 * (n:Int))) 1000000 != (n:Int)) = true then some (some maxInt64) else some (some (wrap64 (1000000 * (n:Int))))) = true
    rw [if_neg hn0]
    by_cases hdiv : Int.tdiv (wrap64 (1000000 * (n : Int))) 1000000 = n
    · have hw := connect_no_silent_wrap (n : Int) (Int.natCast_nonneg n) (by omega) hdiv
      have e : (Int.tdiv (wrap64 (1000000 * (n : Int))) 1000000 != (n : Int)) = false := by
        rw [hdiv]; exact bne_self_eq_false _
      rw [e, if_neg (by decide), hw]
      unfold Spec.overlongOk
      have h1 : (n : Int) * 1000000 ≤ 1000000 * (n : Int) := by omega
      have h2 : 1000000 * (n : Int) ≤ (n : Int) * 1000000 := by omega
      show ((decide (9999999999000000 ≤ 1000000 * (n:Int)) || decide ((n : Int) * 1000000 ≤ 1000000 * (n:Int))) && decide (1000000 * (n:Int) ≤ (n : Int) * 1000000)) = true
      rw [decide_eq_true h1, decide_eq_true h2, Bool.or_true]; rfl
    · have hne' : (Int.tdiv (wrap64 (1000000 * (n : Int))) 1000000 != (n : Int)) = true := bne_iff_ne.mpr hdiv
      rw [hne', if_pos rfl]
      have hbig : (9223372036854775808:Int) ≤ (n : Int) * 1000000 := by
        apply Decidable.byContradiction
        intro hlt
        apply hdiv
        have hw : wrap64 (1000000 * (n : Int)) = 1000000 * (n : Int) := by unfold wrap64; omega
        rw [hw, Int.tdiv_eq_ediv_of_nonneg (by omega)]; omega
      unfold Spec.overlongOk
      have h1 : (9999999999000000 : Int) ≤ maxInt64 := by unfold maxInt64; omega
      have h2 : maxInt64 ≤ (n : Int) * 1000000 := by unfold maxInt64; omega
      show ((decide (9999999999000000 ≤ maxInt64) || decide ((n : Int) * 1000000 ≤ maxInt64)) && decide (maxInt64 ≤ (n : Int) * 1000000)) = true
      rw [decide_eq_true h1, decide_eq_true h2, Bool.true_or]; rfl

/-- **Connect-Timeout-Ms, every header value.**  1–10 digits are never rejected and conveyed exactly
    (the int64 overflow test in the source is complete: no valid value wraps); malformed or negative
    values are rejected; an absent header stays absent. -/
theorem connect_extract_spec (s : Bytes) : Spec.connectExtractOk s (connectExtractTimeout s) = true := by
  unfold Spec.connectExtractOk
  by_cases hs : s.isEmpty = true
  · unfold connectExtractTimeout; simp [hs]
  · simp only [hs, Bool.false_eq_true, if_false]
    have hne : s ≠ [] := by simpa using hs
    unfold Spec.connectValue
    by_cases hd : (Spec.allDigits s && decide (1 ≤ s.length) && decide (s.length ≤ 10)) = true
    · simp only [hd, if_true]
      simp only [Bool.and_eq_true, decide_eq_true_eq] at hd
      obtain ⟨⟨hall, _⟩, h10⟩ := hd
      obtain ⟨n, hp, hlt, hpi⟩ := parseInt64_digits s hne hall
      have hn10 : n < 10000000000 := by
        have : 10 ^ s.length ≤ 10 ^ 10 := Nat.pow_le_pow_right (by omega) h10
        rw [pow10] at this; omega
      have h63 : ¬ n ≥ 2^63 := by omega
      unfold connectExtractTimeout
      simp only [hs, Bool.false_eq_true, if_false, hpi, h63, hp]
      have hneg : ¬ ((n : Int) < 0) := by omega
      have hw : wrap64 (1000000 * (n : Int)) = 1000000 * (n : Int) := by unfold wrap64; omega
      have ht : Int.tdiv (1000000 * (n : Int)) 1000000 = n := by
        rw [Int.tdiv_eq_ediv_of_nonneg (by omega)]; omega
      simp only [hneg, if_false, hw, ht]
      simp; omega
    · simp only [hd, Bool.false_eq_true, if_false]
      unfold Spec.connectDefinitelyMalformed
      cases s with
      | nil => exact absurd rfl hne
      | cons c rest =>
        simp only
        by_cases hm : Spec.numberMalformed (c :: rest) = true
        · unfold connectExtractTimeout
          simp [hm, parseInt64_malformed _ hm]
        · by_cases hneg : (c == 0x2D && rest.any (· != 0x30)) = true
          · simp only [hm, hneg, Bool.or_true, if_true]
            simp only [Bool.and_eq_true, beq_iff_eq] at hneg
            rw [hneg.1, neg_rejected rest hneg.2]; rfl
          · simp only [hm, hneg, Bool.or_false, Bool.false_eq_true, if_false]
            -- more than ten digits: rejected (≥ 2^63) or conveyed / clamped, never shortened
            unfold Spec.connectOverlong
            by_cases ho : (Spec.allDigits (c :: rest) && decide ((c :: rest).length > 10)) = true
            · rw [if_pos ho]
              simp only [Bool.and_eq_true, decide_eq_true_eq] at ho
              obtain ⟨n, hp, _, hpi⟩ := parseInt64_digits (c :: rest) hne ho.1
              rw [hp]
              exact connect_overlong_ok (c :: rest) n rfl hpi
            · rw [if_neg ho]
/-- **connectEncodeTimeout, every non-negative int64 duration.**  1–10 digits of milliseconds; never
    more than the duration; short by less than one millisecond unless clamped to 9999999999. -/
theorem connect_encode_spec (d : Int) (h0 : 0 ≤ d) : Spec.connectEncodeOk d (connectEncodeTimeout d) = true := by
  unfold Spec.connectEncodeOk connectEncodeTimeout
  have hneg : ¬ d < 0 := by omega
  simp only [hneg, if_false]
  rw [Int.tdiv_eq_ediv_of_nonneg h0]
  have hq0 : 0 ≤ d / 1000000 := by omega
  rw [formatInt_nonneg _ hq0]
  by_cases hlen : (formatNat (d / 1000000).toNat).length > 10
  · simp only [hlen, if_true]
    have hbig : 10000000000 ≤ (d / 1000000).toNat := by
      apply Decidable.byContradiction
      intro hlt
      have := formatNat_length_le 9 (d / 1000000).toNat (by rw [pow10]; omega)
      omega
    have : Spec.connectValue [0x39, 0x39, 0x39, 0x39, 0x39, 0x39, 0x39, 0x39, 0x39, 0x39] = some 9999999999000000 := by decide
    simp only [this]
    simp; omega
  · simp only [hlen, if_false]
    have hne := formatNat_ne_nil (d / 1000000).toNat
    have h1 : 1 ≤ (formatNat (d / 1000000).toNat).length := by
      cases h : formatNat (d / 1000000).toNat with
      | nil => exact absurd h hne
      | cons _ _ => simp
    unfold Spec.connectValue
    have hl : (formatNat (d / 1000000).toNat).length ≤ 10 := by omega
    simp only [Spec.allDigits, formatNat_allDigits, h1, hl, decide_true, Bool.and_self, if_true,
      parseNat_formatNat]
    simp; omega

private theorem grpc_range (s : Bytes) (d : Int) (h : grpcExtractTimeout s = some (some d)) : 0 ≤ d ∧ d < 2^63 := by
  unfold grpcExtractTimeout at h
  split at h
  · simp at h
  · cases hdec : grpcDecodeTimeout s with
    | noTimeout => simp [hdec] at h
    | err => simp [hdec] at h
    | ok d' =>
      simp only [hdec, Option.some.injEq] at h
      subst h
      unfold grpcDecodeTimeout at hdec
      cases hl : s.getLast? with
      | none => simp [hl] at hdec
      | some u =>
        simp only [hl] at hdec
        rcases unit_agree u with ⟨_, h0⟩ | ⟨x, _, hg, hpos, hle, _⟩
        · simp [h0] at hdec
        · simp only [hg] at hdec
          have hx0 : (x == 0) = false := by simp; omega
          simp only [hx0, Bool.false_eq_true, if_false] at hdec
          cases hp : parseInt64 s.dropLast with
          | none => simp [hp] at hdec
          | some num =>
            simp only [hp] at hdec
            by_cases h1 : num < 0
            · simp [h1] at hdec
            · by_cases h2 : num > 99999999
              · simp [h1, h2] at hdec
              · simp only [h1, h2, if_false] at hdec
                split at hdec
                · simp at hdec
                · simp only [TimeoutRes.ok.injEq] at hdec
                  subst hdec
                  rename_i hH8
                  have h3 : 0 ≤ num * x := Int.mul_nonneg (by omega) (by omega)
                  rcases hle with hx | hx
                  · subst hx
                    simp only [beq_self_eq_true, Bool.true_and, decide_eq_true_eq] at hH8
                    omega
                  · have : num * x ≤ 99999999 * 60000000000 :=
                      Int.mul_le_mul (by omega) hx (by omega) (by omega)
                    omega

private theorem connect_range (s : Bytes) (d : Int) (h : connectExtractTimeout s = some (some d)) : 0 ≤ d ∧ d < 2^63 := by
  unfold connectExtractTimeout at h
  split at h
  · simp at h
  · cases hp : parseInt64 s with
    | none => simp [hp] at h
    | some n =>
      simp only [hp] at h
      by_cases hn : n < 0
      · simp [hn] at h
      · simp only [hn, if_false] at h
        split at h
        · simp only [Option.some.injEq] at h; subst h; unfold maxInt64; omega
        · rename_i hne
          simp only [Option.some.injEq] at h; subst h
          simp only [bne_iff_ne, ne_eq, Decidable.not_not] at hne
          have hw : -2^63 ≤ wrap64 (1000000 * n) ∧ wrap64 (1000000 * n) < 2^63 := by unfold wrap64; omega
          refine ⟨?_, hw.2⟩
          apply Decidable.byContradiction
          intro hlt
          have hlt' : wrap64 (1000000 * n) < 0 := by omega
          -- a negative duration divided by 10^6 (truncating) is ≤ 0, but equals n ≥ 0, so n = 0
          have : Int.tdiv (wrap64 (1000000 * n)) 1000000 ≤ 0 := by
            have e : wrap64 (1000000 * n) = -(-(wrap64 (1000000 * n))) := by omega
            rw [e, Int.neg_tdiv, Int.tdiv_eq_ediv_of_nonneg (by omega)]
            omega
          have hn0 : n = 0 := by omega
          subst hn0
          unfold wrap64 at hlt'
          omega

/-- Whatever the client protocol extracted is a non-negative int64 duration, so the encoder
    theorems above apply to every value that can reach a backend-side encoder. -/
theorem extracted_in_range :
    (∀ s d, grpcExtractTimeout s = some (some d) → 0 ≤ d ∧ d < 2^63) ∧
    (∀ s d, connectExtractTimeout s = some (some d) → 0 ≤ d ∧ d < 2^63) :=
  ⟨grpc_range, connect_range⟩

/-- **Propagation across protocols.**  For each client encoding and each target encoding: a timeout the
    client sent is re-encoded for the backend as a valid value that does not exceed the client's and
    is short of it by less than the target's rounding unit; no timeout stays no timeout. -/
theorem propagation (s : Bytes) :
    (∀ d, grpcExtractTimeout s = some (some d) →
        Spec.grpcEncodeOk d (grpcEncodeTimeout d) = true ∧ Spec.connectEncodeOk d (connectEncodeTimeout d) = true) ∧
    (∀ d, connectExtractTimeout s = some (some d) →
        Spec.grpcEncodeOk d (grpcEncodeTimeout d) = true ∧ Spec.connectEncodeOk d (connectEncodeTimeout d) = true) ∧
    grpcExtractTimeout [] = some none ∧ connectExtractTimeout [] = some none := by
  refine ⟨fun d h => ?_, fun d h => ?_, by decide, by decide⟩
  · have r := grpc_range s d h
    exact ⟨grpc_encode_spec d r.2, connect_encode_spec d r.1⟩
  · have r := connect_range s d h
    exact ⟨grpc_encode_spec d r.2, connect_encode_spec d r.1⟩

/-- Non-vacuity: concrete headers exercising the hypotheses. -/
example : grpcExtractTimeout [0x31, 0x35, 0x53] = some (some 15000000000) := by decide
example : grpcExtractTimeout [0x39, 0x48] = some none := by decide
example : grpcExtractTimeout [0x31, 0x73] = none := by decide
example : connectExtractTimeout [0x32, 0x35, 0x30] = some (some 250000000) := by decide

/-! ### the model's timeout codecs are the ones in the source as it reads now

  `Vanguard.Gen` is regenerated from `protocol_grpc.go` / `protocol_connect.go` on every run
  (`extract/`): the unit switch, the digit and hour bounds with their comparison operators, the ladder
  of `grpcEncodeTimeout`, the length bound and clamp text of `connectEncodeTimeout`.  The theorems
  below state that the model's functions are exactly the functions these facts describe - for every
  input; a change of any of them in the source breaks the theorem. -/

/-- `a <op> b` with the operator the source uses (`strict` = `>`). -/
def over (strict : Bool) (a b : Int) : Bool := if strict then decide (a > b) else decide (a ≥ b)

/-- `grpcTimeoutUnitLookup` as the source's switch reads. -/
def grpcUnitSrc (c : UInt8) : Int := ((Gen.grpcUnits.find? fun p => p.1 == c.toNat).map (·.2)).getD Gen.grpcUnitDefault

set_option maxRecDepth 100000 in
theorem source_grpc_units_is_model : ∀ c : UInt8, grpcUnit c = grpcUnitSrc c :=
  forall_uint8 (by decide +kernel)

/-- `grpcDecodeTimeout` with the bounds and operators of the source. -/
def grpcDecodeTimeoutSrc (s : Bytes) : TimeoutRes :=
  match s.getLast? with
  | none => .noTimeout
  | some u =>
    let unit := grpcUnitSrc u
    if unit == 0 then .err else
    match parseInt64 s.dropLast with
    | none => .err
    | some num =>
      if num < 0 then .err
      else if over Gen.grpcTimeoutMaxNumStrict num Gen.grpcTimeoutMaxNum then .err
      else if unit == 3600000000000 && over Gen.grpcTimeoutMaxHoursStrict num Gen.grpcTimeoutMaxHours then .noTimeout
      else .ok (num * unit)

theorem source_grpc_decode_is_model (s : Bytes) : grpcDecodeTimeout s = grpcDecodeTimeoutSrc s := by
  unfold grpcDecodeTimeout grpcDecodeTimeoutSrc
  cases s.getLast? with
  | none => rfl
  | some u =>
    simp only [source_grpc_units_is_model u]
    have h1 : ∀ n : Int, over Gen.grpcTimeoutMaxNumStrict n Gen.grpcTimeoutMaxNum = decide (n > 99999999) := fun n => rfl
    have h2 : ∀ n : Int, over Gen.grpcTimeoutMaxHoursStrict n Gen.grpcTimeoutMaxHours = decide (n > 8) := fun n => rfl
    simp only [h1, h2, decide_eq_true_eq]
    by_cases hu : (grpcUnitSrc u == 0) = true
    · simp only [hu, if_true]
    · simp only [hu, Bool.false_eq_true, if_false]
      cases parseInt64 (List.dropLast s) <;> rfl

/-- `grpcEncodeTimeout` with the ladder of the source. -/
def grpcEncodeTimeoutSrc (d : Int) : Bytes :=
  if d ≤ 0 then [0x30, 0x6E]
  else match Gen.grpcEncodeLadder.find? fun r => decide (d < r.1 * Gen.grpcTimeoutMaxValue) with
    | some r => formatInt (d / r.2.1) ++ [UInt8.ofNat r.2.2]
    | none => formatInt (d / Gen.grpcEncodeDefault.1) ++ [UInt8.ofNat Gen.grpcEncodeDefault.2]

theorem source_grpc_encode_is_model (d : Int) : grpcEncodeTimeout d = grpcEncodeTimeoutSrc d := by
  unfold grpcEncodeTimeout grpcEncodeTimeoutSrc
  by_cases h0 : d ≤ 0
  · simp only [h0, if_true]
  · simp only [h0, if_false, Gen.grpcEncodeLadder, Gen.grpcTimeoutMaxValue, Gen.grpcEncodeDefault, List.find?]
    by_cases h1 : d < 100000000
    · simp [h1]
    · by_cases h2 : d < 100000000000
      · simp [h1, h2]
      · by_cases h3 : d < 100000000000000
        · simp [h1, h2, h3]
        · by_cases h4 : d < 100000000000000000
          · simp [h1, h2, h3, h4]
          · by_cases h5 : d < 6000000000000000000
            · simp [h1, h2, h3, h4, h5]
            · simp [h1, h2, h3, h4, h5]

/-- `connectEncodeTimeout` with the length bound and clamp text of the source. -/
def connectEncodeTimeoutSrc (d : Int) : Bytes :=
  let s := formatInt (Int.tdiv d 1000000)
  if over Gen.connectTimeoutMaxLenStrict s.length Gen.connectTimeoutMaxLen then Gen.connectTimeoutClamp.map UInt8.ofNat else s

theorem source_connect_encode_is_model (d : Int) : connectEncodeTimeout d = connectEncodeTimeoutSrc d := by
  unfold connectEncodeTimeout connectEncodeTimeoutSrc
  have h : ∀ n : Nat, over Gen.connectTimeoutMaxLenStrict n Gen.connectTimeoutMaxLen = decide (n > 10) := by
    intro n; simp [over, Gen.connectTimeoutMaxLenStrict, Gen.connectTimeoutMaxLen]; omega
  simp only [h, decide_eq_true_eq]
  rfl

end Vanguard.C12
