import Vanguard.Lemmas.Router
import Vanguard.Lemmas.PathEscape
import Vanguard.Lemmas.Captures
import Vanguard.Lemmas.UInt8
import Vanguard.Gen.Facts
/-!
  C06 — Routing dispatches exactly the method whose binding matches the request.
  Theorems about `findTarget` (the trie walk) for *every* route table, path, verb and method.
  The one hypothesis of the whole-outcome theorem `route_match_spec` - captures lie inside their
  template - is proved of every table built by `routeTrie.insert` from parsed templates
  (`built_tables_capture_in_range`), which gives `route_match_spec_built` and
  `route_match_never_panics`.
-/
namespace Vanguard.C06
open Vanguard Vanguard.Spec

private theorem route_eta (r : Route) (t : List Bytes) (h : r.segs = t) : { r with segs := t } = r := by
  cases r; simp_all

/-- **Dispatch only on a match.**  If the walk returns a binding, that binding is in the table, its
    HTTP method is the request's (or the wildcard), its verb is the request's and its template
    matches the request path under the declarative matcher. -/
theorem find_target_sound (verb method : Bytes) :
    ∀ (path : List Bytes) (routes : List Route) (r' : Route),
      findTarget routes path verb method = .target r' →
      ∃ r ∈ routes, r' = { r with segs := [] } ∧ r.verb = verb ∧
        (r.method = method ∨ r.method = wildcardMethod) ∧ segMatch r.segs path = true := by
  intro path
  induction path with
  | nil =>
    intro routes r' h
    simp only [findTarget] at h
    obtain ⟨hm, hs, hv, hmeth⟩ := getTarget_target h
    exact ⟨r', hm, (route_eta r' [] hs).symm, hv, hmeth, by simp [hs, segMatch]⟩
  | cons cur rest ih =>
    intro routes r' h
    simp only [findTarget] at h
    -- helper: lift a result found below child edge `seg`
    have lift : ∀ seg, (seg = cur ∨ seg = starSeg) →
        (∃ rc ∈ children seg routes, r' = { rc with segs := [] } ∧ rc.verb = verb ∧
          (rc.method = method ∨ rc.method = wildcardMethod) ∧ segMatch rc.segs rest = true) →
        ∃ r ∈ routes, r' = { r with segs := [] } ∧ r.verb = verb ∧
          (r.method = method ∨ r.method = wildcardMethod) ∧ segMatch r.segs (cur :: rest) = true := by
      intro seg hseg ⟨rc, hrc, he, hv, hm, hsm⟩
      obtain ⟨r, hr, hsegs, hrc'⟩ := mem_children hrc
      refine ⟨r, hr, ?_, ?_, ?_, ?_⟩
      · rw [he, hrc']
      · rw [hrc'] at hv; exact hv
      · rw [hrc'] at hm; exact hm
      · rw [hsegs]
        rcases hseg with rfl | rfl <;> simp [segMatch, hsm]
    cases h1 : findTarget (children cur routes) rest verb method with
    | target rc =>
      simp only [h1] at h
      cases h
      exact lift cur (Or.inl rfl) (ih _ _ h1)
    | methods ms => simp [h1] at h
    | none =>
      simp only [h1] at h
      cases h2 : findTarget (children starSeg routes) rest verb method with
      | target rc =>
        simp only [h2] at h
        cases h
        exact lift starSeg (Or.inr rfl) (ih _ _ h2)
      | methods ms => simp [h2] at h
      | none =>
        simp only [h2] at h
        obtain ⟨hm, hs, hv, hmeth⟩ := getTarget_target h
        obtain ⟨r, hr, hsegs, hrc'⟩ := mem_children hm
        refine ⟨r, hr, ?_, ?_, ?_, ?_⟩
        · rw [hrc', hs]
        · rw [hrc'] at hv; exact hv
        · rw [hrc'] at hmeth; exact hmeth
        · rw [hsegs, hs]; simp [segMatch]

/-- **405 only for a matching path.**  A method set is returned only if it is non-empty, does not
    contain the request's method (nor the wildcard), and every method in it belongs to a binding of
    the table whose template matches the request path and verb. -/
theorem find_methods_sound (verb method : Bytes) :
    ∀ (path : List Bytes) (routes : List Route) (ms : List Bytes),
      findTarget routes path verb method = .methods ms →
      ms ≠ [] ∧ method ∉ ms ∧ wildcardMethod ∉ ms ∧
      ∀ m ∈ ms, ∃ r ∈ routes, r.method = m ∧ routeMatches path verb r = true := by
  intro path
  induction path with
  | nil =>
    intro routes ms h
    simp only [findTarget] at h
    obtain ⟨h1, h2, h3, h4⟩ := getTarget_methods h
    refine ⟨h1, h2, h3, fun m hm => ?_⟩
    obtain ⟨r, hr, hs, hv, he⟩ := (h4 m).mp hm
    exact ⟨r, hr, he, by simp [routeMatches, hs, hv, segMatch]⟩
  | cons cur rest ih =>
    intro routes ms h
    simp only [findTarget] at h
    have lift : ∀ seg, (seg = cur ∨ seg = starSeg) →
        (ms ≠ [] ∧ method ∉ ms ∧ wildcardMethod ∉ ms ∧
          ∀ m ∈ ms, ∃ rc ∈ children seg routes, rc.method = m ∧ routeMatches rest verb rc = true) →
        ms ≠ [] ∧ method ∉ ms ∧ wildcardMethod ∉ ms ∧
          ∀ m ∈ ms, ∃ r ∈ routes, r.method = m ∧ routeMatches (cur :: rest) verb r = true := by
      intro seg hseg ⟨a, b, c, d⟩
      refine ⟨a, b, c, fun m hm => ?_⟩
      obtain ⟨rc, hrc, he, hmatch⟩ := d m hm
      obtain ⟨r, hr, hsegs, hrc'⟩ := mem_children hrc
      refine ⟨r, hr, by rw [hrc'] at he; exact he, ?_⟩
      simp only [routeMatches, Bool.and_eq_true, beq_iff_eq] at hmatch ⊢
      rw [hrc'] at hmatch
      refine ⟨?_, hmatch.2⟩
      rw [hsegs]
      rcases hseg with rfl | rfl <;> simp [segMatch, hmatch.1]
    cases h1 : findTarget (children cur routes) rest verb method with
    | target rc => simp [h1] at h
    | methods ms' =>
      simp only [h1] at h
      cases h
      exact lift cur (Or.inl rfl) (ih _ _ h1)
    | none =>
      simp only [h1] at h
      cases h2 : findTarget (children starSeg routes) rest verb method with
      | target rc => simp [h2] at h
      | methods ms' =>
        simp only [h2] at h
        cases h
        exact lift starSeg (Or.inr rfl) (ih _ _ h2)
      | none =>
        simp only [h2] at h
        obtain ⟨a, b, c, d⟩ := getTarget_methods h
        refine ⟨a, b, c, fun m hm => ?_⟩
        obtain ⟨rc, hrc, hs, hv, he⟩ := (d m).mp hm
        obtain ⟨r, hr, hsegs, hrc'⟩ := mem_children hrc
        refine ⟨r, hr, by rw [hrc'] at he; exact he, ?_⟩
        simp only [routeMatches, Bool.and_eq_true, beq_iff_eq]
        rw [hrc'] at hv
        refine ⟨?_, hv⟩
        rw [hsegs, hs]; simp [segMatch]

/-- **Completeness: a matching template is never answered 404.**  If the walk finds nothing, no
    binding of the table matches the request path and verb. -/
theorem find_none_complete (verb method : Bytes) :
    ∀ (path : List Bytes) (routes : List Route),
      findTarget routes path verb method = .none → ∀ r ∈ routes, routeMatches path verb r = false := by
  intro path
  induction path with
  | nil =>
    intro routes h r hr
    simp only [findTarget] at h
    have := getTarget_none_iff.mp h r hr
    simp only [routeMatches]
    cases hs : r.segs with
    | nil =>
      have hv : r.verb ≠ verb := fun hv => this ⟨hs, hv⟩
      simp [segMatch, hv]
    | cons _ _ => simp [segMatch]
  | cons cur rest ih =>
    intro routes h r hr
    simp only [findTarget] at h
    cases h1 : findTarget (children cur routes) rest verb method with
    | target rc => simp [h1] at h
    | methods ms => simp [h1] at h
    | none =>
      simp only [h1] at h
      cases h2 : findTarget (children starSeg routes) rest verb method with
      | target rc => simp [h2] at h
      | methods ms => simp [h2] at h
      | none =>
        simp only [h2] at h
        have n1 := ih _ h1
        have n2 := ih _ h2
        have n3 := getTarget_none_iff.mp h
        simp only [routeMatches]
        cases hs : r.segs with
        | nil => simp [segMatch]
        | cons t ts =>
          simp only [segMatch]
          apply Bool.eq_false_iff.mpr
          intro hc
          simp only [Bool.and_eq_true, Bool.or_eq_true, beq_iff_eq, List.isEmpty_iff] at hc
          obtain ⟨hc, hv⟩ := hc
          rcases hc with (⟨ht, hm⟩ | ⟨ht, hm⟩) | ⟨ht, hm⟩
          · subst ht
            have := n1 _ (children_mem hr hs)
            simp [routeMatches, hm, hv] at this
          · subst ht
            have := n2 _ (children_mem hr hs)
            simp [routeMatches, hm, hv] at this
          · subst ht; subst hm
            exact n3 _ (children_mem hr hs) ⟨rfl, hv⟩

/-- **404 exactly when nothing matches.**  Converse direction: if no binding matches the path and
    verb the walk finds nothing (so the request gets 404 / the unknown-endpoint handler). -/
theorem no_match_404 (verb method : Bytes) (path : List Bytes) (routes : List Route)
    (h : ∀ r ∈ routes, routeMatches path verb r = false) : findTarget routes path verb method = .none := by
  cases hres : findTarget routes path verb method with
  | none => rfl
  | target r' =>
    obtain ⟨r, hr, _, hv, _, hm⟩ := find_target_sound verb method path routes r' hres
    have := h r hr
    simp [routeMatches, hm, hv] at this
  | methods ms =>
    obtain ⟨hne, _, _, hall⟩ := find_methods_sound verb method path routes ms hres
    cases ms with
    | nil => exact absurd rfl hne
    | cons m _ =>
      obtain ⟨r, hr, _, hm⟩ := hall m (by simp)
      rw [h r hr] at hm
      exact absurd hm (by simp)


/-- **Literal precedence.**  If some binding's template is literally the request path (and verb),
    the outcome is decided among exactly those bindings (`litRoutes`): the walk never prefers a
    wildcard template over it, for any table. -/
theorem literal_precedence (verb method : Bytes) :
    ∀ (path : List Bytes) (routes : List Route),
      (∃ r ∈ routes, r.segs = path ∧ r.verb = verb) →
      findTarget routes path verb method = getTarget (litRoutes path routes) verb method := by
  intro path
  induction path with
  | nil => intro routes _; simp only [findTarget]; exact (getTarget_lit_nil routes verb method).symm
  | cons cur rest ih =>
    intro routes ⟨r, hr, hs, hv⟩
    simp only [findTarget]
    have hc : ∃ rc ∈ children cur routes, rc.segs = rest ∧ rc.verb = verb :=
      ⟨{ r with segs := rest }, children_mem hr hs, rfl, hv⟩
    rw [ih _ hc, litRoutes_children]
    have hne : getTarget (litRoutes (cur :: rest) routes) verb method ≠ .none := by
      intro hn
      have := getTarget_none_iff.mp hn { r with segs := [] } (mem_litRoutes.mpr ⟨r, hr, hs, rfl⟩)
      exact this ⟨rfl, hv⟩
    cases hg : getTarget (litRoutes (cur :: rest) routes) verb method with
    | none => exact absurd hg hne
    | target _ => rfl
    | methods _ => rfl

/-- **Order independence.**  Two tables holding the same bindings in a different registration
    order (and no two bindings with the same segments, verb and method — which `insert` enforces,
    see `accepted_tables_have_distinct_keys`) give the same outcome for every path, verb and method:
    the same binding, or the same `Allow` set, or 404. -/
theorem order_independent (verb method : Bytes) (path : List Bytes) (l₁ l₂ : List Route)
    (hp : l₁.Perm l₂) (hk : KeyInj l₁) :
    FoundEq (findTarget l₁ path verb method) (findTarget l₂ path verb method) :=
  findTarget_perm verb method path l₁ l₂ hp hk

/-- Every table `addRoutes` accepts has pairwise distinct (segments, verb, method) keys. -/
theorem accepted_tables_have_distinct_keys (rules : List (Bytes × Bytes)) (routes : List Route)
    (h : addRoutes 0 [] rules = .ok routes) : KeyInj routes :=
  addRoutes_keyInj rules 0 [] routes (fun _ ha => by simp at ha) h

/-- **Captures are decoded exactly once (single-segment variables).**  Decoding the canonical
    escaping of any byte string gives the string back, so a captured value is the client's value. -/
theorem unescape_escape_single (s : Bytes) : pathUnescape .single (pathEscape .single s) = some s :=
  Vanguard.unescape_escape_single s

/-- `%2F` stays encoded in multi-segment captures and `%25` is decoded once (witnesses). -/
example : pathUnescape .multi [0x61, 0x25, 0x32, 0x46, 0x62] = some [0x61, 0x25, 0x32, 0x46, 0x62] := by decide
example : pathUnescape .single [0x61, 0x25, 0x32, 0x46, 0x62] = some [0x61, 0x2F, 0x62] := by decide
example : pathUnescape .single [0x31, 0x30, 0x30, 0x25, 0x32, 0x35] = some [0x31, 0x30, 0x30, 0x25] := by decide

/-- Variable ranges of every binding lie inside its template, so capturing from a path the
    template matches cannot slice out of range (established by the parser; validated by the
    correspondence; stated as an explicit hypothesis here). -/
def CapturesInRange (routes : List Route) : Prop :=
  ∀ r ∈ routes, ∀ path, segMatch r.segs path = true → captureAll path r.tmpl.vars ≠ .panic

private theorem segMatch_refl (p : List Bytes) : segMatch p p = true := by
  induction p with
  | nil => rfl
  | cons a t ih => simp [segMatch, ih]

/-- **The whole `routeTrie.match` outcome satisfies the routing oracle**, for every table, raw path
    and HTTP method: dispatch only to a matching binding with the spec's captures, `Allow` only
    from matching bindings, 404 only when nothing matches, literal templates first.  The same
    `routeOutcomeOk` is what the check evaluates on the implementation's results. -/
theorem route_match_spec (routes : List Route) (uriPath method : Bytes) (hc : CapturesInRange routes) :
    routeOutcomeOk routes uriPath method (routeMatch routes uriPath method) = true := by
  unfold routeOutcomeOk routeMatch
  split
  · rename_i rest
    split
    · simp
    · simp only
      generalize hpv : splitVerb (splitOnByte 0x2F rest) = pv
      obtain ⟨path, verb⟩ := pv
      simp only
      cases hres : findTarget routes path verb method with
      | none =>
        simp only
        have := find_none_complete verb method path routes hres
        have : routes.filter (routeMatches path verb) = [] := by
          rw [List.filter_eq_nil_iff]; intro r hr; simp [this r hr]
        simp [this]
      | methods ms =>
        simp only
        obtain ⟨h1, h2, h3, h4⟩ := find_methods_sound verb method path routes ms hres
        have hlit : ∀ m ∈ ms, ∃ r ∈ routes, r.method = m ∧ routeMatches path verb r = true ∧
            ((routes.filter (routeMatches path verb)).filter (fun r => r.segs == path) = [] ∨ r.segs = path) := by
          intro m hm
          by_cases hl : ∃ r ∈ routes, r.segs = path ∧ r.verb = verb
          · have hp := literal_precedence verb method path routes hl
            rw [hres] at hp
            obtain ⟨_, _, _, h4'⟩ := getTarget_methods hp.symm
            obtain ⟨x, hx, _, hxv, hxm⟩ := (h4' m).mp hm
            obtain ⟨r, hr, hrs, hxe⟩ := mem_litRoutes.mp hx
            subst hxe
            refine ⟨r, hr, hxm, ?_, Or.inr hrs⟩
            simp only [routeMatches, Bool.and_eq_true, beq_iff_eq]
            exact ⟨by rw [hrs]; exact segMatch_refl path, hxv⟩
          · obtain ⟨r, hr, hrm, hmatch⟩ := h4 m hm
            refine ⟨r, hr, hrm, hmatch, Or.inl ?_⟩
            rw [List.filter_eq_nil_iff]
            intro x hx hxs
            simp only [List.mem_filter, routeMatches, Bool.and_eq_true, beq_iff_eq] at hx hxs
            exact hl ⟨x, hx.1, hxs, hx.2.2⟩
        simp only [Bool.and_eq_true, Bool.not_eq_true', List.isEmpty_eq_false_iff, List.all_eq_true,
          List.any_eq_true, List.mem_filter, Bool.or_eq_true, List.isEmpty_iff, beq_iff_eq,
          List.contains_eq_mem, decide_eq_false_iff_not]
        refine ⟨⟨⟨h1, ?_⟩, ?_⟩, ?_⟩
        · simpa using h2
        · simpa using h3
        · intro m hm
          obtain ⟨r, hr, hrm, hmatch, hl⟩ := hlit m hm
          exact ⟨r, ⟨hr, hmatch⟩, hrm, hl⟩
      | target r' =>
        simp only
        have hw : ∃ w ∈ routes, r' = { w with segs := [] } ∧ w.verb = verb ∧
            (w.method = method ∨ w.method = wildcardMethod) ∧ segMatch w.segs path = true ∧
            ((routes.filter (routeMatches path verb)).filter (fun r => r.segs == path) = [] ∨ w.segs = path) := by
          by_cases hl : ∃ r ∈ routes, r.segs = path ∧ r.verb = verb
          · have hp := literal_precedence verb method path routes hl
            rw [hres] at hp
            obtain ⟨hx, _, hxv, hxm⟩ := getTarget_target hp.symm
            obtain ⟨r0, hr0, hrs0, hxe⟩ := mem_litRoutes.mp hx
            subst hxe
            exact ⟨r0, hr0, rfl, hxv, hxm, by rw [hrs0]; exact segMatch_refl path, Or.inr hrs0⟩
          · obtain ⟨r, hr, he, hv, hm, hsm⟩ := find_target_sound verb method path routes r' hres
            refine ⟨r, hr, he, hv, hm, hsm, Or.inl ?_⟩
            rw [List.filter_eq_nil_iff]
            intro x hx hxs
            simp only [List.mem_filter, routeMatches, Bool.and_eq_true, beq_iff_eq] at hx hxs
            exact hl ⟨x, hx.1, hxs, hx.2.2⟩
        obtain ⟨w, hwr, he, hv, hm, hsm, hlit⟩ := hw
        have hmatch : routeMatches path verb w = true := by simp [routeMatches, hsm, hv]
        have hvars : r'.tmpl.vars = w.tmpl.vars := by rw [he]
        have hidx : r'.idx = w.idx := by rw [he]
        cases hcap : captureAll path r'.tmpl.vars with
        | panic => exact absurd (hvars ▸ hcap) (hc w hwr path hsm)
        | err =>
          simp only [List.any_eq_true, List.mem_filter, Bool.or_eq_true, List.isEmpty_iff, beq_iff_eq]
          right
          exact ⟨w, ⟨hwr, hmatch⟩, by rw [← hvars]; exact hcap⟩
        | ok vars =>
          simp only [List.any_eq_true, List.mem_filter, Bool.and_eq_true, Bool.or_eq_true, beq_iff_eq,
            List.isEmpty_iff]
          exact ⟨w, ⟨hwr, hmatch⟩, ⟨⟨hidx.symm, hm⟩, by rw [← hvars]; exact hcap⟩, hlit⟩
  · simp

/-- Non-vacuity: a two-route table where the wildcard route matches and the literal one does not. -/
example :
    let t : Template := { segs := [], verb := [], vars := [] }
    let lit : Route := { segs := [[0x61], [0x62]], verb := [], method := [0x47], idx := 0, tmpl := t }
    let wild : Route := { segs := [[0x61], starSeg], verb := [], method := [0x47], idx := 1, tmpl := t }
    (match findTarget [lit, wild] [[0x61], [0x63]] [] [0x47] with | .target r => r.idx | _ => 99) = 1 := by
  decide

/-! ### the hypothesis `CapturesInRange` holds for every table the transcoder can build -/

/-- **Tables built by `routeTrie.insert` have their captures in range**: every template the parser
    accepts keeps each bounded variable inside its segments, and a matched path is at least as long as
    the template. -/
theorem built_tables_capture_in_range (rules : List (Bytes × Bytes)) (routes : List Route)
    (h : addRoutes 0 [] rules = .ok routes) : CapturesInRange routes :=
  routesOk_captures routes (addRoutes_ok rules 0 [] routes h (fun _ hr => by simp at hr))

/-- **`route_match_spec` without hypothesis** for every table of bindings the transcoder accepts. -/
theorem route_match_spec_built (rules : List (Bytes × Bytes)) (routes : List Route)
    (h : addRoutes 0 [] rules = .ok routes) (uriPath method : Bytes) :
    routeOutcomeOk routes uriPath method (routeMatch routes uriPath method) = true :=
  route_match_spec routes uriPath method (built_tables_capture_in_range rules routes h)

/-- **Routing never panics** on a table the transcoder accepted, whatever the request path and method
    (no capture slices out of range). -/
theorem route_match_never_panics (rules : List (Bytes × Bytes)) (routes : List Route)
    (h : addRoutes 0 [] rules = .ok routes) (uriPath method : Bytes) :
    routeMatch routes uriPath method ≠ .panic := by
  intro hp
  have := route_match_spec_built rules routes h uriPath method
  rw [hp] at this
  unfold routeOutcomeOk at this
  split at this
  · split at this
    · simp at this
    · simp at this
  · simp at this

/-- Non-vacuity: a table with a bounded and an unbounded capture is accepted. -/
example : (addRoutes 0 [] [("GET".toUTF8.toList, "/v1/{name=shelves/*}/books/{rest=**}".toUTF8.toList)]).toOption.isSome = true := by
  decide +kernel

/-! ### the character classes of the model are the ones in the source as it reads now

  `Gen.*Src` are translated expression by expression from `path_scanner.go` / `path_parser.go` on every
  run (`extract/`).  For every byte the model's class is the source's; a change of a bound, an operator or
  a character in the source breaks this theorem. -/

set_option maxRecDepth 100000 in
theorem source_char_classes_are_model : ∀ c : UInt8,
    isIdentStart c = Gen.isIdentStartSrc c ∧ isDigitC c = Gen.isDigitSrc c ∧ isIdent c = Gen.isIdentSrc c ∧
    isFieldPath c = Gen.isFieldPathSrc c ∧ isVariable c = Gen.isVariableSrc c ∧ isLiteral c = Gen.isLiteralSrc c ∧
    (!isVariable c) = Gen.pathShouldEscapeSrc c :=
  forall_uint8 (by decide +kernel)

end Vanguard.C06
