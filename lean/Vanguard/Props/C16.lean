import Vanguard.Model.Run
import Vanguard.Spec.Progress
import Vanguard.Props.C11
import Vanguard.Lemmas.Frame
import Vanguard.Lemmas.ReadReach
import Vanguard.Lemmas.ReframeConserve
/-!
  # C16 — streaming RPCs make progress message by message

  The model mirrors the chunk-level control flow of the adapters (`Read(n)` / `Write(chunk)` are its
  units) and its sink records when `Flush` is called, so hidden buffering is visible in it.

  Proved here, for every state of the adapters:
  * response direction: when the client protocol streams (`responseWriter.buf = nil`) the
    per-message flush puts everything written so far on the wire (`flushMessage_streaming`), and a
    response message that the transforming writer has converted successfully is on the wire when
    the call returns (`twFlushMessage_forwards`); only when the end must precede the body
    (`buf ≠ nil`: Connect unary, REST) is the flush withheld (`flushMessage_deferred`);
  * request direction: a `Read` that can be served from the message in hand - rest of an envelope,
    rest of a converted message - does not touch the client's body (`trRead_no_lookahead`,
    `erRead_envelope_no_pull`), and the reader of one re-enveloped message never takes more than
    that message's announced length, nothing at all once it is exhausted
    (`limited_never_exceeds`, `limited_exhausted_no_pull`).

  * **whole `Write` calls on the re-encoding path** (`twWrite_keeps`, by induction over the write
    loop): whatever the backend writes - any number of messages, split anywhere, malformed or
    over the limit, errors included - when `transformingWriter.Write` returns, everything written to
    a streaming client so far has been flushed (`AllFlushed` is an invariant of the writer).

  * **whole `Write` calls on the re-framing path** (`ewLoop_flushed_at_boundaries`, `ewWrite_flushed_at_boundaries`):
    the re-framing writer streams a message through while the backend is still writing it, so bytes of
    an unfinished message may be unflushed; but whenever the writer is *between messages* (waiting for
    the next envelope) everything written to a streaming client so far has been flushed - for any
    backend output, split anywhere, errors included.  So a complete response message is on the wire
    when the `Write` call that completed it returns.

  * **whole runs, response direction** (`runScript_prog`, `nothing_complete_is_held_back`,
    `serve_handler_makes_progress`): `ProgInv` is an invariant of every handler script - any sequence of
    reads of any size, header changes, `WriteHeader`, `Write` calls with any bytes split anywhere,
    `Flush`, `Close`, stopped at any point - from the state `ServeHTTP` hands to the handler.  So while
    the RPC is open and the client's protocol streams, after *every* call of the handler everything
    written on the re-encoding path is flushed, and on the re-framing path everything is flushed
    whenever the writer is between messages.  The proof goes through frame lemmas for every writer
    function (`Lemmas/Frame.lean`) and the closure of what the request readers can do to the request
    state (`Lemmas/ReadReach.lean`).

  * **whole runs, request direction, re-framing path** (`reframing_reader_holds_back_nothing`, from
    `erRead_conserves` in `Lemmas/ReframeConserve.lean`): after any sequence of successful reads of any
    sizes the bytes handed to the handler plus at most five pending envelope bytes plus what is left of
    the client's body add up to the body - the reader takes nothing of a later message early.

  NOT proved (partial): the request direction for whole runs on the re-encoding path - "delivering
  message k consumes at most k client messages" as an invariant of `runScript` (per `Read` call it is
  `trRead_no_lookahead`; by construction a whole message is read only when the previous one is used up).  For whole runs it is the executable predicate
  `Spec.reqStepOk` (and `Spec.respStepOk` for the response direction, now also a theorem of the model),
  evaluated on the progress logs of the implementation for every scenario (and the model's logs are
  compared with the implementation's, flush offsets included), plus a lock-step client in the harness
  that reports the first `Read` which would block for ever.  A real HTTP/2 connection (flow control,
  the net/http server's own buffering) is outside the model.
-/
namespace Vanguard.C16
open Vanguard

/-- With a streaming client protocol the per-message flush leaves nothing unflushed. -/
theorem flushMessage_streaming (st : St) (h : st.rw.buf = none) :
    (flushMessage st).sink.flushedN = some (flushMessage st).sink.items.length := by
  simp [flushMessage, h, Sink.flush]

/-- The flush is withheld exactly when the whole response is being buffered because the outcome
    must precede the body. -/
theorem flushMessage_deferred (st : St) (h : st.rw.buf.isSome = true) : flushMessage st = st := by
  simp [flushMessage, h]

theorem writeDown_streaming (w : World) (st : St) (b : Bytes) (h : st.rw.buf = none) :
    writeDown w st b = ({ st with sink := st.sink.write b }, false, false) := by
  simp [writeDown, h]

/-- **A response message converted by the transforming writer is on the wire when `Write`
    returns**: if `flushMessage` of the writer succeeds on a data message for a streaming client,
    then everything written to the client so far - this message included - has been flushed. -/
theorem twFlushMessage_forwards (w : World) (tb : Tables) (st st' : St) (t t' : TW)
    (hb : st.rw.buf = none) (hd : t.latest.trailer = false)
    (h : twFlushMessage w tb st t = (st', t', none, false)) :
    st'.sink.flushedN = some st'.sink.items.length := by
  unfold twFlushMessage at h
  simp only [hd, Bool.false_eq_true, if_false] at h
  split at h
  · simp at h
  · rename_i out _
    cases hce : st.op.clientEnveloper with
    | none =>
      simp only [hce, writeDown, hb, Option.isSome_none, Bool.false_eq_true, if_false, Bool.or_self] at h
      simp only [Prod.mk.injEq] at h
      rw [← h.1]
      exact flushMessage_streaming _ hb
    | some ce =>
      simp only [hce] at h
      by_cases hl : out.length > st.op.conf.maxMsg
      · simp [hl] at h
      · simp only [hl, if_false, writeDown, hb, Option.isSome_none, Bool.false_eq_true, if_false, Bool.or_self] at h
        simp only [Prod.mk.injEq] at h
        rw [← h.1]
        exact flushMessage_streaming _ hb

/-- **No look-ahead in the transforming reader**: a `Read` that can be answered from what is left
    of the current envelope or of the current converted message returns without touching the
    client's body (and without any other effect on the request state). -/
theorem trRead_no_lookahead (w : World) (pl : HandlePlan) (fuel : Nat) (st : St) (r : TR) (n : Nat)
    (he : r.err = none) (hwf : r.envRemain ≤ 5 ∧ r.env.length = 5)
    (h : 0 < r.envRemain ∨ (∃ buf, r.buffer = some buf ∧ buf ≠ [] ∧ 0 < n)) :
    (trRead w pl (fuel + 1) st r n).2.2.1 = st := by
  unfold trRead
  simp only [he]
  by_cases h1 : n < r.envRemain
  · simp [h1]
  · simp only [h1, if_false]
    by_cases hpos : 0 < r.envRemain
    · have hp : (r.env.drop (5 - r.envRemain)).length > 0 := by
        rw [List.length_drop, hwf.2]; omega
      simp only [hpos, if_true]
      cases hb : r.buffer with
      | none =>
        simp only
        rw [if_pos (by simp; omega)]
      | some buf =>
        simp only
        split
        · rw [if_pos (by simp; omega)]
        · rw [if_pos (by simp; omega)]
    · rcases h with hp | ⟨buf, hbuf, hne, hn⟩
      · exact absurd hp hpos
      · have h0 : r.envRemain = 0 := by omega
        simp only [h0, Nat.lt_irrefl, if_false, List.length_nil, hbuf, Nat.sub_zero, hn, if_true, Nat.zero_add]
        have : (buf.take n).length > 0 := by
          rw [List.length_take]
          have : 0 < buf.length := List.length_pos_iff.mpr hne
          omega
        rw [if_pos this]

/-- The same for the re-enveloping reader while it is still handing out an envelope. -/
theorem erRead_envelope_no_pull (w : World) (st : St) (r : ER) (n : Nat)
    (he : r.err = none) (h : 0 < r.envRemain) : (erRead w st r n).2.2.1 = st := by
  unfold erRead
  simp [he, h]

/-- The reader of one re-enveloped message (`exactReader`) takes at most the announced number of
    bytes from the client's body ... -/
theorem limited_never_exceeds (w : World) (st : St) (k n : Nat) :
    (erCurRead w st (.limited k) n).1.length ≤ k := by
  unfold erCurRead
  by_cases hk : k = 0
  · simp [hk]
  · have hk' : (k == 0) = false := by simpa using hk
    simp only [hk', Bool.false_eq_true, if_false]
    -- a `Read(m)` on the body returns at most `m` bytes
    have : ∀ (src : Source) (m : Nat), (src.read m).1.length ≤ m := by
      intro src m
      unfold Source.read
      split
      · simp
      · split
        · simp
        · simp [List.length_take]; omega
    exact Nat.le_trans (this st.src (min n k)) (Nat.min_le_right n k)

/-- ... and once the message is exhausted it does not touch the body at all: the next message is
    read only when the handler asks for more. -/
theorem limited_exhausted_no_pull (w : World) (st : St) (n : Nat) :
    erCurRead w st (.limited 0) n = ([], some .eof, st, .limited 0, false) := by
  simp [erCurRead]

/-! ### whole `Write` calls of the transforming writer -/

/-- Everything written to a streaming client is on the wire (nothing is claimed while the whole
    response is being buffered for a client whose outcome must precede the body). -/
def AllFlushed (st : St) : Prop := st.rw.buf = none → st.sink.flushedN.getD 0 = st.sink.items.length

theorem flush_allFlushed (st : St) (rw : RW) : AllFlushed { st with sink := st.sink.flush, rw := rw } := by
  intro _; simp [Sink.flush]

theorem reportEnd_keeps (w : World) (st : St) (e : RespEnd) (h : AllFlushed st) : AllFlushed (reportEnd w st e).1 := by
  unfold reportEnd
  by_cases h1 : st.rw.endWritten = true
  · simp [h1]; exact h
  · simp only [h1, Bool.false_eq_true, if_false]
    intro _
    simp [Sink.flush]

theorem reportError_keeps (w : World) (st : St) (err : Err) (h : AllFlushed st) : AllFlushed (reportError w st err).1 := by
  unfold reportError
  split
  · split
    · exact h
    · exact reportEnd_keeps w st _ h
  · exact reportEnd_keeps w st _ h


theorem handleEndMessage_keeps (w : World) (tb : Tables) (st : St) (c : Bool) (d : Bytes) (r : Bool)
    (h : AllFlushed st) : AllFlushed (handleEndMessage w tb st c d r).1 := by
  unfold handleEndMessage
  simp only
  split
  · split
    · exact reportError_keeps w st _ h
    · exact h
  · split
    · exact reportError_keeps w st _ h
    · exact reportEnd_keeps w st _ h

theorem flushMessage_keeps (st : St) (h : AllFlushed st) : AllFlushed (flushMessage st) := by
  unfold flushMessage
  split
  · exact h
  · intro _; simp [Sink.flush]

/-- Writing to the client and flushing right after leaves nothing unflushed; writing into the
    whole-response buffer keeps the claim vacuous; an over-limit buffer is an error that is flushed. -/
theorem writeDown_then_flush (w : World) (st : St) (b : Bytes) (h : AllFlushed st) :
    AllFlushed (flushMessage (writeDown w st b).1) := by
  unfold writeDown
  cases hb : st.rw.buf with
  | none => intro _; simp [flushMessage, hb, Sink.flush]
  | some buf =>
    simp only
    split
    · exact flushMessage_keeps _ (reportError_keeps w st (.rpc 8) h)
    · intro hn; simp [flushMessage] at hn


/-- While the whole response is buffered, a write keeps the claim (it appends to the buffer, or
    reports the size error, which flushes). -/
theorem writeDown_buffered_keeps (w : World) (st : St) (b : Bytes) (buf : Bytes) (hb : st.rw.buf = some buf)
    (h : AllFlushed st) : AllFlushed (writeDown w st b).1 := by
  unfold writeDown
  simp only [hb]
  split
  · exact reportError_keeps w st (.rpc 8) h
  · intro hn; simp at hn

theorem writeDown_streaming' (w : World) (st : St) (b : Bytes) (h : st.rw.buf = none) :
    writeDown w st b = ({ st with sink := st.sink.write b }, false, false) := by
  simp [writeDown, h]

/-- A write that fails (size limit of the whole-response buffer) has reported the error. -/
theorem writeDown_bad_keeps (w : World) (st : St) (b : Bytes) (h : AllFlushed st)
    (hbad : ((writeDown w st b).2.1 || (writeDown w st b).2.2) = true) : AllFlushed (writeDown w st b).1 := by
  unfold writeDown at hbad ⊢
  cases hb : st.rw.buf with
  | none => simp [hb] at hbad
  | some buf =>
    simp only [hb] at hbad ⊢
    split
    · exact reportError_keeps w st (.rpc 8) h
    · rename_i hlim; simp [hlim] at hbad

theorem twFlushMessage_keeps (w : World) (tb : Tables) (st : St) (t : TW) (h : AllFlushed st) :
    AllFlushed (twFlushMessage w tb st t).1 := by
  unfold twFlushMessage
  simp only
  split
  · -- end-of-stream message
    have := handleEndMessage_keeps w tb st t.latest.compressed (t.buffer.getD []) false h
    split <;> exact this
  · split
    · exact h
    · rename_i out _
      cases hb : st.rw.buf with
      | none =>
        -- streaming client: envelope and message go to the wire and are flushed
        cases hce : st.op.clientEnveloper with
        | none =>
          simp only [writeDown, hb, Option.isSome_none, Bool.false_eq_true, if_false, Bool.or_self]
          intro _; simp [flushMessage, hb, Sink.flush]
        | some ce =>
          simp only
          split
          · simp only [Option.isSome_some, Bool.true_or, if_true]; exact h
          · simp only [writeDown, hb, Option.isSome_none, Bool.false_eq_true, if_false, Bool.or_self]
            intro _; simp [flushMessage, hb, Sink.flush]
      | some buf =>
        cases hce : st.op.clientEnveloper with
        | none =>
          simp only [Option.isSome_none, Bool.false_eq_true, if_false, Bool.or_self]
          generalize hr : writeDown w st out = r
          obtain ⟨s1, f1, p1⟩ := r
          simp only
          by_cases hbad : (f1 || p1) = true
          · simp only [hbad, if_true]
            have := writeDown_bad_keeps w st out h (by rw [hr]; exact hbad)
            rw [hr] at this; exact this
          · simp only [hbad, Bool.false_eq_true, if_false]
            have := writeDown_then_flush w st out h
            rw [hr] at this; exact this
        | some ce =>
          simp only
          split
          · simp only [Option.isSome_some, Bool.true_or, if_true]; exact h
          · generalize hr1 : writeDown w st (ce.encode _) = r1
            obtain ⟨s1, f1, p1⟩ := r1
            have hs1 : AllFlushed s1 := by
              have := writeDown_buffered_keeps w st
                (ce.encode { compressed := t.msgCompressed && st.rw.cRespComp.isSome, length := List.length out }) buf hb h
              rw [hr1] at this; exact this
            simp only
            by_cases hbad1 : ((if f1 = true then some Err.closed else none).isSome || p1) = true
            · simp only [hbad1, if_true]; exact hs1
            · simp only [hbad1, Bool.false_eq_true, if_false]
              generalize hr2 : writeDown w s1 out = r2
              obtain ⟨s2, f2, p2⟩ := r2
              simp only
              by_cases hbad2 : (f2 || p2) = true
              · simp only [hbad2, if_true]
                have := writeDown_bad_keeps w s1 out hs1 (by rw [hr2]; exact hbad2)
                rw [hr2] at this; exact this
              · simp only [hbad2, Bool.false_eq_true, if_false]
                have := writeDown_then_flush w s1 out hs1
                rw [hr2] at this; exact this


/-- **Whole `Write` calls of the transforming writer**: whatever the backend writes - any number of
    messages, split anywhere, well-formed or not, errors included - when the call returns everything
    that was written to a streaming client has been flushed. -/
theorem twLoop_keeps (w : World) (tb : Tables) : ∀ (fuel : Nat) (st : St) (t : TW) (data : Bytes),
    AllFlushed st → AllFlushed (twLoop w tb fuel st t data).1 := by
  intro fuel
  induction fuel with
  | zero => intro st t data h; simpa [twLoop] using h
  | succ fuel ih =>
    intro st t data h
    unfold twLoop
    split
    · exact h
    · simp only
      split
      · exact h
      · split
        · exact h
        · split
          · -- an envelope has been completed
            split
            · rename_i se f a b c d _ _
              split
              · exact reportError_keeps w st _ h
              · split
                · exact reportError_keeps w st _ h
                · exact ih _ _ _ h
            · exact h
          · -- a message has been completed
            generalize hr : twFlushMessage w tb st _ = r
            obtain ⟨s1, t1, err, p⟩ := r
            have key := fun tt => twFlushMessage_keeps w tb st tt h
            have hs1 : AllFlushed s1 := by
              have e : s1 = (s1, t1, err, p).1 := rfl
              rw [e, ← hr]; exact key _
            simp only
            split
            · exact hs1
            · split
              · exact reportError_keeps w s1 _ hs1
              · split
                · exact hs1
                · exact ih _ _ _ hs1

theorem twWrite_keeps (w : World) (tb : Tables) (st : St) (t : TW) (data : Bytes) (h : AllFlushed st) :
    AllFlushed (twWrite w tb st t data).1 := by
  unfold twWrite
  split
  · exact h
  · simp only
    generalize (if t.buffer.isNone = true then twReset st t else t) = t'
    split
    · split
      · exact reportError_keeps w st _ h
      · exact h
    · exact twLoop_keeps w tb _ st _ data h


/-! ### the re-framing writer: flushed whenever it is between messages -/

/-- Between messages (the writer collects the next envelope) everything written to a streaming client is flushed. -/
def FlushedAtBoundary (st : St) (e : EW) : Prop :=
  st.rw.buf = none → e.writingEnvelope = true → st.sink.flushedN.getD 0 = st.sink.items.length

theorem ewWritePiece_env_state (w : World) (st : St) (e : EW) (piece : Bytes) (hw : e.writingEnvelope = true) :
    (ewWritePiece w st e piece).1 = st := by
  unfold ewWritePiece; simp [hw]

theorem boundary_vacuous (st : St) (e : EW) (h : e.writingEnvelope = false) : FlushedAtBoundary st e := by
  intro _ hw; rw [h] at hw; cases hw

/-- **Any number of `Write` bytes on the re-framing path.** -/
theorem ewLoop_flushed_at_boundaries (w : World) (tb : Tables) : ∀ (n : Nat) (st : St) (e : EW) (data : Bytes),
    FlushedAtBoundary st e → FlushedAtBoundary (ewLoop w tb n st e data).1 (ewLoop w tb n st e data).2.1 := by
  intro n
  induction n with
  | zero => intro st e data h; simpa [ewLoop] using h
  | succ m ih =>
    intro st e data hinv
    unfold ewLoop
    by_cases herr : e.err = true
    · simp only [herr, if_true]; exact hinv
    · simp only [herr, Bool.false_eq_true, if_false]
      by_cases hlt : (data.length : Int) < e.remaining
      · simp only [hlt, if_true]
        by_cases hw : e.writingEnvelope = true
        · -- part of an envelope: nothing reaches the client
          have hs := ewWritePiece_env_state w st e data hw
          have hf := (C11.ewWritePiece_flags w st e data).1
          generalize ewWritePiece w st e data = r1 at hs hf ⊢
          obtain ⟨s1, e1, f1, p1⟩ := r1
          simp only at hs hf ⊢
          subst hs
          intro hb _
          exact hinv hb hw
        · have hwf : e.writingEnvelope = false := by simpa using hw
          have hf := (C11.ewWritePiece_flags w st e data).1
          generalize ewWritePiece w st e data = r1 at hf ⊢
          obtain ⟨s1, e1, f1, p1⟩ := r1
          simp only at hf ⊢
          exact boundary_vacuous _ _ (by simp only; rw [hf]; exact hwf)
      · simp only [hlt, if_false]
        have hf := (C11.ewWritePiece_flags w st e (data.take e.remaining.toNat)).1
        have hs := ewWritePiece_env_state w st e (data.take e.remaining.toNat)
        generalize ewWritePiece w st e (data.take e.remaining.toNat) = r1 at hf hs ⊢
        obtain ⟨s1, e1, f1, p1⟩ := r1
        simp only at hf hs ⊢
        by_cases hbad : (f1 || p1) = true
        · simp only [hbad, if_true]
          by_cases hw : e.writingEnvelope = true
          · have := hs hw; subst this
            intro hb _; exact hinv hb hw
          · exact boundary_vacuous _ _ (by simp only; rw [hf]; simpa using hw)
        · simp only [hbad, Bool.false_eq_true, if_false]
          by_cases hw : e1.writingEnvelope = true
          · simp only [hw, if_true]
            have hnw := fun ee => C11.ewEnvelopeWritten_not_writing w s1 ee
            generalize hr2 : ewEnvelopeWritten w s1 _ = r2
            have hnw' : r2.2.1.writingEnvelope = false := by rw [← hr2]; exact hnw _
            obtain ⟨s2, e2, f2, p2⟩ := r2
            simp only at hnw' ⊢
            split
            · exact boundary_vacuous _ _ hnw'
            · exact ih _ _ _ (boundary_vacuous _ _ hnw')
          · have hwf : e1.writingEnvelope = false := by simpa using hw
            simp only [hwf, Bool.false_eq_true, if_false]
            by_cases ht : e1.currentIsTrailer = true
            · simp only [ht, if_true]
              split
              · generalize handleEndMessage w tb s1 _ _ true = r3
                obtain ⟨s2, err, p2⟩ := r3
                simp only
                split
                · exact boundary_vacuous _ _ rfl
                · split
                  · exact boundary_vacuous _ _ rfl
                  · exact ih _ _ _ (boundary_vacuous _ _ rfl)
              · exact boundary_vacuous _ _ rfl
            · -- a message has been completed: flush, then wait for the next envelope
              simp only [ht, Bool.false_eq_true, if_false]
              apply ih
              intro hb _
              simp only [flushMessage] at hb ⊢
              by_cases hbuf : s1.rw.buf.isSome = true
              · simp only [hbuf, if_true] at hb
                rw [hb] at hbuf; cases hbuf
              · simp [hbuf, Sink.flush]

/-- **Whole `Write` calls of the re-framing writer** (a writer that was never used starts on a response
    of which nothing is unflushed): between messages everything is flushed. -/
theorem ewWrite_flushed_at_boundaries (w : World) (tb : Tables) (st : St) (e : EW) (data : Bytes)
    (hJ : FlushedAtBoundary st e) (h0 : e.initialized = false → AllFlushed st ∧ e.writingEnvelope = false) :
    FlushedAtBoundary (ewWrite w tb st e data).1 (ewWrite w tb st e data).2.1 := by
  have hinit : FlushedAtBoundary (ewInit w st e).1 (ewInit w st e).2.1 := by
    unfold ewInit
    split
    · exact hJ
    · rename_i hi
      have hi' : e.initialized = false := by simpa using hi
      obtain ⟨haf, hwf⟩ := h0 hi'
      simp only
      split
      · intro hb _; exact haf hb
      · split
        · exact boundary_vacuous _ _ hwf
        · split
          · exact boundary_vacuous _ _ hwf
          · split
            · exact boundary_vacuous _ _ hwf
            · split <;> exact boundary_vacuous _ _ hwf
  unfold ewWrite
  generalize ewInit w st e = r0 at hinit ⊢
  obtain ⟨s0, e0, p0⟩ := r0
  simp only at hinit ⊢
  split
  · exact hinit
  · split
    · exact hinit
    · split
      · by_cases hw : e0.writingEnvelope = true
        · have hs := ewWritePiece_env_state w s0 e0 data hw
          have hf := (C11.ewWritePiece_flags w s0 e0 data).1
          generalize ewWritePiece w s0 e0 data = r1 at hs hf ⊢
          obtain ⟨s1, e1, f1, p1⟩ := r1
          simp only at hs hf ⊢
          subst hs
          intro hb _; exact hinit hb hw
        · have hf := (C11.ewWritePiece_flags w s0 e0 data).1
          generalize ewWritePiece w s0 e0 data = r1 at hf ⊢
          obtain ⟨s1, e1, f1, p1⟩ := r1
          simp only at hf ⊢
          exact boundary_vacuous _ _ (by simp only; rw [hf]; simpa using hw)
      · exact ewLoop_flushed_at_boundaries w tb _ s0 e0 data hinit

/-- The claim is not vacuous: it holds when the backend starts writing (nothing written, nothing
    flushed), and it fails for a state with an unflushed item. -/
example (st : St) (h : st.sink = {}) : AllFlushed st := by intro _; simp [h]

/-! ### whole runs: nothing complete is held back, after every call of every handler -/

def Flushed (st : St) : Prop := st.sink.flushedN.getD 0 = st.sink.items.length

/-- The re-framing writer: flushed between messages; a writer that was never used sits on a response
    of which nothing is unflushed. -/
def EwOk (st : St) (e : EW) : Prop :=
  FlushedAtBoundary st e ∧ (e.initialized = false → AllFlushed st ∧ e.writingEnvelope = false)

/-- "Nothing complete is held back" in a state of the response writer. -/
def Prog (st : St) : Prop :=
  match st.rw.w with
  | .enveloping e => EwOk st e
  | _ => AllFlushed st

/-- The invariant of a run: before `WriteHeader` nothing is buffered and no body writer exists; while
    the RPC is open nothing complete is held back. -/
structure ProgInv (st : St) : Prop where
  fresh : st.rw.headersWritten = false → st.rw.buf = none ∧ st.rw.w = .unset
  prog : st.rw.endWritten = false → Prog st

theorem Prog.of_flushed {st' st : St} (hwk : st'.rw.w = st.rw.w) (hf : Flushed st') (hP : Prog st) : Prog st' := by
  unfold Prog at *
  rw [hwk]
  cases hw : st.rw.w with
  | enveloping e =>
    simp only [hw] at hP ⊢
    exact ⟨fun _ _ => hf, fun hi => ⟨fun _ => hf, (hP.2 hi).2⟩⟩
  | unset => exact fun _ => hf
  | transforming t => exact fun _ => hf
  | errorWriter b k => exact fun _ => hf
  | noBody => exact fun _ => hf

/-- Steps that leave the body, the flush mark and the writer alone. -/
structure SameOut (a b : St) : Prop where
  items : b.sink.items = a.sink.items
  fl : b.sink.flushedN = a.sink.flushedN
  wk : b.rw.w = a.rw.w
  buf : b.rw.buf = a.rw.buf
  ended : b.rw.endWritten = a.rw.endWritten
  hw : b.rw.headersWritten = a.rw.headersWritten

theorem AllFlushed.of_same {a b : St} (s : SameOut a b) (h : AllFlushed a) : AllFlushed b := by
  unfold AllFlushed at *
  rw [s.items, s.fl, s.buf]; exact h

theorem Prog.of_same {a b : St} (s : SameOut a b) (h : Prog a) : Prog b := by
  unfold Prog at *
  rw [s.wk]
  cases hw : a.rw.w with
  | enveloping e =>
    simp only [hw] at h ⊢
    refine ⟨?_, fun hi => ⟨AllFlushed.of_same s (h.2 hi).1, (h.2 hi).2⟩⟩
    unfold FlushedAtBoundary
    rw [s.items, s.fl, s.buf]; exact h.1
  | unset => simp only [hw] at h ⊢; exact AllFlushed.of_same s h
  | transforming t => simp only [hw] at h ⊢; exact AllFlushed.of_same s h
  | errorWriter b k => simp only [hw] at h ⊢; exact AllFlushed.of_same s h
  | noBody => simp only [hw] at h ⊢; exact AllFlushed.of_same s h

theorem ProgInv.of_same {a b : St} (s : SameOut a b) (h : ProgInv a) : ProgInv b :=
  ⟨fun hh => by rw [s.buf, s.wk]; exact h.fresh (by rw [← s.hw]; exact hh),
   fun ho => Prog.of_same s (h.prog (by rw [← s.ended]; exact ho))⟩

theorem setHdr_same (st : St) (h : Hdr) : SameOut st (st.setHdr h) := by
  unfold St.setHdr
  split <;> exact ⟨rfl, rfl, rfl, rfl, rfl, rfl⟩

theorem reportEnd_flushed (w : World) (st : St) (e : RespEnd) (h : st.rw.endWritten = false) :
    Flushed (reportEnd w st e).1 := by
  unfold reportEnd
  simp only [h, Bool.false_eq_true, if_false]
  simp [Flushed, Sink.flush]

theorem reportError_flushed (w : World) (st : St) (err : Err) (h : st.rw.endWritten = false) :
    (reportError w st err).1 = st ∨ Flushed (reportError w st err).1 := by
  unfold reportError
  split
  · split
    · exact Or.inl rfl
    · exact Or.inr (reportEnd_flushed w st _ h)
  · exact Or.inr (reportEnd_flushed w st _ h)

/-- Reporting an error keeps the invariant. -/
theorem reportError_prog (w : World) (st : St) (err : Err) (h : ProgInv st) : ProgInv (reportError w st err).1 := by
  have hf := reportError_hw w st err
  refine ⟨fun hh => ?_, fun ho => ?_⟩
  · have := h.fresh (by rw [← hf.hw]; exact hh)
    exact ⟨hf.buf this.1, by rw [hf.wk]; exact this.2⟩
  · have hopen : st.rw.endWritten = false := by
      cases hb : st.rw.endWritten with
      | false => rfl
      | true => rw [hf.ended hb] at ho; cases ho
    rcases reportError_flushed w st err hopen with heq | hfl
    · rw [heq]; exact h.prog hopen
    · exact Prog.of_flushed hf.wk hfl (h.prog hopen)

/-- **Whatever a `Read` of the handler does** - any size, any body, errors included - keeps it. -/
theorem reach_prog {w : World} {a b : St} (r : RdReach w a b) (h : ProgInv a) : ProgInv b := by
  induction r with
  | refl => exact h
  | @src b' _ s ih => exact ProgInv.of_same (a := b') ⟨rfl, rfl, rfl, rfl, rfl, rfl⟩ ih
  | err _ e ih => exact reportError_prog w _ e ih

/-! #### `WriteHeader` -/

theorem addResponseHeaders_flushedN (c : ClientForm) (rm : RespMeta) (k : Sink) :
    (addResponseHeaders c rm k).2.flushedN = k.flushedN := by
  unfold addResponseHeaders
  cases c <;> simp only
  case grpc => cases he : rm.end <;> simp [writeEndToHeaders]
  case grpcWeb => cases he : rm.end <;> simp [writeEndToHeaders]

theorem writeHeader_same (k : Sink) (c : Nat) : (k.writeHeader c).items = k.items ∧ (k.writeHeader c).flushedN = k.flushedN := by
  unfold Sink.writeHeader; split <;> exact ⟨rfl, rfl⟩

/-- Flushing the head of a response that is not being buffered: either the RPC ends with it, or
    nothing is added to the body. -/
theorem flushHeaders_open (w : World) (st : St) (hb : st.rw.buf = none) (haf : AllFlushed st) :
    (flushHeaders w st).1.rw.endWritten = false → AllFlushed (flushHeaders w st).1 := by
  unfold flushHeaders
  split
  · exact fun _ => haf
  · simp only
    have hi := fun cli => (addResponseHeaders_items st.op.cform cli st.sink).1
    have hn := fun cli => addResponseHeaders_flushedN st.op.cform cli st.sink
    generalize hr : addResponseHeaders st.op.cform _ st.sink = r
    have hi' : r.2.items = st.sink.items := by rw [← hr]; exact hi _
    have hn' : r.2.flushedN = st.sink.flushedN := by rw [← hr]; exact hn _
    obtain ⟨status, k⟩ := r
    simp only at hi' hn' ⊢
    split
    · exact fun _ => haf
    · rename_i code
      split
      · intro h; simp [writeEnd] at h
      · intro _ _
        simp only [hb]
        rw [(writeHeader_same k code).1, (writeHeader_same k code).2, hi', hn']
        exact haf hb

theorem flushHeaders_hw' (w : World) (st : St) : (flushHeaders w st).1.rw.headersWritten = st.rw.headersWritten :=
  (flushHeaders_hw w st).hw

theorem setHdr_hw (st : St) (h : Hdr) : (st.setHdr h).rw = st.rw := by
  unfold St.setHdr; split <;> rfl

theorem SameOut.refl (a : St) : SameOut a a := ⟨rfl, rfl, rfl, rfl, rfl, rfl⟩
theorem SameOut.trans {a b c : St} (h1 : SameOut a b) (h2 : SameOut b c) : SameOut a c :=
  ⟨h2.items.trans h1.items, h2.fl.trans h1.fl, h2.wk.trans h1.wk, h2.buf.trans h1.buf, h2.ended.trans h1.ended, h2.hw.trans h1.hw⟩
theorem SameOut.ite {a x y : St} (c : Prop) [Decidable c] (hx : SameOut a x) (hy : SameOut a y) : SameOut a (if c then x else y) := by
  split <;> assumption
theorem SameOut.rwUpdate (a : St) (r : RW) (h1 : r.w = a.rw.w) (h2 : r.buf = a.rw.buf) (h3 : r.endWritten = a.rw.endWritten)
    (h4 : r.headersWritten = a.rw.headersWritten) : SameOut a { a with rw := r } := ⟨rfl, rfl, h1, h2, h3, h4⟩

theorem rwPrepareMeta_same (tb : Tables) (st : St) (status : Nat) (cl : Int) (clText : Bytes) :
    SameOut st (rwPrepareMeta tb st status cl clText).1 := by
  unfold rwPrepareMeta
  refine SameOut.trans ?_ (SameOut.rwUpdate _ _ rfl rfl rfl rfl)
  refine SameOut.trans ?_ (setHdr_same _ _)
  refine SameOut.ite _ ?_ (SameOut.trans ?_ (setHdr_same _ _)) <;>
  · refine SameOut.trans ?_ (setHdr_same _ _)
    refine SameOut.trans ?_ (SameOut.rwUpdate _ _ rfl rfl rfl rfl)
    exact SameOut.ite _ (SameOut.refl st) (setHdr_same _ _)


theorem Prog.setWriter_fresh (st : St) (haf : AllFlushed st) : Prog (rwSetWriter st (.enveloping {})) := by
  unfold Prog rwSetWriter
  exact ⟨boundary_vacuous _ _ rfl, fun _ => ⟨haf, rfl⟩⟩

theorem Prog.setWriter_transforming (st : St) (t : TW) (haf : AllFlushed st) : Prog (rwSetWriter st (.transforming t)) := by
  unfold Prog rwSetWriter; exact haf
theorem Prog.setWriter_errorWriter (st : St) (b : Option Bytes) (k : EndBody) (haf : AllFlushed st) :
    Prog (rwSetWriter st (.errorWriter b k)) := by
  unfold Prog rwSetWriter; exact haf
theorem Prog.setWriter_noBody (st : St) (haf : AllFlushed st) : Prog (rwSetWriter st .noBody) := by
  unfold Prog rwSetWriter; exact haf

theorem Prog.setWriter_new (st : St) (c : Bool) (haf : AllFlushed st) :
    Prog (rwSetWriter st (if c then .enveloping {} else .transforming {})) := by
  cases c
  · exact Prog.setWriter_transforming _ _ haf
  · exact Prog.setWriter_fresh _ haf

theorem rwStartBody_prog (w : World) (st : St) (hb : st.rw.buf = none) (haf : AllFlushed st) :
    (rwStartBody w st).1.rw.endWritten = false → Prog (rwStartBody w st).1 := by
  unfold rwStartBody
  simp only
  intro ho
  have key : AllFlushed (if st.op.cform.endMustBeInHeaders = true then
        (({ st with rw := { st.rw with sameRespCodec := st.op.ccodec == st.op.scodec, buf := some [] } } : St), false)
      else flushHeaders w { st with rw := { st.rw with sameRespCodec := st.op.ccodec == st.op.scodec } }).1 := by
    split
    · intro hbn; simp at hbn
    · rename_i hne
      simp only [hne, Bool.false_eq_true, if_false] at ho
      exact flushHeaders_open w _ hb haf ho
  exact Prog.setWriter_new _ _ key

theorem rwSetRespComp_same (st : St) (comp : Bytes) : SameOut st (rwSetRespComp st comp) := by
  unfold rwSetRespComp
  exact SameOut.ite _ (SameOut.refl st) (SameOut.rwUpdate st _ rfl rfl rfl rfl)

theorem rwChooseWriter_hw (w : World) (st : St) (rm : RespMeta) (eb : EndBody) :
    (rwChooseWriter w st rm eb).1.rw.headersWritten = st.rw.headersWritten := by
  unfold rwChooseWriter
  generalize (if rm.compression == identityName then [] else rm.compression) = comp
  simp only
  have hs := (rwSetRespComp_same st comp).hw
  split
  · exact (reportError_hw w st _).hw
  · split
    · split
      · exact hs
      · exact ((flushHeaders_hw w _).hw).trans hs
    · split
      · exact ((reportError_hw w _ _).hw).trans hs
      · unfold rwStartBody rwSetWriter
        simp only
        split
        · exact hs
        · exact ((flushHeaders_hw w _).hw).trans hs

theorem rwChooseWriter_prog (w : World) (st : St) (rm : RespMeta) (eb : EndBody) (h : ProgInv st)
    (hb : st.rw.buf = none) (hu : st.rw.w = .unset) (hopen : st.rw.endWritten = false) :
    (rwChooseWriter w st rm eb).1.rw.endWritten = false → Prog (rwChooseWriter w st rm eb).1 := by
  have haf : AllFlushed st := by
    have := h.prog hopen
    unfold Prog at this; rw [hu] at this; exact this
  unfold rwChooseWriter
  generalize (if rm.compression == identityName then [] else rm.compression) = comp
  simp only
  have hs := rwSetRespComp_same st comp
  have haf1 : AllFlushed (rwSetRespComp st comp) := AllFlushed.of_same hs haf
  have hb1 : (rwSetRespComp st comp).rw.buf = none := by rw [hs.buf]; exact hb
  split
  · exact (reportError_prog w st _ h).prog
  · split
    · split
      · exact fun _ => Prog.setWriter_errorWriter _ _ _ haf1
      · intro ho
        exact Prog.setWriter_noBody _ (flushHeaders_open w _ hb1 haf1 ho)
    · split
      · exact (reportError_prog w _ _ (ProgInv.of_same hs h)).prog
      · exact rwStartBody_prog w _ hb1 haf1


theorem rwWriteHeader_written (w : World) (tb : Tables) (st : St) (c : Nat) :
    (rwWriteHeader w tb st c).1.rw.headersWritten = true := by
  unfold rwWriteHeader
  split
  · assumption
  · simp only
    split
    · rfl
    · split
      · exact (reportError_hw w _ _).hw
      · rename_i cl _
        have h1 := fun t => (rwPrepareMeta_same tb ({ st with rw := { st.rw with headersWritten := true, statusCode := c } } : St) c cl t).hw
        generalize hr : rwPrepareMeta tb _ c cl _ = r
        have h1' : r.1.rw.headersWritten = true := by rw [← hr]; exact h1 _
        obtain ⟨s5, rm, eb⟩ := r
        simp only at h1' ⊢
        exact (rwChooseWriter_hw w s5 rm eb).trans h1'

/-- **`WriteHeader` keeps the invariant.** -/
theorem rwWriteHeader_prog (w : World) (tb : Tables) (st : St) (c : Nat) (h : ProgInv st) :
    ProgInv (rwWriteHeader w tb st c).1 := by
  refine ⟨fun hh => ?_, ?_⟩
  · rw [rwWriteHeader_written] at hh; cases hh
  · unfold rwWriteHeader
    split
    · exact h.prog
    · rename_i hnw
      have hfr := h.fresh (by simpa using hnw)
      have h' : ProgInv ({ st with rw := { st.rw with headersWritten := true, statusCode := c } } : St) :=
        ⟨fun hh => by simp at hh, fun ho => h.prog ho⟩
      simp only
      split
      · rename_i he; intro ho; rw [he] at ho; cases ho
      · rename_i hne
        have hopen : st.rw.endWritten = false := by simpa using hne
        split
        · exact (reportError_prog w _ _ h').prog
        · rename_i cl _
          have h1 := fun t => rwPrepareMeta_same tb ({ st with rw := { st.rw with headersWritten := true, statusCode := c } } : St) c cl t
          generalize hr : rwPrepareMeta tb _ c cl _ = r
          have h1' : SameOut ({ st with rw := { st.rw with headersWritten := true, statusCode := c } } : St) r.1 := by
            rw [← hr]; exact h1 _
          obtain ⟨s5, rm, eb⟩ := r
          simp only at h1' ⊢
          exact rwChooseWriter_prog w s5 rm eb (ProgInv.of_same h1' h') (by rw [h1'.buf]; exact hfr.1)
            (by rw [h1'.wk]; exact hfr.2) (by rw [h1'.ended]; exact hopen)


/-- **`Write` keeps the invariant**: any bytes of the backend, split anywhere, errors included. -/
theorem rwWrite_prog (w : World) (tb : Tables) (st : St) (data : Bytes) (h : ProgInv st) :
    ProgInv (rwWrite w tb st data).1 := by
  unfold rwWrite
  have h0 : ProgInv (if st.rw.headersWritten = true then (st, false) else rwWriteHeader w tb st 200).1 ∧
      (if st.rw.headersWritten = true then (st, false) else rwWriteHeader w tb st 200).1.rw.headersWritten = true := by
    split
    · exact ⟨h, by assumption⟩
    · exact ⟨rwWriteHeader_prog w tb st 200 h, rwWriteHeader_written w tb st 200⟩
  generalize (if st.rw.headersWritten = true then (st, false) else rwWriteHeader w tb st 200) = r0 at h0 ⊢
  obtain ⟨hP, hW⟩ := h0
  simp only
  split
  · exact hP
  · split
    · exact hP
    · split
      · rename_i e hw
        have hf := ewWrite_hw w tb r0.1 e data
        refine ⟨fun hh => ?_, fun ho => ?_⟩
        · have : (ewWrite w tb r0.1 e data).1.rw.headersWritten = false := hh
          rw [hf.hw, hW] at this; cases this
        · have ho' : (ewWrite w tb r0.1 e data).1.rw.endWritten = false := ho
          have hopen : r0.1.rw.endWritten = false := by
            cases hb : r0.1.rw.endWritten with
            | false => rfl
            | true => rw [hf.ended hb] at ho'; cases ho'
          have P0 := hP.prog hopen
          unfold Prog at P0; rw [hw] at P0
          have P0' : EwOk r0.1 e := P0
          show EwOk _ (ewWrite w tb r0.1 e data).2.1
          refine ⟨ewWrite_flushed_at_boundaries w tb r0.1 e data P0'.1 P0'.2, fun hi => ?_⟩
          rw [ewWrite_initialized] at hi; cases hi
      · rename_i t hw
        have hf := twWrite_hw w tb r0.1 t data
        refine ⟨fun hh => ?_, fun ho => ?_⟩
        · have : (twWrite w tb r0.1 t data).1.rw.headersWritten = false := hh
          rw [hf.hw, hW] at this; cases this
        · have ho' : (twWrite w tb r0.1 t data).1.rw.endWritten = false := ho
          have hopen : r0.1.rw.endWritten = false := by
            cases hb : r0.1.rw.endWritten with
            | false => rfl
            | true => rw [hf.ended hb] at ho'; cases ho'
          have P0 := hP.prog hopen
          unfold Prog at P0; rw [hw] at P0
          have P0' : AllFlushed r0.1 := P0
          show AllFlushed (twWrite w tb r0.1 t data).1
          exact twWrite_keeps w tb r0.1 t data P0'
      · rename_i body kind hw
        split
        · exact hP
        · split
          · exact reportError_prog w r0.1 _ hP
          · refine ⟨fun hh => ?_, fun ho => ?_⟩
            · have : r0.1.rw.headersWritten = false := hh
              rw [hW] at this; cases this
            · have P0 := hP.prog ho
              unfold Prog at P0; rw [hw] at P0
              have P0' : AllFlushed r0.1 := P0
              exact P0'
      · exact hP
      · exact hP


theorem foldl_prog {β : Type} (g : Flight × β → BOp → Flight × β) (hg : ∀ acc op, ProgInv acc.1.st → ProgInv (g acc op).1.st) :
    ∀ (l : List BOp) (acc : Flight × β), ProgInv acc.1.st → ProgInv (l.foldl g acc).1.st := by
  intro l
  induction l with
  | nil => intro acc h; exact h
  | cons x xs ih => intro acc h; simp only [List.foldl_cons]; exact ih _ (hg acc x h)

/-- **Every handler script keeps the invariant**: after any sequence of reads (any sizes), header
    changes, `WriteHeader`, `Write` (any bytes, split anywhere), `Flush` and `Close` calls. -/
theorem runScript_prog (w : World) (tb : Tables) (pl : HandlePlan) (script : List BOp) (total0 : Nat) (f : Flight)
    (h : ProgInv f.st) : ProgInv (runScript w tb pl script total0 f).1.st := by
  unfold runScript
  refine foldl_prog (β := BackendObs) _ ?_ script (f, ({} : BackendObs)) h
  intro acc op hacc
  obtain ⟨f1, b1⟩ := acc
  simp only at hacc ⊢
  split
  · exact hacc
  · split
    · exact reach_prog (flightReadN_reach w pl _ _ true _ f1 0 _ _) hacc
    · exact reach_prog (flightReadN_reach w pl _ _ false _ f1 0 _ _) hacc
    · exact reach_prog (flightReadAll_reach w pl _ _ f1 _) hacc
    · exact ProgInv.of_same (setHdr_same _ _) hacc
    · exact ProgInv.of_same (setHdr_same _ _) hacc
    · exact rwWriteHeader_prog w tb f1.st _ hacc
    · exact rwWrite_prog w tb f1.st _ hacc
    · exact hacc
    · exact hacc

/-- The state the backend handler starts with satisfies the invariant. -/
theorem start_prog (st : St) (skip : Bool) (hrw : st.rw = {}) (hs : st.sink.items = [] ∧ st.sink.flushedN = none) :
    ProgInv (transcodeStartState st skip) := by
  have base : ProgInv ({ st with rw := { st.rw with active := true } } : St) := by
    refine ⟨fun _ => ?_, fun _ => ?_⟩
    · simp [hrw]
    · unfold Prog
      simp only [hrw]
      intro _; simp [hs.1, hs.2]
  unfold transcodeStartState
  simp only
  split
  · exact ProgInv.of_same (a := ({ st with rw := { st.rw with active := true } } : St)) ⟨rfl, rfl, rfl, rfl, rfl, rfl⟩ base
  · exact base

/-- **C16, response direction, whole runs.**  Take any backend handler: any sequence of reads of the
    request, header changes, `WriteHeader`, `Write` calls with any bytes split anywhere, `Flush` and
    `Close`, stopped at any point.  While the RPC has not ended and the client's protocol streams
    (the response is not being collected because its end must precede its body):
    * on the re-encoding path everything written towards the client has been flushed;
    * on the re-framing path everything has been flushed whenever the writer is between messages,
      so a message is on the wire when the `Write` that completed it returns. -/
theorem nothing_complete_is_held_back (w : World) (tb : Tables) (pl : HandlePlan) (script : List BOp) (total0 : Nat)
    (st : St) (skip : Bool) (rd : Reader) (hrw : st.rw = {}) (hs : st.sink.items = [] ∧ st.sink.flushedN = none) :
    let st' := (runScript w tb pl script total0 { st := transcodeStartState st skip, rd := rd }).1.st
    st'.rw.endWritten = false → st'.rw.buf = none →
      match st'.rw.w with
      | .enveloping e => e.writingEnvelope = true → st'.sink.flushedN.getD 0 = st'.sink.items.length
      | _ => st'.sink.flushedN.getD 0 = st'.sink.items.length := by
  intro st' ho hb
  have hinv : ProgInv st' := runScript_prog w tb pl script total0 _ (start_prog st skip hrw hs)
  have hp := hinv.prog ho
  unfold Prog at hp
  split
  · rename_i e hw
    rw [hw] at hp
    exact hp.1 hb
  · rename_i hne
    cases hw : st'.rw.w with
    | enveloping e => exact absurd hw (hne e)
    | unset => rw [hw] at hp; exact hp hb
    | transforming t => rw [hw] at hp; exact hp hb
    | errorWriter b k => rw [hw] at hp; exact hp hb
    | noBody => rw [hw] at hp; exact hp hb


/-- What `ServeHTTP` does before the handler runs leaves the response untouched. -/
theorem transcodePre_fresh (w : World) (o : Op) (pl : HandlePlan) (st0 st : St) (first : Option (Bytes × Bool))
    (h : transcodePre w o pl st0 = .ok (st, first)) : st.rw = st0.rw ∧ st.sink = st0.sink := by
  unfold transcodePre at h
  split at h
  · have hq := readRequestMessage_quiet w st0
    simp only at h
    split at h
    · cases h
    · split at h
      · cases h
      · simp only [Except.ok.injEq, Prod.mk.injEq] at h
        rw [← h.1]; exact hq
  · simp only [Except.ok.injEq, Prod.mk.injEq] at h
    rw [← h.1]; exact ⟨rfl, rfl⟩

/-- The same for the handler as `ServeHTTP` runs it: the state `serveTranscode` hands to the handler
    script satisfies the premises. -/
theorem serve_handler_makes_progress (w : World) (sc : Scenario) (o : Op) (st : St) (first : Option (Bytes × Bool))
    (hpre : transcodePre w o (o.plan w) { op := o, src := sc.src, sink := {} } = .ok (st, first))
    (script : List BOp) (skip : Bool) (rd : Reader) :
    let st' := (runScript w sc.tables (o.plan w) script sc.src.left { st := transcodeStartState st skip, rd := rd }).1.st
    st'.rw.endWritten = false → st'.rw.buf = none →
      match st'.rw.w with
      | .enveloping e => e.writingEnvelope = true → st'.sink.flushedN.getD 0 = st'.sink.items.length
      | _ => st'.sink.flushedN.getD 0 = st'.sink.items.length := by
  have hf := transcodePre_fresh w o (o.plan w) _ st first hpre
  exact nothing_complete_is_held_back w sc.tables (o.plan w) script sc.src.left st skip rd hf.1 (by rw [hf.2]; exact ⟨rfl, rfl⟩)

/-! ### whole runs, request direction, re-framing path -/

/-- **The re-framing reader holds back nothing but (part of) one envelope**, whatever the handler's read
    sizes and however the client's body arrives: after any sequence of successful reads, the bytes given
    to the handler plus the (at most five) envelope bytes prepared for the backend but not yet handed
    out plus what is left of the client's body add up to what there was at the start.  Since the
    re-framed stream has one envelope per client envelope and the payloads unchanged, this says that
    no byte of message `k+1` is taken from the client before message `k` has been handed to the backend
    completely - beyond the five bytes of its envelope. -/
theorem reframing_reader_holds_back_nothing (w : World) (ce se : Enveloper) (st st' : St) (r r' : ER) (ns : List Nat) (o : Bytes)
    (hce : st.op.clientEnveloper = some ce) (hse : st.op.serverEnveloper = some se) (hwf : r.WF) (herr : r.err = none)
    (h : EOkReads w st r ns o st' r') :
    o.length + r'.pending.length + st'.src.data.length = r.pending.length + st.src.data.length ∧ r'.pending.length ≤ 5 :=
  h.conserves ce se hce hse hwf herr

/-! ### the specification predicates are not vacuous -/

/-- Backend wrote two complete messages, the client's body has both, only the first is flushed:
    rejected.  Both flushed: accepted. -/
example : Spec.respStepOk [0,0,0,0,1,7, 0,0,0,0,1,8] 0 [(6, 0), (12, 0)] 0 6 = false := by decide
example : Spec.respStepOk [0,0,0,0,1,7, 0,0,0,0,1,8] 0 [(6, 0), (12, 0)] 0 12 = true := by decide
/-- The handler has message 1 (6 bytes in the backend's framing); the transcoder took 12 bytes, i.e.
    also the client's second message: rejected. -/
example : Spec.reqStepOk [6, 12] [6, 12] 12 6 12 = false := by decide
example : Spec.reqStepOk [6, 12] [6, 12] 12 6 6 = true := by decide

end Vanguard.C16
