import Vanguard.Model.Run
import Vanguard.Spec.Progress
/-!
  # C16 — streaming RPCs make progress message by message

  The model mirrors the chunk-level control flow of the adapters (`Read(n)` / `Write(chunk)` are its
  units) and its sink records when `Flush` is called, so hidden buffering is visible in it.

  Proved here, for every state of the adapters:
  * response direction: when the client protocol streams (`responseWriter.buf = nil`) the
    per-message flush puts everything written so far on the wire (`flushMessage_streaming`), and a
    response message that the transforming writer has converted successfully is on the wire when
    the call returns (`twFlushMessage_forwards`); only when the end must precede the body
    (`buf ≠ nil`: Connect unary, REST) is the flush withheld (`flushMessage_deferred`);
  * request direction: a `Read` that can be served from the message in hand - rest of an envelope,
    rest of a converted message - does not touch the client's body (`trRead_no_lookahead`,
    `erRead_envelope_no_pull`), and the reader of one re-enveloped message never takes more than
    that message's announced length, nothing at all once it is exhausted
    (`limited_never_exceeds`, `limited_exhausted_no_pull`).

  NOT proved (partial): the same for whole runs - "after every backend write all completed
  messages are flushed" and "delivering message k consumes at most k client messages" as
  invariants of `runScript`.  For whole runs these are the executable predicates
  `Spec.respStepOk` / `Spec.reqStepOk`, evaluated on the progress logs of the implementation for
  every scenario (and the model's logs are compared with the implementation's, flush offsets
  included), plus a lock-step client in the harness that reports the first `Read` which would
  block for ever.  A real HTTP/2 connection (flow control, the net/http server's own buffering)
  is outside the model.
-/
namespace Vanguard.C16
open Vanguard

/-- With a streaming client protocol the per-message flush leaves nothing unflushed. -/
theorem flushMessage_streaming (st : St) (h : st.rw.buf = none) :
    (flushMessage st).sink.flushedN = some (flushMessage st).sink.items.length := by
  simp [flushMessage, h, Sink.flush]

/-- The flush is withheld exactly when the whole response is being buffered because the outcome
    must precede the body. -/
theorem flushMessage_deferred (st : St) (h : st.rw.buf.isSome = true) : flushMessage st = st := by
  simp [flushMessage, h]

theorem writeDown_streaming (w : World) (st : St) (b : Bytes) (h : st.rw.buf = none) :
    writeDown w st b = ({ st with sink := st.sink.write b }, false, false) := by
  simp [writeDown, h]

/-- **A response message converted by the transforming writer is on the wire when `Write`
    returns**: if `flushMessage` of the writer succeeds on a data message for a streaming client,
    then everything written to the client so far - this message included - has been flushed. -/
theorem twFlushMessage_forwards (w : World) (tb : Tables) (st st' : St) (t t' : TW)
    (hb : st.rw.buf = none) (hd : t.latest.trailer = false)
    (h : twFlushMessage w tb st t = (st', t', none, false)) :
    st'.sink.flushedN = some st'.sink.items.length := by
  unfold twFlushMessage at h
  simp only [hd, Bool.false_eq_true, if_false] at h
  split at h
  · simp at h
  · rename_i out _
    cases hce : st.op.clientEnveloper with
    | none =>
      simp only [hce, writeDown, hb, Option.isSome_none, Bool.false_eq_true, if_false, Bool.or_self] at h
      simp only [Prod.mk.injEq] at h
      rw [← h.1]
      exact flushMessage_streaming _ hb
    | some ce =>
      simp only [hce] at h
      by_cases hl : out.length > st.op.conf.maxMsg
      · simp [hl] at h
      · simp only [hl, if_false, writeDown, hb, Option.isSome_none, Bool.false_eq_true, if_false, Bool.or_self] at h
        simp only [Prod.mk.injEq] at h
        rw [← h.1]
        exact flushMessage_streaming _ hb

/-- **No look-ahead in the transforming reader**: a `Read` that can be answered from what is left
    of the current envelope or of the current converted message returns without touching the
    client's body (and without any other effect on the request state). -/
theorem trRead_no_lookahead (w : World) (pl : HandlePlan) (fuel : Nat) (st : St) (r : TR) (n : Nat)
    (he : r.err = none) (hwf : r.envRemain ≤ 5 ∧ r.env.length = 5)
    (h : 0 < r.envRemain ∨ (∃ buf, r.buffer = some buf ∧ buf ≠ [] ∧ 0 < n)) :
    (trRead w pl (fuel + 1) st r n).2.2.1 = st := by
  unfold trRead
  simp only [he]
  by_cases h1 : n < r.envRemain
  · simp [h1]
  · simp only [h1, if_false]
    by_cases hpos : 0 < r.envRemain
    · have hp : (r.env.drop (5 - r.envRemain)).length > 0 := by
        rw [List.length_drop, hwf.2]; omega
      simp only [hpos, if_true]
      cases hb : r.buffer with
      | none =>
        simp only
        rw [if_pos (by simp; omega)]
      | some buf =>
        simp only
        split
        · rw [if_pos (by simp; omega)]
        · rw [if_pos (by simp; omega)]
    · rcases h with hp | ⟨buf, hbuf, hne, hn⟩
      · exact absurd hp hpos
      · have h0 : r.envRemain = 0 := by omega
        simp only [h0, Nat.lt_irrefl, if_false, List.length_nil, hbuf, Nat.sub_zero, hn, if_true, Nat.zero_add]
        have : (buf.take n).length > 0 := by
          rw [List.length_take]
          have : 0 < buf.length := List.length_pos_iff.mpr hne
          omega
        rw [if_pos this]

/-- The same for the re-enveloping reader while it is still handing out an envelope. -/
theorem erRead_envelope_no_pull (w : World) (st : St) (r : ER) (n : Nat)
    (he : r.err = none) (h : 0 < r.envRemain) : (erRead w st r n).2.2.1 = st := by
  unfold erRead
  simp [he, h]

/-- The reader of one re-enveloped message (`exactReader`) takes at most the announced number of
    bytes from the client's body ... -/
theorem limited_never_exceeds (w : World) (st : St) (k n : Nat) :
    (erCurRead w st (.limited k) n).1.length ≤ k := by
  unfold erCurRead
  by_cases hk : k = 0
  · simp [hk]
  · have hk' : (k == 0) = false := by simpa using hk
    simp only [hk', Bool.false_eq_true, if_false]
    -- a `Read(m)` on the body returns at most `m` bytes
    have : ∀ (src : Source) (m : Nat), (src.read m).1.length ≤ m := by
      intro src m
      unfold Source.read
      split
      · simp
      · split
        · simp
        · simp [List.length_take]; omega
    exact Nat.le_trans (this st.src (min n k)) (Nat.min_le_right n k)

/-- ... and once the message is exhausted it does not touch the body at all: the next message is
    read only when the handler asks for more. -/
theorem limited_exhausted_no_pull (w : World) (st : St) (n : Nat) :
    erCurRead w st (.limited 0) n = ([], some .eof, st, .limited 0, false) := by
  simp [erCurRead]

/-! ### the specification predicates are not vacuous -/

/-- Backend wrote two complete messages, the client's body has both, only the first is flushed:
    rejected.  Both flushed: accepted. -/
example : Spec.respStepOk [0,0,0,0,1,7, 0,0,0,0,1,8] 0 [(6, 0), (12, 0)] 0 6 = false := by decide
example : Spec.respStepOk [0,0,0,0,1,7, 0,0,0,0,1,8] 0 [(6, 0), (12, 0)] 0 12 = true := by decide
/-- The handler has message 1 (6 bytes in the backend's framing); the transcoder took 12 bytes, i.e.
    also the client's second message: rejected. -/
example : Spec.reqStepOk [6, 12] [6, 12] 12 6 12 = false := by decide
example : Spec.reqStepOk [6, 12] [6, 12] 12 6 6 = true := by decide

end Vanguard.C16
