import Vanguard.Model.Run
import Vanguard.Spec.Progress
import Vanguard.Props.C11
/-!
  # C16 — streaming RPCs make progress message by message

  The model mirrors the chunk-level control flow of the adapters (`Read(n)` / `Write(chunk)` are its
  units) and its sink records when `Flush` is called, so hidden buffering is visible in it.

  Proved here, for every state of the adapters:
  * response direction: when the client protocol streams (`responseWriter.buf = nil`) the
    per-message flush puts everything written so far on the wire (`flushMessage_streaming`), and a
    response message that the transforming writer has converted successfully is on the wire when
    the call returns (`twFlushMessage_forwards`); only when the end must precede the body
    (`buf ≠ nil`: Connect unary, REST) is the flush withheld (`flushMessage_deferred`);
  * request direction: a `Read` that can be served from the message in hand - rest of an envelope,
    rest of a converted message - does not touch the client's body (`trRead_no_lookahead`,
    `erRead_envelope_no_pull`), and the reader of one re-enveloped message never takes more than
    that message's announced length, nothing at all once it is exhausted
    (`limited_never_exceeds`, `limited_exhausted_no_pull`).

  * **whole `Write` calls on the re-encoding path** (`twWrite_keeps`, by induction over the write
    loop): whatever the backend writes - any number of messages, split anywhere, malformed or
    over the limit, errors included - when `transformingWriter.Write` returns, everything written to
    a streaming client so far has been flushed (`AllFlushed` is an invariant of the writer).

  * **whole `Write` calls on the re-framing path** (`ewLoop_flushed_at_boundaries`, `ewWrite_flushed_at_boundaries`):
    the re-framing writer streams a message through while the backend is still writing it, so bytes of
    an unfinished message may be unflushed; but whenever the writer is *between messages* (waiting for
    the next envelope) everything written to a streaming client so far has been flushed - for any
    backend output, split anywhere, errors included.  So a complete response message is on the wire
    when the `Write` call that completed it returns.

  NOT proved (partial): the same for whole runs - "after every backend write all completed
  messages are flushed" and "delivering message k consumes at most k client messages" as
  invariants of `runScript`.  For whole runs these are the executable predicates
  `Spec.respStepOk` / `Spec.reqStepOk`, evaluated on the progress logs of the implementation for
  every scenario (and the model's logs are compared with the implementation's, flush offsets
  included), plus a lock-step client in the harness that reports the first `Read` which would
  block for ever.  A real HTTP/2 connection (flow control, the net/http server's own buffering)
  is outside the model.
-/
namespace Vanguard.C16
open Vanguard

/-- With a streaming client protocol the per-message flush leaves nothing unflushed. -/
theorem flushMessage_streaming (st : St) (h : st.rw.buf = none) :
    (flushMessage st).sink.flushedN = some (flushMessage st).sink.items.length := by
  simp [flushMessage, h, Sink.flush]

/-- The flush is withheld exactly when the whole response is being buffered because the outcome
    must precede the body. -/
theorem flushMessage_deferred (st : St) (h : st.rw.buf.isSome = true) : flushMessage st = st := by
  simp [flushMessage, h]

theorem writeDown_streaming (w : World) (st : St) (b : Bytes) (h : st.rw.buf = none) :
    writeDown w st b = ({ st with sink := st.sink.write b }, false, false) := by
  simp [writeDown, h]

/-- **A response message converted by the transforming writer is on the wire when `Write`
    returns**: if `flushMessage` of the writer succeeds on a data message for a streaming client,
    then everything written to the client so far - this message included - has been flushed. -/
theorem twFlushMessage_forwards (w : World) (tb : Tables) (st st' : St) (t t' : TW)
    (hb : st.rw.buf = none) (hd : t.latest.trailer = false)
    (h : twFlushMessage w tb st t = (st', t', none, false)) :
    st'.sink.flushedN = some st'.sink.items.length := by
  unfold twFlushMessage at h
  simp only [hd, Bool.false_eq_true, if_false] at h
  split at h
  · simp at h
  · rename_i out _
    cases hce : st.op.clientEnveloper with
    | none =>
      simp only [hce, writeDown, hb, Option.isSome_none, Bool.false_eq_true, if_false, Bool.or_self] at h
      simp only [Prod.mk.injEq] at h
      rw [← h.1]
      exact flushMessage_streaming _ hb
    | some ce =>
      simp only [hce] at h
      by_cases hl : out.length > st.op.conf.maxMsg
      · simp [hl] at h
      · simp only [hl, if_false, writeDown, hb, Option.isSome_none, Bool.false_eq_true, if_false, Bool.or_self] at h
        simp only [Prod.mk.injEq] at h
        rw [← h.1]
        exact flushMessage_streaming _ hb

/-- **No look-ahead in the transforming reader**: a `Read` that can be answered from what is left
    of the current envelope or of the current converted message returns without touching the
    client's body (and without any other effect on the request state). -/
theorem trRead_no_lookahead (w : World) (pl : HandlePlan) (fuel : Nat) (st : St) (r : TR) (n : Nat)
    (he : r.err = none) (hwf : r.envRemain ≤ 5 ∧ r.env.length = 5)
    (h : 0 < r.envRemain ∨ (∃ buf, r.buffer = some buf ∧ buf ≠ [] ∧ 0 < n)) :
    (trRead w pl (fuel + 1) st r n).2.2.1 = st := by
  unfold trRead
  simp only [he]
  by_cases h1 : n < r.envRemain
  · simp [h1]
  · simp only [h1, if_false]
    by_cases hpos : 0 < r.envRemain
    · have hp : (r.env.drop (5 - r.envRemain)).length > 0 := by
        rw [List.length_drop, hwf.2]; omega
      simp only [hpos, if_true]
      cases hb : r.buffer with
      | none =>
        simp only
        rw [if_pos (by simp; omega)]
      | some buf =>
        simp only
        split
        · rw [if_pos (by simp; omega)]
        · rw [if_pos (by simp; omega)]
    · rcases h with hp | ⟨buf, hbuf, hne, hn⟩
      · exact absurd hp hpos
      · have h0 : r.envRemain = 0 := by omega
        simp only [h0, Nat.lt_irrefl, if_false, List.length_nil, hbuf, Nat.sub_zero, hn, if_true, Nat.zero_add]
        have : (buf.take n).length > 0 := by
          rw [List.length_take]
          have : 0 < buf.length := List.length_pos_iff.mpr hne
          omega
        rw [if_pos this]

/-- The same for the re-enveloping reader while it is still handing out an envelope. -/
theorem erRead_envelope_no_pull (w : World) (st : St) (r : ER) (n : Nat)
    (he : r.err = none) (h : 0 < r.envRemain) : (erRead w st r n).2.2.1 = st := by
  unfold erRead
  simp [he, h]

/-- The reader of one re-enveloped message (`exactReader`) takes at most the announced number of
    bytes from the client's body ... -/
theorem limited_never_exceeds (w : World) (st : St) (k n : Nat) :
    (erCurRead w st (.limited k) n).1.length ≤ k := by
  unfold erCurRead
  by_cases hk : k = 0
  · simp [hk]
  · have hk' : (k == 0) = false := by simpa using hk
    simp only [hk', Bool.false_eq_true, if_false]
    -- a `Read(m)` on the body returns at most `m` bytes
    have : ∀ (src : Source) (m : Nat), (src.read m).1.length ≤ m := by
      intro src m
      unfold Source.read
      split
      · simp
      · split
        · simp
        · simp [List.length_take]; omega
    exact Nat.le_trans (this st.src (min n k)) (Nat.min_le_right n k)

/-- ... and once the message is exhausted it does not touch the body at all: the next message is
    read only when the handler asks for more. -/
theorem limited_exhausted_no_pull (w : World) (st : St) (n : Nat) :
    erCurRead w st (.limited 0) n = ([], some .eof, st, .limited 0, false) := by
  simp [erCurRead]

/-! ### whole `Write` calls of the transforming writer -/

/-- Everything written to a streaming client is on the wire (nothing is claimed while the whole
    response is being buffered for a client whose outcome must precede the body). -/
def AllFlushed (st : St) : Prop := st.rw.buf = none → st.sink.flushedN.getD 0 = st.sink.items.length

theorem flush_allFlushed (st : St) (rw : RW) : AllFlushed { st with sink := st.sink.flush, rw := rw } := by
  intro _; simp [Sink.flush]

theorem reportEnd_keeps (w : World) (st : St) (e : RespEnd) (h : AllFlushed st) : AllFlushed (reportEnd w st e).1 := by
  unfold reportEnd
  by_cases h1 : st.rw.endWritten = true
  · simp [h1]; exact h
  · simp only [h1, Bool.false_eq_true, if_false]
    intro _
    simp [Sink.flush]

theorem reportError_keeps (w : World) (st : St) (err : Err) (h : AllFlushed st) : AllFlushed (reportError w st err).1 := by
  unfold reportError
  split
  · split
    · exact h
    · exact reportEnd_keeps w st _ h
  · exact reportEnd_keeps w st _ h


theorem handleEndMessage_keeps (w : World) (tb : Tables) (st : St) (c : Bool) (d : Bytes) (r : Bool)
    (h : AllFlushed st) : AllFlushed (handleEndMessage w tb st c d r).1 := by
  unfold handleEndMessage
  simp only
  split
  · split
    · exact reportError_keeps w st _ h
    · exact h
  · split
    · exact reportError_keeps w st _ h
    · exact reportEnd_keeps w st _ h

theorem flushMessage_keeps (st : St) (h : AllFlushed st) : AllFlushed (flushMessage st) := by
  unfold flushMessage
  split
  · exact h
  · intro _; simp [Sink.flush]

/-- Writing to the client and flushing right after leaves nothing unflushed; writing into the
    whole-response buffer keeps the claim vacuous; an over-limit buffer is an error that is flushed. -/
theorem writeDown_then_flush (w : World) (st : St) (b : Bytes) (h : AllFlushed st) :
    AllFlushed (flushMessage (writeDown w st b).1) := by
  unfold writeDown
  cases hb : st.rw.buf with
  | none => intro _; simp [flushMessage, hb, Sink.flush]
  | some buf =>
    simp only
    split
    · exact flushMessage_keeps _ (reportError_keeps w st (.rpc 8) h)
    · intro hn; simp [flushMessage] at hn


/-- While the whole response is buffered, a write keeps the claim (it appends to the buffer, or
    reports the size error, which flushes). -/
theorem writeDown_buffered_keeps (w : World) (st : St) (b : Bytes) (buf : Bytes) (hb : st.rw.buf = some buf)
    (h : AllFlushed st) : AllFlushed (writeDown w st b).1 := by
  unfold writeDown
  simp only [hb]
  split
  · exact reportError_keeps w st (.rpc 8) h
  · intro hn; simp at hn

theorem writeDown_streaming' (w : World) (st : St) (b : Bytes) (h : st.rw.buf = none) :
    writeDown w st b = ({ st with sink := st.sink.write b }, false, false) := by
  simp [writeDown, h]

/-- A write that fails (size limit of the whole-response buffer) has reported the error. -/
theorem writeDown_bad_keeps (w : World) (st : St) (b : Bytes) (h : AllFlushed st)
    (hbad : ((writeDown w st b).2.1 || (writeDown w st b).2.2) = true) : AllFlushed (writeDown w st b).1 := by
  unfold writeDown at hbad ⊢
  cases hb : st.rw.buf with
  | none => simp [hb] at hbad
  | some buf =>
    simp only [hb] at hbad ⊢
    split
    · exact reportError_keeps w st (.rpc 8) h
    · rename_i hlim; simp [hlim] at hbad

theorem twFlushMessage_keeps (w : World) (tb : Tables) (st : St) (t : TW) (h : AllFlushed st) :
    AllFlushed (twFlushMessage w tb st t).1 := by
  unfold twFlushMessage
  simp only
  split
  · -- end-of-stream message
    have := handleEndMessage_keeps w tb st t.latest.compressed (t.buffer.getD []) false h
    split <;> exact this
  · split
    · exact h
    · rename_i out _
      cases hb : st.rw.buf with
      | none =>
        -- streaming client: envelope and message go to the wire and are flushed
        cases hce : st.op.clientEnveloper with
        | none =>
          simp only [writeDown, hb, Option.isSome_none, Bool.false_eq_true, if_false, Bool.or_self]
          intro _; simp [flushMessage, hb, Sink.flush]
        | some ce =>
          simp only
          split
          · simp only [Option.isSome_some, Bool.true_or, if_true]; exact h
          · simp only [writeDown, hb, Option.isSome_none, Bool.false_eq_true, if_false, Bool.or_self]
            intro _; simp [flushMessage, hb, Sink.flush]
      | some buf =>
        cases hce : st.op.clientEnveloper with
        | none =>
          simp only [Option.isSome_none, Bool.false_eq_true, if_false, Bool.or_self]
          generalize hr : writeDown w st out = r
          obtain ⟨s1, f1, p1⟩ := r
          simp only
          by_cases hbad : (f1 || p1) = true
          · simp only [hbad, if_true]
            have := writeDown_bad_keeps w st out h (by rw [hr]; exact hbad)
            rw [hr] at this; exact this
          · simp only [hbad, Bool.false_eq_true, if_false]
            have := writeDown_then_flush w st out h
            rw [hr] at this; exact this
        | some ce =>
          simp only
          split
          · simp only [Option.isSome_some, Bool.true_or, if_true]; exact h
          · generalize hr1 : writeDown w st (ce.encode _) = r1
            obtain ⟨s1, f1, p1⟩ := r1
            have hs1 : AllFlushed s1 := by
              have := writeDown_buffered_keeps w st
                (ce.encode { compressed := t.msgCompressed && st.rw.cRespComp.isSome, length := List.length out }) buf hb h
              rw [hr1] at this; exact this
            simp only
            by_cases hbad1 : ((if f1 = true then some Err.closed else none).isSome || p1) = true
            · simp only [hbad1, if_true]; exact hs1
            · simp only [hbad1, Bool.false_eq_true, if_false]
              generalize hr2 : writeDown w s1 out = r2
              obtain ⟨s2, f2, p2⟩ := r2
              simp only
              by_cases hbad2 : (f2 || p2) = true
              · simp only [hbad2, if_true]
                have := writeDown_bad_keeps w s1 out hs1 (by rw [hr2]; exact hbad2)
                rw [hr2] at this; exact this
              · simp only [hbad2, Bool.false_eq_true, if_false]
                have := writeDown_then_flush w s1 out hs1
                rw [hr2] at this; exact this


/-- **Whole `Write` calls of the transforming writer**: whatever the backend writes - any number of
    messages, split anywhere, well-formed or not, errors included - when the call returns everything
    that was written to a streaming client has been flushed. -/
theorem twLoop_keeps (w : World) (tb : Tables) : ∀ (fuel : Nat) (st : St) (t : TW) (data : Bytes),
    AllFlushed st → AllFlushed (twLoop w tb fuel st t data).1 := by
  intro fuel
  induction fuel with
  | zero => intro st t data h; simpa [twLoop] using h
  | succ fuel ih =>
    intro st t data h
    unfold twLoop
    split
    · exact h
    · simp only
      split
      · exact h
      · split
        · exact h
        · split
          · -- an envelope has been completed
            split
            · rename_i se f a b c d _ _
              split
              · exact reportError_keeps w st _ h
              · split
                · exact reportError_keeps w st _ h
                · exact ih _ _ _ h
            · exact h
          · -- a message has been completed
            generalize hr : twFlushMessage w tb st _ = r
            obtain ⟨s1, t1, err, p⟩ := r
            have key := fun tt => twFlushMessage_keeps w tb st tt h
            have hs1 : AllFlushed s1 := by
              have e : s1 = (s1, t1, err, p).1 := rfl
              rw [e, ← hr]; exact key _
            simp only
            split
            · exact hs1
            · split
              · exact reportError_keeps w s1 _ hs1
              · split
                · exact hs1
                · exact ih _ _ _ hs1

theorem twWrite_keeps (w : World) (tb : Tables) (st : St) (t : TW) (data : Bytes) (h : AllFlushed st) :
    AllFlushed (twWrite w tb st t data).1 := by
  unfold twWrite
  split
  · exact h
  · simp only
    generalize (if t.buffer.isNone = true then twReset st t else t) = t'
    split
    · split
      · exact reportError_keeps w st _ h
      · exact h
    · exact twLoop_keeps w tb _ st _ data h


/-! ### the re-framing writer: flushed whenever it is between messages -/

/-- Between messages (the writer collects the next envelope) everything written to a streaming client is flushed. -/
def FlushedAtBoundary (st : St) (e : EW) : Prop :=
  st.rw.buf = none → e.writingEnvelope = true → st.sink.flushedN.getD 0 = st.sink.items.length

theorem ewWritePiece_env_state (w : World) (st : St) (e : EW) (piece : Bytes) (hw : e.writingEnvelope = true) :
    (ewWritePiece w st e piece).1 = st := by
  unfold ewWritePiece; simp [hw]

theorem boundary_vacuous (st : St) (e : EW) (h : e.writingEnvelope = false) : FlushedAtBoundary st e := by
  intro _ hw; rw [h] at hw; cases hw

/-- **Any number of `Write` bytes on the re-framing path.** -/
theorem ewLoop_flushed_at_boundaries (w : World) (tb : Tables) : ∀ (n : Nat) (st : St) (e : EW) (data : Bytes),
    FlushedAtBoundary st e → FlushedAtBoundary (ewLoop w tb n st e data).1 (ewLoop w tb n st e data).2.1 := by
  intro n
  induction n with
  | zero => intro st e data h; simpa [ewLoop] using h
  | succ m ih =>
    intro st e data hinv
    unfold ewLoop
    by_cases herr : e.err = true
    · simp only [herr, if_true]; exact hinv
    · simp only [herr, Bool.false_eq_true, if_false]
      by_cases hlt : (data.length : Int) < e.remaining
      · simp only [hlt, if_true]
        by_cases hw : e.writingEnvelope = true
        · -- part of an envelope: nothing reaches the client
          have hs := ewWritePiece_env_state w st e data hw
          have hf := (C11.ewWritePiece_flags w st e data).1
          generalize ewWritePiece w st e data = r1 at hs hf ⊢
          obtain ⟨s1, e1, f1, p1⟩ := r1
          simp only at hs hf ⊢
          subst hs
          intro hb _
          exact hinv hb hw
        · have hwf : e.writingEnvelope = false := by simpa using hw
          have hf := (C11.ewWritePiece_flags w st e data).1
          generalize ewWritePiece w st e data = r1 at hf ⊢
          obtain ⟨s1, e1, f1, p1⟩ := r1
          simp only at hf ⊢
          exact boundary_vacuous _ _ (by simp only; rw [hf]; exact hwf)
      · simp only [hlt, if_false]
        have hf := (C11.ewWritePiece_flags w st e (data.take e.remaining.toNat)).1
        have hs := ewWritePiece_env_state w st e (data.take e.remaining.toNat)
        generalize ewWritePiece w st e (data.take e.remaining.toNat) = r1 at hf hs ⊢
        obtain ⟨s1, e1, f1, p1⟩ := r1
        simp only at hf hs ⊢
        by_cases hbad : (f1 || p1) = true
        · simp only [hbad, if_true]
          by_cases hw : e.writingEnvelope = true
          · have := hs hw; subst this
            intro hb _; exact hinv hb hw
          · exact boundary_vacuous _ _ (by simp only; rw [hf]; simpa using hw)
        · simp only [hbad, Bool.false_eq_true, if_false]
          by_cases hw : e1.writingEnvelope = true
          · simp only [hw, if_true]
            have hnw := fun ee => C11.ewEnvelopeWritten_not_writing w s1 ee
            generalize hr2 : ewEnvelopeWritten w s1 _ = r2
            have hnw' : r2.2.1.writingEnvelope = false := by rw [← hr2]; exact hnw _
            obtain ⟨s2, e2, f2, p2⟩ := r2
            simp only at hnw' ⊢
            split
            · exact boundary_vacuous _ _ hnw'
            · exact ih _ _ _ (boundary_vacuous _ _ hnw')
          · have hwf : e1.writingEnvelope = false := by simpa using hw
            simp only [hwf, Bool.false_eq_true, if_false]
            by_cases ht : e1.currentIsTrailer = true
            · simp only [ht, if_true]
              split
              · generalize handleEndMessage w tb s1 _ _ true = r3
                obtain ⟨s2, err, p2⟩ := r3
                simp only
                split
                · exact boundary_vacuous _ _ rfl
                · split
                  · exact boundary_vacuous _ _ rfl
                  · exact ih _ _ _ (boundary_vacuous _ _ rfl)
              · exact boundary_vacuous _ _ rfl
            · -- a message has been completed: flush, then wait for the next envelope
              simp only [ht, Bool.false_eq_true, if_false]
              apply ih
              intro hb _
              simp only [flushMessage] at hb ⊢
              by_cases hbuf : s1.rw.buf.isSome = true
              · simp only [hbuf, if_true] at hb
                rw [hb] at hbuf; cases hbuf
              · simp [hbuf, Sink.flush]

/-- **Whole `Write` calls of the re-framing writer** (a writer that was never used starts on a response
    of which nothing is unflushed): between messages everything is flushed. -/
theorem ewWrite_flushed_at_boundaries (w : World) (tb : Tables) (st : St) (e : EW) (data : Bytes)
    (hJ : FlushedAtBoundary st e) (h0 : e.initialized = false → AllFlushed st ∧ e.writingEnvelope = false) :
    FlushedAtBoundary (ewWrite w tb st e data).1 (ewWrite w tb st e data).2.1 := by
  have hinit : FlushedAtBoundary (ewInit w st e).1 (ewInit w st e).2.1 := by
    unfold ewInit
    split
    · exact hJ
    · rename_i hi
      have hi' : e.initialized = false := by simpa using hi
      obtain ⟨haf, hwf⟩ := h0 hi'
      simp only
      split
      · intro hb _; exact haf hb
      · split
        · exact boundary_vacuous _ _ hwf
        · split
          · exact boundary_vacuous _ _ hwf
          · split
            · exact boundary_vacuous _ _ hwf
            · split <;> exact boundary_vacuous _ _ hwf
  unfold ewWrite
  generalize ewInit w st e = r0 at hinit ⊢
  obtain ⟨s0, e0, p0⟩ := r0
  simp only at hinit ⊢
  split
  · exact hinit
  · split
    · exact hinit
    · split
      · by_cases hw : e0.writingEnvelope = true
        · have hs := ewWritePiece_env_state w s0 e0 data hw
          have hf := (C11.ewWritePiece_flags w s0 e0 data).1
          generalize ewWritePiece w s0 e0 data = r1 at hs hf ⊢
          obtain ⟨s1, e1, f1, p1⟩ := r1
          simp only at hs hf ⊢
          subst hs
          intro hb _; exact hinit hb hw
        · have hf := (C11.ewWritePiece_flags w s0 e0 data).1
          generalize ewWritePiece w s0 e0 data = r1 at hf ⊢
          obtain ⟨s1, e1, f1, p1⟩ := r1
          simp only at hf ⊢
          exact boundary_vacuous _ _ (by simp only; rw [hf]; simpa using hw)
      · exact ewLoop_flushed_at_boundaries w tb _ s0 e0 data hinit

/-- The claim is not vacuous: it holds when the backend starts writing (nothing written, nothing
    flushed), and it fails for a state with an unflushed item. -/
example (st : St) (h : st.sink = {}) : AllFlushed st := by intro _; simp [h]

/-! ### the specification predicates are not vacuous -/

/-- Backend wrote two complete messages, the client's body has both, only the first is flushed:
    rejected.  Both flushed: accepted. -/
example : Spec.respStepOk [0,0,0,0,1,7, 0,0,0,0,1,8] 0 [(6, 0), (12, 0)] 0 6 = false := by decide
example : Spec.respStepOk [0,0,0,0,1,7, 0,0,0,0,1,8] 0 [(6, 0), (12, 0)] 0 12 = true := by decide
/-- The handler has message 1 (6 bytes in the backend's framing); the transcoder took 12 bytes, i.e.
    also the client's second message: rejected. -/
example : Spec.reqStepOk [6, 12] [6, 12] 12 6 12 = false := by decide
example : Spec.reqStepOk [6, 12] [6, 12] 12 6 6 = true := by decide

end Vanguard.C16
