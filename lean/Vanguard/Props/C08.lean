import Vanguard.Lemmas.Source
/-!
  C08 — Results do not depend on how bytes are split across reads, writes, flushes.

  The request body is modelled as an adversarial list of chunks: every underlying `Read` returns
  bytes of one chunk only, so every segmentation of the same byte stream is a different `Source`.
  Proved here, for *every* chunking: `io.ReadFull`/`io.CopyN` (`readExactly`, the primitive with
  which every envelope prefix and every enveloped message is read) return the same bytes, the same
  error and leave the same bytes unread.
  Partial: the corresponding statement for the whole reader/writer adapters (`erRead`, `trRead`,
  `ewLoop`, `twLoop`) is not yet a theorem; it is checked on the implementation *and* on the model by
  the `chunk` stream, which runs every scenario under its coarsest segmentation and under a random
  one (request pieces, read-buffer sizes down to 1, write pieces, flushes, empty writes) and demands
  identical observations.
-/
namespace Vanguard.C08
open Vanguard

/-- Exactly the next `k` bytes, whatever the chunking, when at least `k` bytes are left. -/
theorem read_full_exact (fuel : Nat) (src : Source) (k : Nat) (acc : Bytes) (hf : k < fuel)
    (hk : k ≤ src.data.length) :
    ∃ src', readExactly fuel src k acc = (acc ++ src.data.take k, none, src') ∧
      src'.data = src.data.drop k ∧ src'.ending = src.ending :=
  readExactly_enough fuel src k acc hf hk

/-- A body that ends early yields all remaining bytes and an error that depends only on how the
    body ends and on whether anything was read — whatever the chunking. -/
theorem read_full_short (fuel : Nat) (src : Source) (k : Nat) (acc : Bytes)
    (hf : src.data.length + 1 < fuel) (hk : src.data.length < k) :
    ∃ src', readExactly fuel src k acc = (acc ++ src.data, some (shortErr src.ending (acc ++ src.data)), src') ∧
      src'.data = [] :=
  readExactly_short fuel src k acc hf hk

/-- **Corollary: segmentation independence of `io.ReadFull`.**  Two request bodies with the same bytes
    and the same way of ending, delivered in arbitrarily different pieces, give the same bytes and the
    same error, and leave the same bytes unread. -/
theorem readExactly_chunking_independent (s1 s2 : Source) (k : Nat) (acc : Bytes)
    (hd : s1.data = s2.data) (he : s1.ending = s2.ending) :
    let r1 := readExactly (s1.data.length + k + 2) s1 k acc
    let r2 := readExactly (s2.data.length + k + 2) s2 k acc
    r1.1 = r2.1 ∧ r1.2.1 = r2.2.1 ∧ r1.2.2.data = r2.2.2.data := by
  by_cases hk : k ≤ s1.data.length
  · obtain ⟨a, ha, ha2, _⟩ := readExactly_enough (s1.data.length + k + 2) s1 k acc (by omega) hk
    obtain ⟨b, hb, hb2, _⟩ := readExactly_enough (s2.data.length + k + 2) s2 k acc (by omega) (by rw [← hd]; exact hk)
    show (readExactly (s1.data.length + k + 2) s1 k acc).1 = (readExactly (s2.data.length + k + 2) s2 k acc).1 ∧ _
    rw [ha, hb]; simp only [ha2, hb2, hd, and_self]
  · obtain ⟨a, ha, ha2⟩ := readExactly_short (s1.data.length + k + 2) s1 k acc (by omega) (by omega)
    obtain ⟨b, hb, hb2⟩ := readExactly_short (s2.data.length + k + 2) s2 k acc (by omega) (by rw [← hd]; omega)
    show (readExactly (s1.data.length + k + 2) s1 k acc).1 = (readExactly (s2.data.length + k + 2) s2 k acc).1 ∧ _
    rw [ha, hb]; simp only [ha2, hb2, hd, he, and_self]

/-- Non-vacuity: the same five bytes in one piece and byte by byte. -/
example :
    (readExactly 20 { chunks := [[1, 2, 3, 4, 5]], ending := .eof } 3 []).1 =
    (readExactly 20 { chunks := [[1], [2], [], [3], [4], [5]], ending := .eof } 3 []).1 := by decide

end Vanguard.C08
