import Vanguard.Lemmas.Source
import Vanguard.Lemmas.Chunking
import Vanguard.Lemmas.ReadSizes
import Vanguard.Lemmas.ReframeStream
import Vanguard.Lemmas.WriteSplit
import Vanguard.Lemmas.ReframeSplit
import Vanguard.Lemmas.WriteSplitN
import Vanguard.Model.World
/-!
  C08 — Results do not depend on how bytes are split across reads, writes, flushes.

  The request body is modelled as an adversarial list of chunks: every underlying `Read` returns
  bytes of one chunk only, so every segmentation of the same byte stream is a different `Source`.
  Proved here, for *every* chunking: `io.ReadFull`/`io.CopyN` (`readExactly`, the primitive with
  which every envelope prefix and every enveloped message is read) return the same bytes, the same
  error and leave the same bytes unread.
  One level up, also for every chunking: the transcoder's message reader (`readRequestMessage`, enveloped
  clients; `unenveloped_message_chunking_independent` for Connect unary and REST bodies read under the
  size limit) cuts the same message, compressed flag or error out of the same bytes and leaves the same
  bytes (`enveloped_message_chunking_independent`), hence the whole **sequence of request messages
  and its final condition** do not depend on the segmentation (`message_sequence_chunking_independent`).
  **Handler read-buffer sizes** (re-encoding reader, `transformingReader.Read`): two handlers that read the
  same request with any buffer sizes `≥ 1` - down to a single byte - until the body ends are given the
  same bytes and the same final error (`read_buffer_sizes_do_not_matter`).  Behind it: the stream of
  bytes a request state will hand out is defined without reference to read sizes (`Stream`), is
  unique (`Stream.det`), and every `Read(n)` hands out a prefix of it and leaves the rest (`trRead_step`).
  **How the backend splits its response across `Write` calls** (re-encoding writer, the loop of
  `transformingWriter.Write`): processing `a ++ b` in one call and processing `a`, then - unless that
  call failed - `b` in a second call leave the client's connection (status, headers, body items, flush
  positions, end) and the panic flag exactly the same, for every writer state, every split point
  (inside an envelope, inside a message, between messages, empty pieces) and every backend output,
  malformed or not (`write_split_does_not_matter`; `twLoop_prebuffer` is the key step).
  Partial: the corresponding statements for the re-framing reader (`erRead`) and the re-framing writer (`erRead`, `trRead`,
  `ewLoop`, `twLoop`) is not yet a theorem; it is checked on the implementation *and* on the model by
  the `chunk` stream, which runs every scenario under its coarsest segmentation and under a random
  one (request pieces, read-buffer sizes down to 1, write pieces, flushes, empty writes) and demands
  identical observations.
-/
namespace Vanguard.C08
open Vanguard

/-- Exactly the next `k` bytes, whatever the chunking, when at least `k` bytes are left. -/
theorem read_full_exact (fuel : Nat) (src : Source) (k : Nat) (acc : Bytes) (hf : k < fuel)
    (hk : k ≤ src.data.length) :
    ∃ src', readExactly fuel src k acc = (acc ++ src.data.take k, none, src') ∧
      src'.data = src.data.drop k ∧ src'.ending = src.ending :=
  readExactly_enough fuel src k acc hf hk

/-- A body that ends early yields all remaining bytes and an error that depends only on how the
    body ends and on whether anything was read — whatever the chunking. -/
theorem read_full_short (fuel : Nat) (src : Source) (k : Nat) (acc : Bytes)
    (hf : src.data.length + 1 < fuel) (hk : src.data.length < k) :
    ∃ src', readExactly fuel src k acc = (acc ++ src.data, some (shortErr src.ending (acc ++ src.data)), src') ∧
      src'.data = [] :=
  readExactly_short fuel src k acc hf hk

/-- **Corollary: segmentation independence of `io.ReadFull`.**  Two request bodies with the same bytes
    and the same way of ending, delivered in arbitrarily different pieces, give the same bytes and the
    same error, and leave the same bytes unread. -/
theorem readExactly_chunking_independent (s1 s2 : Source) (k : Nat) (acc : Bytes)
    (hd : s1.data = s2.data) (he : s1.ending = s2.ending) :
    let r1 := readExactly (s1.data.length + k + 2) s1 k acc
    let r2 := readExactly (s2.data.length + k + 2) s2 k acc
    r1.1 = r2.1 ∧ r1.2.1 = r2.2.1 ∧ r1.2.2.data = r2.2.2.data := by
  by_cases hk : k ≤ s1.data.length
  · obtain ⟨a, ha, ha2, _⟩ := readExactly_enough (s1.data.length + k + 2) s1 k acc (by omega) hk
    obtain ⟨b, hb, hb2, _⟩ := readExactly_enough (s2.data.length + k + 2) s2 k acc (by omega) (by rw [← hd]; exact hk)
    show (readExactly (s1.data.length + k + 2) s1 k acc).1 = (readExactly (s2.data.length + k + 2) s2 k acc).1 ∧ _
    rw [ha, hb]; simp only [ha2, hb2, hd, and_self]
  · obtain ⟨a, ha, ha2⟩ := readExactly_short (s1.data.length + k + 2) s1 k acc (by omega) (by omega)
    obtain ⟨b, hb, hb2⟩ := readExactly_short (s2.data.length + k + 2) s2 k acc (by omega) (by rw [← hd]; omega)
    show (readExactly (s1.data.length + k + 2) s1 k acc).1 = (readExactly (s2.data.length + k + 2) s2 k acc).1 ∧ _
    rw [ha, hb]; simp only [ha2, hb2, hd, he, and_self]

/-- Non-vacuity: the same five bytes in one piece and byte by byte. -/
example :
    (readExactly 20 { chunks := [[1, 2, 3, 4, 5]], ending := .eof } 3 []).1 =
    (readExactly 20 { chunks := [[1], [2], [], [3], [4], [5]], ending := .eof } 3 []).1 := by decide

/-- **One enveloped message, any segmentation** (same bytes, same ending; everything else equal). -/
theorem enveloped_message_chunking_independent (w : World) (a b : St) (h : StEq a b) (ce : Enveloper)
    (hce : a.op.clientEnveloper = some ce) :
    (readRequestMessage w a false).1 = (readRequestMessage w b false).1 ∧
    (resultOk (readRequestMessage w a false).1 →
      StEq (readRequestMessage w a false).2.1 (readRequestMessage w b false).2.1 ∧
      (readRequestMessage w a false).2.1.op = a.op) :=
  readRequestMessage_enveloped_det w a b h ce hce

/-- **The sequence of request messages does not depend on the segmentation.** -/
theorem message_sequence_chunking_independent (w : World) (ce : Enveloper) (n : Nat) (a b : St) (h : StEq a b)
    (hce : a.op.clientEnveloper = some ce) : readMessages w n a = readMessages w n b :=
  readMessages_det w ce n a b h hce

/-- **The one message of a client without envelopes** (Connect unary, REST): the whole body or the
    same error (too long for the limit, cut, empty), whatever the segmentation. -/
theorem unenveloped_message_chunking_independent (w : World) (a b : St) (h : StEq a b)
    (hce : a.op.clientEnveloper = none) :
    (readRequestMessage w a false).1 = (readRequestMessage w b false).1 :=
  readRequestMessage_unenveloped_det w a b h hce

/-- Reading a whole body under a size limit: everything, or the size error, or the cut - decided
    by the bytes and the way the body ends alone. -/
theorem copy_all_limited_spec (w : World) (limit fuel : Nat) (st : St) (hf : st.src.data.length + 1 < fuel) :
    (copyAllLimited w false limit fuel st 0 []).2.1 = copySpecErr limit st.src.data.length st.src.ending ∧
    (st.src.data.length ≤ limit → (copyAllLimited w false limit fuel st 0 []).1 = st.src.data) := by
  have := copyAllLimited_spec w limit fuel st 0 [] hf (Nat.zero_le _)
  simpa using this

/-- Non-vacuity of `StEq`: the same seven bytes in one piece and in five pieces (one of them empty). -/
example (o : Op) : StEq { op := o, src := { chunks := [[0, 0, 0, 0, 2, 7, 8]], ending := .eof }, sink := {} }
                        { op := o, src := { chunks := [[0], [0, 0], [], [0, 2, 7], [8]], ending := .eof }, sink := {} } :=
  ⟨rfl, rfl, rfl, rfl, ⟨rfl, rfl⟩⟩

/-- **The request bytes a backend handler reads do not depend on its read-buffer sizes** (re-encoding
    path; `Reads` = the handler calls `Read` with the buffer sizes of the list, each at least 1, until a
    `Read` reports an error, `io.EOF` included). -/
theorem read_buffer_sizes_do_not_matter (w : World) (pl : HandlePlan) (st : St) (r : TR) (ns1 ns2 : List Nat)
    (o1 o2 : Bytes) (e1 e2 : Err) (hwf : r.WF) (herr : r.err = none)
    (h1 : Reads w pl st r ns1 o1 e1) (h2 : Reads w pl st r ns2 o2 e2) : o1 = o2 ∧ e1 = e2 :=
  read_sizes_do_not_matter hwf herr h1 h2

/-- Every single `Read(n)`, `n ≥ 1`, hands out a prefix of the stream and leaves the rest. -/
theorem every_read_is_a_stream_step (w : World) (pl : HandlePlan) (F : Nat) (st : St) (r : TR) (n : Nat)
    (hn : 1 ≤ n) (hwf : r.WF) (herr : r.err = none) : StepOk w pl st r (trRead w pl F st r n) :=
  trRead_step w pl F st r n hn hwf herr

/-- **Splitting the backend's output across two `Write` calls changes nothing the client sees**
    (re-encoding writer; `thenLoop` = the second call, skipped when the first one failed; `Visible` = the
    client's connection and the panic flag; `TwInv` is the writer invariant of C11, established by `reset`
    and kept by the loop). -/
theorem write_split_does_not_matter (w : World) (tb : Tables) (a b : Bytes) (F G : Nat) (st : St) (t : TW)
    (hinv : C11.TwInv t) (hbuf : t.err = true ∨ t.buffer.isSome = true)
    (hF : C11.muT t (a ++ b) < F) (hG : 2 * b.length + 2 ≤ G) :
    Visible (twLoop w tb F st t (a ++ b)) = Visible (thenLoop w tb G b (twLoop w tb F st t a)) :=
  twLoop_split w tb b G hG F st t a hinv hbuf hF

/-- Non-vacuity (kernel-evaluated): a gRPC-Web client (codec `raw`) in front of a gRPC backend (codec
    `hexa`), body = one frame `00 00 00 00 02 | 07 08` in two pieces.  A fresh reader is well-formed; a
    `Read(100)` returns the re-encoded message with its envelope, a `Read(1)` returns its first byte. -/
def dConf : MethodConf := { path := s "/p.S/M", streamType := .unary, noSideEffects := false, protocols := [.grpc], codecs := [hexaName], compressors := [], maxMsg := 100, maxGetURL := 100 }
def dOp : Op := { conf := dConf, cform := .grpcWeb, sform := .grpc, reqMeta := {}, ccodec := rawName, scodec := hexaName, cReqComp := none, sReqComp := none, headers := [], contentLen := -1, query := [], reqMethod := sPOST }
def dSt : St := { op := dOp, src := { chunks := [[0, 0, 0, 0, 2, 7], [8]], ending := .eof }, sink := {} }
example : ({} : TR).WF ∧ ({} : TR).err = none := ⟨⟨by decide, fun h => by simp at h⟩, rfl⟩
example : (trRead fakeWorld (dOp.plan fakeWorld) 30 dSt {} 100).1 = [0, 0, 0, 0, 4, 48, 55, 48, 56] := by decide +kernel
example : (trRead fakeWorld (dOp.plan fakeWorld) 30 dSt {} 1).1 = [0] := by decide +kernel

/-- **On the re-framing path, too, neither the read-buffer sizes nor the segmentation of the body
    matter**: two handlers reading two bodies with the same bytes and the same ending - cut into pieces in
    any two ways - with any two sequences of buffer sizes are given the same bytes and see the same final
    error (client and backend both with envelopes; the payload is streamed through, so single `Read`
    results do differ - their concatenation does not). -/
theorem reframing_read_sizes_and_chunking_do_not_matter (w : World) (ce se : Enveloper) (st1 st2 : St) (r : ER)
    (ns1 ns2 : List Nat) (o1 o2 : Bytes) (e1 e2 : Err)
    (hop : st2.op = st1.op) (hdata : st2.src.data = st1.src.data) (hend : st2.src.ending = st1.src.ending)
    (hce : st1.op.clientEnveloper = some ce) (hse : st1.op.serverEnveloper = some se) (hwf : r.WF) (herr : r.err = none)
    (h1 : EReads w st1 r ns1 o1 e1) (h2 : EReads w st2 r ns2 o2 e2) : o1 = o2 ∧ e1 = e2 :=
  reframed_reads_agree w ce se st1 st2 r ns1 ns2 o1 o2 e1 e2 hop hdata hend hce hse hwf herr h1 h2

/-- Every single `Read(n)`, `n ≥ 1`, of the re-framing reader hands out a prefix of the specified stream
    (`erSpec`: a function of the client's bytes and the reader state) and leaves the rest. -/
theorem every_reframing_read_is_a_stream_step (w : World) (ce se : Enveloper) (st : St) (r : ER) (n : Nat) (hn : 1 ≤ n)
    (hce : st.op.clientEnveloper = some ce) (hse : st.op.serverEnveloper = some se) (hwf : r.WF) (herr : r.err = none) :
    EStepOk ce se st (erSpec ce se st r) (erRead w st r n) :=
  erRead_step w ce se st r n hn hce hse hwf herr

/-- **Any number of `Write` pieces, any backend output** (re-encoding path): writing `d ++ d₂ ++ … ++ dₙ` with one
    call or with `n` calls (`thenLoops`: each later call runs only when none before it failed, with the fuel
    `Write` gives its loop) leaves the client's connection - status, headers, body items, flush positions, end -
    and the panic flag exactly the same; the output may be malformed, the pieces empty, the cuts anywhere
    (`TwBuf`: the writer is latched or has its buffer, which `Write` establishes before the loop). -/
theorem write_pieces_do_not_matter (w : World) (tb : Tables) (ds : List Bytes) (d : Bytes) (F : Nat) (st : St) (t : TW)
    (hinv : C11.TwInv t) (hbuf : TwBuf t) (hF : C11.muT t (d ++ ds.flatten) < F) :
    Visible (twLoop w tb F st t (d ++ ds.flatten)) = Visible (thenLoops w tb (twLoop w tb (2 * d.length + 4) st t d) ds) :=
  twLoop_pieces w tb ds d F st t hinv hbuf hF

/-- **On the re-framing path the split of a well-formed response across `Write` calls does not matter**: any
    two ways of cutting the same sequence of legal backend frames into pieces (inside envelopes, inside
    payloads, between messages, with empty pieces) succeed and put the same bytes on the client's connection. -/
theorem reframing_write_split_does_not_matter (w : World) (tb : Tables) (se cc : Enveloper) (st : St)
    (fs : List Frame) (p1 p2 : List Bytes)
    (hb : st.rw.buf = none) (hse : st.op.serverEnveloper = some se) (hcc : st.op.clientEnveloper = some cc)
    (hok : ∀ x ∈ fs, x.ok se st.op.conf.maxMsg) (h1 : p1.flatten = framesBytes fs) (h2 : p2.flatten = framesBytes fs) :
    ∃ s1 e1 s2 e2,
      ewWrites w tb st { initialized := true, writingEnvelope := true, remaining := 5 } p1 = (s1, e1, false, false) ∧
      ewWrites w tb st { initialized := true, writingEnvelope := true, remaining := 5 } p2 = (s2, e2, false, false) ∧
      rawBytes s1.sink.items = rawBytes s2.sink.items := by
  obtain ⟨s1, e1, ha, hra⟩ := ewWrites_clean_stream w tb se cc st fs p1 hb hse hcc hok h1
  obtain ⟨s2, e2, hb', hrb⟩ := ewWrites_clean_stream w tb se cc st fs p2 hb hse hcc hok h2
  exact ⟨s1, e1, s2, e2, ha, hb', hra.trans hrb.symm⟩

end Vanguard.C08
