import Vanguard.Lemmas.Source
import Vanguard.Lemmas.Chunking
/-!
  C08 — Results do not depend on how bytes are split across reads, writes, flushes.

  The request body is modelled as an adversarial list of chunks: every underlying `Read` returns
  bytes of one chunk only, so every segmentation of the same byte stream is a different `Source`.
  Proved here, for *every* chunking: `io.ReadFull`/`io.CopyN` (`readExactly`, the primitive with
  which every envelope prefix and every enveloped message is read) return the same bytes, the same
  error and leave the same bytes unread.
  One level up, also for every chunking: the transcoder's message reader (`readRequestMessage`, enveloped
  clients; `unenveloped_message_chunking_independent` for Connect unary and REST bodies read under the
  size limit) cuts the same message, compressed flag or error out of the same bytes and leaves the same
  bytes (`enveloped_message_chunking_independent`), hence the whole **sequence of request messages
  and its final condition** do not depend on the segmentation (`message_sequence_chunking_independent`).
  Partial: the corresponding statement for the whole reader/writer adapters (`erRead`, `trRead`,
  `ewLoop`, `twLoop`) is not yet a theorem; it is checked on the implementation *and* on the model by
  the `chunk` stream, which runs every scenario under its coarsest segmentation and under a random
  one (request pieces, read-buffer sizes down to 1, write pieces, flushes, empty writes) and demands
  identical observations.
-/
namespace Vanguard.C08
open Vanguard

/-- Exactly the next `k` bytes, whatever the chunking, when at least `k` bytes are left. -/
theorem read_full_exact (fuel : Nat) (src : Source) (k : Nat) (acc : Bytes) (hf : k < fuel)
    (hk : k ≤ src.data.length) :
    ∃ src', readExactly fuel src k acc = (acc ++ src.data.take k, none, src') ∧
      src'.data = src.data.drop k ∧ src'.ending = src.ending :=
  readExactly_enough fuel src k acc hf hk

/-- A body that ends early yields all remaining bytes and an error that depends only on how the
    body ends and on whether anything was read — whatever the chunking. -/
theorem read_full_short (fuel : Nat) (src : Source) (k : Nat) (acc : Bytes)
    (hf : src.data.length + 1 < fuel) (hk : src.data.length < k) :
    ∃ src', readExactly fuel src k acc = (acc ++ src.data, some (shortErr src.ending (acc ++ src.data)), src') ∧
      src'.data = [] :=
  readExactly_short fuel src k acc hf hk

/-- **Corollary: segmentation independence of `io.ReadFull`.**  Two request bodies with the same bytes
    and the same way of ending, delivered in arbitrarily different pieces, give the same bytes and the
    same error, and leave the same bytes unread. -/
theorem readExactly_chunking_independent (s1 s2 : Source) (k : Nat) (acc : Bytes)
    (hd : s1.data = s2.data) (he : s1.ending = s2.ending) :
    let r1 := readExactly (s1.data.length + k + 2) s1 k acc
    let r2 := readExactly (s2.data.length + k + 2) s2 k acc
    r1.1 = r2.1 ∧ r1.2.1 = r2.2.1 ∧ r1.2.2.data = r2.2.2.data := by
  by_cases hk : k ≤ s1.data.length
  · obtain ⟨a, ha, ha2, _⟩ := readExactly_enough (s1.data.length + k + 2) s1 k acc (by omega) hk
    obtain ⟨b, hb, hb2, _⟩ := readExactly_enough (s2.data.length + k + 2) s2 k acc (by omega) (by rw [← hd]; exact hk)
    show (readExactly (s1.data.length + k + 2) s1 k acc).1 = (readExactly (s2.data.length + k + 2) s2 k acc).1 ∧ _
    rw [ha, hb]; simp only [ha2, hb2, hd, and_self]
  · obtain ⟨a, ha, ha2⟩ := readExactly_short (s1.data.length + k + 2) s1 k acc (by omega) (by omega)
    obtain ⟨b, hb, hb2⟩ := readExactly_short (s2.data.length + k + 2) s2 k acc (by omega) (by rw [← hd]; omega)
    show (readExactly (s1.data.length + k + 2) s1 k acc).1 = (readExactly (s2.data.length + k + 2) s2 k acc).1 ∧ _
    rw [ha, hb]; simp only [ha2, hb2, hd, he, and_self]

/-- Non-vacuity: the same five bytes in one piece and byte by byte. -/
example :
    (readExactly 20 { chunks := [[1, 2, 3, 4, 5]], ending := .eof } 3 []).1 =
    (readExactly 20 { chunks := [[1], [2], [], [3], [4], [5]], ending := .eof } 3 []).1 := by decide

/-- **One enveloped message, any segmentation** (same bytes, same ending; everything else equal). -/
theorem enveloped_message_chunking_independent (w : World) (a b : St) (h : StEq a b) (ce : Enveloper)
    (hce : a.op.clientEnveloper = some ce) :
    (readRequestMessage w a false).1 = (readRequestMessage w b false).1 ∧
    (resultOk (readRequestMessage w a false).1 →
      StEq (readRequestMessage w a false).2.1 (readRequestMessage w b false).2.1 ∧
      (readRequestMessage w a false).2.1.op = a.op) :=
  readRequestMessage_enveloped_det w a b h ce hce

/-- **The sequence of request messages does not depend on the segmentation.** -/
theorem message_sequence_chunking_independent (w : World) (ce : Enveloper) (n : Nat) (a b : St) (h : StEq a b)
    (hce : a.op.clientEnveloper = some ce) : readMessages w n a = readMessages w n b :=
  readMessages_det w ce n a b h hce

/-- **The one message of a client without envelopes** (Connect unary, REST): the whole body or the
    same error (too long for the limit, cut, empty), whatever the segmentation. -/
theorem unenveloped_message_chunking_independent (w : World) (a b : St) (h : StEq a b)
    (hce : a.op.clientEnveloper = none) :
    (readRequestMessage w a false).1 = (readRequestMessage w b false).1 :=
  readRequestMessage_unenveloped_det w a b h hce

/-- Reading a whole body under a size limit: everything, or the size error, or the cut - decided
    by the bytes and the way the body ends alone. -/
theorem copy_all_limited_spec (w : World) (limit fuel : Nat) (st : St) (hf : st.src.data.length + 1 < fuel) :
    (copyAllLimited w false limit fuel st 0 []).2.1 = copySpecErr limit st.src.data.length st.src.ending ∧
    (st.src.data.length ≤ limit → (copyAllLimited w false limit fuel st 0 []).1 = st.src.data) := by
  have := copyAllLimited_spec w limit fuel st 0 [] hf (Nat.zero_le _)
  simpa using this

/-- Non-vacuity of `StEq`: the same seven bytes in one piece and in five pieces (one of them empty). -/
example (o : Op) : StEq { op := o, src := { chunks := [[0, 0, 0, 0, 2, 7, 8]], ending := .eof }, sink := {} }
                        { op := o, src := { chunks := [[0], [0, 0], [], [0, 2, 7], [8]], ending := .eof }, sink := {} } :=
  ⟨rfl, rfl, rfl, rfl, ⟨rfl, rfl⟩⟩

end Vanguard.C08
