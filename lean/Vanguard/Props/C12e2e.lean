import Vanguard.Props.C12
import Vanguard.Lemmas.TimeoutHeader
import Vanguard.Model.Run
/-!
  C12, second part — the timeout on its way through `ServeHTTP`.

  `Props/C12.lean` proves the codecs (every header value, every duration).  Here, for the model of a whole
  converted request: the timeout `operation.validate` keeps is what the client protocol's extraction read off
  the client's own header (`validate_timeout`), and `addProtocolRequestHeaders` of the target protocol writes
  exactly the target encoder's text for it into the target protocol's header of the backend request
  (`backend_timeout_header`); without a client timeout none is invented (`backend_without_timeout`).
  Together with the codec theorems: the value the backend reads never exceeds the client's and is short of it
  by less than the target's rounding unit (`client_timeout_reaches_backend`).
-/
namespace Vanguard.C12
open Vanguard

/-- **A timeout the operation carries is in the backend request**, in the target protocol's own header, as the
    text that protocol's encoder makes of it (the Go code leaves out an empty text, hence `hne`). -/
theorem backend_timeout_header (w : World) (sc : Scenario) (o : Op) (pl : HandlePlan) (st : St)
    (first : Option (Bytes × Bool)) (k : Bytes) (d : Int) (hk : o.sform.timeoutHeader = some k)
    (hd : o.reqMeta.timeout = some d) (hne : (o.sform.timeoutText d).isEmpty = false) :
    (transcodeRun w sc o pl st first).backend.headers.values k = [o.sform.timeoutText d] := by
  unfold transcodeRun
  simp only
  exact target_timeout_header o.sform _ o.headers k d hk (by simpa using hd) hne

/-- **No timeout is invented**: without one, the target protocol's timeout header of the backend request is
    whatever the headers handed on had under that name. -/
theorem backend_without_timeout (w : World) (sc : Scenario) (o : Op) (pl : HandlePlan) (st : St)
    (first : Option (Bytes × Bool)) (k : Bytes) (hk : o.sform.timeoutHeader = some k)
    (hd : o.reqMeta.timeout = none) :
    (transcodeRun w sc o pl st first).backend.headers.values k = o.headers.values k := by
  unfold transcodeRun
  simp only
  exact target_no_timeout_header o.sform _ o.headers k hk (by simpa using hd)

/-- **From the client's header to the backend's**: for every validated request whose client header carries the
    timeout `d` (as the client protocol's own extraction reads it), the backend request has the target encoder's
    text for `d` in the target protocol's header, and that text is a valid value which does not exceed `d` and is
    short of it by less than the target's rounding unit. -/
theorem client_timeout_reaches_backend (w : World) (sc : Scenario) (o : Op) (pl : HandlePlan) (st : St)
    (first : Option (Bytes × Bool)) (k : Bytes) (d : Int)
    (hv : validate w sc.conf sc.req = .ok o) (hk : o.sform.timeoutHeader = some k)
    (hc : o.cform.timeoutOf sc.req.headers = some (some d)) (hne : (o.sform.timeoutText d).isEmpty = false) :
    (transcodeRun w sc o pl st first).backend.headers.values k = [o.sform.timeoutText d] ∧
    Spec.grpcEncodeOk d (grpcEncodeTimeout d) = true ∧ Spec.connectEncodeOk d (connectEncodeTimeout d) = true := by
  have ht := validate_timeout w sc.conf sc.req o hv
  rw [hc] at ht
  have hd : o.reqMeta.timeout = some d := by simpa using ht.symm
  refine ⟨backend_timeout_header w sc o pl st first k d hk hd hne, ?_⟩
  have hr : 0 ≤ d ∧ d < 2^63 := by
    cases hcf : o.cform <;> simp only [hcf, ClientForm.timeoutOf] at hc
    · exact extracted_in_range.2 _ d hc
    · exact extracted_in_range.2 _ d hc
    · exact extracted_in_range.2 _ d hc
    · exact extracted_in_range.1 _ d hc
    · exact extracted_in_range.1 _ d hc
    · simp at hc
  exact ⟨grpc_encode_spec d hr.2, connect_encode_spec d hr.1⟩

/-- A request without a timeout header keeps having none: the operation carries no timeout. -/
theorem no_client_timeout_no_backend_timeout (w : World) (sc : Scenario) (o : Op) (pl : HandlePlan) (st : St)
    (first : Option (Bytes × Bool)) (k : Bytes)
    (hv : validate w sc.conf sc.req = .ok o) (hk : o.sform.timeoutHeader = some k)
    (hc : o.cform.timeoutOf sc.req.headers = some none) :
    (transcodeRun w sc o pl st first).backend.headers.values k = o.headers.values k := by
  have ht := validate_timeout w sc.conf sc.req o hv
  rw [hc] at ht
  exact backend_without_timeout w sc o pl st first k hk (by simpa using ht.symm)

/-- Non-vacuity: the header names and a text. -/
example : ServerForm.grpcWeb.timeoutHeader = some (s "Grpc-Timeout") := rfl
example : ServerForm.connectUnary.timeoutText 250000000 = s "250" := by decide +kernel
example : ClientForm.grpc.timeoutOf [(s "Grpc-Timeout", [s "15S"])] = some (some 15000000000) := by decide +kernel


/-- The client form of a validated operation is the one `classifyRequest` gave. -/
theorem validate_cform (w : World) (t : TConf) (r : Req) (o : Op) (hv : validate w t r = .ok o) :
    classifyRequest r = some o.cform := by
  unfold validate at hv
  split at hv
  · simp at hv
  · rename_i c hc
    split at hv
    · simp at hv
    · split at hv
      · simp at hv
      · split at hv
        · simp at hv
        · split at hv
          · simp at hv
          · split at hv
            · simp at hv
            · split at hv
              · simp at hv
              · simp only at hv
                repeat' split at hv
                all_goals first
                  | (simp at hv; done)
                  | (simp only [Except.ok.injEq] at hv
                     rw [← hv]
                     exact hc)

/-- **A malformed timeout is rejected before the backend is invoked**: when the client protocol's extraction cannot
    read the timeout header (`Grpc-Timeout: 1s`, `Connect-Timeout-Ms: abc`, ...), the request is never validated. -/
theorem malformed_timeout_rejected (w : World) (t : TConf) (r : Req) (c : ClientForm)
    (hc : classifyRequest r = some c) (hbad : c.timeoutOf r.headers = none) : ∀ o, validate w t r ≠ .ok o := by
  intro o h
  have h1 := validate_cform w t r o h
  rw [hc] at h1
  have h2 := validate_timeout w t r o h
  simp only [Option.some.injEq] at h1
  rw [← h1, hbad] at h2
  cases h2

example : ClientForm.grpc.timeoutOf [(s "Grpc-Timeout", [s "1s"])] = none := by decide +kernel

end Vanguard.C12
