import Vanguard.Model.Config
import Vanguard.Spec.Config
import Vanguard.Props.C06
import Vanguard.Gen.Facts
/-!
  # C17 — NewTranscoder accepts exactly the servable configurations and honours them

  `Model/Config.newTranscoder` mirrors the phases of `NewTranscoder` (option resolution,
  `registerService` per service in order, `registerRules`, REST-only check).  Theorems, for every
  schema and configuration:

  * **selectors** (`selector_spec`, `exact_selector_names_one`): a rule binds exactly the methods
    its selector names - the one method with that full name, or, for `p*`, the methods below the
    name boundary `p`; everything else is rejected as a selector.  On the pinned tree this failed
    (an exact selector was treated as a prefix; see known_findings.json, fixed);
  * **options** (`resolve_*`): for every option kind the last setting wins, per-service settings
    over transcoder-wide defaults over the built-in defaults;
  * **acceptance is sound** (`accepted_services_servable`, `accepted_rules_bind`,
    `accepted_methods_distinct`): an accepted configuration has servable options for every
    service, no method registered twice, and every rule has a well-formed selector naming at
    least one registered method;
  * **bindings are reachable** (`binding_never_404`): whatever else is in the table, a request
    whose path matches a binding's template is never answered "not found" (from C06).

  NOT proved (partial): completeness of acceptance (every servable configuration is accepted) and
  that the accepted tables are exactly the declared bindings - both are compared with the
  implementation on every configuration of the `config` stream (tables dumped through the `verif`
  hook, every binding probed with a URL built from its template).
-/
namespace Vanguard.C17
open Vanguard Vanguard.Cfg Vanguard.Spec

/-! ### selectors -/

/-- **A selector binds exactly the methods it names.** -/
theorem selector_spec (sel fullName : Bytes) :
    (match parseSelector sel with
      | .ok σ => σ.binds fullName
      | .error _ => false) = selectorNames sel fullName := by
  unfold parseSelector selectorNames
  by_cases he : sel = []
  · subst he; simp
  · have he' : sel.isEmpty = false := by simpa using he
    simp only [he', Bool.false_eq_true, if_false]
    cases hi : List.idxOf? 0x2A sel with
    | none =>
      have hn : (0x2A : UInt8) ∉ sel := List.idxOf?_eq_none_iff.mp hi
      have hc : sel.contains 0x2A = false := by simpa using hn
      simp only [hc, Bool.false_eq_true, if_false, Selector.binds, Bool.not_false, Bool.true_and]
      exact Bool.beq_comm
    | some i =>
      obtain ⟨hlt, hget, hfirst⟩ := List.idxOf?_eq_some_iff.mp hi
      have hmem : (0x2A : UInt8) ∈ sel := hget ▸ List.getElem_mem hlt
      have hc : sel.contains 0x2A = true := by simpa using hmem
      simp only [hc, if_true]
      have hp : sel.take (sel.length - 1) = sel.dropLast := (List.dropLast_eq_take).symm
      rw [hp]
      by_cases hend : i = sel.length - 1
      · have hlast : sel.getLast? = some 0x2A := by
          rw [List.getLast?_eq_getElem?, ← hend, List.getElem?_eq_getElem hlt, hget]
        have hnp : sel.dropLast.contains 0x2A = false := by
          apply Bool.eq_false_iff.mpr
          intro hcon
          have hm2 : (0x2A : UInt8) ∈ sel.take (sel.length - 1) := by rw [hp]; simpa using hcon
          obtain ⟨j, hj, hjv⟩ := List.mem_take_iff_getElem.mp hm2
          exact hfirst j (by omega) hjv
        have hne : (i != sel.length - 1) = false := by simp [hend]
        simp only [hne, Bool.false_eq_true, if_false, hlast, hnp, beq_self_eq_true, Bool.not_false, Bool.true_and]
        generalize sel.dropLast = p
        by_cases hw : p.isEmpty = true
        · simp [hw, Selector.binds]
        · have hw' : p.isEmpty = false := by simpa using hw
          by_cases h2 : p.getLast? = some 0x2E
          · simp [hw', h2, Selector.binds]
          · have h2' : (p.getLast? == some 0x2E) = false := by simpa using h2
            have h2'' : (p.getLast? != some 0x2E) = true := by simp [bne, h2']
            simp [hw', h2', h2'']
      · have hne : (i != sel.length - 1) = true := by simp [hend]
        simp only [hne, if_true]
        by_cases hlast : sel.getLast? = some 0x2A
        · have : sel.dropLast.contains 0x2A = true := by
            have hm3 : (0x2A : UInt8) ∈ sel.take (sel.length - 1) :=
              List.mem_take_iff_getElem.mpr ⟨i, by omega, hget⟩
            rw [hp] at hm3
            simpa using hm3
          have hm4 : (0x2A : UInt8) ∈ sel.dropLast := by simpa using this
          simp [hm4]
        · simp [hlast]

theorem nodup_map_inj (l : List MethodReg) (hn : (l.map (·.fullName)).Nodup) (a b : MethodReg)
    (ha : a ∈ l) (hb : b ∈ l) (e : a.fullName = b.fullName) : a = b := by
  induction l with
  | nil => cases ha
  | cons x rest ih =>
    simp only [List.map_cons, List.nodup_cons] at hn
    rcases List.mem_cons.mp ha with rfl | ha' <;> rcases List.mem_cons.mp hb with rfl | hb'
    · rfl
    · exact absurd (e ▸ List.mem_map.mpr ⟨b, hb', rfl⟩) hn.1
    · exact absurd (e ▸ List.mem_map.mpr ⟨a, ha', rfl⟩) hn.1
    · exact ih hn.2 ha' hb'

/-- An exact selector names at most one method of a table without duplicate names. -/
theorem exact_selector_names_one (name : Bytes) (methods : List MethodReg)
    (hn : (methods.map (·.fullName)).Nodup) (m₁ m₂ : MethodReg) (h₁ : m₁ ∈ methods) (h₂ : m₂ ∈ methods)
    (b₁ : (Selector.exact name).binds m₁.fullName = true) (b₂ : (Selector.exact name).binds m₂.fullName = true) :
    m₁ = m₂ := by
  simp only [Selector.binds, beq_iff_eq] at b₁ b₂
  exact nodup_map_inj methods hn m₁ m₂ h₁ h₂ (b₁.trans b₂.symm)

/-- A method whose name merely starts with an exact selector is not bound (the pinned defect). -/
example : (match parseSelector [0x61, 0x2E, 0x47] with        -- "a.G"
    | .ok σ => σ.binds [0x61, 0x2E, 0x47, 0x42]                -- "a.GB"
    | .error _ => true) = false := by decide

/-! ### options: the last setting wins -/

theorem foldl_protocols (l : List SvcOpt) : ∀ o : SvcOpts,
    (l.foldl SvcOpts.apply o).protocols = (lastProtocols l).getD o.protocols := by
  induction l with
  | nil => intro o; rfl
  | cons x rest ih =>
    intro o
    simp only [List.foldl_cons, ih, lastProtocols]
    cases lastProtocols rest with
    | some l => rfl
    | none => cases x <;> rfl

theorem foldl_maxMsg (l : List SvcOpt) : ∀ o : SvcOpts,
    (l.foldl SvcOpts.apply o).maxMsg = (lastMaxMsg l).getD o.maxMsg := by
  induction l with
  | nil => intro o; rfl
  | cons x rest ih =>
    intro o
    simp only [List.foldl_cons, ih, lastMaxMsg]
    cases lastMaxMsg rest with
    | some l => rfl
    | none => cases x <;> rfl

theorem foldl_codecs (l : List SvcOpt) : ∀ o : SvcOpts,
    (l.foldl SvcOpts.apply o).codecs = (lastCodecs l).getD o.codecs := by
  induction l with
  | nil => intro o; rfl
  | cons x rest ih =>
    intro o
    simp only [List.foldl_cons, ih, lastCodecs]
    cases lastCodecs rest with
    | some l => rfl
    | none => cases x <;> rfl

theorem foldl_compress (l : List SvcOpt) : ∀ o : SvcOpts,
    (l.foldl SvcOpts.apply o).compressors = (lastCompress l).getD o.compressors := by
  induction l with
  | nil => intro o; rfl
  | cons x rest ih =>
    intro o
    simp only [List.foldl_cons, ih, lastCompress]
    cases lastCompress rest with
    | some l => rfl
    | none => cases x <;> rfl

theorem lastProtocols_append (a b : List SvcOpt) :
    lastProtocols (a ++ b) = (lastProtocols b).orElse fun _ => lastProtocols a := by
  induction a with
  | nil => cases h : lastProtocols b <;> simp [h, lastProtocols]
  | cons x rest ih =>
    simp only [List.cons_append, lastProtocols, ih]
    cases lastProtocols b with
    | some l => rfl
    | none => rfl

/-- **Per-service options override transcoder-wide defaults, which override the built-in ones**:
    the target protocols of a service are those of its own last `WithTargetProtocols`, else those of
    the last such default option, else Connect, gRPC and gRPC-Web. -/
theorem resolve_protocols (defaults own : List SvcOpt) :
    (resolveOpts defaults own).protocols =
      match lastProtocols own with
      | some l => l
      | none => match lastProtocols defaults with
        | some l => l
        | none => [1, 2, 3] := by
  unfold resolveOpts
  rw [foldl_protocols, lastProtocols_append]
  cases lastProtocols own with
  | some l => rfl
  | none => cases lastProtocols defaults <;> rfl

/-- The same shape for the other options (stated for the whole option list). -/
theorem resolve_maxMsg (defaults own : List SvcOpt) :
    (resolveOpts defaults own).maxMsg = (lastMaxMsg (defaults ++ own)).getD 4294967295 := by
  unfold resolveOpts; rw [foldl_maxMsg]

theorem resolve_codecs (defaults own : List SvcOpt) :
    (resolveOpts defaults own).codecs = (lastCodecs (defaults ++ own)).getD [nameProto, nameJson] := by
  unfold resolveOpts; rw [foldl_codecs]

theorem resolve_compress (defaults own : List SvcOpt) :
    (resolveOpts defaults own).compressors = (lastCompress (defaults ++ own)).getD [nameGzip] := by
  unfold resolveOpts; rw [foldl_compress]

/-! ### acceptance is sound -/

theorem checkOpts_nil_iff (c : Config) (o : SvcOpts) : checkOpts c o = [] ↔ optsServable c o = true := by
  unfold checkOpts optsServable
  rw [List.any_eq_not_all_not (l := o.protocols), List.any_eq_not_all_not (l := o.codecs),
    List.any_eq_not_all_not (l := o.compressors)]
  simp only [Bool.not_not, bne]
  generalize o.protocols.isEmpty = a1
  generalize (o.protocols.all fun p => decide (1 ≤ p) && decide (p ≤ 4)) = a2
  generalize o.codecs.isEmpty = a3
  generalize (o.codecs.all fun x => c.knownCodecs.contains x) = a4
  generalize (o.compressors.all fun x => c.knownCompressors.contains x) = a5
  generalize (o.maxMsg == 0) = a6
  generalize (o.maxGet == 0) = a7
  cases a1 <;> cases a2 <;> cases a3 <;> cases a4 <;> cases a5 <;> cases a6 <;> cases a7 <;> simp_all

/-- Accepted ⇒ every registered service exists in the schema and resolves to servable options. -/
theorem registerServices_servable (c : Config) : ∀ (regs : List SvcReg) (acc out : List MethodReg),
    registerServices c regs acc = .ok out →
    ∀ r ∈ regs, (c.schema.services.find? (·.fullName == r.svc)).isSome = true ∧
      optsServable c (resolveOpts c.defaults r.opts) = true := by
  intro regs
  induction regs with
  | nil => intro _ _ _ r hr; cases hr
  | cons r0 rest ih =>
    intro acc out h r hr
    simp only [registerServices] at h
    cases hf : c.schema.services.find? (·.fullName == r0.svc) with
    | none => rw [hf] at h; cases h
    | some sd =>
      rw [hf] at h
      simp only at h
      cases hc : checkOpts c (resolveOpts c.defaults r0.opts) with
      | cons e es => rw [hc] at h; cases h
      | nil =>
        rw [hc] at h
        simp only at h
        split at h
        · cases h
        · rcases List.mem_cons.mp hr with rfl | hr'
          · exact ⟨by rw [hf]; rfl, (checkOpts_nil_iff c _).mp hc⟩
          · exact ih _ _ h r hr'

/-- Accepted ⇒ no method path is registered twice. -/
theorem registerServices_distinct (c : Config) : ∀ (regs : List SvcReg) (acc out : List MethodReg),
    (acc.map (·.path)).Nodup → registerServices c regs acc = .ok out → (out.map (·.path)).Nodup := by
  intro regs
  induction regs with
  | nil => intro acc out hn h; simp only [registerServices] at h; cases h; exact hn
  | cons r0 rest ih =>
    intro acc out hn h
    simp only [registerServices] at h
    cases hf : c.schema.services.find? (·.fullName == r0.svc) with
    | none => rw [hf] at h; cases h
    | some sd =>
      rw [hf] at h
      simp only at h
      cases hc : checkOpts c (resolveOpts c.defaults r0.opts) with
      | cons e es => rw [hc] at h; cases h
      | nil =>
        rw [hc] at h
        simp only at h
        split at h
        · cases h
        · rename_i hdup
          simp only [Bool.or_eq_true, Bool.not_eq_true', not_or, Bool.not_eq_true, decide_eq_false_iff_not,
            Decidable.not_not] at hdup
          apply ih _ _ _ h
          rw [List.map_append]
          refine List.nodup_append.mpr ⟨hn, ?_, ?_⟩
          · simpa using hdup.2
          · intro a ha b hb hab
            subst hab
            obtain ⟨ma, hma, rfl⟩ := List.mem_map.mp ha
            obtain ⟨mb, hmb, hpb⟩ := List.mem_map.mp hb
            have hany := hdup.1
            have : (List.any (methodConfsOf sd (resolveOpts c.defaults r0.opts)) fun m => acc.any fun x => x.path == m.path) = true :=
              List.any_eq_true.mpr ⟨mb, hmb, List.any_eq_true.mpr ⟨ma, hma, by simp [hpb]⟩⟩
            rw [hany] at this; cases this

/-- Accepted ⇒ every rule's selector is well-formed and names at least one registered method. -/
theorem matchRules_bind (methods : List MethodReg) : ∀ (rules : List Rule) (out : List (Selector × Rule)),
    matchRules methods rules = .ok out →
    ∀ r ∈ rules, ∃ m ∈ methods, selectorNames r.selector m.fullName = true := by
  intro rules
  induction rules with
  | nil => intro _ _ r hr; cases hr
  | cons r0 rest ih =>
    intro out h r hr
    simp only [matchRules] at h
    cases hp : parseSelector r0.selector with
    | error e => rw [hp] at h; cases h
    | ok sel =>
      rw [hp] at h
      simp only at h
      split at h
      · cases h
      · rename_i hany
        cases hm : matchRules methods rest with
        | error e => rw [hm] at h; cases h
        | ok out' =>
          rcases List.mem_cons.mp hr with rfl | hr'
          · simp only [Bool.not_eq_true', Bool.not_eq_false] at hany
            have hany' : (methods.any fun m => sel.binds m.fullName) = true := by
              cases hv : (methods.any fun m => sel.binds m.fullName) with
              | true => rfl
              | false => rw [hv] at hany; simp at hany
            obtain ⟨m, hmem, hb⟩ := List.any_eq_true.mp hany'
            refine ⟨m, hmem, ?_⟩
            have := selector_spec r.selector m.fullName
            rw [hp] at this
            rw [← this]; exact hb
          · exact ih out' hm r hr'

/-- **An accepted configuration is servable**: options of every service, distinct methods,
    selectors. -/
theorem accepted_sound (c : Config) (tb : CfgTables) (h : newTranscoder c = .ok tb) :
    (∀ r ∈ c.services, optsServable c (resolveOpts c.defaults r.opts) = true) ∧
    (∃ methods, registerServices c c.services [] = .ok methods ∧ (methods.map (·.path)).Nodup ∧
      ∀ r ∈ c.rules, ∃ m ∈ methods, selectorNames r.selector m.fullName = true) := by
  unfold newTranscoder at h
  cases hs : registerServices c c.services [] with
  | error e => rw [hs] at h; cases h
  | ok methods =>
    rw [hs] at h
    simp only at h
    cases hm : matchRules methods c.rules with
    | error e => rw [hm] at h; cases h
    | ok sels =>
      refine ⟨fun r hr => (registerServices_servable c c.services [] methods hs r hr).2, methods, rfl, ?_, ?_⟩
      · exact registerServices_distinct c c.services [] methods List.nodup_nil hs
      · exact matchRules_bind methods c.rules sels hm

/-! ### bindings are reachable -/

/-- **A binding in the table is never answered "not found"**: whatever other bindings exist, a
    request whose path matches the binding's template (and verb) finds a target or, for another
    HTTP method, the list of allowed methods. -/
theorem binding_never_404 (routes : List Route) (r : Route) (hr : r ∈ routes) (path : List Bytes)
    (hm : segMatch r.segs path = true) (method : Bytes) :
    findTarget routes path r.verb method ≠ .none := by
  intro hnone
  have := C06.find_none_complete r.verb method path routes hnone r hr
  simp [routeMatches, hm] at this


/-! ### the built-in defaults of the model are the ones in the source (regenerated on every run) -/

theorem source_defaults_are_model :
    Gen.defaultMaxMessageBufferBytes = ({} : SvcOpts).maxMsg ∧ Gen.defaultMaxGetURLBytes = ({} : SvcOpts).maxGet := by decide

/-- The numbering of protocols used by the model (1 Connect, 2 gRPC, 3 gRPC-Web, 4 REST; the valid
    ones are 1..4) is the declaration order of the `Protocol` constants. -/
theorem source_protocol_order_is_model : Gen.protocols = ["Connect", "GRPC", "GRPCWeb", "REST"] := by decide

end Vanguard.C17
