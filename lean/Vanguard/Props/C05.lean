import Vanguard.Lemmas.Headers
/-!
  C05 — Application headers and trailers survive transcoding in both directions.

  Header maps are association lists over canonical keys; every statement is about `values k`, so
  Go's map iteration order cannot matter.  `NotControl k` says that `k` is none of the header names
  the protocol handlers read, delete or set (`controlNames`).
  Proved (request direction, every configuration, client form, target form and header set):
  a header that is not a protocol control header has, after validation and after the target
  protocol's headers were added, exactly the name and (multi-)values the client sent.
  Response direction and trailer relocation: compared field by field between model and
  implementation on every e2e scenario (`ch`, `ct`), and checked against the scenario's ground
  truth by `oracleC05` (response headers present, trailers present in the place the client's
  protocol defines, no gRPC status key in application metadata).  Partial: no theorem yet.
-/
namespace Vanguard.C05
open Vanguard

/-- Extracting the client protocol's control headers leaves every other header untouched. -/
theorem extraction_keeps_application_headers (c : ClientForm) (q : Query) (h : Hdr) (rm : ReqMeta) (h' : Hdr)
    (k : Bytes) (hk : NotControl k) (hex : c.extractRequestHeaders q h = some (rm, h')) :
    h'.values k = h.values k := extract_preserves c q h rm h' k hk hex

/-- Adding the target protocol's control headers touches no other header. -/
theorem target_headers_keep_application_headers (p : ServerForm) (m : ReqMeta) (h : Hdr) (k : Bytes)
    (hk : NotControl k) : (p.addRequestHeaders m h).values k = h.values k :=
  add_request_headers_preserves p m h k hk

/-- **Request headers reach the backend.** For every request that passes validation, whatever target
    protocol was negotiated, a non-control header arrives with the same (multi-)values. -/
theorem request_headers_reach_backend (w : World) (t : TConf) (r : Req) (o : Op) (m : ReqMeta) (k : Bytes)
    (hk : NotControl k) (hv : validate w t r = .ok o) :
    (o.sform.addRequestHeaders m o.headers).values k = r.headers.values k := by
  rw [add_request_headers_preserves o.sform m o.headers k hk]
  exact validate_preserves_headers w t r o k hk hv

end Vanguard.C05
