import Vanguard.Lemmas.Headers
import Vanguard.Lemmas.RespHeaders
import Vanguard.Lemmas.TrailerRelay
/-!
  C05 — Application headers and trailers survive transcoding in both directions.

  Header maps are association lists over canonical keys; every statement is about `values k`, so
  Go's map iteration order cannot matter.  `NotControl k` says that `k` is none of the header names
  the protocol handlers read, delete or set (`controlNames`).
  Proved, **request direction** (every configuration, client form, target form and header set): a
  header that is not a protocol control header has, after validation and after the target protocol's
  headers were added, exactly the name and (multi-)values the client sent.
  Proved, **response direction** (every backend protocol, client protocol, status, declared trailers,
  content length, compression): `head_has_application_headers` - when the response head goes out
  without ending the RPC, every application header (`RespApp`: not a response control header, not
  written in one of the two trailer notations) has in the head the client receives exactly the values
  the backend handler left in its header map; the three steps behind it are separate theorems
  (`extract_response_keeps_application_headers`, `add_response_headers_keep_application_headers`,
  `flushed_head_is_the_live_map`).  Protocol status keys never stay in application trailers
  (`status_keys_never_leak`), other trailer keys are untouched by the status extraction.
  Trailer relocation (which place the client's protocol defines) and error responses: compared field
  by field between model and implementation on every e2e scenario (`ch`, `ct`), and checked against
  the scenario's ground truth by `oracleC05`.
  Proved, **trailers in the place the client's protocol defines** (every state the response writer can
  reach, `Good`): the trailers of the RPC's end - the ones the backend's protocol handler extracted, or the
  ones the handler stored when the end has none (`effTrailers`) - reach a Connect-streaming client inside
  its end-of-stream frame, always (`connect_stream_trailers_in_end_of_stream`); a gRPC-Web client, once the
  head is out, inside its trailer frame (`grpc_web_trailers_in_trailer_frame`); a gRPC client, once the
  head is out, as HTTP trailers merged under the `Trailer:` prefix (`grpc_trailers_in_http_trailers`).
  Partial: trailers-only responses of gRPC / gRPC-Web clients (end in the head) and the `Trailer-`
  headers of a unary Connect client are compared and checked by the oracle, not proved.
-/
namespace Vanguard.C05
open Vanguard

/-- Extracting the client protocol's control headers leaves every other header untouched. -/
theorem extraction_keeps_application_headers (c : ClientForm) (q : Query) (h : Hdr) (rm : ReqMeta) (h' : Hdr)
    (k : Bytes) (hk : NotControl k) (hex : c.extractRequestHeaders q h = some (rm, h')) :
    h'.values k = h.values k := extract_preserves c q h rm h' k hk hex

/-- Adding the target protocol's control headers touches no other header. -/
theorem target_headers_keep_application_headers (p : ServerForm) (m : ReqMeta) (h : Hdr) (k : Bytes)
    (hk : NotControl k) : (p.addRequestHeaders m h).values k = h.values k :=
  add_request_headers_preserves p m h k hk

/-- **Request headers reach the backend.** For every request that passes validation, whatever target
    protocol was negotiated, a non-control header arrives with the same (multi-)values. -/
theorem request_headers_reach_backend (w : World) (t : TConf) (r : Req) (o : Op) (m : ReqMeta) (k : Bytes)
    (hk : NotControl k) (hv : validate w t r = .ok o) :
    (o.sform.addRequestHeaders m o.headers).values k = r.headers.values k := by
  rw [add_request_headers_preserves o.sform m o.headers k hk]
  exact validate_preserves_headers w t r o k hk hv

/-! ### response direction -/

/-- Taking the backend protocol's control headers out of the response head leaves every application
    header untouched. -/
theorem extract_response_keeps_application_headers (p : ServerForm) (tb : Tables) (status : Nat) (h : Hdr) (k : Bytes)
    (hk : RespApp k) : (p.extractResponseHeaders tb status h).2.2.values k = h.values k :=
  extract_response_preserves p tb status h k hk

/-- Adding the client protocol's control headers (and, for an end that travels in the head, its
    trailers under other keys) touches no application header. -/
theorem add_response_headers_keep_application_headers (c : ClientForm) (rm : RespMeta) (sink : Sink) (k : Bytes)
    (hk : RespApp k) (ha : EndAvoids rm.end k) : (addResponseHeaders c rm sink).2.hdr.values k = sink.hdr.values k :=
  add_response_preserves c rm sink k hk ha

/-- The head on the wire is the live header map at the moment of the flush. -/
theorem flushed_head_is_the_live_map (w : World) (st : St) (k : Bytes) (hk : RespApp k)
    (hf : st.rw.headersFlushed = false) (hs : st.sink.status = none)
    (ha : EndAvoids (st.rw.respMeta.getD {}).end k) :
    (flushHeaders w st).1.sink.snap.values k = st.sink.hdr.values k :=
  flushHeaders_snapshot w st k hk hf hs ha

/-- **Response headers reach the client** (see `Lemmas/RespHeaders.lean` for the statement in words). -/
theorem response_headers_reach_client (w : World) (tb : Tables) (st : St) (status : Nat) (k : Bytes) (h0 : Hdr)
    (hk : RespApp k) (hp : Pre k h0 st) (hnew : st.rw.headersWritten = false)
    (hfl : (rwWriteHeader w tb st status).1.rw.headersFlushed = true)
    (hop : (rwWriteHeader w tb st status).1.rw.endWritten = false) :
    (rwWriteHeader w tb st status).1.sink.snap.values k = h0.values k :=
  head_has_application_headers w tb st status k h0 hk hp hnew hfl hop

/-- gRPC status keys never stay in the application trailers; every other key keeps its values. -/
theorem status_keys_never_leak (tb : Tables) (h : Hdr) :
    (grpcExtractErrorFromTrailer tb h).2.has (s "Grpc-Status") = false ∧
    (grpcExtractErrorFromTrailer tb h).2.has (s "Grpc-Message") = false ∧
    (grpcExtractErrorFromTrailer tb h).2.has (s "Grpc-Status-Details-Bin") = false :=
  grpcExtractErrorFromTrailer_no_status tb h

theorem trailer_keys_survive_status_extraction (tb : Tables) (h : Hdr) (k : Bytes) (hk : RespApp k) :
    (grpcExtractErrorFromTrailer tb h).2.values k = h.values k :=
  grpcExtractErrorFromTrailer_values tb h k hk

/-! ### trailers in the place the client's protocol defines -/

/-- A Connect-streaming client gets the end of the RPC - error and trailers - as its end-of-stream
    frame (flags 2), whether or not the head was already sent. -/
theorem connect_stream_trailers_in_end_of_stream (w : World) (st : St) (e : RespEnd) (hg : Good st)
    (hopen : st.rw.endWritten = false) (hc : st.op.cform = .connectStream) :
    ∃ e', (reportEnd w st e).1.sink.endItem = some (.endFrame 2 e') ∧ e'.err = e.err ∧ e'.trailers = effTrailers st e :=
  reportEnd_stream_frame w st e hg hopen hc

/-- A gRPC-Web client whose head is out gets error and trailers as its trailer frame (flags 0x80). -/
theorem grpc_web_trailers_in_trailer_frame (w : World) (st : St) (e : RespEnd) (hg : Good st)
    (hopen : st.rw.endWritten = false) (hfl : st.rw.headersFlushed = true) (hc : st.op.cform = .grpcWeb) :
    ∃ e', (reportEnd w st e).1.sink.endItem = some (.endFrame 0x80 e') ∧ e'.err = e.err ∧ e'.trailers = effTrailers st e := by
  obtain ⟨f, e', h1, h2, h3, h4⟩ := reportEnd_late_frame w st e hg hopen hfl (Or.inl hc)
  rw [hc] at h4; simp at h4; subst h4
  exact ⟨e', h1, h2, h3⟩

/-- A gRPC client whose head is out gets the trailers as HTTP trailers and the status in them. -/
theorem grpc_trailers_in_http_trailers (w : World) (st : St) (e : RespEnd) (hopen : st.rw.endWritten = false)
    (hfl : st.rw.headersFlushed = true) (hc : st.op.cform = .grpc) :
    (reportEnd w st e).1.sink.hdr = httpMergeTrailers (cleanedHdr st) (effTrailers st e) ∧
    (reportEnd w st e).1.sink.trailerEndSet = true ∧ (reportEnd w st e).1.sink.trailerEnd = e.err :=
  reportEnd_late_grpc w st e hopen hfl hc

/-- Non-vacuity (kernel-evaluated): a Connect-streaming client, end with one trailer. -/
def tOp : Op := { conf := { path := s "/p.S/M", streamType := .bidi, noSideEffects := false, protocols := [.grpc], codecs := [rawName], compressors := [], maxMsg := 100, maxGetURL := 100 }, cform := .connectStream, sform := .grpc, reqMeta := {}, ccodec := rawName, scodec := rawName, cReqComp := none, sReqComp := none, headers := [], contentLen := -1, query := [], reqMethod := sPOST }
def tSt : St := { op := tOp, src := { chunks := [], ending := .eof }, sink := {} }
example : Good tSt ∧ tSt.rw.endWritten = false := ⟨good_init _ _, rfl⟩
example : ((reportEnd fakeWorld tSt { trailers := [(s "X-T", [[7]])] }).1.sink.endItem.map fun i =>
    match i with | .endFrame f e => (f, e.trailers) | _ => (0, [])) = some (2, [(s "X-T", [[7]])]) := by decide +kernel

/-! Non-vacuity: a gRPC-Web client in front of a gRPC backend whose handler set `X-App` and the
    gRPC content type: `WriteHeader(200)` flushes the head, does not end the RPC, and the head the
    client receives has `X-App` with the handler's value (kernel-evaluated). -/
def demoConf : MethodConf := { path := s "/p.S/M", streamType := .unary, noSideEffects := false, protocols := [.grpc], codecs := [rawName], compressors := [], maxMsg := 100, maxGetURL := 100 }
def demoOp : Op := { conf := demoConf, cform := .grpcWeb, sform := .grpc, reqMeta := {}, ccodec := rawName, scodec := rawName, cReqComp := none, sReqComp := none, headers := [], contentLen := -1, query := [], reqMethod := sPOST }
def demoSt : St := { op := demoOp, src := { chunks := [], ending := .eof }, sink := { hdr := [(s "Content-Type", [s "application/grpc+raw"]), (s "X-App", [[1, 2]])] } }
example : ((rwWriteHeader fakeWorld {} demoSt 200).1.rw.headersFlushed
    && !(rwWriteHeader fakeWorld {} demoSt 200).1.rw.endWritten
    && ((rwWriteHeader fakeWorld {} demoSt 200).1.sink.snap.values (s "X-App") == [[1, 2]])) = true := by decide +kernel
example : Pre (s "X-App") demoSt.sink.hdr demoSt := ⟨rfl, rfl, rfl, rfl⟩

/-- **Trailers-only responses of gRPC and gRPC-Web clients**: when the response metadata already carries the end,
    every trailer of that end (distinct keys) is in the response head under its own name with its values. -/
theorem trailers_only_metadata_in_head (c : ClientForm) (hc : c = .grpc ∨ c = .grpcWeb) (rm : RespMeta) (sink : Sink)
    (e : RespEnd) (he : rm.end = some e) (hd : e.trailers.Pairwise (fun a b => a.1 ≠ b.1))
    (t : Bytes × List Bytes) (ht : t ∈ e.trailers) (k : Bytes) (hk : t.1 = canonKey k) :
    (addResponseHeaders c rm sink).2.hdr.values k = t.2 := by
  unfold addResponseHeaders
  rcases hc with rfl | rfl
  · have h1 : (ClientForm.grpc == ClientForm.grpc) = true := by decide
    simp only [h1, if_true, he, Option.isNone_some, Bool.and_false, Bool.false_eq_true, if_false, writeEndToHeaders]
    exact foldl_setRaw_values_mem e.trailers _ k t hd ht hk
  · have h1 : (ClientForm.grpcWeb == ClientForm.grpc) = false := by decide
    simp only [h1, Bool.false_and, Bool.false_eq_true, if_false, he, writeEndToHeaders]
    exact foldl_setRaw_values_mem e.trailers _ k t hd ht hk

/-- Non-vacuity: one application trailer of an error end, read off the head of a gRPC-Web response. -/
example : (addResponseHeaders .grpcWeb { «end» := some { err := some { code := 5, msg := .text (s "gone"), details := 1 }, trailers := [(s "X-T", [[7]])] } } {}).2.hdr.values (s "X-T") = [[7]] := by
  decide +kernel


theorem foldl_setRaw_prefixed_values_mem (p : Bytes) (ts : Hdr) (h : Hdr) (k : Bytes) (t : Bytes × List Bytes)
    (hd : ts.Pairwise (fun a b => a.1 ≠ b.1)) (ht : t ∈ ts) (hk : p ++ t.1 = canonKey k) :
    (ts.foldl (fun acc x => Hdr.setRaw acc (p ++ x.1) x.2) h).values k = t.2 := by
  have hmap : ts.foldl (fun acc x => Hdr.setRaw acc (p ++ x.1) x.2) h
      = (ts.map (fun x => (p ++ x.1, x.2))).foldl (fun acc x => Hdr.setRaw acc x.1 x.2) h := by
    rw [List.foldl_map]
  rw [hmap]
  refine foldl_setRaw_values_mem _ h k (p ++ t.1, t.2) ?_ (List.mem_map.mpr ⟨t, ht, rfl⟩) hk
  rw [List.pairwise_map]
  exact hd.imp (fun hab heq => hab (List.append_cancel_left heq))

/-- **The trailers of a unary Connect response are `Trailer-` prefixed headers of the head**: when the response
    metadata carries the end, every trailer of that end (distinct keys) is in the head under `Trailer-<name>` with
    its values (for every name other than the one control header set afterwards). -/
theorem connect_unary_trailers_in_head (c : ClientForm) (hc : c = .connectPost ∨ c = .connectGet) (rm : RespMeta)
    (sink : Sink) (e : RespEnd) (he : rm.end = some e) (hd : e.trailers.Pairwise (fun a b => a.1 ≠ b.1))
    (t : Bytes × List Bytes) (ht : t ∈ e.trailers) (k : Bytes) (hk : s "Trailer-" ++ t.1 = canonKey k)
    (hne : canonKey (s "Accept-Encoding") ≠ canonKey k) :
    (addResponseHeaders c rm sink).2.hdr.values k = t.2 := by
  unfold addResponseHeaders
  rcases hc with rfl | rfl <;> simp only [he] <;>
    rw [setIf_values_ne _ _ _ _ _ hne] <;>
    exact foldl_setRaw_prefixed_values_mem (s "Trailer-") e.trailers _ k t hd ht hk

/-- Non-vacuity: a trailer of a failed unary Connect RPC, read off the head. -/
example : (addResponseHeaders .connectPost { codec := s "proto", «end» := some { err := some { code := 5, msg := .gen }, trailers := [(s "X-T", [[7]])] } } {}).2.hdr.values (s "Trailer-X-T") = [[7]] := by
  decide +kernel

end Vanguard.C05
