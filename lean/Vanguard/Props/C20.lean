import Vanguard.Model.Resolver
import Vanguard.Model.Config
/-!
  # C20 — behaviour depends on the schema's content, not on how it was loaded

  Everything `NewTranscoder` derives from a service - routes, field paths of bodies and variables,
  the messages it decodes into - is computed from the descriptors the service was registered with.
  The one place where the loading route matters is the choice of the Go message type
  (`type_resolver.go`, `registerMethod`).  Theorems about its model, for every loading route (with or
  without parent file, registered globally or not, with or without generated types, bespoke
  registry possible or not, any custom resolver answer):

  * `messageType_over_declared`: whenever registration succeeds, the message type is over the
    descriptors the service declared - never over another copy of the schema (the pinned tree
    violated this for services without parent file: `no-parent-mismatching-field`, fixed);
  * `not_found_never_fails`, `unknown_to_resolver_is_dynamic`: a resolver that does not know the
    name never makes registration fail: a dynamic message of the declared descriptor is used;
  * `fails_only_on_resolver_error`: registration of a method fails only on a resolver error other
    than "not found";
  * `fallback_first_found`, `fallback_found_iff`: the fallback chain finds a name iff one of its
    resolvers does, and prefers the earlier one.

  The configuration model (`Model/Config.newTranscoder`) takes the schema as data and has no
  notion of a loading route: its tables are route-independent by construction; that the
  implementation's are is what the `schema` stream checks (tables, probe routing, and the bytes at
  backend and client for the same request through seven routes incl. vanguardgrpc), together with
  the equality of those tables with the model's.

  NOT modelled: protobuf-go itself (that a dynamic message and a generated message of equal
  descriptors encode alike) - compared on the wire, canonically re-encoded.
-/
namespace Vanguard.C20
open Vanguard.Resolver

theorem fallback_first_found (c : Nat) (rest : List Find) : fallbackFind (.found c :: rest) = .found c := rfl

/-- The chain finds a name iff one of its resolvers does. -/
theorem fallback_found_iff (rs : List Find) : (∃ c, fallbackFind rs = .found c) ↔ ∃ c, Find.found c ∈ rs := by
  induction rs with
  | nil => simp [fallbackFind]
  | cons r rest ih =>
    cases r with
    | found c => simp [fallbackFind]
    | notFound =>
      cases rest with
      | nil => simp [fallbackFind]
      | cons r2 rest2 =>
        simp only [fallbackFind] at ih ⊢
        rw [ih]
        simp
    | failed =>
      cases rest with
      | nil => simp [fallbackFind]
      | cons r2 rest2 =>
        simp only [fallbackFind] at ih ⊢
        rw [ih]
        simp

/-- **Whatever the loading route, a registered method's message type is over the declared
    descriptors.** -/
theorem messageType_over_declared (l : Load) (t : TypeChoice) (h : l.messageType = some t) :
    t.copy = l.declared := by
  unfold Load.messageType chooseType at h
  cases hf : l.find with
  | found c =>
    rw [hf] at h
    simp only at h
    by_cases hc : c = l.declared
    · simp [hc] at h; rw [← h]; rfl
    · have : (c == l.declared) = false := by simpa using hc
      simp [this] at h; rw [← h]; rfl
  | notFound => rw [hf] at h; simp at h; rw [← h]; rfl
  | failed => rw [hf] at h; simp at h

/-- A resolver that does not know the name never makes registration fail. -/
theorem not_found_never_fails (declared : Nat) : (chooseType declared .notFound).isSome = true := rfl

theorem unknown_to_resolver_is_dynamic (l : Load) (h : l.find = .notFound) :
    l.messageType = some (.dynamic l.declared) := by
  simp [Load.messageType, chooseType, h]

/-- Registration fails only when the resolver fails with something other than "not found". -/
theorem fails_only_on_resolver_error (l : Load) : l.messageType = none ↔ l.find = .failed := by
  unfold Load.messageType chooseType
  cases l.find with
  | found c => by_cases hc : (c == l.declared) = true <;> simp [hc]
  | notFound => simp
  | failed => simp

/-- Without a custom resolver registration never fails, for every loading route. -/
theorem builtin_routes_never_fail (l : Load) (h : l.custom = none) : l.messageType.isSome = true := by
  have hne : l.find ≠ .failed := by
    unfold Load.find
    simp only [h]
    cases hg : l.global with
    | none => split <;> (try split) <;> (try split) <;> simp [fallbackFind]
    | some c => split <;> (try split) <;> (try split) <;> simp [fallbackFind]
  cases hm : l.messageType with
  | some t => rfl
  | none => exact absurd ((fails_only_on_resolver_error l).mp hm) hne

/-- Non-vacuity: the seven loading routes of the `schema` stream as `Load` values.  Copy 0 is the
    generated code, copy 1 a freshly built file. -/
example : ({ declared := 0, hasParent := true, sameFileInGlobal := true, global := some 0, registerOk := true } : Load).messageType
    = some (.resolved 0) := by decide     -- generated / global-desc
example : ({ declared := 1, hasParent := true, sameFileInGlobal := false, global := some 0, registerOk := true } : Load).messageType
    = some (.resolved 1) := by decide     -- fresh file: dynamic types of the file itself
example : ({ declared := 1, hasParent := false, sameFileInGlobal := false, global := some 0, registerOk := true } : Load).messageType
    = some (.dynamic 1) := by decide      -- no parent file: the pinned tree answered `resolved 0`
example : ({ declared := 1, hasParent := true, sameFileInGlobal := false, global := some 0, registerOk := true, custom := some .notFound } : Load).messageType
    = some (.dynamic 1) := by decide      -- resolver that knows nothing

end Vanguard.C20
