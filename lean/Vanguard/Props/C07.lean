import Vanguard.Model.Rest
import Vanguard.Lemmas.PathEscape
/-!
  # C07 — REST binding follows google.api.http; to-REST-and-back is the identity

  `Model/Rest` mirrors the code that turns a request message into path, query and body of a REST
  request (`httpEncodePathValues`, `httpSplitVar`) and the code that turns a REST request into a
  message (route match and capture, body, path variables, query parameters in sorted order,
  `setParameter`).  Messages are lists of scalar leaves; the scalar text codecs and the JSON body
  codec are outside the model.

  Proved, for every input:
  * a single-segment variable survives the trip through the URL whatever bytes it contains,
    reserved characters, `%` and `/` included (`single_var_round_trip`);
  * splitting a multi-segment value at `/` and joining it again is the identity
    (`join_split`), so a `**` value is reassembled from its segments exactly;
  * parameters are never coerced: a text the kind does not accept is `invalid_argument`
    (`setLeaf_rejects`), `null` is not a number or a bool (`null_is_not_a_number`,
    `null_is_not_a_bool`; the pinned tree accepted it, fixed), a string parameter is taken
    verbatim (`string_verbatim`);
  * `setParameter`: a singular field holds the last value set, a repeated field accumulates in
    order (`setLeaf_singular_last`, `setLeaf_repeated_appends`);
  * (by construction of the model, compared with the implementation:) query parameters are applied
    sorted by name, so the outcome is a function of the request; the pinned tree applied them in
    map iteration order (fixed).

  NOT proved (partial): the whole round trip `restDecode (restEncode m) = m` for every rule and
  message.  It is evaluated by both the implementation and the model on every generated case
  (`same=1` in the `rest_rt` op) and the oracle fails on any round trip that changes the message.
-/
namespace Vanguard.C07
open Vanguard Vanguard.Cfg Vanguard.Rest

/-- **A `*` variable is transported exactly**: what `httpSplitVar` writes into the path,
    `routeTargetVar.capture` reads back, for every value. -/
theorem single_var_round_trip (value : Bytes) :
    (splitVar value false).mapM (pathUnescape .single) = some [value] := by
  simp [splitVar, unescape_escape_single]

theorem splitOnByte_ne_nil (sep : UInt8) : ∀ v : Bytes, splitOnByte sep v ≠ [] := by
  intro v
  induction v with
  | nil => simp [splitOnByte]
  | cons c rest ih =>
    unfold splitOnByte
    by_cases h : (c == sep) = true
    · simp [h]
    · simp only [h, Bool.false_eq_true, if_false]
      cases hs : splitOnByte sep rest with
      | nil => exact absurd hs ih
      | cons a t => simp

/-- Splitting at a separator and joining again is the identity. -/
theorem join_split (sep : UInt8) : ∀ v : Bytes, joinWith sep (splitOnByte sep v) = v := by
  intro v
  induction v with
  | nil => simp [splitOnByte, joinWith]
  | cons c rest ih =>
    unfold splitOnByte
    cases hs : splitOnByte sep rest with
    | nil => exact absurd hs (splitOnByte_ne_nil sep rest)
    | cons a t =>
      rw [hs] at ih
      by_cases h : (c == sep) = true
      · have hc : c = sep := by simpa using h
        simp only [h, if_true]
        -- [] :: a :: t
        simp only [joinWith, List.nil_append]
        rw [ih, hc]
      · simp only [h, Bool.false_eq_true, if_false]
        cases t with
        | nil => simp only [joinWith] at ih ⊢; rw [ih]
        | cons b t' => simp only [joinWith] at ih ⊢; rw [← ih]; simp

/-- A text the field's kind does not accept is rejected as `invalid_argument`, never coerced. -/
theorem setLeaf_rejects (m : Leaves) (fs : List FieldD) (f : FieldD) (text : Bytes)
    (hl : fs.getLast? = some f) (hm : f.message = none) (hv : validText f text = none) :
    setLeaf m fs text = .error .invalid := by
  simp [setLeaf, hl, hm, hv]

theorem null_is_not_a_number (lo hi : Int) : jsonInt lo hi tNull = none := by
  simp [jsonInt, trimJson, tNull, isJsonSpace]

theorem null_is_not_a_bool (f : FieldD) (hk : f.kind = kBool) : validText f tNull = none := by
  have h1 : (kBool == kString) = false := by decide
  have h2 : (kBool == kInt32) = false := by decide
  have h3 : (kBool == kInt64) = false := by decide
  simp [validText, hk, h1, h2, h3, trimJson, tNull, tTrue, tFalse, isJsonSpace]

/-- A string parameter is taken verbatim. -/
theorem string_verbatim (f : FieldD) (hk : f.kind = kString) (text : Bytes) : validText f text = some text := by
  simp [validText, hk]

/-- `setParameter` on a singular field: the field holds exactly the (canonical, non-default) value
    set last, whatever it held before. -/
theorem setLeaf_singular_last (m : Leaves) (fs : List FieldD) (f : FieldD) (text canon : Bytes)
    (hl : fs.getLast? = some f) (hm : f.message = none) (hr : f.repeated = false)
    (hv : validText f text = some canon) (hd : isDefault f canon = false) :
    ∃ m', setLeaf m fs text = .ok m' ∧ valuesOf m' (protoPath fs) = [canon] := by
  refine ⟨(m.filter (·.1 != protoPath fs)) ++ [(protoPath fs, canon)], ?_, ?_⟩
  · simp [setLeaf, hl, hm, hr, hv, hd]
  · simp [valuesOf, List.filter_append, List.filter_filter]

/-- ... on a repeated field: the new value is appended behind those already there. -/
theorem setLeaf_repeated_appends (m : Leaves) (fs : List FieldD) (f : FieldD) (text canon : Bytes)
    (hl : fs.getLast? = some f) (hm : f.message = none) (hr : f.repeated = true)
    (hv : validText f text = some canon) :
    ∃ m', setLeaf m fs text = .ok m' ∧ valuesOf m' (protoPath fs) = valuesOf m (protoPath fs) ++ [canon] := by
  refine ⟨m ++ [(protoPath fs, canon)], ?_, ?_⟩
  · simp [setLeaf, hl, hm, hr, hv]
  · simp [valuesOf, List.filter_append]

/-! ### tests on concrete values (labelled as tests: they sample, they do not quantify) -/

/-- test: a value with `/`, `%`, space and a non-ASCII byte through a `*` variable. -/
example : (splitVar [0x61, 0x2F, 0x25, 0x20, 0xC3] false).mapM (pathUnescape .single) = some [[0x61, 0x2F, 0x25, 0x20, 0xC3]] := by
  decide
/-- test: integer texts. -/
example : jsonInt (-2147483648) 2147483647 [0x30, 0x30, 0x37] = none := by decide          -- "007"
example : jsonInt (-2147483648) 2147483647 [0x31, 0x65, 0x33] = none := by decide          -- "1e3"
example : jsonInt (-2147483648) 2147483647 [0x2D, 0x33] = some (-3) := by decide           -- "-3"

end Vanguard.C07
