import Vanguard.Model.Rest
import Vanguard.Lemmas.PathEscape
/-!
  # C07 — REST binding follows google.api.http; to-REST-and-back is the identity

  `Model/Rest` mirrors the code that turns a request message into path, query and body of a REST
  request (`httpEncodePathValues`, `httpSplitVar`) and the code that turns a REST request into a
  message (route match and capture, body, path variables, query parameters in sorted order,
  `setParameter`).  Messages are lists of scalar leaves; the scalar text codecs and the JSON body
  codec are outside the model.

  Proved, for every input:
  * a single-segment variable survives the trip through the URL whatever bytes it contains,
    reserved characters, `%` and `/` included (`single_var_round_trip`);
  * splitting a multi-segment value at `/` and joining it again is the identity
    (`join_split`), so a `**` value is reassembled from its segments exactly;
  * parameters are never coerced: a text the kind does not accept is `invalid_argument`
    (`setLeaf_rejects`), `null` is not a number or a bool (`null_is_not_a_number`,
    `null_is_not_a_bool`; the pinned tree accepted it, fixed), a string parameter is taken
    verbatim (`string_verbatim`);
  * `setParameter`: a singular field holds the last value set, a repeated field accumulates in
    order (`setLeaf_singular_last`, `setLeaf_repeated_appends`);
  * (by construction of the model, compared with the implementation:) query parameters are applied
    sorted by name, so the outcome is a function of the request; the pinned tree applied them in
    map iteration order (fixed).

  NOT proved (partial): the whole round trip `restDecode (restEncode m) = m` for every rule and
  message.  It is evaluated by both the implementation and the model on every generated case
  (`same=1` in the `rest_rt` op) and the oracle fails on any round trip that changes the message.
-/
namespace Vanguard.C07
open Vanguard Vanguard.Cfg Vanguard.Rest

/-- **A `*` variable is transported exactly**: what `httpSplitVar` writes into the path,
    `routeTargetVar.capture` reads back, for every value. -/
theorem single_var_round_trip (value : Bytes) :
    (splitVar value false).mapM (pathUnescape .single) = some [value] := by
  simp [splitVar, unescape_escape_single]

theorem splitOnByte_ne_nil (sep : UInt8) : ∀ v : Bytes, splitOnByte sep v ≠ [] := by
  intro v
  induction v with
  | nil => simp [splitOnByte]
  | cons c rest ih =>
    unfold splitOnByte
    by_cases h : (c == sep) = true
    · simp [h]
    · simp only [h, Bool.false_eq_true, if_false]
      cases hs : splitOnByte sep rest with
      | nil => exact absurd hs ih
      | cons a t => simp

/-- Splitting at a separator and joining again is the identity. -/
theorem join_split (sep : UInt8) : ∀ v : Bytes, joinWith sep (splitOnByte sep v) = v := by
  intro v
  induction v with
  | nil => simp [splitOnByte, joinWith]
  | cons c rest ih =>
    unfold splitOnByte
    cases hs : splitOnByte sep rest with
    | nil => exact absurd hs (splitOnByte_ne_nil sep rest)
    | cons a t =>
      rw [hs] at ih
      by_cases h : (c == sep) = true
      · have hc : c = sep := by simpa using h
        simp only [h, if_true]
        -- [] :: a :: t
        simp only [joinWith, List.nil_append]
        rw [ih, hc]
      · simp only [h, Bool.false_eq_true, if_false]
        cases t with
        | nil => simp only [joinWith] at ih ⊢; rw [ih]
        | cons b t' => simp only [joinWith] at ih ⊢; rw [← ih]; simp

/-- No piece of a split contains the separator. -/
theorem splitOnByte_no_sep (sep : UInt8) : ∀ v : Bytes, ∀ seg ∈ splitOnByte sep v, sep ∉ seg := by
  intro v
  induction v with
  | nil => intro seg hs; simp [splitOnByte] at hs; subst hs; simp
  | cons c rest ih =>
    intro seg hs
    unfold splitOnByte at hs
    split at hs
    · simp at hs
      rcases hs with rfl | hs
      · simp
      · exact ih seg hs
    · rename_i hne
      split at hs
      · rename_i hd tl heq
        simp at hs
        rcases hs with rfl | hs
        · have := ih hd (by rw [heq]; simp)
          simp at hne
          intro hm; simp at hm
          rcases hm with hm | hm
          · exact hne hm.symm
          · exact this hm
        · exact ih seg (by rw [heq]; simp [hs])
      · simp at hs; subst hs
        simp at hne
        intro hm; simp at hm; exact hne hm.symm

theorem mapM_unescape_escape_multi : ∀ l : List Bytes, (∀ x ∈ l, (0x2F : UInt8) ∉ x) →
    (l.map (pathEscape .multi)).mapM (pathUnescape .multi) = some (l.map canonSlash) := by
  intro l
  induction l with
  | nil => intro _; simp
  | cons x xs ih =>
    intro h
    simp only [List.map_cons, List.mapM_cons]
    rw [unescape_escape_multi x (h x (by simp)), ih (fun y hy => h y (by simp [hy]))]
    rfl

/-- **A `**` variable**: what `httpSplitVar` writes into the path for a multi-segment variable (the value split
    at `/`, every piece escaped in multi-segment mode), `routeTargetVar.capture` reads back piece by piece as the
    same pieces - except that an escaped slash the value spells `%2f` comes back spelled `%2F` (`canonSlash`).
    For every value. -/
theorem multi_var_round_trip (value : Bytes) :
    (splitVar value true).mapM (pathUnescape .multi) = some ((splitOnByte 0x2F value).map canonSlash) := by
  simp only [splitVar, Bool.not_true, Bool.false_eq_true, if_false]
  exact mapM_unescape_escape_multi _ (splitOnByte_no_sep 0x2F value)

/-- **A `**` variable is transported exactly** whenever no piece of the value contains the lower-case
    spelling `%2f` of an escaped slash: split, escape, unescape, join is the identity. -/
theorem multi_var_round_trip_exact (value : Bytes) (h : ∀ seg ∈ splitOnByte 0x2F value, canonSlash seg = seg) :
    ((splitVar value true).mapM (pathUnescape .multi)).map (joinWith 0x2F) = some value := by
  rw [multi_var_round_trip]
  have : (splitOnByte 0x2F value).map canonSlash = splitOnByte 0x2F value := by
    conv => rhs; rw [← List.map_id (splitOnByte 0x2F value)]
    exact List.map_congr_left (fun x hx => by simpa using h x hx)
  simp [this, join_split]

/-- The hypothesis is met by values with slashes, percent signs and the upper-case spelling. -/
example : ∀ seg ∈ splitOnByte 0x2F (s "a b/%2F/100%"), canonSlash seg = seg := by decide +kernel

/-- **The exception is real** (negation of the unrestricted round trip, by a witness): the value `%2f`
    comes back as `%2F`.  The repository's own `TestHTTPEncodePathValues` pins this spelling
    (`books/%2F%2f …` is written as `books/%2F%2F…`), see `known_findings.json`. -/
theorem multi_var_lowercase_slash_not_preserved :
    ((splitVar (s "%2f") true).mapM (pathUnescape .multi)).map (joinWith 0x2F) = some (s "%2F") := by decide +kernel

/-- A text the field's kind does not accept is rejected as `invalid_argument`, never coerced. -/
theorem setLeaf_rejects (m : Leaves) (fs : List FieldD) (f : FieldD) (text : Bytes)
    (hl : fs.getLast? = some f) (hm : f.message = none) (hv : validText f text = none) :
    setLeaf m fs text = .error .invalid := by
  simp [setLeaf, hl, hm, hv]

theorem null_is_not_a_number (lo hi : Int) : jsonInt lo hi tNull = none := by
  simp [jsonInt, trimJson, tNull, isJsonSpace]

theorem null_is_not_a_bool (f : FieldD) (hk : f.kind = kBool) : validText f tNull = none := by
  have h1 : (kBool == kString) = false := by decide
  have h2 : (kBool == kInt32) = false := by decide
  have h3 : (kBool == kInt64) = false := by decide
  have h4 : (kBool == kUint32) = false := by decide
  simp [validText, hk, h1, h2, h3, h4, trimJson, tNull, tTrue, tFalse, isJsonSpace]

/-- An unsigned 32-bit parameter above 2^32-1, or with a sign, is rejected - never reduced modulo 2^32. -/
theorem uint32_out_of_range_rejected (f : FieldD) (hk : f.kind = kUint32) :
    validText f (s "4294967296") = none ∧ validText f (s "4294967303") = none ∧ validText f (s "-0") = none ∧
    validText f (s "4294967295") = some (s "4294967295") := by
  have h1 : (kUint32 == kString) = false := by decide
  have h2 : (kUint32 == kInt32) = false := by decide
  have h3 : (kUint32 == kInt64) = false := by decide
  simp only [validText, hk, h1, h2, h3, Bool.false_eq_true, if_false, BEq.rfl, if_true]
  decide +kernel

/-- A string parameter is taken verbatim. -/
theorem string_verbatim (f : FieldD) (hk : f.kind = kString) (text : Bytes) : validText f text = some text := by
  simp [validText, hk]

/-- `setParameter` on a singular field: the field holds exactly the (canonical, non-default) value
    set last, whatever it held before. -/
theorem setLeaf_singular_last (m : Leaves) (fs : List FieldD) (f : FieldD) (text canon : Bytes)
    (hl : fs.getLast? = some f) (hm : f.message = none) (hr : f.repeated = false)
    (hv : validText f text = some canon) (hd : isDefault f canon = false) :
    ∃ m', setLeaf m fs text = .ok m' ∧ valuesOf m' (protoPath fs) = [canon] := by
  refine ⟨(m.filter (·.1 != protoPath fs)) ++ [(protoPath fs, canon)], ?_, ?_⟩
  · simp [setLeaf, hl, hm, hr, hv, hd]
  · simp [valuesOf, List.filter_append, List.filter_filter]

/-- ... on a repeated field: the new value is appended behind those already there. -/
theorem setLeaf_repeated_appends (m : Leaves) (fs : List FieldD) (f : FieldD) (text canon : Bytes)
    (hl : fs.getLast? = some f) (hm : f.message = none) (hr : f.repeated = true)
    (hv : validText f text = some canon) :
    ∃ m', setLeaf m fs text = .ok m' ∧ valuesOf m' (protoPath fs) = valuesOf m (protoPath fs) ++ [canon] := by
  refine ⟨m ++ [(protoPath fs, canon)], ?_, ?_⟩
  · simp [setLeaf, hl, hm, hr, hv]
  · simp [valuesOf, List.filter_append]

/-! ### tests on concrete values (labelled as tests: they sample, they do not quantify) -/

/-- test: a value with `/`, `%`, space and a non-ASCII byte through a `*` variable. -/
example : (splitVar [0x61, 0x2F, 0x25, 0x20, 0xC3] false).mapM (pathUnescape .single) = some [[0x61, 0x2F, 0x25, 0x20, 0xC3]] := by
  decide
/-- test: integer texts. -/
example : jsonInt (-2147483648) 2147483647 [0x30, 0x30, 0x37] = none := by decide          -- "007"
example : jsonInt (-2147483648) 2147483647 [0x31, 0x65, 0x33] = none := by decide          -- "1e3"
example : jsonInt (-2147483648) 2147483647 [0x2D, 0x33] = some (-3) := by decide           -- "-3"

end Vanguard.C07
