import Vanguard.Lemmas.Source
import Vanguard.Lemmas.UInt8
import Vanguard.Gen.Facts
import Vanguard.Lemmas.Chunking
import Vanguard.Lemmas.EndRelay
/-!
  C09 — Truncated or malformed streams never surface as success.

  Proved, for every byte / every chunking:
  * for each of the six enveloped protocol handlers, *every* flag byte that is not legal for the
    handler is rejected by `decodeEnvelope` (all 256 values), and a legal one decodes to the flags
    the protocol documents define;
  * an envelope prefix or a payload that stops early is an error of the exact reader, never a
    completed read, however the bytes were split (`readExactly` over adversarial chunkings): a cut
    inside the 5-byte prefix or inside the payload cannot be taken for a frame boundary;
  * a clean end exactly at a frame boundary is the only way to get `EOF`.
  * one level up, for the transcoder's own message reader (`readRequestMessage`, every segmentation):
    a body that is a sequence of legal frames within the limit is cut into **exactly those messages**
    (payloads and compressed flags, in order) followed by a clean end
    (`complete_messages_delivered_exactly`); a body that stops inside an envelope after such frames
    yields the complete messages and then `unexpected EOF`, never the partial data and never a clean
    end (`cut_body_is_error_after_complete_messages`); a payload shorter than announced is an error
    (`cut_payload_is_error`).
  On the implementation, `oracleC09` demands a non-OK client outcome for every request or response
  stream of the e2e scenarios that is not a whole number of frames, carries an illegal flag byte or
  ends with an unexpected EOF, and that the backend was handed only messages the client completed.
-/
namespace Vanguard.C09
open Vanguard

/-- Flags legal for a decoding handler. -/
def legalFlags (e : Enveloper) (b : UInt8) : Bool :=
  match e with
  | .grpcWebServer => b == 0 || b == 1 || b == 0x80 || b == 0x81
  | .connectStreamServer => b == 0 || b == 1 || b == 2 || b == 3
  | _ => b == 0 || b == 1

set_option maxRecDepth 100000 in
/-- **Every value 0..255 of the flag byte**: accepted iff legal, for each handler. -/
theorem bad_flags_rejected (e : Enveloper) (b : UInt8) : (e.decodeFlags b).isSome = legalFlags e b := by
  cases e <;> (revert b; apply forall_uint8; decide +kernel)

set_option maxRecDepth 100000 in
/-- Legal flags decode to the documented meaning (bit 0 compressed; end marker bit 7 / bit 1). -/
theorem legal_flags_meaning (b : UInt8) :
    (Enveloper.grpcServer.decodeFlags b = some (false, true) ↔ b = 1) ∧
    (Enveloper.grpcWebServer.decodeFlags b = some (true, false) ↔ b = 0x80) ∧
    (Enveloper.connectStreamServer.decodeFlags b = some (true, false) ↔ b = 2) := by
  revert b; apply forall_uint8; decide +kernel

/-- A stream that stops inside the 5-byte envelope prefix (1–4 bytes) is an error, whatever the
    chunking, and whichever way the body ends. -/
theorem cut_inside_prefix_is_error (src : Source) (h1 : 0 < src.data.length) (h5 : src.data.length < 5) :
    ∃ src', readExactly (src.data.length + 7) src 5 [] = (src.data, some .unexpectedEOF, src') := by
  obtain ⟨src', h, _⟩ := readExactly_short (src.data.length + 7) src 5 [] (by omega) h5
  refine ⟨src', ?_⟩
  rw [h]
  have hne : src.data.isEmpty = false := by
    cases hd : src.data with
    | nil => rw [hd] at h1; simp at h1
    | cons _ _ => rfl
  simp only [List.nil_append, shortErr, hne]
  cases src.ending <;> simp

/-- A payload that stops before the announced `k` bytes is an error as well. -/
theorem cut_inside_payload_is_error (src : Source) (k : Nat) (hk : src.data.length < k) :
    ∃ src' e, readExactly (src.data.length + k + 2) src k [] = (src.data, some e, src') := by
  obtain ⟨src', h, _⟩ := readExactly_short (src.data.length + k + 2) src k [] (by omega) hk
  exact ⟨src', shortErr src.ending src.data, by rw [h]; simp⟩

/-- Only a clean end exactly at a frame boundary yields `EOF` for the next prefix. -/
theorem eof_only_at_boundary (src : Source) (hd : src.data = []) (he : src.ending ≠ .unexpected) :
    ∃ src', readExactly 7 src 5 [] = ([], some .eof, src') := by
  obtain ⟨src', h, _⟩ := readExactly_short 7 src 5 [] (by rw [hd]; simp) (by rw [hd]; simp)
  refine ⟨src', ?_⟩
  rw [h, hd]
  have : (src.ending == SrcEnd.unexpected) = false := by simpa using he
  simp [shortErr, this]


/-- Every envelope dialect of the model has a 5-byte prefix; so has the source (`envelopeLen`,
    regenerated on every run). -/
theorem source_envelope_length_is_model : Gen.envelopeLen = 5 := by decide

set_option maxRecDepth 100000 in
/-- **The flag bytes the six envelope dialects accept, and what they mean, are the source's**:
    `Gen.decodeFlags_*Src` are translated from the `decodeEnvelope` methods of `protocol_grpc.go` /
    `protocol_connect.go` on every run (guard and the two flag fields, expression by expression; a method that
    delegates to another one is translated as that delegation).  For every flag byte the model's decoder
    is the source's - a widened mask, another bit, or a client-side decoder that starts to accept the
    end-of-stream bit breaks this theorem. -/
theorem source_envelope_flags_are_model : ∀ flags : UInt8,
    Enveloper.decodeFlags .grpcServer flags = Gen.decodeFlags_grpcServerProtocolSrc flags ∧
    Enveloper.decodeFlags .grpcClient flags = Gen.decodeFlags_grpcClientProtocolSrc flags ∧
    Enveloper.decodeFlags .grpcWebServer flags = Gen.decodeFlags_grpcWebServerProtocolSrc flags ∧
    Enveloper.decodeFlags .grpcWebClient flags = Gen.decodeFlags_grpcWebClientProtocolSrc flags ∧
    Enveloper.decodeFlags .connectStreamServer flags = Gen.decodeFlags_connectStreamServerProtocolSrc flags ∧
    Enveloper.decodeFlags .connectStreamClient flags = Gen.decodeFlags_connectStreamClientProtocolSrc flags :=
  forall_uint8 (by decide +kernel)

/-- **Source tie of the envelope encoders.**  `Gen.encodeFlags_*Src` are translated from the `encodeEnvelope`
    methods on every run, statement by statement (the flag byte starts at 0; `if env.f { envBytes[0] = N }`,
    `if env.f { envBytes[0] |= N }`; the length written by `binary.BigEndian.PutUint32(envBytes[1:], env.length)`;
    a delegating method as that delegation).  For every envelope the model's flag byte is the source's. -/
theorem source_envelope_encoders_are_model (env : Envelope) :
    Enveloper.encodeFlags .grpcServer env = Gen.encodeFlags_grpcServerProtocolSrc env.compressed env.trailer ∧
    Enveloper.encodeFlags .grpcClient env = Gen.encodeFlags_grpcClientProtocolSrc env.compressed env.trailer ∧
    Enveloper.encodeFlags .grpcWebServer env = Gen.encodeFlags_grpcWebServerProtocolSrc env.compressed env.trailer ∧
    Enveloper.encodeFlags .grpcWebClient env = Gen.encodeFlags_grpcWebClientProtocolSrc env.compressed env.trailer ∧
    Enveloper.encodeFlags .connectStreamServer env = Gen.encodeFlags_connectStreamServerProtocolSrc env.compressed env.trailer ∧
    Enveloper.encodeFlags .connectStreamClient env = Gen.encodeFlags_connectStreamClientProtocolSrc env.compressed env.trailer := by
  obtain ⟨t, c, n⟩ := env
  cases t <;> cases c <;> exact ⟨rfl, rfl, rfl, rfl, rfl, rfl⟩

/-- What the peer's decoder makes of five envelope bytes. -/
def readBack (dec : Enveloper) : Bytes → Option Envelope
  | [f, a, b, c, d] => dec.decode f a b c d
  | _ => none

/-- **An envelope the transcoder writes is read back as the same envelope by the decoder of the same dialect**
    (for every envelope with a 32-bit length): what it writes to a client (`*Client.encodeEnvelope`) is what a
    transcoder in front of it reads from a backend (`*Server.decodeEnvelope`), end-of-stream bit included where the
    dialect has one; what it writes to a backend (`*Server.encodeEnvelope`) is what it reads from a client
    (`*Client.decodeEnvelope`), where no end-of-stream bit exists.  So a flag byte written here is never one
    that `source_envelope_flags_are_model`'s decoders reject, and compressed / end-of-stream are never swapped. -/
theorem written_envelopes_are_read_back (env : Envelope) (h : env.length < 4294967296) :
    readBack .grpcWebServer (Enveloper.encode .grpcWebClient env) = some env ∧
    readBack .connectStreamServer (Enveloper.encode .connectStreamClient env) = some env ∧
    readBack .grpcServer (Enveloper.encode .grpcClient env) = some { env with trailer := false } ∧
    readBack .grpcClient (Enveloper.encode .grpcServer env) = some { env with trailer := false } ∧
    readBack .grpcWebClient (Enveloper.encode .grpcWebServer env) = some { env with trailer := false } ∧
    readBack .connectStreamClient (Enveloper.encode .connectStreamServer env) = some { env with trailer := false } := by
  obtain ⟨t, c, n⟩ := env
  have hl : fromBe32 (UInt8.ofNat (n / 16777216 % 256)) (UInt8.ofNat (n / 65536 % 256)) (UInt8.ofNat (n / 256 % 256))
      (UInt8.ofNat (n % 256)) = n := by
    unfold fromBe32
    simp only [UInt8.toNat_ofNat']
    simp only at h
    omega
  cases t <;> cases c <;>
    simp [readBack, Enveloper.encode, Enveloper.encodeFlags, Enveloper.decode, Enveloper.decodeFlags, be32, hl] <;> decide

example : readBack .grpcWebServer (Enveloper.encode .grpcWebClient { trailer := true, compressed := true, length := 70000 })
    = some { trailer := true, compressed := true, length := 70000 } := by decide

/-- **Every complete message is delivered exactly, then a clean end** (see `Lemmas/Chunking.lean`). -/
theorem complete_messages_delivered_exactly (w : World) (ce : Enveloper) (fs : List Frame) (st : St) (n : Nat)
    (hce : st.op.clientEnveloper = some ce) (hok : ∀ x ∈ fs, x.ok ce st.op.conf.maxMsg)
    (hd : st.src.data = framesBytes fs) (he : st.src.ending ≠ .unexpected) (hn : fs.length < n) :
    readMessages w n st = (fs.map (Frame.msg ce), .eof) :=
  readMessages_frames w ce fs st n hce hok hd he hn

/-- **A body cut inside an envelope**: the complete messages, then an error. -/
theorem cut_body_is_error_after_complete_messages (w : World) (ce : Enveloper) (fs : List Frame) (tail : Bytes)
    (st : St) (n : Nat) (hce : st.op.clientEnveloper = some ce) (hok : ∀ x ∈ fs, x.ok ce st.op.conf.maxMsg)
    (hd : st.src.data = framesBytes fs ++ tail) (hn : fs.length < n) (ht : 0 < tail.length ∧ tail.length < 5) :
    readMessages w n st = (fs.map (Frame.msg ce), .unexpectedEOF) :=
  readMessages_cut w ce fs tail st n hce hok hd hn ht

/-- **A payload shorter than its envelope announces** is an error: the partial message is not returned. -/
theorem cut_payload_is_error (w : World) (st : St) (ce : Enveloper) (hce : st.op.clientEnveloper = some ce)
    (f a b c d : UInt8) (part : Bytes) (env : Envelope) (hdata : st.src.data = [f, a, b, c, d] ++ part)
    (hdec : ce.decode f a b c d = some env) (hnt : env.trailer = false) (hshort : part.length < env.length)
    (hfit : ¬ env.length > st.op.conf.maxMsg) :
    (readRequestMessage w st false).1 = .error .unexpectedEOF :=
  readRequestMessage_cut_payload w st ce hce f a b c d part env hdata hdec hnt hshort hfit

/-- Non-vacuity: a gRPC frame `00 00 00 00 02 | 07 08` is `ok` under a limit of 16 bytes, and its
    message is the two payload bytes, not compressed. -/
example : (⟨0, 0, 0, 0, 2, [7, 8]⟩ : Frame).ok .grpcClient 16 :=
  ⟨{ length := 2 }, by decide, rfl, rfl, by decide⟩
example : (⟨0, 0, 0, 0, 2, [7, 8]⟩ : Frame).msg .grpcClient = ([7, 8], false) := by decide

/-! ### a backend response that stops inside a message is an error for the client

  When the handler returns, `responseWriter.close` closes the body writer.  If the backend's output stopped
  inside an envelope or inside a message, the writer reports an error, and by C04's relay theorem
  (`reportError_relays`) the client reads it: code `unknown`, never a success.  (`Good`, open and `CanTell`
  hold in every state a handler can reach: C03, C04.) -/

/-- **Re-encoding path**: bytes of an unfinished envelope or message in the buffer, or a message announced by
    its envelope of which nothing came, make `Close` report `unknown` to the client. -/
theorem truncated_response_is_error_reencoded (w : World) (tb : Tables) (st : St) (t : TW) (hg : Good st)
    (hopen : st.rw.endWritten = false) (ht : CanTell st) (hexp : t.expecting ≠ -1)
    (hcut : t.buffer.isSome = true ∧ (!(t.buffer.getD []).isEmpty || (!t.writingEnvelope && t.expecting > 0)) = true) :
    (twClose w tb st t).1.sink.clientErr st.op.cform = some (genErr 2) := by
  unfold twClose
  have h1 : (t.expecting == -1) = false := by
    cases h : t.expecting == -1 with
    | false => rfl
    | true => exact absurd (eq_of_beq h) hexp
  simp only [hopen, Bool.false_eq_true, if_false, h1, hcut.1, hcut.2, Bool.and_self, if_true]
  exact reportError_relays w st .other hg hopen ht

/-- **Re-framing path**: a `Close` while bytes of an envelope or of a payload are still missing (and the
    writer is not exactly between two messages) reports `unknown` to the client. -/
theorem truncated_response_is_error_reframed (w : World) (st : St) (e : EW) (hg : Good st)
    (hopen : st.rw.endWritten = false) (ht : CanTell st) (hcur : e.current = .down ∨ e.current = .none)
    (herr : e.err = false) (hrem : e.remaining > 0) (hmid : (e.writingEnvelope && e.remaining == 5) = false) :
    (ewClose w st e).1.sink.clientErr st.op.cform = some (genErr 2) := by
  have hflush : ewCloseFlush w st e = (st, e, false) := by
    unfold ewCloseFlush
    rcases hcur with h | h <;> simp [h]
  unfold ewClose
  rw [hflush]
  simp only [Bool.false_eq_true, if_false, herr, Bool.false_and, hmid, Bool.not_false, Bool.and_true]
  have : decide (e.remaining > 0) = true := by simpa using hrem
  simp only [this, if_true]
  exact reportError_relays w st .other hg hopen ht

/-- Non-vacuity: a re-encoding writer with two bytes of an envelope, a re-framing writer with three payload
    bytes missing - both meet the hypotheses. -/
example : let t : TW := { buffer := some [0, 0], expecting := 5, writingEnvelope := true }
    t.expecting ≠ -1 ∧ t.buffer.isSome = true ∧ (!(t.buffer.getD []).isEmpty || (!t.writingEnvelope && t.expecting > 0)) = true := by decide
example : let e : EW := { initialized := true, current := .down, remaining := 3 }
    e.err = false ∧ e.remaining > 0 ∧ (e.writingEnvelope && e.remaining == 5) = false := by decide

end Vanguard.C09
