import Vanguard.Model.Run
import Vanguard.Lemmas.CleanStream
import Vanguard.Lemmas.ReframeStream
import Vanguard.Lemmas.RespStream
import Vanguard.Lemmas.RespReframe
import Vanguard.Lemmas.ReframeSplit
import Vanguard.Model.World
/-!
  C01 — Messages arrive intact across every protocol, codec and compression pairing.

  Codecs and compressors are not vanguard's code; they enter as a `World` with the laws
  `WorldLaws` (decode∘encode = id, decompress∘compress = id, compressed output is never empty —
  every real format has a header).  Proved for *every* such world, codec pair, compression pair and
  per-message compressed flag: `message.advanceToStage` (`transformMsg`) turns the wire form of a
  value under the sender's codec/compression into the wire form of the *same value* under the
  receiver's codec/compression — on the fast path, the recompress path and the re-encode path — and
  fails only if an external step fails.
  Whole-stream fidelity (count, order, no duplication, per-frame flags, all adapter paths) is the
  oracle `oracleC01`, evaluated on the implementation for every clean generated scenario against the
  scenario's ground truth (values sent by the client / by the backend), next to the byte-exact
  comparison of model and implementation.
  **Whole request streams on the re-encoding path** (`backend_reads_exactly_the_messages`): for a request
  body that is any sequence of legal frames within the limit, each of which can be converted, a backend
  handler that reads with *any* buffer sizes (≥ 1) until the body ends is given exactly the
  concatenation, in order, of the backend envelope and the converted form of every message - no
  message dropped, duplicated, reordered, cut or merged - and then a clean `io.EOF` (`clean_stream` +
  uniqueness of the stream + every `Read` a prefix step).
  Partial: the same induction for the re-framing path and for the response direction is not a theorem.
-/
namespace Vanguard.C01
open Vanguard

/-- What is assumed of the code vanguard does not own. -/
structure WorldLaws (w : World) : Prop where
  codec_roundtrip : ∀ c v, w.decode c (w.encode c v) = some v
  compress_roundtrip : ∀ z b, w.decompress z (w.compress z b) = some b
  compress_nonempty : ∀ z b, w.compress z b ≠ []

/-- Wire form of value `v`: encoded, and compressed when the frame says so and a compression is set. -/
def wire (w : World) (codec : Bytes) (comp : Option Bytes) (compressed : Bool) (v : Bytes) : Bytes :=
  match compressed, comp with
  | true, some z => w.compress z (w.encode codec v)
  | _, _ => w.encode codec v

/-- **Re-encode path** (codecs differ): the same value comes out in the receiver's wire form
    (the inflated payload has to fit the buffer limit, otherwise see C10). -/
theorem reencode_carries_value (w : World) (L : WorldLaws w) (limit : Nat) (sameCompression wasCompressed : Bool)
    (zc zs : Option Bytes) (cc sc v : Bytes) (hfit : (w.encode cc v).length ≤ limit) :
    transformMsg w limit false sameCompression wasCompressed zc zs cc sc (wire w cc zc wasCompressed v)
      = .ok (wire w sc zs wasCompressed v) := by
  have hnot : ¬ (w.encode cc v).length > limit := by omega
  unfold transformMsg wire decompressLimited
  cases wasCompressed <;> cases zc <;> cases zs <;>
    simp [L.codec_roundtrip, L.compress_roundtrip, L.compress_nonempty, hnot]

/-- **Recompress path** (same codec, compressed frame, compressions differ): the payload is
    decompressed with the sender's and recompressed with the receiver's compression. -/
theorem recompress_carries_payload (w : World) (L : WorldLaws w) (limit : Nat) (zc zs : Option Bytes)
    (c payload : Bytes) (hfit : payload.length ≤ limit) :
    transformMsg w limit true false true zc zs c c (match zc with | some z => w.compress z payload | none => payload)
      = .ok (match zs with | some z => w.compress z payload | none => payload) := by
  have hnot : ¬ payload.length > limit := by omega
  unfold transformMsg decompressLimited
  cases zc <;> cases zs <;> simp [L.compress_roundtrip, L.compress_nonempty, hnot]
  all_goals split <;> simp_all

/-- **Fast path** (same codec; frame uncompressed or same compression): the bytes are untouched. -/
theorem fast_path_identity (w : World) (limit : Nat) (sameCompression wasCompressed : Bool) (zc zs : Option Bytes)
    (c data : Bytes) (h : (!wasCompressed || sameCompression) = true) :
    transformMsg w limit true sameCompression wasCompressed zc zs c c data = .ok data := by
  unfold transformMsg; simp [h]

/-- The receiver gets the sender's value back, whatever path was taken (re-encode case shown;
    this is what "field-for-field content" means at the level of the abstract message value). -/
theorem receiver_decodes_senders_value (w : World) (L : WorldLaws w) (limit : Nat) (sameCompression wasCompressed : Bool)
    (zc zs : Option Bytes) (cc sc v : Bytes) (hfit : (w.encode cc v).length ≤ limit) :
    ∃ out, transformMsg w limit false sameCompression wasCompressed zc zs cc sc (wire w cc zc wasCompressed v) = .ok out ∧
      (match wasCompressed, zs with
        | true, some z => (w.decompress z out).bind (w.decode sc)
        | _, _ => w.decode sc out) = some v := by
  refine ⟨_, reencode_carries_value w L limit sameCompression wasCompressed zc zs cc sc v hfit, ?_⟩
  unfold wire
  cases wasCompressed <;> cases zs <;> simp [L.codec_roundtrip, L.compress_roundtrip]

/-- Failure is visible: if the payload does not decode, the transformation is an error (and the
    caller reports it as the RPC's outcome) — never altered data. -/
theorem undecodable_payload_is_error (w : World) (limit : Nat) (sameCompression : Bool) (zc zs : Option Bytes)
    (cc sc data : Bytes) (h : w.decode cc data = none) :
    transformMsg w limit false sameCompression false zc zs cc sc data = .error .other := by
  unfold transformMsg; simp [h]

/-- **The backend reads exactly the client's messages** (re-encoding path, every sequence of read sizes):
    `fs` the client's frames (legal, within the limit), `out` the concatenation of their converted
    forms with the backend's envelopes (`convertedAll`); a handler reading with sizes `ns` until the body
    reports an error has been given exactly `out`, and the error is `io.EOF`. -/
theorem backend_reads_exactly_the_messages (w : World) (pl : HandlePlan) (ce : Enveloper) (fs : List Frame)
    (st : St) (ns : List Nat) (out o : Bytes) (e : Err)
    (hprep : pl.clientReqNeedsPrep = false) (hce : st.op.clientEnveloper = some ce)
    (hok : ∀ x ∈ fs, x.ok ce st.op.conf.maxMsg) (hd : st.src.data = framesBytes fs)
    (he : st.src.ending ≠ .unexpected) (hconv : convertedAll w pl st ce fs = some out)
    (hreads : Reads w pl st {} ns o e) : o = out ∧ e = .eof := by
  have hs := clean_stream w pl ce hprep fs st false out hce hok hd he hconv
  have hr := hreads.stream ⟨by decide, fun h => by simp at h⟩ rfl
  exact hr.det hs

/-- Non-vacuity (kernel-evaluated): gRPC-Web client (codec `raw`), gRPC backend (codec `hexa`), body =
    the frame `00 00 00 00 02 | 07 08`: the client's enveloper is the gRPC-Web one, the frame is legal and
    within the limit, the body is `framesBytes` of it, and its conversion is the backend envelope
    `00 00 00 00 04` followed by `"0708"`. -/
def dConf : MethodConf := { path := s "/p.S/M", streamType := .unary, noSideEffects := false, protocols := [.grpc], codecs := [hexaName], compressors := [], maxMsg := 100, maxGetURL := 100 }
def dOp : Op := { conf := dConf, cform := .grpcWeb, sform := .grpc, reqMeta := {}, ccodec := rawName, scodec := hexaName, cReqComp := none, sReqComp := none, headers := [], contentLen := -1, query := [], reqMethod := sPOST }
def dSt : St := { op := dOp, src := { chunks := [[0, 0, 0, 0, 2, 7], [8]], ending := .eof }, sink := {} }
example : dSt.op.clientEnveloper = some .grpcWebClient := by decide +kernel
example : (⟨0, 0, 0, 0, 2, [7, 8]⟩ : Frame).ok .grpcWebClient dSt.op.conf.maxMsg :=
  ⟨{ length := 2 }, by decide, rfl, rfl, by decide +kernel⟩
example : dSt.src.data = framesBytes [⟨0, 0, 0, 0, 2, [7, 8]⟩] := by decide +kernel
example : convertedAll fakeWorld (dOp.plan fakeWorld) dSt .grpcWebClient [⟨0, 0, 0, 0, 2, [7, 8]⟩]
    = some [0, 0, 0, 0, 4, 48, 55, 48, 56] := by decide +kernel
example : (dOp.plan fakeWorld).clientReqNeedsPrep = false := by decide +kernel

/-- **The backend reads exactly the client's messages on the re-framing path** (same codec and
    compression on both sides, both protocols with envelopes; every sequence of read sizes, every
    segmentation of the body): `fs` the client's frames (legal, within the limit); a handler reading
    with sizes `ns` until the body reports an error has been given, for every frame, the backend's own
    envelope followed by the untouched payload (`reframedAll`), and the error is `io.EOF`. -/
theorem backend_reads_exactly_the_messages_reframed (w : World) (ce se : Enveloper) (st : St) (fs : List Frame)
    (ns : List Nat) (o : Bytes) (e : Err)
    (hce : st.op.clientEnveloper = some ce) (hse : st.op.serverEnveloper = some se)
    (hok : ∀ x ∈ fs, x.ok ce st.op.conf.maxMsg) (hd : st.src.data = framesBytes fs) (he : st.src.ending ≠ .unexpected)
    (hreads : EReads w st {} ns o e) : o = reframedAll ce se fs ∧ e = .eof :=
  reframed_clean_stream w ce se st fs ns o e hce hse hok hd he hreads

/-- Non-vacuity (kernel-evaluated): the frame `00 00 00 00 02 | 07 08` arriving in two pieces, read with
    buffer sizes 3, 100, 100, 1, 9: the handler is given the backend's envelope and the payload, then `io.EOF`. -/
example : EReads fakeWorld dSt {} [3, 100, 100, 1, 9] [0, 0, 0, 0, 2, 7, 8] .eof := by
  refine .more _ _ _ _ [0, 0, 0] _ _ _ _ _ (by decide) rfl ?_
  refine .more _ _ _ _ [0, 2] _ _ _ _ _ (by decide) rfl ?_
  refine .more _ _ _ _ [7] _ _ _ _ _ (by decide) rfl ?_
  refine .more _ _ _ _ [8] _ _ _ _ _ (by decide) rfl ?_
  exact .last _ _ _ _ [] _ _ _ _ (by decide) rfl

/-- **The client receives exactly the backend's messages** (response direction, re-encoding path,
    streaming client): a backend that writes a whole well-formed response stream - legal frames in its
    own framing, every message convertible and within the limit (`respConvertedAll`) - makes the
    transcoder put exactly those messages on the client's connection, each converted and under the
    client's envelope, in order, flushed, without error or panic. -/
theorem client_receives_exactly_the_messages (w : World) (tb : Tables) (se cc : Enveloper) (st : St) (fs : List Frame) (outs : Bytes)
    (hb : st.rw.buf = none) (hse : st.op.serverEnveloper = some se) (hcc : st.op.clientEnveloper = some cc)
    (hok : ∀ x ∈ fs, x.ok se st.op.conf.maxMsg) (hconv : respConvertedAll w st se cc fs = some outs) :
    (twWrite w tb st {} (framesBytes fs)).2.2.1 = false ∧ (twWrite w tb st {} (framesBytes fs)).2.2.2 = false ∧
    rawBytes (twWrite w tb st {} (framesBytes fs)).1.sink.items = rawBytes st.sink.items ++ outs ∧
    (fs ≠ [] → (twWrite w tb st {} (framesBytes fs)).1.sink.flushedN
                = some (twWrite w tb st {} (framesBytes fs)).1.sink.items.length) :=
  twWrite_clean_stream w tb se cc st fs outs hb hse hcc hok hconv

/-- Non-vacuity (kernel-evaluated): a gRPC backend (codec `hexa`) answers a gRPC-Web client (codec `raw`)
    with the message "07" and an empty message: both convert, and the client is to receive `07` and the
    empty message under its own envelopes. -/
example : respConvertedAll fakeWorld dSt .grpcServer .grpcWebClient [⟨0, 0, 0, 0, 2, [0x30, 0x37]⟩, ⟨0, 0, 0, 0, 0, []⟩]
    = some [0, 0, 0, 0, 1, 7, 0, 0, 0, 0, 0] := by decide +kernel

/-- **The client receives exactly the backend's messages on the re-framing path** (response direction,
    same codec and compression on both sides, streaming client): a backend that writes a whole well-formed
    response stream makes the transcoder put exactly those payloads, untouched, each under the client's own
    envelope (`respReframedAll`), in order, flushed, on the client's connection, without error or panic. -/
theorem client_receives_exactly_the_messages_reframed (w : World) (tb : Tables) (se cc : Enveloper) (st : St) (fs : List Frame)
    (hb : st.rw.buf = none) (hse : st.op.serverEnveloper = some se) (hcc : st.op.clientEnveloper = some cc)
    (hok : ∀ x ∈ fs, x.ok se st.op.conf.maxMsg) :
    (ewWrite w tb st {} (framesBytes fs)).2.2.1 = false ∧ (ewWrite w tb st {} (framesBytes fs)).2.2.2 = false ∧
    rawBytes (ewWrite w tb st {} (framesBytes fs)).1.sink.items = rawBytes st.sink.items ++ respReframedAll se cc fs ∧
    (fs ≠ [] → (ewWrite w tb st {} (framesBytes fs)).1.sink.flushedN
                = some (ewWrite w tb st {} (framesBytes fs)).1.sink.items.length) :=
  ewWrite_clean_stream w tb se cc st fs hb hse hcc hok

/-- **... however the backend splits its output across `Write` calls** (re-framing path): for any sequence
    of pieces - cut inside envelopes, inside payloads, between messages, empty ones - whose concatenation is a
    sequence of legal frames, every `Write` succeeds and the client's connection carries exactly those
    payloads, untouched, each under the client's own envelope, in order (`ewWrites` = the calls one after the
    other; `Lemmas/ReframeSplit.lean`: the writer between two calls is a function of the bytes seen so far). -/
theorem client_receives_exactly_the_messages_reframed_any_split (w : World) (tb : Tables) (se cc : Enveloper) (st : St)
    (fs : List Frame) (pieces : List Bytes)
    (hb : st.rw.buf = none) (hse : st.op.serverEnveloper = some se) (hcc : st.op.clientEnveloper = some cc)
    (hok : ∀ x ∈ fs, x.ok se st.op.conf.maxMsg) (hp : pieces.flatten = framesBytes fs) :
    ∃ st' e', ewWrites w tb st { initialized := true, writingEnvelope := true, remaining := 5 } pieces = (st', e', false, false) ∧
      rawBytes st'.sink.items = rawBytes st.sink.items ++ respReframedAll se cc fs :=
  ewWrites_clean_stream w tb se cc st fs pieces hb hse hcc hok hp

/-- The writer state the theorem starts from is the fresh writer after `maybeInit`. -/
theorem fresh_writer_is_initialised (w : World) (tb : Tables) (se : Enveloper) (st : St) (d : Bytes)
    (hse : st.op.serverEnveloper = some se) :
    ewWrite w tb st {} d = ewWrite w tb st { initialized := true, writingEnvelope := true, remaining := 5 } d :=
  ewWrite_fresh w tb se st d hse

/-- Non-vacuity (kernel-evaluated): the stream `00 00000002 07 08 | 00 00000000` written as `00 00`, `00 00 02 07`,
    ``, `08 00 00 00 00 00` reaches a gRPC-Web client as the same bytes, no error. -/
def splitDemo := ewWrites fakeWorld {} { dSt with op := { dOp with scodec := rawName } }
  { initialized := true, writingEnvelope := true, remaining := 5 } [[0, 0], [0, 0, 2, 7], [], [8, 0, 0, 0, 0, 0]]
example : (rawBytes splitDemo.1.sink.items, splitDemo.2.2.1, splitDemo.2.2.2) = ([0, 0, 0, 0, 2, 7, 8, 0, 0, 0, 0, 0], false, false) := by
  decide +kernel

/-- Non-vacuity (kernel-evaluated): the frames `00 00000002 | 07 08` and an empty one are legal for a gRPC
    backend under the limit of `dSt`, and re-framed for a gRPC-Web client they keep their payloads. -/
example : (∀ x ∈ [(⟨0, 0, 0, 0, 2, [7, 8]⟩ : Frame), ⟨0, 0, 0, 0, 0, []⟩], x.ok .grpcServer dSt.op.conf.maxMsg) ∧
    respReframedAll .grpcServer .grpcWebClient [⟨0, 0, 0, 0, 2, [7, 8]⟩, ⟨0, 0, 0, 0, 0, []⟩] = [0, 0, 0, 0, 2, 7, 8, 0, 0, 0, 0, 0] := by
  refine ⟨?_, by decide +kernel⟩
  intro x hx
  simp only [List.mem_cons, List.mem_nil_iff, or_false] at hx
  rcases hx with rfl | rfl
  · exact ⟨{ compressed := false, trailer := false, length := 2 }, by decide +kernel, rfl, rfl, by decide +kernel⟩
  · exact ⟨{ compressed := false, trailer := false, length := 0 }, by decide +kernel, rfl, rfl, by decide +kernel⟩

end Vanguard.C01
