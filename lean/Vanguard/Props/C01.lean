import Vanguard.Model.Run
/-!
  C01 — Messages arrive intact across every protocol, codec and compression pairing.

  Codecs and compressors are not vanguard's code; they enter as a `World` with the laws
  `WorldLaws` (decode∘encode = id, decompress∘compress = id, compressed output is never empty —
  every real format has a header).  Proved for *every* such world, codec pair, compression pair and
  per-message compressed flag: `message.advanceToStage` (`transformMsg`) turns the wire form of a
  value under the sender's codec/compression into the wire form of the *same value* under the
  receiver's codec/compression — on the fast path, the recompress path and the re-encode path — and
  fails only if an external step fails.
  Whole-stream fidelity (count, order, no duplication, per-frame flags, all adapter paths) is the
  oracle `oracleC01`, evaluated on the implementation for every clean generated scenario against the
  scenario's ground truth (values sent by the client / by the backend), next to the byte-exact
  comparison of model and implementation.  Partial: the induction over the message list of a whole
  stream is not a theorem yet.
-/
namespace Vanguard.C01
open Vanguard

/-- What is assumed of the code vanguard does not own. -/
structure WorldLaws (w : World) : Prop where
  codec_roundtrip : ∀ c v, w.decode c (w.encode c v) = some v
  compress_roundtrip : ∀ z b, w.decompress z (w.compress z b) = some b
  compress_nonempty : ∀ z b, w.compress z b ≠ []

/-- Wire form of value `v`: encoded, and compressed when the frame says so and a compression is set. -/
def wire (w : World) (codec : Bytes) (comp : Option Bytes) (compressed : Bool) (v : Bytes) : Bytes :=
  match compressed, comp with
  | true, some z => w.compress z (w.encode codec v)
  | _, _ => w.encode codec v

/-- **Re-encode path** (codecs differ): the same value comes out in the receiver's wire form
    (the inflated payload has to fit the buffer limit, otherwise see C10). -/
theorem reencode_carries_value (w : World) (L : WorldLaws w) (limit : Nat) (sameCompression wasCompressed : Bool)
    (zc zs : Option Bytes) (cc sc v : Bytes) (hfit : (w.encode cc v).length ≤ limit) :
    transformMsg w limit false sameCompression wasCompressed zc zs cc sc (wire w cc zc wasCompressed v)
      = .ok (wire w sc zs wasCompressed v) := by
  have hnot : ¬ (w.encode cc v).length > limit := by omega
  unfold transformMsg wire decompressLimited
  cases wasCompressed <;> cases zc <;> cases zs <;>
    simp [L.codec_roundtrip, L.compress_roundtrip, L.compress_nonempty, hnot]

/-- **Recompress path** (same codec, compressed frame, compressions differ): the payload is
    decompressed with the sender's and recompressed with the receiver's compression. -/
theorem recompress_carries_payload (w : World) (L : WorldLaws w) (limit : Nat) (zc zs : Option Bytes)
    (c payload : Bytes) (hfit : payload.length ≤ limit) :
    transformMsg w limit true false true zc zs c c (match zc with | some z => w.compress z payload | none => payload)
      = .ok (match zs with | some z => w.compress z payload | none => payload) := by
  have hnot : ¬ payload.length > limit := by omega
  unfold transformMsg decompressLimited
  cases zc <;> cases zs <;> simp [L.compress_roundtrip, L.compress_nonempty, hnot]
  all_goals split <;> simp_all

/-- **Fast path** (same codec; frame uncompressed or same compression): the bytes are untouched. -/
theorem fast_path_identity (w : World) (limit : Nat) (sameCompression wasCompressed : Bool) (zc zs : Option Bytes)
    (c data : Bytes) (h : (!wasCompressed || sameCompression) = true) :
    transformMsg w limit true sameCompression wasCompressed zc zs c c data = .ok data := by
  unfold transformMsg; simp [h]

/-- The receiver gets the sender's value back, whatever path was taken (re-encode case shown;
    this is what "field-for-field content" means at the level of the abstract message value). -/
theorem receiver_decodes_senders_value (w : World) (L : WorldLaws w) (limit : Nat) (sameCompression wasCompressed : Bool)
    (zc zs : Option Bytes) (cc sc v : Bytes) (hfit : (w.encode cc v).length ≤ limit) :
    ∃ out, transformMsg w limit false sameCompression wasCompressed zc zs cc sc (wire w cc zc wasCompressed v) = .ok out ∧
      (match wasCompressed, zs with
        | true, some z => (w.decompress z out).bind (w.decode sc)
        | _, _ => w.decode sc out) = some v := by
  refine ⟨_, reencode_carries_value w L limit sameCompression wasCompressed zc zs cc sc v hfit, ?_⟩
  unfold wire
  cases wasCompressed <;> cases zs <;> simp [L.codec_roundtrip, L.compress_roundtrip]

/-- Failure is visible: if the payload does not decode, the transformation is an error (and the
    caller reports it as the RPC's outcome) — never altered data. -/
theorem undecodable_payload_is_error (w : World) (limit : Nat) (sameCompression : Bool) (zc zs : Option Bytes)
    (cc sc data : Bytes) (h : w.decode cc data = none) :
    transformMsg w limit false sameCompression false zc zs cc sc data = .error .other := by
  unfold transformMsg; simp [h]

end Vanguard.C01
