import Vanguard.Model.Pool
import Vanguard.Props.C15
/-!
  # C14 — concurrent RPCs are isolated from one another

  What concurrent RPCs on one `Transcoder` share is the pools of `Model/Pool`.  The theorems below
  are about *every* interleaving of *any* number of holders (RPCs, or the request side and the
  response side of one RPC): a trace is an arbitrary list of `get`/`put`/`drop` events tagged
  with their holder.

  * If every holder releases only buffers it holds itself (the obligation on vanguard's code) and
    the pool only hands out what was put into it or new objects (what `sync.Pool` guarantees),
    then no buffer is ever held by two holders, or held while in the pool (`exclusive`,
    `disciplined_never_shared`).
  * Together with `C15.pooled_buffer_like_fresh` / `pooledCompress_pure` /
    `pooledDecompress_pure` (a pooled object behaves like a new one whatever its previous
    holder did) an RPC computes the same result as when it runs alone.

  Modelled, not verified: that the Go code meets the obligation.  This is what the correspondence
  checks on real executions: the `verif` pool hook records every Get/Put/Wrap, reports a release
  of a buffer that is not held, a Get of a held buffer and a write into a pooled buffer, and
  poisons released buffers so that a use after release changes the outcome; the `conc` stream runs
  RPCs concurrently (including one RPC's two sides on different goroutines) and compares each with
  the model's solo result.  The Go memory model (data races on `responseWriter` fields) is outside
  the model; the `conc` stream is built with the race detector in the thorough tier.
-/
namespace Vanguard.C14
open Vanguard

def Inv (o : Own) : Prop :=
  o.heldIds.Nodup ∧ o.pooled.Nodup ∧ ∀ id, id ∈ o.heldIds → id ∉ o.pooled

theorem inv_init : Inv {} := by
  refine ⟨List.nodup_nil, List.nodup_nil, ?_⟩
  intro id h; simp [Own.heldIds] at h

theorem snd_not_mem_erase (l : List (Nat × Nat)) (h id : Nat) (hn : (l.map Prod.snd).Nodup)
    (hm : (h, id) ∈ l) : id ∉ (l.erase (h, id)).map Prod.snd := by
  induction l with
  | nil => simp at hm
  | cons x rest ih =>
    simp only [List.map_cons, List.nodup_cons] at hn
    by_cases hx : x = (h, id)
    · subst hx
      simp only [List.erase_cons_head]
      exact hn.1
    · have hm' : (h, id) ∈ rest := by
        rcases List.mem_cons.mp hm with h1 | h1
        · exact absurd h1.symm hx
        · exact h1
      have hne : (x == (h, id)) = false := by simpa using hx
      rw [List.erase_cons, hne]
      simp only [Bool.false_eq_true, if_false, List.map_cons, List.mem_cons, not_or]
      refine ⟨?_, ih hn.2 hm'⟩
      intro heq
      apply hn.1
      rw [← heq]
      exact List.mem_map.mpr ⟨(h, id), hm', rfl⟩

theorem erase_heldIds_sub (l : List (Nat × Nat)) (p : Nat × Nat) :
    ((l.erase p).map Prod.snd).Sublist (l.map Prod.snd) :=
  (List.erase_sublist).map Prod.snd

/-- One event keeps the invariant. -/
theorem step_inv (o o' : Own) (e : OwnEv) (hi : Inv o) (hs : o.step e = some o') : Inv o' := by
  obtain ⟨hh, hp, hd⟩ := hi
  cases e with
  | get h id recycled =>
    simp only [Own.step] at hs
    split at hs
    · cases hs
    · rename_i hnh
      have hnh' : id ∉ o.heldIds := by simpa using hnh
      split at hs
      · split at hs
        · rename_i _ hpo
          cases hs
          refine ⟨?_, hp.erase id, ?_⟩
          · simp only [Own.heldIds, List.map_cons, List.nodup_cons]
            exact ⟨hnh', hh⟩
          · intro x hx
            simp only [Own.heldIds, List.map_cons, List.mem_cons] at hx
            rcases hx with rfl | hx
            · exact fun hm => (List.Nodup.mem_erase_iff hp).mp hm |>.1 rfl
            · exact fun hm => hd x hx (List.mem_of_mem_erase hm)
        · cases hs
      · split at hs
        · cases hs
        · rename_i hnp
          cases hs
          have hnp' : id ∉ o.pooled := by simpa using hnp
          refine ⟨?_, hp, ?_⟩
          · simp only [Own.heldIds, List.map_cons, List.nodup_cons]
            exact ⟨hnh', hh⟩
          · intro x hx
            simp only [Own.heldIds, List.map_cons, List.mem_cons] at hx
            rcases hx with rfl | hx
            · exact hnp'
            · exact hd x hx
  | put h id =>
    simp only [Own.step] at hs
    split at hs
    · rename_i hc
      have hm : (h, id) ∈ o.held := by simpa using hc
      cases hs
      have hid : id ∈ o.heldIds := List.mem_map.mpr ⟨(h, id), hm, rfl⟩
      refine ⟨hh.sublist (erase_heldIds_sub o.held (h, id)), ?_, ?_⟩
      · exact List.nodup_cons.mpr ⟨hd id hid, hp⟩
      · intro x hx
        simp only [List.mem_cons, not_or]
        refine ⟨?_, hd x ((erase_heldIds_sub o.held (h, id)).subset hx)⟩
        rintro rfl
        exact snd_not_mem_erase o.held h x hh hm hx
    · cases hs
  | drop h id =>
    simp only [Own.step] at hs
    split at hs
    · cases hs
      refine ⟨hh.sublist (erase_heldIds_sub o.held (h, id)), hp, ?_⟩
      intro x hx
      exact hd x ((erase_heldIds_sub o.held (h, id)).subset hx)
    · cases hs

/-- **In every state that satisfies the invariant a buffer has at most one holder.** -/
theorem exclusive (o : Own) (hi : Inv o) (h1 h2 id : Nat)
    (m1 : (h1, id) ∈ o.held) (m2 : (h2, id) ∈ o.held) : h1 = h2 := by
  obtain ⟨hh, _, _⟩ := hi
  unfold Own.heldIds at hh
  generalize o.held = l at hh m1 m2
  induction l with
  | nil => simp at m1
  | cons x rest ih =>
    simp only [List.map_cons, List.nodup_cons] at hh
    rcases List.mem_cons.mp m1 with e1 | e1 <;> rcases List.mem_cons.mp m2 with e2 | e2
    · rw [← e1] at e2; exact (Prod.mk.inj e2).1.symm ▸ rfl
    · exfalso; apply hh.1; rw [← e1]; exact List.mem_map.mpr ⟨(h2, id), e2, rfl⟩
    · exfalso; apply hh.1; rw [← e2]; exact List.mem_map.mpr ⟨(h1, id), e1, rfl⟩
    · exact ih hh.2 e1 e2

/-- ... and a buffer that is held is not also available from the pool. -/
theorem held_not_pooled (o : Own) (hi : Inv o) (h id : Nat) (m : (h, id) ∈ o.held) : id ∉ o.pooled :=
  hi.2.2 id (List.mem_map.mpr ⟨(h, id), m, rfl⟩)

/-- When the code releases only what the releasing holder holds and the pool is honest, an event
    can never hand a buffer to a second holder. -/
theorem step_isSome (o : Own) (e : OwnEv) (hi : Inv o)
    (h1 : e.releasesHeld o = true) (h2 : e.poolHonest o = true) : (o.step e).isSome = true := by
  cases e with
  | get h id recycled =>
    cases recycled with
    | true =>
      simp only [OwnEv.poolHonest] at h2
      have hnp : id ∈ o.pooled := by simpa using h2
      have hnh : id ∉ o.heldIds := fun hm => hi.2.2 id hm hnp
      simp [Own.step, hnh, hnp]
    | false =>
      simp only [OwnEv.poolHonest, Bool.and_eq_true, Bool.not_eq_true'] at h2
      have a : id ∉ o.pooled := by simpa using h2.1
      have b : id ∉ o.heldIds := by simpa using h2.2
      simp [Own.step, a, b]
  | put h id =>
    simp only [OwnEv.releasesHeld] at h1
    have a : (h, id) ∈ o.held := by simpa using h1
    simp [Own.step, a]
  | drop h id =>
    simp only [OwnEv.releasesHeld] at h1
    have a : (h, id) ∈ o.held := by simpa using h1
    simp [Own.step, a]

/-- **Every interleaving of any number of holders that meets the obligations runs to the end with
    the invariant intact**: at no point is a buffer held twice or held while pooled. -/
theorem disciplined_never_shared (tr : List OwnEv) : ∀ (o : Own), Inv o → o.disciplined tr = true →
    ∃ o', o.run tr = some o' ∧ Inv o' := by
  induction tr with
  | nil => intro o hi _; exact ⟨o, rfl, hi⟩
  | cons e rest ih =>
    intro o hi hd
    simp only [Own.disciplined, Bool.and_eq_true] at hd
    obtain ⟨⟨h1, h2⟩, h3⟩ := hd
    have hs := step_isSome o e hi h1 h2
    cases hst : o.step e with
    | none => rw [hst] at hs; cases hs
    | some o' =>
      rw [hst] at h3
      obtain ⟨o'', hr, hi''⟩ := ih o' (step_inv o o' e hi hst) h3
      exact ⟨o'', by simp [Own.run, hst, hr], hi''⟩

/-- The same for every prefix: the invariant holds at every reachable point of the trace. -/
theorem run_inv (tr : List OwnEv) : ∀ (o o' : Own), Inv o → o.run tr = some o' → Inv o' := by
  induction tr with
  | nil => intro o o' hi h; simp [Own.run] at h; exact h ▸ hi
  | cons e rest ih =>
    intro o o' hi h
    simp only [Own.run] at h
    cases hst : o.step e with
    | none => rw [hst] at h; cases h
    | some o1 => rw [hst] at h; exact ih o1 o' (step_inv o o1 e hi hst) h

theorem preexistingFrom_nodup (tr : List OwnEv) : ∀ (seen pre : List Nat),
    pre.Nodup → (∀ x ∈ pre, x ∈ seen) → (preexistingFrom seen pre tr).Nodup := by
  induction tr with
  | nil => intro seen pre h _; exact h
  | cons e rest ih =>
    intro seen pre hn hs
    unfold preexistingFrom
    by_cases hc : seen.contains e.id = true
    · rw [if_pos hc]; exact ih seen pre hn hs
    · rw [if_neg hc]
      have hns : e.id ∉ seen := by simpa using hc
      cases e with
      | get h id recycled =>
        cases recycled with
        | true =>
          apply ih
          · exact List.nodup_cons.mpr ⟨fun hm => hns (hs id hm), hn⟩
          · intro x hx
            rcases List.mem_cons.mp hx with rfl | hx
            · exact List.mem_cons_self
            · exact List.mem_cons_of_mem _ (hs x hx)
        | false => exact ih _ pre hn (fun x hx => List.mem_cons_of_mem _ (hs x hx))
      | put h id => exact ih _ pre hn (fun x hx => List.mem_cons_of_mem _ (hs x hx))
      | drop h id => exact ih _ pre hn (fun x hx => List.mem_cons_of_mem _ (hs x hx))

theorem inv_start (tr : List OwnEv) : Inv { held := [], pooled := preexisting tr } := by
  refine ⟨List.nodup_nil, preexistingFrom_nodup tr [] [] List.nodup_nil (by simp), ?_⟩
  intro id h; simp [Own.heldIds] at h

/-- The trace checker accepts a recorded trace only if, starting from a pool that holds the
    buffers recycled from before the recording, no buffer was ever shared. -/
theorem checkTrace_sound (tr : List OwnEv) (h : checkTrace tr = true) :
    ∃ o', ({ held := [], pooled := preexisting tr } : Own).run tr = some o' ∧ Inv o' := by
  unfold checkTrace at h
  cases hr : ({ held := [], pooled := preexisting tr } : Own).run tr with
  | none => rw [hr] at h; cases h
  | some o' => exact ⟨o', rfl, run_inv tr _ o' (inv_start tr) hr⟩

/-- Non-vacuity: two holders interleaved, a recycled buffer changing hands after a `put`. -/
example : ({} : Own).disciplined
    [.get 1 7 false, .get 2 8 false, .put 1 7, .get 2 7 true, .drop 2 8, .put 2 7] = true := by decide
/-- What the seeded defects look like: a buffer released twice, then obtained by two holders. -/
example : checkTrace [.get 1 7 false, .put 1 7, .put 1 7] = false := by decide
example : checkTrace [.get 1 7 false, .put 1 7, .get 2 7 true, .get 3 7 true] = false := by decide

end Vanguard.C14
