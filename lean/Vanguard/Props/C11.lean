import Vanguard.Lemmas.Serve
/-!
  C11 — No input from client or backend can crash or wedge the transcoder.

  The model makes Go's partial operations partial (`httpStatusCodeFromRPC` indexing → `Option`,
  nil sinks and impossible slices → the `panic` flag).  Proved here: every path that *reports* an
  outcome to the client — `reportError`, `reportEnd`, `flushHeaders`, for every state, error and
  client protocol — is panic-free, because the status lookup is total for every code (C04).
  Partial: panic-freedom of the whole `serve` (all writer/reader loops) is not yet a theorem; it is
  covered by the correspondence, where `panic=0` is part of every compared observation, and loop
  termination is by construction (all loops are fuelled and structurally recursive).
-/
namespace Vanguard.C11
open Vanguard

/-- The code → status lookup never indexes out of range, for any uint32 code. -/
theorem status_lookup_total (code : Nat) : (httpStatusFromRPC code).isSome = true :=
  httpStatusFromRPC_isSome code

/-- Rendering the response head never panics, whatever the end, client protocol or state. -/
theorem flush_headers_never_panics (w : World) (st : St) : (flushHeaders w st).2 = false :=
  flushHeaders_no_panic w st

/-- Reporting the end of an RPC never panics. -/
theorem report_end_never_panics (w : World) (st : St) (e : RespEnd) : (reportEnd w st e).2 = false :=
  reportEnd_no_panic w st e

/-- Reporting an error never panics — in particular not for RPC codes outside 0..16 relayed from a
    backend (the pinned tree crashed on code 17 here). -/
theorem report_error_never_panics (w : World) (st : St) (err : Err) : (reportError w st err).2 = false :=
  reportError_no_panic w st err

/-- Non-vacuity: an out-of-range code on a Connect unary client goes through the lookup. -/
example : httpStatusFromRPC 17 = some 500 ∧ httpStatusFromRPC 4294967295 = some 500 := by decide

end Vanguard.C11
