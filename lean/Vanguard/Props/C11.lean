import Vanguard.Lemmas.Serve
/-!
  C11 — No input from client or backend can crash or wedge the transcoder.

  The model makes Go's partial operations partial (`httpStatusCodeFromRPC` indexing → `Option`,
  nil sinks and impossible slices → the `panic` flag).  Proved here: every path that *reports* an
  outcome to the client — `reportError`, `reportEnd`, `flushHeaders`, for every state, error and
  client protocol — is panic-free, because the status lookup is total for every code (C04).
  And **the loop of `envelopingWriter.Write` terminates for every writer state and every byte string
  the backend writes** (`ewLoop_fuel`, `ewLoop_enough`): the model's loop is fuelled; the theorem
  shows by a decreasing measure (bytes left, envelope/body phase) that the fuel `Write` provides is
  never exhausted - more fuel never changes the result.  The decrease relies on the latch
  `if w.err != nil { return }` at the top of the loop, the very check whose removal makes the real
  loop spin (seeded change C11_1).
  Partial: panic-freedom of the whole `serve` is not a theorem; it is covered by the
  correspondence, where `panic=0` is part of every compared observation, and a watchdog in the
  harness reports a call that does not return.
-/
namespace Vanguard.C11
open Vanguard

/-- The code → status lookup never indexes out of range, for any uint32 code. -/
theorem status_lookup_total (code : Nat) : (httpStatusFromRPC code).isSome = true :=
  httpStatusFromRPC_isSome code

/-- Rendering the response head never panics, whatever the end, client protocol or state. -/
theorem flush_headers_never_panics (w : World) (st : St) : (flushHeaders w st).2 = false :=
  flushHeaders_no_panic w st

/-- Reporting the end of an RPC never panics. -/
theorem report_end_never_panics (w : World) (st : St) (e : RespEnd) : (reportEnd w st e).2 = false :=
  reportEnd_no_panic w st e

/-- Reporting an error never panics — in particular not for RPC codes outside 0..16 relayed from a
    backend (the pinned tree crashed on code 17 here). -/
theorem report_error_never_panics (w : World) (st : St) (err : Err) : (reportError w st err).2 = false :=
  reportError_no_panic w st err

/-- Non-vacuity: an out-of-range code on a Connect unary client goes through the lookup. -/
example : httpStatusFromRPC 17 = some 500 ∧ httpStatusFromRPC 4294967295 = some 500 := by decide


/-! ### termination of the re-framing writer's loop -/

theorem ewWritePiece_flags (w : World) (st : St) (e : EW) (piece : Bytes) :
    (ewWritePiece w st e piece).2.1.writingEnvelope = e.writingEnvelope ∧
    (ewWritePiece w st e piece).2.1.remaining = e.remaining := by
  unfold ewWritePiece
  split
  · exact ⟨rfl, rfl⟩
  · split
    · exact ⟨rfl, rfl⟩
    · exact ⟨rfl, rfl⟩
    · split <;> exact ⟨rfl, rfl⟩
    · exact ⟨rfl, rfl⟩

theorem ewEnvelopeWritten_not_writing (w : World) (st : St) (e : EW) :
    (ewEnvelopeWritten w st e).2.1.writingEnvelope = false := by
  unfold ewEnvelopeWritten
  simp only
  repeat' split
  all_goals rfl

/-- The loop measure: twice the bytes still to be processed, plus one while a message body (not an
    envelope) is being consumed. -/
def mu (e : EW) (data : Bytes) : Nat := 2 * data.length + (if e.writingEnvelope then 0 else 1)

/-- While an envelope is being collected (and the writer is not latched in an error) at least one
    of its bytes is still missing. -/
def EnvInv (e : EW) : Prop := e.err = false → e.writingEnvelope = true → 1 ≤ e.remaining


theorem ewLoop_err (w : World) (tb : Tables) (n : Nat) (st : St) (e : EW) (d : Bytes) (h : e.err = true) :
    ewLoop w tb (n + 1) st e d = (st, e, true, false) := by
  unfold ewLoop; simp [h]

/-- **Fuel adequacy = termination of `envelopingWriter.Write`'s loop**: once the fuel exceeds the
    measure, more fuel changes nothing - the loop never runs out of steps, for any writer state
    and any bytes the backend writes. -/
theorem ewLoop_fuel (w : World) (tb : Tables) : ∀ (n : Nat) (st : St) (e : EW) (data : Bytes),
    EnvInv e → mu e data < n → ewLoop w tb n st e data = ewLoop w tb (n + 1) st e data := by
  intro n
  induction n with
  | zero => intro _ _ _ _ h; omega
  | succ m ih =>
    intro st e data hinv hmu
    unfold ewLoop
    by_cases herr : e.err = true
    · simp [herr]
    · simp only [herr, Bool.false_eq_true, if_false]
      by_cases hlt : (data.length : Int) < e.remaining
      · simp [hlt]
      · simp only [hlt, if_false]
        have hflags := ewWritePiece_flags w st e (data.take e.remaining.toNat)
        generalize hr1 : ewWritePiece w st e (data.take e.remaining.toNat) = r1 at hflags ⊢
        obtain ⟨s1, e1, f1, p1⟩ := r1
        simp only at hflags ⊢
        obtain ⟨hw1, hrem1⟩ := hflags
        by_cases hbad : (f1 || p1) = true
        · simp [hbad]
        · simp only [hbad, Bool.false_eq_true, if_false]
          have hle : e.remaining ≤ (data.length : Int) := by omega
          have hrest : (data.drop e.remaining.toNat).length = data.length - e.remaining.toNat := List.length_drop
          generalize he2 : ({ e1 with remaining := e1.remaining - ↑e.remaining.toNat } : EW) = e2
          have hw2 : e1.writingEnvelope = e.writingEnvelope := hw1
          by_cases hw : e1.writingEnvelope = true
          · -- an envelope has been completed
            simp only [hw, if_true]
            have hnw := ewEnvelopeWritten_not_writing w s1 e2
            generalize hr2 : ewEnvelopeWritten w s1 e2 = r2 at hnw ⊢
            obtain ⟨s2, e3, f2, p2⟩ := r2
            simp only at hnw ⊢
            by_cases hbad2 : (f2 || p2) = true
            · simp [hbad2]
            · simp only [hbad2, Bool.false_eq_true, if_false]
              apply ih
              · intro _ h; rw [hnw] at h; cases h
              · have hwe : e.writingEnvelope = true := hw2 ▸ hw
                have h1 : 1 ≤ e.remaining := hinv (by simpa using herr) hwe
                unfold mu at hmu ⊢
                simp only [hwe, if_true, hnw, Bool.false_eq_true, if_false, hrest] at hmu ⊢
                omega
          · have hwf : e1.writingEnvelope = false := by simpa using hw
            have hwe : e.writingEnvelope = false := hw2 ▸ hwf
            simp only [hwf, Bool.false_eq_true, if_false]
            by_cases ht : e1.currentIsTrailer = true
            · simp only [ht, if_true]
              split
              · generalize hr3 : handleEndMessage w tb s1 _ _ true = r3
                obtain ⟨s2, err, p2⟩ := r3
                simp only
                by_cases hbad3 : (err.isSome || p2) = true
                · simp [hbad3]
                · simp only [hbad3, Bool.false_eq_true, if_false]
                  by_cases hre : (data.drop e.remaining.toNat).isEmpty = true
                  · simp [hre]
                  · simp only [hre, Bool.false_eq_true, if_false]
                    -- the writer is latched: the next round returns at once, with any fuel ≥ 1
                    have hm : ∃ m', m = m' + 1 := by
                      unfold mu at hmu; simp only [hwe, Bool.false_eq_true, if_false] at hmu
                      exact ⟨m - 1, by omega⟩
                    obtain ⟨m', rfl⟩ := hm
                    rw [ewLoop_err w tb m' _ _ _ rfl, ewLoop_err w tb (m' + 1) _ _ _ rfl]
              · rfl
            · simp only [ht, Bool.false_eq_true, if_false]
              apply ih
              · intro _ _; simp
              · unfold mu at hmu ⊢
                simp only [hwe, Bool.false_eq_true, if_false, if_true, hrest] at hmu ⊢
                omega


/-- The fuel `ewWrite` gives its loop is always enough: any additional fuel gives the same result. -/
theorem ewLoop_enough (w : World) (tb : Tables) (st : St) (e : EW) (data : Bytes) (hinv : EnvInv e) :
    ∀ k, ewLoop w tb (2 * data.length + 4 + k) st e data = ewLoop w tb (2 * data.length + 4) st e data := by
  intro k
  induction k with
  | zero => rfl
  | succ k ih =>
    rw [← ih]
    have hmu : mu e data < 2 * data.length + 4 + k := by
      unfold mu; split <;> omega
    exact (ewLoop_fuel w tb _ st e data hinv hmu).symm

/-- `maybeInit` establishes the invariant for an enveloped backend. -/
example : EnvInv { writingEnvelope := true, remaining := 5 } := by intro _ _; decide



/-- The invariant the termination argument needs is kept by the loop itself, so it holds before
    every later `Write` of the same response as well. -/
theorem ewLoop_keeps_inv (w : World) (tb : Tables) : ∀ (n : Nat) (st : St) (e : EW) (data : Bytes),
    EnvInv e → EnvInv (ewLoop w tb n st e data).2.1 := by
  intro n
  induction n with
  | zero => intro st e data h; simpa [ewLoop] using h
  | succ m ih =>
    intro st e data hinv
    unfold ewLoop
    by_cases herr : e.err = true
    · simp only [herr, if_true]; exact hinv
    · have herrf : e.err = false := by simpa using herr
      simp only [herr, Bool.false_eq_true, if_false]
      by_cases hlt : (data.length : Int) < e.remaining
      · simp only [hlt, if_true]
        have hflags := ewWritePiece_flags w st e data
        generalize ewWritePiece w st e data = r1 at hflags ⊢
        obtain ⟨s1, e1, f1, p1⟩ := r1
        simp only at hflags ⊢
        obtain ⟨hw1, hrem1⟩ := hflags
        intro _ hw
        simp only at hw ⊢
        have := hinv herrf (hw1 ▸ hw)
        rw [hrem1]; omega
      · simp only [hlt, if_false]
        have hflags := ewWritePiece_flags w st e (data.take e.remaining.toNat)
        generalize ewWritePiece w st e (data.take e.remaining.toNat) = r1 at hflags ⊢
        obtain ⟨s1, e1, f1, p1⟩ := r1
        simp only at hflags ⊢
        obtain ⟨hw1, hrem1⟩ := hflags
        by_cases hbad : (f1 || p1) = true
        · simp only [hbad, if_true]; intro h; simp at h
        · simp only [hbad, Bool.false_eq_true, if_false]
          by_cases hw : e1.writingEnvelope = true
          · simp only [hw, if_true]
            split
            · intro _ h; simp only at h; rw [ewEnvelopeWritten_not_writing] at h; cases h
            · apply ih; intro _ h; rw [ewEnvelopeWritten_not_writing] at h; cases h
          · have hwf : e1.writingEnvelope = false := by simpa using hw
            simp only [hwf, Bool.false_eq_true, if_false]
            by_cases ht : e1.currentIsTrailer = true
            · simp only [ht, if_true]
              split
              · generalize handleEndMessage w tb s1 _ _ true = r3
                obtain ⟨s2, err, p2⟩ := r3
                simp only
                by_cases hbad3 : (err.isSome || p2) = true
                · simp only [hbad3, if_true]; intro _ h; simp at h
                · simp only [hbad3, Bool.false_eq_true, if_false]
                  by_cases hre : (data.drop e.remaining.toNat).isEmpty = true
                  · simp only [hre, if_true]; intro h; simp at h
                  · simp only [hre, Bool.false_eq_true, if_false]
                    apply ih; intro h; simp at h
              · intro _ h; simp at h
            · simp only [ht, Bool.false_eq_true, if_false]
              apply ih; intro _ _; simp

end Vanguard.C11
