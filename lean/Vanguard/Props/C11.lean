import Vanguard.Lemmas.Serve
import Vanguard.Lemmas.Frame
import Vanguard.Lemmas.Outcome
import Vanguard.Lemmas.ReadReach
import Vanguard.Lemmas.Source
/-!
  C11 — No input from client or backend can crash or wedge the transcoder.

  The model makes Go's partial operations partial (`httpStatusCodeFromRPC` indexing → `Option`,
  nil sinks and impossible slices → the `panic` flag).  Proved here: every path that *reports* an
  outcome to the client — `reportError`, `reportEnd`, `flushHeaders`, for every state, error and
  client protocol — is panic-free, because the status lookup is total for every code (C04).
  And **the loop of `envelopingWriter.Write` terminates for every writer state and every byte string
  the backend writes** (`ewLoop_fuel`, `ewLoop_enough`): the model's loop is fuelled; the theorem
  shows by a decreasing measure (bytes left, envelope/body phase) that the fuel `Write` provides is
  never exhausted - more fuel never changes the result.  The decrease relies on the latch
  `if w.err != nil { return }` at the top of the loop, the very check whose removal makes the real
  loop spin (seeded change C11_1).  The same is proved for **the loop of `transformingWriter.Write`**
  (`twLoop_fuel`, `twLoop_enough`; the invariant it needs - fewer than five buffered bytes while an
  envelope is collected - is kept by the loop, `twLoop_keeps_inv`, and established by `reset`).
  **No `WriteHeader` and no `Write` of any handler ever panics** (`handler_writes_never_panic`): `Ready` -
  the response is consistent (C03's `Good`) and, once `WriteHeader` ran, the response is latched in an
  error or a well-formed body writer is installed - is an invariant of every handler script
  (`runScript_ready`: any reads of any size, header changes, `WriteHeader`, `Write` with any bytes split
  anywhere, `Flush`, `Close`), and in a `Ready` state `Write` and `WriteHeader` return without a panic
  (`rwWrite_safe`, `rwWriteHeader_no_panic`).  Underneath: the loops of both writers never take a
  slice out of range, never miss a sink or a decoder, never run out of fuel, and hand back a
  well-formed writer (`twLoop_safe`, `twWrite_safe`, `ewLoop_safe`, `ewWrite_safe`).
  The same for **`responseWriter.Close`** when the handler returns (`rwClose_no_panic`,
  `finish_never_panics`): the whole response side of `ServeHTTP` is panic-free.
  The request side: reading one message never panics (`readRequestMessage_no_panic`: a header that
  `io.ReadFull` delivered without error has five bytes; `io.Copy` from the limited reader never runs out
  of steps, `copyAllLimited_no_panic`), `envelopingReader.Read` never panics (`erRead_no_panic`), and
  the loop of `transformingReader.Read` always ends (`trRead_no_panic`: every round that goes on to
  the next message took something from the client's body, `readRequestMessage_consumes`).
  Together: **`serve_never_panics` - for every configuration, request, client body and backend
  script, `ServeHTTP` returns without a panic.**
  What the theorem does not cover: it is about the model; `panic=0` is also part of every compared
  observation of the correspondence, and a watchdog in the harness reports a call that does not
  return.  The REST request/response translation (`Model/Rest`) and `NewTranscoder` (`Model/Config`)
  are separate models whose panic-freedom is checked by the no-panic oracle over their streams.
-/
namespace Vanguard.C11
open Vanguard

/-- The code → status lookup never indexes out of range, for any uint32 code. -/
theorem status_lookup_total (code : Nat) : (httpStatusFromRPC code).isSome = true :=
  httpStatusFromRPC_isSome code

/-- Rendering the response head never panics, whatever the end, client protocol or state. -/
theorem flush_headers_never_panics (w : World) (st : St) : (flushHeaders w st).2 = false :=
  flushHeaders_no_panic w st

/-- Reporting the end of an RPC never panics. -/
theorem report_end_never_panics (w : World) (st : St) (e : RespEnd) : (reportEnd w st e).2 = false :=
  reportEnd_no_panic w st e

/-- Reporting an error never panics — in particular not for RPC codes outside 0..16 relayed from a
    backend (the pinned tree crashed on code 17 here). -/
theorem report_error_never_panics (w : World) (st : St) (err : Err) : (reportError w st err).2 = false :=
  reportError_no_panic w st err

/-- Non-vacuity: an out-of-range code on a Connect unary client goes through the lookup. -/
example : httpStatusFromRPC 17 = some 500 ∧ httpStatusFromRPC 4294967295 = some 500 := by decide


/-! ### termination of the re-framing writer's loop -/

theorem ewWritePiece_flags (w : World) (st : St) (e : EW) (piece : Bytes) :
    (ewWritePiece w st e piece).2.1.writingEnvelope = e.writingEnvelope ∧
    (ewWritePiece w st e piece).2.1.remaining = e.remaining := by
  unfold ewWritePiece
  split
  · exact ⟨rfl, rfl⟩
  · split
    · exact ⟨rfl, rfl⟩
    · exact ⟨rfl, rfl⟩
    · split <;> exact ⟨rfl, rfl⟩
    · exact ⟨rfl, rfl⟩

theorem ewEnvelopeWritten_not_writing (w : World) (st : St) (e : EW) :
    (ewEnvelopeWritten w st e).2.1.writingEnvelope = false := by
  unfold ewEnvelopeWritten
  simp only
  repeat' split
  all_goals rfl

/-- The loop measure: twice the bytes still to be processed, plus one while a message body (not an
    envelope) is being consumed. -/
def mu (e : EW) (data : Bytes) : Nat := 2 * data.length + (if e.writingEnvelope then 0 else 1)

/-- While an envelope is being collected (and the writer is not latched in an error) at least one
    of its bytes is still missing. -/
def EnvInv (e : EW) : Prop := e.err = false → e.writingEnvelope = true → 1 ≤ e.remaining


theorem ewLoop_err (w : World) (tb : Tables) (n : Nat) (st : St) (e : EW) (d : Bytes) (h : e.err = true) :
    ewLoop w tb (n + 1) st e d = (st, e, true, false) := by
  unfold ewLoop; simp [h]

/-- **Fuel adequacy = termination of `envelopingWriter.Write`'s loop**: once the fuel exceeds the
    measure, more fuel changes nothing - the loop never runs out of steps, for any writer state
    and any bytes the backend writes. -/
theorem ewLoop_fuel (w : World) (tb : Tables) : ∀ (n : Nat) (st : St) (e : EW) (data : Bytes),
    EnvInv e → mu e data < n → ewLoop w tb n st e data = ewLoop w tb (n + 1) st e data := by
  intro n
  induction n with
  | zero => intro _ _ _ _ h; omega
  | succ m ih =>
    intro st e data hinv hmu
    unfold ewLoop
    by_cases herr : e.err = true
    · simp [herr]
    · simp only [herr, Bool.false_eq_true, if_false]
      by_cases hlt : (data.length : Int) < e.remaining
      · simp [hlt]
      · simp only [hlt, if_false]
        have hflags := ewWritePiece_flags w st e (data.take e.remaining.toNat)
        generalize hr1 : ewWritePiece w st e (data.take e.remaining.toNat) = r1 at hflags ⊢
        obtain ⟨s1, e1, f1, p1⟩ := r1
        simp only at hflags ⊢
        obtain ⟨hw1, hrem1⟩ := hflags
        by_cases hbad : (f1 || p1) = true
        · simp [hbad]
        · simp only [hbad, Bool.false_eq_true, if_false]
          have hle : e.remaining ≤ (data.length : Int) := by omega
          have hrest : (data.drop e.remaining.toNat).length = data.length - e.remaining.toNat := List.length_drop
          generalize he2 : ({ e1 with remaining := e1.remaining - ↑e.remaining.toNat } : EW) = e2
          have hw2 : e1.writingEnvelope = e.writingEnvelope := hw1
          by_cases hw : e1.writingEnvelope = true
          · -- an envelope has been completed
            simp only [hw, if_true]
            have hnw := ewEnvelopeWritten_not_writing w s1 e2
            generalize hr2 : ewEnvelopeWritten w s1 e2 = r2 at hnw ⊢
            obtain ⟨s2, e3, f2, p2⟩ := r2
            simp only at hnw ⊢
            by_cases hbad2 : (f2 || p2) = true
            · simp [hbad2]
            · simp only [hbad2, Bool.false_eq_true, if_false]
              apply ih
              · intro _ h; rw [hnw] at h; cases h
              · have hwe : e.writingEnvelope = true := hw2 ▸ hw
                have h1 : 1 ≤ e.remaining := hinv (by simpa using herr) hwe
                unfold mu at hmu ⊢
                simp only [hwe, if_true, hnw, Bool.false_eq_true, if_false, hrest] at hmu ⊢
                omega
          · have hwf : e1.writingEnvelope = false := by simpa using hw
            have hwe : e.writingEnvelope = false := hw2 ▸ hwf
            simp only [hwf, Bool.false_eq_true, if_false]
            by_cases ht : e1.currentIsTrailer = true
            · simp only [ht, if_true]
              split
              · generalize hr3 : handleEndMessage w tb s1 _ _ true = r3
                obtain ⟨s2, err, p2⟩ := r3
                simp only
                by_cases hbad3 : (err.isSome || p2) = true
                · simp [hbad3]
                · simp only [hbad3, Bool.false_eq_true, if_false]
                  by_cases hre : (data.drop e.remaining.toNat).isEmpty = true
                  · simp [hre]
                  · simp only [hre, Bool.false_eq_true, if_false]
                    -- the writer is latched: the next round returns at once, with any fuel ≥ 1
                    have hm : ∃ m', m = m' + 1 := by
                      unfold mu at hmu; simp only [hwe, Bool.false_eq_true, if_false] at hmu
                      exact ⟨m - 1, by omega⟩
                    obtain ⟨m', rfl⟩ := hm
                    rw [ewLoop_err w tb m' _ _ _ rfl, ewLoop_err w tb (m' + 1) _ _ _ rfl]
              · rfl
            · simp only [ht, Bool.false_eq_true, if_false]
              apply ih
              · intro _ _; simp
              · unfold mu at hmu ⊢
                simp only [hwe, Bool.false_eq_true, if_false, if_true, hrest] at hmu ⊢
                omega


/-- The fuel `ewWrite` gives its loop is always enough: any additional fuel gives the same result. -/
theorem ewLoop_enough (w : World) (tb : Tables) (st : St) (e : EW) (data : Bytes) (hinv : EnvInv e) :
    ∀ k, ewLoop w tb (2 * data.length + 4 + k) st e data = ewLoop w tb (2 * data.length + 4) st e data := by
  intro k
  induction k with
  | zero => rfl
  | succ k ih =>
    rw [← ih]
    have hmu : mu e data < 2 * data.length + 4 + k := by
      unfold mu; split <;> omega
    exact (ewLoop_fuel w tb _ st e data hinv hmu).symm

/-- `maybeInit` establishes the invariant for an enveloped backend. -/
example : EnvInv { writingEnvelope := true, remaining := 5 } := by intro _ _; decide



/-- The invariant the termination argument needs is kept by the loop itself, so it holds before
    every later `Write` of the same response as well. -/
theorem ewLoop_keeps_inv (w : World) (tb : Tables) : ∀ (n : Nat) (st : St) (e : EW) (data : Bytes),
    EnvInv e → EnvInv (ewLoop w tb n st e data).2.1 := by
  intro n
  induction n with
  | zero => intro st e data h; simpa [ewLoop] using h
  | succ m ih =>
    intro st e data hinv
    unfold ewLoop
    by_cases herr : e.err = true
    · simp only [herr, if_true]; exact hinv
    · have herrf : e.err = false := by simpa using herr
      simp only [herr, Bool.false_eq_true, if_false]
      by_cases hlt : (data.length : Int) < e.remaining
      · simp only [hlt, if_true]
        have hflags := ewWritePiece_flags w st e data
        generalize ewWritePiece w st e data = r1 at hflags ⊢
        obtain ⟨s1, e1, f1, p1⟩ := r1
        simp only at hflags ⊢
        obtain ⟨hw1, hrem1⟩ := hflags
        intro _ hw
        simp only at hw ⊢
        have := hinv herrf (hw1 ▸ hw)
        rw [hrem1]; omega
      · simp only [hlt, if_false]
        have hflags := ewWritePiece_flags w st e (data.take e.remaining.toNat)
        generalize ewWritePiece w st e (data.take e.remaining.toNat) = r1 at hflags ⊢
        obtain ⟨s1, e1, f1, p1⟩ := r1
        simp only at hflags ⊢
        obtain ⟨hw1, hrem1⟩ := hflags
        by_cases hbad : (f1 || p1) = true
        · simp only [hbad, if_true]; intro h; simp at h
        · simp only [hbad, Bool.false_eq_true, if_false]
          by_cases hw : e1.writingEnvelope = true
          · simp only [hw, if_true]
            split
            · intro _ h; simp only at h; rw [ewEnvelopeWritten_not_writing] at h; cases h
            · apply ih; intro _ h; rw [ewEnvelopeWritten_not_writing] at h; cases h
          · have hwf : e1.writingEnvelope = false := by simpa using hw
            simp only [hwf, Bool.false_eq_true, if_false]
            by_cases ht : e1.currentIsTrailer = true
            · simp only [ht, if_true]
              split
              · generalize handleEndMessage w tb s1 _ _ true = r3
                obtain ⟨s2, err, p2⟩ := r3
                simp only
                by_cases hbad3 : (err.isSome || p2) = true
                · simp only [hbad3, if_true]; intro _ h; simp at h
                · simp only [hbad3, Bool.false_eq_true, if_false]
                  by_cases hre : (data.drop e.remaining.toNat).isEmpty = true
                  · simp only [hre, if_true]; intro h; simp at h
                  · simp only [hre, Bool.false_eq_true, if_false]
                    apply ih; intro h; simp at h
              · intro _ h; simp at h
            · simp only [ht, Bool.false_eq_true, if_false]
              apply ih; intro _ _; simp

/-! ### the loop of `transformingWriter.Write` -/

/-- The loop measure of the re-encoding writer. -/
def muT (t : TW) (data : Bytes) : Nat := 2 * data.length + (if t.writingEnvelope then 0 else 1)

/-- While an envelope is being collected (and the writer is not latched) it expects five bytes and
    has fewer than five of them. -/
def TwInv (t : TW) : Prop :=
  t.err = false → t.writingEnvelope = true → t.expecting = 5 ∧ (t.buffer.getD []).length < 5

theorem twLoop_err (w : World) (tb : Tables) (n : Nat) (st : St) (t : TW) (d : Bytes) (h : t.err = true) :
    twLoop w tb (n + 1) st t d = (st, t, true, false) := by
  unfold twLoop; simp [h]

/-- After a message was flushed without error the writer is latched (end of stream) or its buffer is empty. -/
theorem twFlushMessage_writer (w : World) (tb : Tables) (st : St) (t : TW) :
    (twFlushMessage w tb st t).2.2.1 = none → (twFlushMessage w tb st t).2.2.2 = false →
    ((twFlushMessage w tb st t).2.1.err = true ∨ (twFlushMessage w tb st t).2.1.buffer = some []) := by
  unfold twFlushMessage
  simp only
  split
  · split
    · intro h1 h2; simp_all
    · intro _ _; exact Or.inl rfl
  · split
    · intro h; simp at h
    · cases hce : st.op.clientEnveloper with
      | none =>
        simp only [Option.isSome_none, Bool.false_eq_true, if_false, Bool.or_self]
        split
        · intro h; simp at h
        · intro _ _; right; unfold twReset; split <;> rfl
      | some ce =>
        simp only
        split
        · intro h; simp at h
        · simp only
          split
          · intro h1 h2; simp_all
          · split
            · intro h1 h2; simp_all
            · split
              · intro h; simp at h
              · intro _ _; right; unfold twReset; split <;> rfl

/-- **Termination of `transformingWriter.Write`'s loop**: once the fuel exceeds the measure, more
    fuel changes nothing, for any writer state and any bytes the backend writes. -/
theorem twLoop_fuel (w : World) (tb : Tables) : ∀ (n : Nat) (st : St) (t : TW) (data : Bytes),
    TwInv t → muT t data < n → twLoop w tb n st t data = twLoop w tb (n + 1) st t data := by
  intro n
  induction n with
  | zero => intro _ _ _ _ h; omega
  | succ m ih =>
    intro st t data hinv hmu
    unfold twLoop
    by_cases herr : t.err = true
    · simp [herr]
    · have herrf : t.err = false := by simpa using herr
      simp only [herr, Bool.false_eq_true, if_false]
      by_cases hneg : (t.expecting - ((t.buffer.getD []).length : Int)) < 0
      · simp [hneg]
      · simp only [hneg, if_false]
        by_cases hlt : (data.length : Int) < t.expecting - ((t.buffer.getD []).length : Int)
        · simp [hlt]
        · simp only [hlt, if_false]
          have hrest : (data.drop (t.expecting - ((t.buffer.getD []).length : Int)).toNat).length
              = data.length - (t.expecting - ((t.buffer.getD []).length : Int)).toNat := List.length_drop
          by_cases hw : t.writingEnvelope = true
          · -- an envelope has been completed: at least one of its bytes came with this call
            obtain ⟨hexp, hgot⟩ := hinv herrf hw
            simp only [hw, if_true]
            split
            · split
              · rfl
              · split
                · rfl
                · apply ih
                  · intro _ h; simp at h
                  · unfold muT at hmu ⊢
                    simp only [hw, if_true, Bool.false_eq_true, if_false, hrest] at hmu ⊢
                    rw [hexp]
                    omega
            · rfl
          · have hwf : t.writingEnvelope = false := by simpa using hw
            simp only [hwf, Bool.false_eq_true, if_false]
            have hwr := fun tt => twFlushMessage_writer w tb st tt
            generalize hr : twFlushMessage w tb st _ = r
            have hwr' : r.2.2.1 = none → r.2.2.2 = false → (r.2.1.err = true ∨ r.2.1.buffer = some []) := by
              rw [← hr]; exact hwr _
            obtain ⟨s1, t1, err, p⟩ := r
            simp only at hwr' ⊢
            by_cases hp : p = true
            · simp [hp]
            · have hpf : p = false := by simpa using hp
              simp only [hp, Bool.false_eq_true, if_false]
              cases err with
              | some e => rfl
              | none =>
                simp only
                split
                · rfl
                · rcases hwr' rfl hpf with hlatched | hempty
                  · -- end of stream handled: the writer is latched, the next round returns at once
                    have hm : ∃ m', m = m' + 1 := by
                      unfold muT at hmu; simp only [hwf, Bool.false_eq_true, if_false] at hmu
                      exact ⟨m - 1, by omega⟩
                    obtain ⟨m', rfl⟩ := hm
                    rw [twLoop_err w tb m' _ _ _ (by simpa using hlatched), twLoop_err w tb (m' + 1) _ _ _ (by simpa using hlatched)]
                  · apply ih
                    · intro _ _; simp [hempty]
                    · unfold muT at hmu ⊢
                      simp only [hwf, Bool.false_eq_true, if_false, if_true, hrest] at hmu ⊢
                      omega

theorem twReset_inv (st : St) (t : TW) (hw : t.writingEnvelope = false) : TwInv (twReset st t) := by
  unfold twReset
  split
  · intro _ _; exact ⟨rfl, by simp⟩
  · intro _ h; simp only at h; rw [hw] at h; cases h

/-- Whatever `flushMessage` returns as the writer satisfies the invariant. -/
theorem twFlushMessage_writer_inv (w : World) (tb : Tables) (st : St) (t : TW) (hw : t.writingEnvelope = false) :
    TwInv (twFlushMessage w tb st t).2.1 := by
  have hv : ∀ (t' : TW), t'.writingEnvelope = false → TwInv t' := by
    intro t' h _ h2; rw [h] at h2; cases h2
  unfold twFlushMessage
  simp only
  split
  · split
    · exact hv _ hw
    · exact hv _ hw
  · split
    · exact hv _ hw
    · cases hce : st.op.clientEnveloper with
      | none =>
        simp only [Option.isSome_none, Bool.false_eq_true, if_false, Bool.or_self]
        split
        · exact hv _ hw
        · exact twReset_inv _ t hw
      | some ce =>
        simp only
        split
        · exact hv _ hw
        · simp only
          split
          · exact hv _ hw
          · split
            · exact hv _ hw
            · split
              · exact hv _ hw
              · exact twReset_inv _ t hw

/-- The fuel `twWrite` gives its loop is always enough. -/
theorem twLoop_enough (w : World) (tb : Tables) (st : St) (t : TW) (data : Bytes) (hinv : TwInv t) :
    ∀ k, twLoop w tb (2 * data.length + 4 + k) st t data = twLoop w tb (2 * data.length + 4) st t data := by
  intro k
  induction k with
  | zero => rfl
  | succ k ih =>
    rw [← ih]
    have hmu : muT t data < 2 * data.length + 4 + k := by
      unfold muT; split <;> omega
    exact (twLoop_fuel w tb _ st t data hinv hmu).symm

/-- `reset` establishes the invariant (enveloped backend: expecting five bytes, nothing buffered). -/
example : TwInv { buffer := some [], expecting := 5, writingEnvelope := true } := by
  intro _ _; exact ⟨rfl, by decide⟩

/-- The invariant is kept by the loop itself (unless the handler's goroutine panicked, after which
    nothing runs any more), so it holds before every later `Write` of the same response. -/
theorem twLoop_keeps_inv (w : World) (tb : Tables) : ∀ (n : Nat) (st : St) (t : TW) (data : Bytes),
    TwInv t → (twLoop w tb n st t data).2.2.2 = false → TwInv (twLoop w tb n st t data).2.1 := by
  intro n
  induction n with
  | zero => intro st t data _ h; simp [twLoop] at h
  | succ m ih =>
    intro st t data hinv
    unfold twLoop
    by_cases herr : t.err = true
    · simp only [herr, if_true]; exact fun _ => hinv
    · have herrf : t.err = false := by simpa using herr
      simp only [herr, Bool.false_eq_true, if_false]
      by_cases hneg : (t.expecting - ((t.buffer.getD []).length : Int)) < 0
      · simp [hneg]
      · simp only [hneg, if_false]
        by_cases hlt : (data.length : Int) < t.expecting - ((t.buffer.getD []).length : Int)
        · simp only [hlt, if_true]
          intro _ _ hw
          simp only at hw ⊢
          obtain ⟨hexp, hgot⟩ := hinv herrf hw
          refine ⟨hexp, ?_⟩
          simp only [Option.getD_some, List.length_append]
          rw [hexp] at hlt
          omega
        · simp only [hlt, if_false]
          by_cases hw : t.writingEnvelope = true
          · simp only [hw, if_true]
            split
            · split
              · intro _ _ _; exact ⟨(hinv herrf hw).1, by simp⟩
              · split
                · intro _ _ _; exact ⟨(hinv herrf hw).1, by simp⟩
                · apply ih; intro _ h; simp at h
            · intro h; simp at h
          · have hwf : t.writingEnvelope = false := by simpa using hw
            simp only [hwf, Bool.false_eq_true, if_false]
            have hwr := fun tt => twFlushMessage_writer w tb st tt
            generalize hr : twFlushMessage w tb st _ = r
            have hwr' : r.2.2.1 = none → r.2.2.2 = false → (r.2.1.err = true ∨ r.2.1.buffer = some []) := by
              rw [← hr]; exact hwr _
            have ht1 : TwInv r.2.1 := by
              rw [← hr]; exact twFlushMessage_writer_inv w tb st _ rfl
            obtain ⟨s1, t1, err, p⟩ := r
            simp only at hwr' ht1 ⊢
            by_cases hp : p = true
            · simp [hp]
            · have hpf : p = false := by simpa using hp
              simp only [hp, Bool.false_eq_true, if_false]
              cases err with
              | some e =>
                simp only
                intro _
                exact ht1
              | none =>
                simp only
                split
                · intro _
                  exact ht1
                · apply ih
                  rcases hwr' rfl hpf with hl | he
                  · intro h; simp [hl] at h
                  · intro _ _; simp [he]

/-! ### no panic in the response writers, for whole `Write` calls -/

theorem writeDown_no_panic (w : World) (st : St) (b : Bytes) : (writeDown w st b).2.2 = false := by
  unfold writeDown
  split
  · split
    · exact reportError_no_panic w st _
    · rfl
  · rfl

theorem handleEndMessage_no_panic (w : World) (tb : Tables) (st : St) (c : Bool) (d : Bytes) (r : Bool) :
    (handleEndMessage w tb st c d r).2.2 = false := by
  unfold handleEndMessage
  simp only
  split
  · split
    · exact reportError_no_panic w st _
    · rfl
  · split
    · exact reportError_no_panic w st _
    · exact reportEnd_no_panic w st _

theorem twFlushMessage_no_panic (w : World) (tb : Tables) (st : St) (t : TW) : (twFlushMessage w tb st t).2.2.2 = false := by
  unfold twFlushMessage
  simp only
  split
  · have h3 := fun c d => handleEndMessage_no_panic w tb st c d false
    generalize hr3 : handleEndMessage w tb st _ _ false = r3
    have h3' : r3.2.2 = false := by rw [← hr3]; exact h3 _ _
    obtain ⟨s2, er, p2⟩ := r3
    simp only at h3' ⊢
    subst h3'
    split <;> rfl
  · split
    · rfl
    · rename_i out _
      split
      · split
        · simp only [Option.isSome_some, Bool.true_or, if_true]
        · have h1 := writeDown_no_panic w st
          generalize hr1 : writeDown w st _ = r1
          have h1' : r1.2.2 = false := by rw [← hr1]; exact h1 _
          obtain ⟨s1, f1, p1⟩ := r1
          simp only at h1' ⊢
          subst h1'
          cases f1 <;> simp only [Bool.false_eq_true, if_false, if_true, Option.isSome_none, Option.isSome_some, Bool.true_or, Bool.false_or, Bool.or_false]
          have h2 := writeDown_no_panic w s1 out
          generalize writeDown w s1 out = r2 at h2 ⊢
          obtain ⟨s2, f2, p2⟩ := r2
          simp only at h2 ⊢
          subst h2
          split <;> rfl
      · simp only [Option.isSome_none, Bool.false_or, Bool.false_eq_true, if_false]
        have h2 := writeDown_no_panic w st out
        generalize writeDown w st out = r2 at h2 ⊢
        obtain ⟨s2, f2, p2⟩ := r2
        simp only at h2 ⊢
        subst h2
        split <;> rfl

/-- Well-formedness of the re-encoding writer inside its enveloped loop: the backend's protocol has
    envelopes; while an envelope is collected five bytes are expected and fewer are there; while a
    message is collected no more than announced is there. -/
def TwWf (o : Op) (t : TW) : Prop :=
  t.err = false →
    o.serverEnveloper.isSome = true ∧
    (t.writingEnvelope = true → t.expecting = 5 ∧ (t.buffer.getD []).length < 5) ∧
    (t.writingEnvelope = false → ((t.buffer.getD []).length : Int) ≤ t.expecting)

theorem TwWf.latched (o : Op) (t : TW) (h : t.err = true) : TwWf o t := by
  intro h'; rw [h] at h'; cases h'

theorem list_len5 {α : Type} (l : List α) (h : l.length = 5) : ∃ f a b c d, l = [f, a, b, c, d] := by
  match l, h with
  | [f, a, b, c, d], _ => exact ⟨f, a, b, c, d, rfl⟩

theorem twReset_wf (st : St) (t : TW) (o : Op) (ho : st.op = o) (hs : o.serverEnveloper.isSome = true) : TwWf o (twReset st t) := by
  unfold twReset
  rw [ho, hs]
  simp only [if_true]
  intro _
  exact ⟨hs, fun _ => ⟨rfl, by simp⟩, fun h => by simp at h⟩

/-- The writer `flushMessage` hands back: the old one (possibly latched) or a reset one. -/
theorem twFlushMessage_writer_wf (w : World) (tb : Tables) (st : St) (t : TW) (hwf : TwWf st.op t)
    (hs : st.op.serverEnveloper.isSome = true) : TwWf st.op (twFlushMessage w tb st t).2.1 := by
  have hl : ∀ (b : Bool), TwWf st.op { t with err := t.err || b } := by
    intro b
    cases b
    · simpa using hwf
    · exact TwWf.latched _ _ (by simp)
  unfold twFlushMessage
  simp only
  split
  · split
    · exact hwf
    · exact TwWf.latched _ _ rfl
  · split
    · exact hwf
    · rename_i out _
      cases hce : st.op.clientEnveloper with
      | none =>
        simp only [Option.isSome_none, Bool.false_eq_true, if_false, Bool.or_self]
        have h2 := writeDown_hw w st out
        generalize writeDown w st out = r2 at h2 ⊢
        obtain ⟨s2, f2, p2⟩ := r2
        simp only at h2 ⊢
        split
        · exact TwWf.latched _ _ rfl
        · exact twReset_wf _ t _ (by rw [(flushMessage_hw s2).op, h2.op]) hs
      | some ce =>
        simp only
        split
        · simp only [Option.isSome_some, Bool.true_or, if_true]
          simpa using hl false
        · have h1 := writeDown_hw w st
          generalize hr1 : writeDown w st _ = r1
          have h1' : HW st r1.1 := by rw [← hr1]; exact h1 _
          obtain ⟨s1, f1, p1⟩ := r1
          simp only at h1' ⊢
          cases f1 <;> simp only [Bool.false_eq_true, if_false, if_true, Option.isSome_none, Option.isSome_some, Bool.true_or, Bool.false_or, Bool.or_false]
          rotate_left
          · exact TwWf.latched _ _ (by simp)
          split
          · simpa using hl false
          · have h2 := writeDown_hw w s1 out
            generalize writeDown w s1 out = r2 at h2 ⊢
            obtain ⟨s2, f2, p2⟩ := r2
            simp only at h2 ⊢
            split
            · exact TwWf.latched _ _ rfl
            · exact twReset_wf _ t _ (by rw [(flushMessage_hw s2).op, h2.op, h1'.op]) hs

/-- **The loop of `transformingWriter.Write` never panics** - no slice out of range, no missing
    envelope decoder, no exhausted fuel - and hands back a well-formed writer, for any bytes. -/
theorem twLoop_safe (w : World) (tb : Tables) : ∀ (n : Nat) (st : St) (t : TW) (data : Bytes),
    TwWf st.op t → muT t data < n →
    (twLoop w tb n st t data).2.2.2 = false ∧ TwWf st.op (twLoop w tb n st t data).2.1 := by
  intro n
  induction n with
  | zero => intro _ _ _ _ h; omega
  | succ m ih =>
    intro st t data hwf hmu
    unfold twLoop
    by_cases herr : t.err = true
    · rw [if_pos herr]; exact ⟨rfl, hwf⟩
    · have herrf : t.err = false := by simpa using herr
      obtain ⟨hsrv, henv, hbody⟩ := hwf herrf
      simp only [herr, Bool.false_eq_true, if_false]
      have hnn : ¬ (t.expecting - ((t.buffer.getD []).length : Int)) < 0 := by
        cases hw : t.writingEnvelope with
        | true => have := henv hw; omega
        | false => have := hbody hw; omega
      simp only [hnn, if_false]
      by_cases hlt : (data.length : Int) < t.expecting - ((t.buffer.getD []).length : Int)
      · rw [if_pos hlt]
        refine ⟨rfl, fun _ => ⟨hsrv, fun hw => ?_, fun hw => ?_⟩⟩
        · have := henv hw
          simp only [Option.getD_some, List.length_append]
          omega
        · have := hbody hw
          simp only [Option.getD_some, List.length_append]
          omega
      · simp only [hlt, if_false]
        have hrest : (data.drop (t.expecting - ((t.buffer.getD []).length : Int)).toNat).length
            = data.length - (t.expecting - ((t.buffer.getD []).length : Int)).toNat := List.length_drop
        have htake : (data.take (t.expecting - ((t.buffer.getD []).length : Int)).toNat).length
            = (t.expecting - ((t.buffer.getD []).length : Int)).toNat := by
          rw [List.length_take]; omega
        by_cases hw : t.writingEnvelope = true
        · obtain ⟨hexp, hgot⟩ := henv hw
          simp only [hw, if_true]
          split
          · have wf0 : ∀ (t' : TW), t'.writingEnvelope = true → t'.expecting = 5 → t'.buffer = some [] → TwWf st.op t' := by
              intro t' h1 h2 h3 _
              exact ⟨hsrv, fun _ => ⟨h2, by simp [h3]⟩, fun h => by rw [h1] at h; cases h⟩
            split
            · exact ⟨reportError_no_panic w st _, wf0 _ rfl hexp rfl⟩
            · split
              · exact ⟨reportError_no_panic w st _, wf0 _ rfl hexp rfl⟩
              · apply ih
                · intro _
                  exact ⟨hsrv, fun h => by simp at h, fun _ => by simp⟩
                · unfold muT at hmu ⊢
                  simp only [hw, if_true, Bool.false_eq_true, if_false, hrest] at hmu ⊢
                  rw [hexp]
                  omega
          · rename_i hno
            exfalso
            obtain ⟨se, hse⟩ := Option.isSome_iff_exists.mp hsrv
            have hl : ((t.buffer.getD []) ++ data.take (t.expecting - ((t.buffer.getD []).length : Int)).toNat).length = 5 := by
              rw [List.length_append, htake, hexp]; omega
            obtain ⟨f, a, b, c, d, h5⟩ := list_len5 _ hl
            exact hno se f a b c d hse (by simp only [h5])
        · have hwf' : t.writingEnvelope = false := by simpa using hw
          have hb := hbody hwf'
          simp only [hwf', Bool.false_eq_true, if_false]
          have wfFilled : ∀ (t' : TW), t'.writingEnvelope = false → t'.expecting = t.expecting →
              t'.buffer = some ((t.buffer.getD []) ++ data.take (t.expecting - ((t.buffer.getD []).length : Int)).toNat) →
              TwWf st.op t' := by
            intro t' h1 h2 h3 _
            refine ⟨hsrv, fun h => (by rw [h1] at h; cases h), fun _ => ?_⟩
            simp only [h3, h2, Option.getD_some, List.length_append, htake]
            omega
          have hwr := fun tt => twFlushMessage_writer w tb st tt
          have hnp := fun tt => twFlushMessage_no_panic w tb st tt
          have hop := fun tt => (twFlushMessage_hw w tb st tt).op
          generalize hr : twFlushMessage w tb st _ = r
          have hwr' : r.2.2.1 = none → r.2.2.2 = false → (r.2.1.err = true ∨ r.2.1.buffer = some []) := by
            rw [← hr]; exact hwr _
          have hnp' : r.2.2.2 = false := by rw [← hr]; exact hnp _
          have hop' : r.1.op = st.op := by rw [← hr]; exact hop _
          have hwt : TwWf st.op r.2.1 := by
            rw [← hr]; exact twFlushMessage_writer_wf w tb st _ (wfFilled _ rfl rfl rfl) hsrv
          clear hwr hnp hop
          have hwr := hwr'
          have hnp := hnp'
          have hop := hop'
          clear hwr' hnp' hop'
          obtain ⟨s1, t1, err, p⟩ := r
          simp only at hwr hnp hwt hop ⊢
          subst hnp
          simp only [Bool.false_eq_true, if_false]
          cases err with
          | some e =>
            simp only
            exact ⟨reportError_no_panic w s1 _, hwt⟩
          | none =>
            simp only
            split
            · exact ⟨rfl, hwt⟩
            · have := ih s1 { t1 with expecting := 5, writingEnvelope := true }
                (data.drop (t.expecting - ((t.buffer.getD []).length : Int)).toNat) ?_ ?_
              · rw [hop] at this; exact this
              · intro herr1
                rw [hop]
                refine ⟨hsrv, fun _ => ⟨rfl, ?_⟩, fun h => by simp at h⟩
                rcases hwr rfl rfl with hl | he
                · simp only at herr1; rw [hl] at herr1; cases herr1
                · simp [he]
              · unfold muT at hmu ⊢
                simp only [hwf', Bool.false_eq_true, if_false, if_true, hrest] at hmu ⊢
                omega

/-- What holds of the re-encoding writer between two `Write` calls. -/
def TwOk (o : Op) (t : TW) : Prop :=
  t.err = false → t.buffer.isSome = true →
    (o.serverEnveloper.isSome = true → TwWf o t) ∧ (o.serverEnveloper.isSome = false → t.expecting = -1)

theorem TwOk.fresh (o : Op) : TwOk o {} := by
  intro _ h; cases h

theorem TwWf.expecting_ne (o : Op) (t : TW) (h : TwWf o t) (he : t.err = false) : t.expecting ≠ -1 := by
  obtain ⟨_, henv, hbody⟩ := h he
  intro hx
  cases hw : t.writingEnvelope with
  | true => have := henv hw; omega
  | false => have := hbody hw; omega

/-- **`transformingWriter.Write` never panics**, whatever the backend writes and however it splits it,
    and leaves the writer ready for the next call. -/
theorem twWrite_safe (w : World) (tb : Tables) (st : St) (t : TW) (data : Bytes) (h : TwOk st.op t) :
    (twWrite w tb st t data).2.2.2 = false ∧ TwOk st.op (twWrite w tb st t data).2.1 := by
  unfold twWrite
  by_cases herr : t.err = true
  · rw [if_pos herr]; exact ⟨rfl, h⟩
  · have herrf : t.err = false := by simpa using herr
    rw [if_neg herr]
    simp only
    have h1 : TwOk st.op (if t.buffer.isNone = true then twReset st t else t) ∧
        (if t.buffer.isNone = true then twReset st t else t).err = false ∧
        (if t.buffer.isNone = true then twReset st t else t).buffer.isSome = true := by
      split
      · refine ⟨fun _ _ => ⟨fun hs => twReset_wf st t _ rfl hs, fun hs => ?_⟩, ?_, ?_⟩
        · unfold twReset; simp [hs]
        · unfold twReset; split <;> exact herrf
        · unfold twReset; split <;> rfl
      · rename_i hb
        refine ⟨h, herrf, ?_⟩
        cases hbb : t.buffer with
        | none => simp [hbb] at hb
        | some b => rfl
    generalize (if t.buffer.isNone = true then twReset st t else t) = t1 at h1 ⊢
    obtain ⟨hok, he1, hb1⟩ := h1
    obtain ⟨hsome, hnone⟩ := hok he1 hb1
    by_cases hexp : (t1.expecting == -1) = true
    · rw [if_pos hexp]
      have hexp' : t1.expecting = -1 := by simpa using hexp
      have hns : st.op.serverEnveloper.isSome = false := by
        cases hs : st.op.serverEnveloper.isSome with
        | false => rfl
        | true => exact absurd hexp' (TwWf.expecting_ne _ _ (hsome hs) he1)
      split
      · exact ⟨reportError_no_panic w st _, hok⟩
      · refine ⟨rfl, fun _ _ => ⟨fun hs => ?_, fun _ => hexp'⟩⟩
        rw [hns] at hs; cases hs
    · rw [if_neg hexp]
      have hs : st.op.serverEnveloper.isSome = true := by
        cases hs : st.op.serverEnveloper.isSome with
        | true => rfl
        | false => exact absurd (by simpa using hnone hs) hexp
      have hmu : muT t1 data < 2 * data.length + 4 := by unfold muT; split <;> omega
      obtain ⟨hp, hwf⟩ := twLoop_safe w tb _ st t1 data (hsome hs) hmu
      exact ⟨hp, fun _ _ => ⟨fun _ => hwf, fun hn => by rw [hs] at hn; cases hn⟩⟩

/-! #### the re-framing writer -/

theorem reportEnd_sets_err (w : World) (st : St) (e : RespEnd) (hopen : st.rw.endWritten = false) :
    (reportEnd w st e).1.rw.err = true := by
  unfold reportEnd
  simp only [hopen, Bool.false_eq_true, if_false]

theorem reportError_sets_err (w : World) (st : St) (err : Err) (hopen : st.rw.endWritten = false) :
    (reportError w st err).1.rw.err = true := by
  unfold reportError
  split
  · rename_i code
    have := httpStatusFromRPC_isSome code
    split
    · rename_i hn; rw [hn] at this; cases this
    · exact reportEnd_sets_err w st _ hopen
  · exact reportEnd_sets_err w st _ hopen

theorem writeDown_failed_latched (w : World) (st : St) (b : Bytes) (hopen : st.rw.endWritten = false) :
    (writeDown w st b).2.1 = true → (writeDown w st b).1.rw.err = true := by
  unfold writeDown
  split
  · split
    · exact fun _ => reportError_sets_err w st _ hopen
    · intro h; cases h
  · intro h; cases h

theorem handleEndMessage_ends (w : World) (tb : Tables) (st : St) (c : Bool) (d : Bytes) :
    (handleEndMessage w tb st c d true).1.rw.endWritten = true := by
  unfold handleEndMessage
  simp only
  split
  · simp only [if_true]
    exact reportError_ends w st _
  · split
    · exact reportError_ends w st _
    · exact reportEnd_ends w st _

/-- Well-formedness of the re-framing writer inside its loop: while an envelope is collected, what is
    there and what is missing make five bytes, and something is missing; while a message is passed on,
    there is somewhere to pass it and no stale envelope bytes. -/
def EwWf (e : EW) : Prop :=
  e.err = false →
    (e.writingEnvelope = true → (e.env.length : Int) + e.remaining = 5 ∧ 1 ≤ e.remaining) ∧
    (e.writingEnvelope = false → e.current ≠ .none ∧ e.env = [])

theorem EwWf.latched (e : EW) (h : e.err = true) : EwWf e := by
  intro h'; rw [h] at h'; cases h'

theorem EwWf.envInv (e : EW) (h : EwWf e) : EnvInv e := fun he hw => ((h he).1 hw).2

/-- One piece: no panic (there is a sink), and what it does to the writer. -/
theorem ewWritePiece_safe (w : World) (st : St) (e : EW) (piece : Bytes) (hwf : EwWf e) (he : e.err = false) :
    (ewWritePiece w st e piece).2.2.2 = false ∧
    (ewWritePiece w st e piece).2.1.err = false ∧
    (e.writingEnvelope = true → (ewWritePiece w st e piece).2.1.env = e.env ++ piece) ∧
    (e.writingEnvelope = false → (ewWritePiece w st e piece).2.1.env = [] ∧ (ewWritePiece w st e piece).2.1.current ≠ .none) := by
  obtain ⟨_, hbody⟩ := hwf he
  unfold ewWritePiece
  by_cases hw : e.writingEnvelope = true
  · rw [if_pos hw]
    exact ⟨rfl, he, fun _ => rfl, fun h => by rw [hw] at h; cases h⟩
  · have hwf' : e.writingEnvelope = false := by simpa using hw
    obtain ⟨hcur, henv⟩ := hbody hwf'
    rw [if_neg hw]
    cases hc : e.current with
    | none => exact absurd hc hcur
    | down =>
      simp only
      have h1 := writeDown_no_panic w st piece
      generalize writeDown w st piece = r at h1 ⊢
      obtain ⟨s1, f, p⟩ := r
      simp only at h1 ⊢
      exact ⟨h1, he, fun h => absurd h hw, fun _ => ⟨henv, by rw [hc]; simp⟩⟩
    | trailerBuf b =>
      exact ⟨rfl, he, fun h => absurd h hw, fun _ => ⟨henv, by simp⟩⟩
    | limitBuf b =>
      simp only
      split
      · exact ⟨reportError_no_panic w st _, he, fun h => absurd h hw, fun _ => ⟨henv, by rw [hc]; simp⟩⟩
      · exact ⟨rfl, he, fun h => absurd h hw, fun _ => ⟨henv, by simp⟩⟩

/-- A complete envelope: no panic; on success the writer passes the message on to a sink; on failure
    the response or the writer is latched. -/
theorem ewEnvelopeWritten_safe (w : World) (st : St) (e : EW) (hlen : e.env.length = 5) (hopen : st.rw.endWritten = false) :
    (ewEnvelopeWritten w st e).2.2.2 = false ∧
    ((ewEnvelopeWritten w st e).2.2.1 = false →
      (ewEnvelopeWritten w st e).2.1.writingEnvelope = false ∧ (ewEnvelopeWritten w st e).2.1.env = [] ∧
      (ewEnvelopeWritten w st e).2.1.current ≠ .none) ∧
    ((ewEnvelopeWritten w st e).2.2.1 = true →
      (ewEnvelopeWritten w st e).1.rw.endWritten = true ∨ (ewEnvelopeWritten w st e).2.1.err = true) := by
  unfold ewEnvelopeWritten
  simp only
  split
  · exact ⟨reportError_no_panic w st _, fun h => (by cases h), fun _ => Or.inr rfl⟩
  · split
    · split
      · exact ⟨reportError_no_panic w st _, fun h => (by cases h), fun _ => Or.inl (reportError_ends w st _)⟩
      · split
        · split
          · exact ⟨reportError_no_panic w st _, fun h => (by cases h), fun _ => Or.inl (reportError_ends w st _)⟩
          · exact ⟨rfl, fun _ => ⟨rfl, rfl, by simp⟩, fun h => by cases h⟩
        · split
          · have h1 := writeDown_no_panic w st
            generalize hr : writeDown w st _ = r
            have h1' : r.2.2 = false := by rw [← hr]; exact h1 _
            obtain ⟨s1, f, p⟩ := r
            simp only at h1' ⊢
            subst h1'
            cases f
            · rw [if_neg Bool.false_ne_true]
              exact ⟨rfl, fun _ => ⟨rfl, rfl, by simp⟩, fun h => by cases h⟩
            · rw [if_pos rfl]
              exact ⟨rfl, fun h => (by cases h), fun _ => Or.inr rfl⟩
          · rw [if_neg Bool.false_ne_true]
            exact ⟨rfl, fun _ => ⟨rfl, rfl, by simp⟩, fun h => by cases h⟩
    · rename_i hno
      exfalso
      obtain ⟨f, a, b, c, d, h5⟩ := list_len5 _ hlen
      exact hno f a b c d h5

/-- **The loop of `envelopingWriter.Write` never panics** - there is always a sink for the bytes, a
    complete envelope always has five bytes, the fuel is never exhausted - and afterwards the
    response is latched in an error or the writer is well-formed for the next call. -/
theorem ewLoop_safe (w : World) (tb : Tables) : ∀ (n : Nat) (st : St) (e : EW) (data : Bytes),
    EwWf e → (st.rw.endWritten = false ∨ e.err = true) → mu e data < n →
    (ewLoop w tb n st e data).2.2.2 = false ∧
    ((ewLoop w tb n st e data).1.rw.endWritten = true ∨ EwWf (ewLoop w tb n st e data).2.1) := by
  intro n
  induction n with
  | zero => intro _ _ _ _ _ h; omega
  | succ m ih =>
    intro st e data hwf hpre hmu
    unfold ewLoop
    by_cases herr : e.err = true
    · rw [if_pos herr]; exact ⟨rfl, Or.inr hwf⟩
    · have herrf : e.err = false := by simpa using herr
      have hopen : st.rw.endWritten = false := by
        cases hpre with
        | inl h => exact h
        | inr h => exact absurd h herr
      obtain ⟨henv, hbody⟩ := hwf herrf
      rw [if_neg herr]
      by_cases hlt : (data.length : Int) < e.remaining
      · rw [if_pos hlt]
        obtain ⟨hp, he1, hE, hB⟩ := ewWritePiece_safe w st e data hwf herrf
        obtain ⟨hfw, hfr⟩ := ewWritePiece_flags w st e data
        generalize ewWritePiece w st e data = r1 at hp he1 hE hB hfw hfr ⊢
        obtain ⟨s1, e1, f1, p1⟩ := r1
        simp only at hp he1 hE hB hfw hfr ⊢
        refine ⟨hp, Or.inr ?_⟩
        intro herr'
        simp only at herr'
        refine ⟨fun hw => ?_, fun hw => ?_⟩
        · simp only at hw
          rw [hfw] at hw
          have := henv hw
          simp only [hE hw, hfr, List.length_append]
          omega
        · simp only at hw
          rw [hfw] at hw
          exact ⟨(hB hw).2, (hB hw).1⟩
      · rw [if_neg hlt]
        simp only
        have hrest : (data.drop e.remaining.toNat).length = data.length - e.remaining.toNat := List.length_drop
        have htake : (data.take e.remaining.toNat).length = e.remaining.toNat := by
          rw [List.length_take]; omega
        obtain ⟨hp, he1, hE, hB⟩ := ewWritePiece_safe w st e (data.take e.remaining.toNat) hwf herrf
        obtain ⟨hfw, hfr⟩ := ewWritePiece_flags w st e (data.take e.remaining.toNat)
        have hop1 := ewWritePiece_open w st e (data.take e.remaining.toNat) hopen
        generalize ewWritePiece w st e (data.take e.remaining.toNat) = r1 at hp he1 hE hB hfw hfr hop1 ⊢
        obtain ⟨s1, e1, f1, p1⟩ := r1
        simp only at hp he1 hE hB hfw hfr hop1 ⊢
        subst hp
        cases f1 with
        | true => rw [if_pos (show (true || false) = true from rfl)]; exact ⟨rfl, Or.inr (EwWf.latched _ rfl)⟩
        | false =>
          rw [if_neg (show ¬ (false || false) = true by decide)]
          have hs1 := hop1 rfl
          by_cases hw : e.writingEnvelope = true
          · obtain ⟨hsum, hone⟩ := henv hw
            have hw1 : e1.writingEnvelope = true := by rw [hfw]; exact hw
            rw [if_pos hw1]
            have hlen : ({ e1 with remaining := e1.remaining - ↑e.remaining.toNat } : EW).env.length = 5 := by
              simp only [hE hw, List.length_append, htake]; omega
            obtain ⟨hp2, hok2, hbad2⟩ := ewEnvelopeWritten_safe w s1 { e1 with remaining := e1.remaining - ↑e.remaining.toNat } hlen hs1
            have hop2 := ewEnvelopeWritten_open w s1 { e1 with remaining := e1.remaining - ↑e.remaining.toNat } hs1
            generalize ewEnvelopeWritten w s1 { e1 with remaining := e1.remaining - ↑e.remaining.toNat } = r2 at hp2 hok2 hbad2 hop2 ⊢
            obtain ⟨s2, e2, f2, p2⟩ := r2
            simp only at hp2 hok2 hbad2 hop2 ⊢
            subst hp2
            cases f2 with
            | true =>
              rw [if_pos (show (true || false) = true from rfl)]
              refine ⟨rfl, ?_⟩
              rcases hbad2 rfl with h | h
              · exact Or.inl h
              · exact Or.inr (EwWf.latched _ h)
            | false =>
              rw [if_neg (show ¬ (false || false) = true by decide)]
              obtain ⟨h2w, h2e, h2c⟩ := hok2 rfl
              apply ih
              · intro _
                exact ⟨fun h => (by rw [h2w] at h; cases h), fun _ => ⟨h2c, h2e⟩⟩
              · exact Or.inl (hop2 rfl)
              · unfold mu at hmu ⊢
                simp only [hw, h2w, if_true, Bool.false_eq_true, if_false, hrest] at hmu ⊢
                omega
          · have hwf' : e.writingEnvelope = false := by simpa using hw
            have hw1 : e1.writingEnvelope = false := by rw [hfw]; exact hwf'
            obtain ⟨h1env, h1cur⟩ := hB hwf'
            rw [if_neg (by simp [hw1])]
            by_cases ht : e1.currentIsTrailer = true
            · rw [if_pos ht]
              split
              · have hnp := fun c d => handleEndMessage_no_panic w tb s1 c d true
                have hl := fun c d => handleEndMessage_ends w tb s1 c d
                generalize hr3 : handleEndMessage w tb s1 _ _ true = r3
                have hnp' : r3.2.2 = false := by rw [← hr3]; exact hnp _ _
                have hl' : r3.1.rw.endWritten = true := by rw [← hr3]; exact hl _ _
                obtain ⟨s2, er, p2⟩ := r3
                simp only at hnp' hl' ⊢
                subst hnp'
                split
                · exact ⟨rfl, Or.inl hl'⟩
                · split
                  · exact ⟨rfl, Or.inr (EwWf.latched _ rfl)⟩
                  · have hm : ∃ m', m = m' + 1 := by
                      unfold mu at hmu; simp only [hwf', Bool.false_eq_true, if_false] at hmu
                      exact ⟨m - 1, by omega⟩
                    obtain ⟨m', rfl⟩ := hm
                    rw [ewLoop_err w tb m' _ _ _ rfl]
                    exact ⟨rfl, Or.inr (EwWf.latched _ rfl)⟩
              · refine ⟨rfl, Or.inr ?_⟩
                intro _
                exact ⟨fun h => (by simp only at h; rw [hw1] at h; cases h), fun _ => ⟨h1cur, h1env⟩⟩
            · rw [if_neg ht]
              apply ih
              · intro _
                refine ⟨fun _ => ?_, fun h => by simp at h⟩
                simp only [h1env, List.length_nil]
                omega
              · left; rw [flushMessage_open]; exact hs1
              · unfold mu at hmu ⊢
                simp only [hwf', if_true, Bool.false_eq_true, if_false, hrest] at hmu ⊢
                omega

/-- What holds of the re-framing writer between two `Write` calls. -/
def EwOk (e : EW) : Prop :=
  (e.initialized = true → EwWf e) ∧ (e.initialized = false → e.env = [] ∧ e.writingEnvelope = false)

theorem EwOk.fresh : EwOk {} := ⟨fun h => (by cases h), fun _ => ⟨rfl, rfl⟩⟩

theorem EwOk.of_wf (e : EW) (hi : e.initialized = true) (h : EwWf e) : EwOk e :=
  ⟨fun _ => h, fun h' => by rw [hi] at h'; cases h'⟩

theorem ewInit_safe (w : World) (st : St) (e : EW) (hok : EwOk e) :
    (ewInit w st e).2.2 = false ∧ EwWf (ewInit w st e).2.1 := by
  unfold ewInit
  by_cases hi : e.initialized = true
  · rw [if_pos hi]; exact ⟨rfl, hok.1 hi⟩
  · rw [if_neg hi]
    obtain ⟨henv, hwe⟩ := hok.2 (by simpa using hi)
    simp only
    split
    · refine ⟨rfl, fun _ => ⟨fun _ => ?_, fun h => by simp at h⟩⟩
      simp [henv]
    · split
      · exact ⟨rfl, fun _ => ⟨fun h => (by simp only at h; rw [hwe] at h; cases h), fun _ => ⟨by simp, henv⟩⟩⟩
      · split
        · exact ⟨rfl, fun _ => ⟨fun h => (by simp only at h; rw [hwe] at h; cases h), fun _ => ⟨by simp, henv⟩⟩⟩
        · split
          · exact ⟨reportError_no_panic w st _, EwWf.latched _ rfl⟩
          · have h1 := writeDown_no_panic w st
            generalize hr : writeDown w st _ = r
            have h1' : r.2.2 = false := by rw [← hr]; exact h1 _
            obtain ⟨s1, f, p⟩ := r
            simp only at h1' ⊢
            subst h1'
            split
            · exact ⟨rfl, EwWf.latched _ rfl⟩
            · exact ⟨rfl, fun _ => ⟨fun h => (by simp only at h; rw [hwe] at h; cases h), fun _ => ⟨by simp, henv⟩⟩⟩

/-- **`envelopingWriter.Write` never panics** while the RPC is open, whatever the backend writes and
    however it splits it; afterwards the response is latched in an error or the writer is ready for the
    next call. -/
theorem ewWrite_safe (w : World) (tb : Tables) (st : St) (e : EW) (data : Bytes) (hok : EwOk e)
    (hopen : st.rw.endWritten = false) :
    (ewWrite w tb st e data).2.2.2 = false ∧
    ((ewWrite w tb st e data).1.rw.endWritten = true ∨ EwOk (ewWrite w tb st e data).2.1) := by
  have hinit := ewWrite_initialized w tb st e data
  suffices h : (ewWrite w tb st e data).2.2.2 = false ∧
      ((ewWrite w tb st e data).1.rw.endWritten = true ∨ EwWf (ewWrite w tb st e data).2.1) by
    refine ⟨h.1, ?_⟩
    rcases h.2 with h2 | h2
    · exact Or.inl h2
    · exact Or.inr (EwOk.of_wf _ hinit h2)
  unfold ewWrite
  obtain ⟨hp0, hwf0⟩ := ewInit_safe w st e hok
  have hop0 := ewInit_open w st e hopen
  generalize ewInit w st e = r0 at hp0 hwf0 hop0 ⊢
  obtain ⟨s0, e0, p0⟩ := r0
  simp only at hp0 hwf0 hop0 ⊢
  subst hp0
  rw [if_neg Bool.false_ne_true]
  by_cases herr : e0.err = true
  · rw [if_pos herr]; exact ⟨rfl, Or.inr hwf0⟩
  · have herrf : e0.err = false := by simpa using herr
    rw [if_neg herr]
    have hs0 := hop0 herrf
    by_cases hrem : (e0.remaining == -1) = true
    · rw [if_pos hrem]
      have hrem' : e0.remaining = -1 := by simpa using hrem
      have hw0 : e0.writingEnvelope = false := by
        cases hw : e0.writingEnvelope with
        | false => rfl
        | true => have := ((hwf0 herrf).1 hw).2; omega
      obtain ⟨hp, he1, _, hB⟩ := ewWritePiece_safe w s0 e0 data hwf0 herrf
      obtain ⟨hfw, _⟩ := ewWritePiece_flags w s0 e0 data
      generalize ewWritePiece w s0 e0 data = r1 at hp he1 hB hfw ⊢
      obtain ⟨s1, e1, f1, p1⟩ := r1
      simp only at hp he1 hB hfw ⊢
      refine ⟨hp, Or.inr ?_⟩
      intro _
      exact ⟨fun h => (by simp only at h; rw [hfw, hw0] at h; cases h), fun _ => ⟨(hB hw0).2, (hB hw0).1⟩⟩
    · rw [if_neg hrem]
      have hmu : mu e0 data < 2 * data.length + 4 := by unfold mu; split <;> omega
      exact ewLoop_safe w tb _ s0 e0 data hwf0 (Or.inl hs0) hmu

/-! #### closing the body writers -/

def isLB (c : Cur) : Bool := match c with | .limitBuf _ => true | _ => false

theorem ewWritePiece_lb (w : World) (st : St) (e : EW) (piece : Bytes) :
    isLB (ewWritePiece w st e piece).2.1.current = true → isLB e.current = true := by
  unfold ewWritePiece
  split
  · exact id
  · split
    · generalize writeDown w st piece = r
      obtain ⟨s1, f, p⟩ := r
      exact id
    · intro h; simp [isLB] at h
    · rename_i b hc
      split
      · exact id
      · intro _; rw [hc]; rfl
    · exact id

theorem ewEnvelopeWritten_lb (w : World) (st : St) (e : EW) :
    isLB (ewEnvelopeWritten w st e).2.1.current = true → isLB e.current = true := by
  unfold ewEnvelopeWritten
  simp only
  split
  · exact id
  · split
    · split
      · exact id
      · split
        · split
          · exact id
          · intro h; simp [isLB] at h
        · split
          · generalize writeDown w st _ = r
            obtain ⟨s1, f, p⟩ := r
            simp only
            split
            · exact id
            · intro h; simp [isLB] at h
          · rw [if_neg Bool.false_ne_true]
            intro h; simp [isLB] at h
    · exact id

theorem ewLoop_lb (w : World) (tb : Tables) : ∀ (n : Nat) (st : St) (e : EW) (data : Bytes),
    isLB (ewLoop w tb n st e data).2.1.current = true → isLB e.current = true := by
  intro n
  induction n with
  | zero => intro st e data; simp only [ewLoop]; exact id
  | succ m ih =>
    intro st e data
    unfold ewLoop
    split
    · exact id
    · split
      · have h1 := ewWritePiece_lb w st e data
        generalize ewWritePiece w st e data = r1 at h1 ⊢
        obtain ⟨s1, e1, f1, p1⟩ := r1
        exact h1
      · simp only
        have h1 := ewWritePiece_lb w st e (data.take e.remaining.toNat)
        generalize ewWritePiece w st e (data.take e.remaining.toNat) = r1 at h1 ⊢
        obtain ⟨s1, e1, f1, p1⟩ := r1
        simp only at h1 ⊢
        split
        · exact h1
        · split
          · have h2 := fun ee => ewEnvelopeWritten_lb w s1 ee
            generalize hr2 : ewEnvelopeWritten w s1 _ = r2
            have h2' : isLB r2.2.1.current = true → isLB e1.current = true := by rw [← hr2]; exact h2 _
            obtain ⟨s2, e2, f2, p2⟩ := r2
            simp only at h2' ⊢
            split
            · exact fun h => h1 (h2' h)
            · exact fun h => h1 (h2' (ih _ _ _ h))
          · split
            · split
              · generalize handleEndMessage w tb s1 _ _ true = r3
                obtain ⟨s2, er, p2⟩ := r3
                simp only
                split
                · exact h1
                · split
                  · exact h1
                  · exact fun h => h1 (by have := ih _ _ _ h; exact this)
              · exact h1
            · exact fun h => h1 (by have := ih _ _ _ h; exact this)

theorem ewInit_lb (w : World) (st : St) (e : EW) :
    isLB (ewInit w st e).2.1.current = true → isLB e.current = true ∨ st.op.clientEnveloper.isSome = true := by
  unfold ewInit
  split
  · exact Or.inl
  · simp only
    split
    · exact Or.inl
    · split
      · intro h; simp [isLB] at h
      · rename_i ce hce
        split
        · intro _; right; rw [hce]; rfl
        · split
          · exact Or.inl
          · generalize writeDown w st _ = r
            obtain ⟨s1, f, p⟩ := r
            simp only
            split
            · exact Or.inl
            · intro h; simp [isLB] at h

theorem ewWrite_lb (w : World) (tb : Tables) (st : St) (e : EW) (data : Bytes) :
    isLB (ewWrite w tb st e data).2.1.current = true → isLB e.current = true ∨ st.op.clientEnveloper.isSome = true := by
  unfold ewWrite
  have h0 := ewInit_lb w st e
  generalize ewInit w st e = r0 at h0 ⊢
  obtain ⟨s0, e0, p0⟩ := r0
  simp only at h0 ⊢
  split
  · exact h0
  · split
    · exact h0
    · split
      · have h1 := ewWritePiece_lb w s0 e0 data
        generalize ewWritePiece w s0 e0 data = r1 at h1 ⊢
        obtain ⟨s1, e1, f1, p1⟩ := r1
        exact fun h => h0 (h1 h)
      · exact fun h => h0 (ewLoop_lb w tb _ s0 e0 data h)

theorem ewClose_no_panic (w : World) (st : St) (e : EW)
    (h : st.rw.endWritten = true ∨ (isLB e.current = true → st.op.clientEnveloper.isSome = true)) :
    (ewClose w st e).2 = false := by
  have hflush : (ewCloseFlush w st e).2.2 = false := by
    unfold ewCloseFlush
    split
    · rename_i b hc
      split
      · rename_i hcond
        split
        · rfl
        · split
          · simp only
            have h1 := fun x => writeDown_no_panic w st x
            generalize hr : writeDown w st _ = r
            have h1' : r.2.2 = false := by rw [← hr]; exact h1 _
            obtain ⟨s1, f, p⟩ := r
            simp only at h1' ⊢
            subst h1'
            split
            · rfl
            · exact writeDown_no_panic w s1 b
          · rename_i hnone
            exfalso
            rcases h with he | hl
            · simp [he] at hcond
            · have := hl (by rw [hc]; rfl)
              rw [hnone] at this; cases this
      · rfl
    · rfl
  unfold ewClose
  generalize ewCloseFlush w st e = r at hflush ⊢
  obtain ⟨s1, e1, p⟩ := r
  simp only at hflush ⊢
  subst hflush
  rw [if_neg Bool.false_ne_true]
  split
  · rfl
  · split
    · exact reportError_no_panic w s1 _
    · rfl

theorem twClose_no_panic (w : World) (tb : Tables) (st : St) (t : TW) : (twClose w tb st t).2 = false := by
  unfold twClose
  split
  · rfl
  · split
    · have h := twFlushMessage_no_panic w tb st t
      generalize twFlushMessage w tb st t = r at h ⊢
      obtain ⟨s1, t1, er, p⟩ := r
      simp only at h ⊢
      subst h
      rw [if_neg Bool.false_ne_true]
      split
      · exact reportError_no_panic w s1 _
      · rfl
    · split
      · exact reportError_no_panic w st _
      · rfl

/-! #### `responseWriter.WriteHeader` / `Write` over whole handler scripts -/

/-- The body writer installed in the response writer is ready for a `Write`. -/
def WriterOk (st : St) : Prop :=
  match st.rw.w with
  | .unset => False
  | .enveloping e => EwOk e ∧ (isLB e.current = true → st.op.clientEnveloper.isSome = true)
  | .transforming t => TwOk st.op t
  | _ => True

/-- The invariant of a run that makes `Write` safe: the response is consistent (`Good`, C03), and once
    `WriteHeader` ran either the RPC has ended or a well-formed body writer is installed. -/
structure Ready (st : St) : Prop where
  good : Good st
  ready : st.rw.headersWritten = true → st.rw.endWritten = true ∨ WriterOk st

theorem Ready.of_ended_or {st : St} (hg : Good st) (h : st.rw.headersWritten = true → st.rw.endWritten = true ∨ WriterOk st) :
    Ready st := ⟨hg, h⟩

theorem reportError_ready (w : World) (st : St) (err : Err) (h : Ready st) : Ready (reportError w st err).1 :=
  Ready.of_ended_or (reportError_ev w st err h.good).1 (fun _ => Or.inl (reportError_ends w st err))

theorem reach_ready {w : World} {a b : St} (r : RdReach w a b) (h : Ready a) : Ready b := by
  induction r with
  | refl => exact h
  | @src b' _ s ih => exact ⟨(srcUpdate_ev b' s ih.good).1, ih.ready⟩
  | err _ e ih => exact reportError_ready w _ e ih

theorem setHdr_ready (st : St) (hd : Hdr) (h : Ready st) : Ready (st.setHdr hd) := by
  refine ⟨(setHdr_ev st hd h.good).1, ?_⟩
  have hrw : (st.setHdr hd).rw = st.rw := by unfold St.setHdr; split <;> rfl
  have hop : (st.setHdr hd).op = st.op := by unfold St.setHdr; split <;> rfl
  intro hh
  rw [hrw] at hh
  rcases h.ready hh with he | hw
  · left; rw [hrw]; exact he
  · right; unfold WriterOk at hw ⊢; rw [hrw, hop]; exact hw

theorem rwChooseWriter_no_panic (w : World) (st : St) (rm : RespMeta) (eb : EndBody) : (rwChooseWriter w st rm eb).2 = false := by
  unfold rwChooseWriter
  generalize (if rm.compression == identityName then [] else rm.compression) = comp
  simp only
  split
  · exact reportError_no_panic w st _
  · split
    · split
      · rfl
      · exact flushHeaders_no_panic w _
    · split
      · exact reportError_no_panic w _ _
      · unfold rwStartBody
        simp only
        split
        · rfl
        · exact flushHeaders_no_panic w _

theorem rwWriteHeader_no_panic (w : World) (tb : Tables) (st : St) (c : Nat) : (rwWriteHeader w tb st c).2 = false := by
  unfold rwWriteHeader
  split
  · rfl
  · simp only
    split
    · rfl
    · split
      · exact reportError_no_panic w _ _
      · generalize rwPrepareMeta tb _ c _ _ = r
        obtain ⟨s5, rm, eb⟩ := r
        exact rwChooseWriter_no_panic w s5 rm eb

theorem rwChooseWriter_writer (w : World) (st : St) (rm : RespMeta) (eb : EndBody) :
    (rwChooseWriter w st rm eb).1.rw.endWritten = true ∨ WriterOk (rwChooseWriter w st rm eb).1 := by
  unfold rwChooseWriter
  generalize (if rm.compression == identityName then [] else rm.compression) = comp
  simp only
  split
  · exact Or.inl (reportError_ends w st _)
  · split
    · split
      · right; unfold WriterOk rwSetWriter; trivial
      · right; unfold WriterOk rwSetWriter; trivial
    · split
      · exact Or.inl (reportError_ends w _ _)
      · right
        unfold rwStartBody
        simp only
        unfold WriterOk rwSetWriter
        simp only
        split
        · rename_i hh; split at hh <;> cases hh
        · rename_i e hh
          split at hh
          · cases hh; exact ⟨EwOk.fresh, fun h => by simp [isLB] at h⟩
          · cases hh
        · rename_i t hh
          split at hh
          · cases hh
          · cases hh; exact TwOk.fresh _
        · trivial

/-- `WriteHeader` never panics and keeps the invariant. -/
theorem rwWriteHeader_ready (w : World) (tb : Tables) (st : St) (c : Nat) (h : Ready st) :
    Ready (rwWriteHeader w tb st c).1 := by
  by_cases hwr : st.rw.headersWritten = true
  · have : rwWriteHeader w tb st c = (st, false) := by unfold rwWriteHeader; rw [if_pos hwr]
    rw [this]; exact h
  refine Ready.of_ended_or (rwWriteHeader_ev w tb st c h.good).1 ?_
  unfold rwWriteHeader
  split
  · rename_i hh; exact absurd hh hwr
  · simp only
    split
    · rename_i he; exact fun _ => Or.inl he
    · split
      · exact fun _ => Or.inl (reportError_ends w _ _)
      · generalize rwPrepareMeta tb _ c _ _ = r
        obtain ⟨s5, rm, eb⟩ := r
        exact fun _ => rwChooseWriter_writer w s5 rm eb

theorem setHdr_rw (st : St) (h : Hdr) : (st.setHdr h).rw = st.rw := by
  unfold St.setHdr; split <;> rfl

theorem rwPrepareMeta_hw (tb : Tables) (st : St) (status : Nat) (cl : Int) (clText : Bytes) :
    (rwPrepareMeta tb st status cl clText).1.rw.headersWritten = st.rw.headersWritten := by
  unfold rwPrepareMeta
  simp only [setHdr_rw]
  split <;> split <;> simp [setHdr_rw]

theorem rwChooseWriter_hw (w : World) (st : St) (rm : RespMeta) (eb : EndBody) :
    (rwChooseWriter w st rm eb).1.rw.headersWritten = st.rw.headersWritten := by
  unfold rwChooseWriter
  generalize (if rm.compression == identityName then [] else rm.compression) = comp
  simp only
  have hs : (rwSetRespComp st comp).rw.headersWritten = st.rw.headersWritten := by
    unfold rwSetRespComp; split <;> rfl
  split
  · exact (reportError_hw w st _).hw
  · split
    · split
      · exact hs
      · exact ((flushHeaders_hw w _).hw).trans hs
    · split
      · exact ((reportError_hw w _ _).hw).trans hs
      · unfold rwStartBody rwSetWriter
        simp only
        split
        · exact hs
        · exact ((flushHeaders_hw w _).hw).trans hs

theorem rwWriteHeader_written (w : World) (tb : Tables) (st : St) (c : Nat) :
    (rwWriteHeader w tb st c).1.rw.headersWritten = true := by
  unfold rwWriteHeader
  split
  · assumption
  · simp only
    split
    · rfl
    · split
      · exact (reportError_hw w _ _).hw
      · rename_i cl _
        have h1 := fun t => rwPrepareMeta_hw tb ({ st with rw := { st.rw with headersWritten := true, statusCode := c } } : St) c cl t
        generalize hr : rwPrepareMeta tb _ c cl _ = r
        have h1' : r.1.rw.headersWritten = true := by rw [← hr]; exact h1 _
        obtain ⟨s5, rm, eb⟩ := r
        simp only at h1' ⊢
        exact (rwChooseWriter_hw w s5 rm eb).trans h1'

/-- **`responseWriter.Write` never panics** in a state reachable by a handler, and keeps the invariant:
    any bytes, split anywhere, errors of the backend's framing included. -/
theorem rwWrite_safe (w : World) (tb : Tables) (st : St) (data : Bytes) (h : Ready st) :
    (rwWrite w tb st data).2.2 = false ∧ Ready (rwWrite w tb st data).1 := by
  have hgood : Good (rwWrite w tb st data).1 := (rwWrite_ev w tb st data h.good).1
  suffices hs : (rwWrite w tb st data).2.2 = false ∧
      ((rwWrite w tb st data).1.rw.headersWritten = true →
        (rwWrite w tb st data).1.rw.endWritten = true ∨ WriterOk (rwWrite w tb st data).1) from ⟨hs.1, hgood, hs.2⟩
  clear hgood
  unfold rwWrite
  have h0 : Ready (if st.rw.headersWritten = true then (st, false) else rwWriteHeader w tb st 200).1 ∧
      (if st.rw.headersWritten = true then (st, false) else rwWriteHeader w tb st 200).2 = false ∧
      (if st.rw.headersWritten = true then (st, false) else rwWriteHeader w tb st 200).1.rw.headersWritten = true := by
    split
    · exact ⟨h, rfl, by assumption⟩
    · exact ⟨rwWriteHeader_ready w tb st 200 h, rwWriteHeader_no_panic w tb st 200, rwWriteHeader_written w tb st 200⟩
  generalize (if st.rw.headersWritten = true then (st, false) else rwWriteHeader w tb st 200) = r0 at h0 ⊢
  obtain ⟨hR, hp0, hW⟩ := h0
  simp only
  rw [hp0, if_neg Bool.false_ne_true]
  by_cases herr : r0.1.rw.err = true
  · rw [if_pos herr]; exact ⟨rfl, fun hh => hR.ready hh⟩
  · rw [if_neg herr]
    have herrf : r0.1.rw.err = false := by simpa using herr
    have hopen := hR.good.live_open herrf
    have hwo : WriterOk r0.1 := by
      rcases hR.ready hW with he | hw
      · rw [hopen] at he; cases he
      · exact hw
    unfold WriterOk at hwo
    split
    · rename_i e hw
      rw [hw] at hwo
      obtain ⟨hp, hres⟩ := ewWrite_safe w tb r0.1 e data hwo.1 hopen
      refine ⟨hp, fun _ => ?_⟩
      rcases hres with he | hok
      · exact Or.inl he
      · right; unfold WriterOk
        refine ⟨hok, fun hl => ?_⟩
        show (ewWrite w tb r0.1 e data).1.op.clientEnveloper.isSome = true
        rw [(ewWrite_hw w tb r0.1 e data).op]
        rcases ewWrite_lb w tb r0.1 e data hl with h1 | h1
        · exact hwo.2 h1
        · exact h1
    · rename_i t hw
      rw [hw] at hwo
      obtain ⟨hp, hok⟩ := twWrite_safe w tb r0.1 t data hwo
      refine ⟨hp, fun _ => Or.inr ?_⟩
      unfold WriterOk
      show TwOk (twWrite w tb r0.1 t data).1.op _
      rw [(twWrite_hw w tb r0.1 t data).op]; exact hok
    · rename_i body kind hw
      split
      · exact ⟨rfl, fun _ => Or.inr (by unfold WriterOk; rw [hw]; trivial)⟩
      · split
        · exact ⟨reportError_no_panic w r0.1 _, fun _ => Or.inl (reportError_ends w r0.1 _)⟩
        · exact ⟨rfl, fun _ => Or.inr (by unfold WriterOk; trivial)⟩
    · rename_i hw
      exact ⟨rfl, fun _ => Or.inr (by unfold WriterOk; rw [hw]; trivial)⟩
    · rename_i hw
      rw [hw] at hwo; exact absurd hwo id

theorem foldl_ready {β : Type} (g : Flight × β → BOp → Flight × β) (hg : ∀ acc op, Ready acc.1.st → Ready (g acc op).1.st) :
    ∀ (l : List BOp) (acc : Flight × β), Ready acc.1.st → Ready (l.foldl g acc).1.st := by
  intro l
  induction l with
  | nil => intro acc h; exact h
  | cons x xs ih => intro acc h; simp only [List.foldl_cons]; exact ih _ (hg acc x h)

/-- **Every handler script keeps the invariant** (any reads of any size, header changes,
    `WriteHeader`, `Write` with any bytes, `Flush`, `Close`, stopped anywhere) ... -/
theorem runScript_ready (w : World) (tb : Tables) (pl : HandlePlan) (script : List BOp) (total0 : Nat) (f : Flight)
    (h : Ready f.st) : Ready (runScript w tb pl script total0 f).1.st := by
  unfold runScript
  refine foldl_ready (β := BackendObs) _ ?_ script (f, ({} : BackendObs)) h
  intro acc op hacc
  obtain ⟨f1, b1⟩ := acc
  simp only at hacc ⊢
  split
  · exact hacc
  · split
    · exact reach_ready (flightReadN_reach w pl _ _ true _ f1 0 _ _) hacc
    · exact reach_ready (flightReadN_reach w pl _ _ false _ f1 0 _ _) hacc
    · exact reach_ready (flightReadAll_reach w pl _ _ f1 _) hacc
    · exact setHdr_ready _ _ hacc
    · exact setHdr_ready _ _ hacc
    · exact rwWriteHeader_ready w tb f1.st _ hacc
    · exact (rwWrite_safe w tb f1.st _ hacc).2
    · exact hacc
    · exact hacc

/-- ... so **no `WriteHeader` and no `Write` of any handler ever panics**: whatever the handler did
    before - in the state after any script, from the state `ServeHTTP` hands to the handler - the next
    `Write` (any bytes) and the next `WriteHeader` (any status) return without a panic. -/
theorem handler_writes_never_panic (w : World) (tb : Tables) (pl : HandlePlan) (script : List BOp) (total0 : Nat)
    (st : St) (skip : Bool) (rd : Reader) (hrw : st.rw = {}) (hs : st.sink = {}) (data : Bytes) (code : Nat) :
    let st' := (runScript w tb pl script total0 { st := transcodeStartState st skip, rd := rd }).1.st
    (rwWrite w tb st' data).2.2 = false ∧ (rwWriteHeader w tb st' code).2 = false := by
  intro st'
  have hg0 : Good st := by
    have := good_init st.op st.src
    obtain ⟨o, src, sink, rw, scratch⟩ := st
    simp only at hrw hs
    subst hrw hs
    exact ⟨this.ended, this.opened, this.atMost, this.last⟩
  have h0 : Ready (transcodeStartState st skip) := by
    refine ⟨(transcodeStartState_ev st skip hg0).1, fun hh => ?_⟩
    have : (transcodeStartState st skip).rw.headersWritten = false := by
      unfold transcodeStartState; simp only; split <;> simp [hrw]
    rw [this] at hh; cases hh
  have hr : Ready st' := runScript_ready w tb pl script total0 _ h0
  exact ⟨(rwWrite_safe w tb st' data hr).1, rwWriteHeader_no_panic w tb st' code⟩


/-! #### `responseWriter.Close` -/

theorem rwCloseWriter_no_panic (w : World) (tb : Tables) (st : St) (h : Ready st) (hW : st.rw.headersWritten = true) :
    (rwCloseWriter w tb st).2 = false := by
  unfold rwCloseWriter
  split
  · rename_i e hw
    split
    · rename_i he; exact ewClose_no_panic w st e (Or.inl he)
    · rename_i hne
      have hopen : st.rw.endWritten = false := by simpa using hne
      have hwo : WriterOk st := by
        rcases h.ready hW with he | hw'
        · rw [hopen] at he; cases he
        · exact hw'
      unfold WriterOk at hwo; rw [hw] at hwo
      obtain ⟨hp, _⟩ := ewWrite_safe w tb st e [] hwo.1 hopen
      simp only
      rw [hp, if_neg Bool.false_ne_true]
      refine ewClose_no_panic w _ _ (Or.inr fun hl => ?_)
      rw [(ewWrite_hw w tb st e []).op]
      rcases ewWrite_lb w tb st e [] hl with h1 | h1
      · exact hwo.2 h1
      · exact h1
  · rename_i t hw
    split
    · exact twClose_no_panic w tb st t
    · rename_i hne
      have hopen : st.rw.endWritten = false := by simpa using hne
      have hwo : WriterOk st := by
        rcases h.ready hW with he | hw'
        · rw [hopen] at he; cases he
        · exact hw'
      unfold WriterOk at hwo; rw [hw] at hwo
      obtain ⟨hp, _⟩ := twWrite_safe w tb st t [] hwo
      simp only
      rw [hp, if_neg Bool.false_ne_true]
      exact twClose_no_panic w tb _ _
  · split
    · unfold errorWriterClose; exact flushHeaders_no_panic w _
    · rfl
  · rfl

theorem rwCloseEnd_no_panic (w : World) (tb : Tables) (st : St) : (rwCloseEnd w tb st).2 = false := by
  unfold rwCloseEnd
  split
  · rfl
  · simp only
    split
    · exact reportEnd_no_panic w st _
    · split
      · exact reportError_no_panic w _ _
      · exact reportEnd_no_panic w _ _

/-- **`responseWriter.Close` never panics** in a state a handler can reach. -/
theorem rwClose_no_panic (w : World) (tb : Tables) (st : St) (h : Ready st) : (rwClose w tb st).2 = false := by
  unfold rwClose
  have h0 : Ready (if st.rw.headersWritten = true then (st, false) else rwWriteHeader w tb st 200).1 ∧
      (if st.rw.headersWritten = true then (st, false) else rwWriteHeader w tb st 200).2 = false ∧
      (if st.rw.headersWritten = true then (st, false) else rwWriteHeader w tb st 200).1.rw.headersWritten = true := by
    split
    · exact ⟨h, rfl, by assumption⟩
    · exact ⟨rwWriteHeader_ready w tb st 200 h, rwWriteHeader_no_panic w tb st 200, rwWriteHeader_written w tb st 200⟩
  generalize (if st.rw.headersWritten = true then (st, false) else rwWriteHeader w tb st 200) = r0 at h0 ⊢
  obtain ⟨hR, hp0, hW⟩ := h0
  simp only
  rw [hp0, if_neg Bool.false_ne_true, rwCloseWriter_no_panic w tb r0.1 hR hW, if_neg Bool.false_ne_true]
  exact rwCloseEnd_no_panic w tb _

/-- **The response side of `ServeHTTP` never panics**: if the handler's reads did not panic (the
    flight's flag after the script - every `WriteHeader`/`Write` in it is panic-free by the theorems
    above), closing the response writer when the handler returns does not panic either. -/
theorem finish_never_panics (w : World) (tb : Tables) (pl : HandlePlan) (script : List BOp) (total0 : Nat)
    (st : St) (skip : Bool) (rd : Reader) (hrw : st.rw = {}) (hs : st.sink = {}) :
    let f := (runScript w tb pl script total0 { st := transcodeStartState st skip, rd := rd }).1
    f.panic = false → (transcodeFinish w tb f).2 = false := by
  intro f hp
  have hg0 : Good st := by
    have := good_init st.op st.src
    obtain ⟨o, src, sink, rw, scratch⟩ := st
    simp only at hrw hs
    subst hrw hs
    exact ⟨this.ended, this.opened, this.atMost, this.last⟩
  have h0 : Ready (transcodeStartState st skip) := by
    refine ⟨(transcodeStartState_ev st skip hg0).1, fun hh => ?_⟩
    have : (transcodeStartState st skip).rw.headersWritten = false := by
      unfold transcodeStartState; simp only; split <;> simp [hrw]
    rw [this] at hh; cases hh
  have hr : Ready f.st := runScript_ready w tb pl script total0 _ h0
  unfold transcodeFinish
  rw [hp, if_neg Bool.false_ne_true]
  exact rwClose_no_panic w tb f.st hr

/-! #### the request readers -/

theorem fuel_covers_data (src : Source) : src.data.length + 4 ≤ src.fuel := by
  unfold Source.fuel Source.data
  rw [List.length_flatten]
  omega

/-- `io.ReadFull` that reports no error has delivered exactly what was asked for. -/
theorem readExactly_none_len (src : Source) (k : Nat) (h : (readExactly src.fuel src k []).2.1 = none) :
    (readExactly src.fuel src k []).1.length = k := by
  have hf := fuel_covers_data src
  by_cases hk : k ≤ src.data.length
  · obtain ⟨src', heq, _, _⟩ := readExactly_enough src.fuel src k [] (by omega) hk
    rw [heq]
    simp only [List.nil_append, List.length_take]
    omega
  · obtain ⟨src', heq, _⟩ := readExactly_short src.fuel src k [] (by omega) (by omega)
    rw [heq] at h
    cases h

/-- One `Read` of the limited reader: no panic; when it reports no error, the client's body got shorter. -/
theorem hardLimitRead_facts (w : World) (st : St) (limit read n : Nat) (report : Bool) (hn : 0 < n) :
    (hardLimitRead w st limit read n report).2.2.2.2 = false ∧
    ((hardLimitRead w st limit read n report).2.1 = none →
      (hardLimitRead w st limit read n report).2.2.2.1.src.data.length < st.src.data.length) := by
  unfold hardLimitRead
  split
  · exact ⟨rfl, fun h => by cases h⟩
  · have hn' : 0 < (if n > limit - read then limit - read + 1 else n) := by split <;> omega
    generalize (if n > limit - read then limit - read + 1 else n) = n' at hn' ⊢
    simp only
    by_cases hd : st.src.data = []
    · rw [Source.read_empty st.src n' hd]
      simp only
      split
      · refine ⟨?_, fun h => by cases h⟩
        split
        · exact reportError_no_panic w _ _
        · rfl
      · exact ⟨rfl, fun h => by cases h⟩
    · have hs := Source.read_spec st.src n' hn' hd
      generalize st.src.read n' = rr at hs ⊢
      obtain ⟨b, e, src'⟩ := rr
      simp only at hs ⊢
      obtain ⟨_, hne, _, happ, _⟩ := hs
      have hlen : src'.data.length < st.src.data.length := by
        rw [← happ, List.length_append]
        have : 0 < b.length := List.length_pos_iff.mpr hne
        omega
      split
      · refine ⟨?_, fun h => by cases h⟩
        split
        · exact reportError_no_panic w _ _
        · rfl
      · exact ⟨rfl, fun _ => hlen⟩

/-- **`io.Copy` from the limited reader never runs out of steps**: the fuel the model gives it
    (`Source.fuel`) is enough for any body, in any pieces. -/
theorem copyAllLimited_no_panic (w : World) (report : Bool) (limit : Nat) : ∀ (fuel : Nat) (st : St) (read : Nat) (acc : Bytes),
    st.src.data.length < fuel → (copyAllLimited w report limit fuel st read acc).2.2.2 = false := by
  intro fuel
  induction fuel with
  | zero => intro _ _ _ h; omega
  | succ m ih =>
    intro st read acc hf
    unfold copyAllLimited
    obtain ⟨hp, hshrink⟩ := hardLimitRead_facts w st limit read (limit + 2) report (by omega)
    generalize hardLimitRead w st limit read (limit + 2) report = r at hp hshrink ⊢
    obtain ⟨b, e, rd, s1, p⟩ := r
    simp only at hp hshrink ⊢
    subst hp
    rw [if_neg Bool.false_ne_true]
    split
    · exact ih _ _ _ (by have := hshrink rfl; omega)
    · rfl
    · rfl

/-- **Reading one request message never panics**, whatever the client sends and in whatever pieces. -/
theorem readRequestMessage_no_panic (w : World) (st : St) (report : Bool) : (readRequestMessage w st report).2.2 = false := by
  unfold readRequestMessage
  simp only
  split
  · have hlen := readExactly_none_len st.src 5
    generalize readExactly st.src.fuel st.src 5 [] = r at hlen ⊢
    obtain ⟨hd, e, src⟩ := r
    simp only at hlen ⊢
    split
    · rfl
    · split
      · have fail : ∀ (s1 : St) (err : Err),
            ((.error err, (if report = true then reportError w s1 err else (s1, false)).1,
              (if report = true then reportError w s1 err else (s1, false)).2) : Except Err (Bytes × Bool) × St × Bool).2.2 = false := by
          intro s1 err
          simp only
          split
          · exact reportError_no_panic w s1 err
          · rfl
        split
        · exact fail _ _
        · split
          · exact fail _ _
          · split
            · exact fail _ _
            · generalize readExactly _ _ _ [] = r2
              obtain ⟨pl, e2, src2⟩ := r2
              simp only
              split <;> rfl
      · rename_i hno
        exfalso
        obtain ⟨f, a, b, c, d, h5⟩ := list_len5 hd (hlen rfl)
        exact hno f a b c d h5
  · split
    · split
      · exact reportError_no_panic w st _
      · rfl
    · have h := copyAllLimited_no_panic w report
        (if (st.op.contentLen == -1) = true then st.op.conf.maxMsg else st.op.contentLen.toNat) st.src.fuel st 0 []
        (by have := fuel_covers_data st.src; omega)
      generalize copyAllLimited w report _ st.src.fuel st 0 [] = r at h ⊢
      obtain ⟨data, e, s1, p⟩ := r
      simp only at h ⊢
      subst h
      split
      · rfl
      · split <;> rfl

theorem hardLimitRead_no_panic (w : World) (st : St) (limit read n : Nat) (report : Bool) :
    (hardLimitRead w st limit read n report).2.2.2.2 = false := by
  unfold hardLimitRead
  split
  · rfl
  · generalize (if n > limit - read then limit - read + 1 else n) = n'
    simp only
    generalize st.src.read n' = rr
    obtain ⟨b, e, src'⟩ := rr
    simp only
    split
    · split
      · exact reportError_no_panic w _ _
      · rfl
    · rfl

theorem erCurRead_no_panic (w : World) (st : St) (cur : RCur) (n : Nat) (hc : cur ≠ .none) :
    (erCurRead w st cur n).2.2.2.2 = false := by
  unfold erCurRead
  split
  · exact absurd rfl hc
  · rfl
  · exact hardLimitRead_no_panic w st _ _ n true
  · split <;> rfl
  · split <;> rfl

/-- Announcing the next message never panics, and when it succeeds there is a reader for its bytes. -/
theorem erPrepareNext_safe (w : World) (st : St) (r : ER) :
    (erPrepareNext w st r).2.2.2 = false ∧
    ((erPrepareNext w st r).1 = none → (erPrepareNext w st r).2.2.1.current ≠ .none) := by
  unfold erPrepareNext
  simp only
  split
  · exact ⟨rfl, fun _ => by simp⟩
  · split
    · split
      · split
        · exact ⟨reportError_no_panic w st _, fun h => by cases h⟩
        · (split <;> exact ⟨rfl, fun _ => by simp⟩)
      · have h := copyAllLimited_no_panic w true (bufferedBodyLimit st.op.conf.maxMsg) st.src.fuel st 0 []
          (by have := fuel_covers_data st.src; omega)
        generalize copyAllLimited w true (bufferedBodyLimit st.op.conf.maxMsg) st.src.fuel st 0 [] = rr at h ⊢
        obtain ⟨data, e, s1, p⟩ := rr
        simp only at h ⊢
        subst h
        split
        · exact ⟨rfl, fun h => by cases h⟩
        · (split <;> exact ⟨rfl, fun _ => by simp⟩)
    · exact ⟨rfl, fun h => by cases h⟩
  · have hlen := readExactly_none_len st.src 5
    generalize readExactly st.src.fuel st.src 5 [] = rr at hlen ⊢
    obtain ⟨hd, e, src⟩ := rr
    simp only at hlen ⊢
    split
    · exact ⟨rfl, fun h => by cases h⟩
    · split
      · split
        · exact ⟨reportError_no_panic w _ _, fun h => by cases h⟩
        · (split <;> exact ⟨rfl, fun _ => by simp⟩)
      · rename_i hno
        exfalso
        obtain ⟨f, a, b, c, d, h5⟩ := list_len5 hd (hlen rfl)
        exact hno f a b c d h5

theorem erPhase1_no_panic (w : World) (st : St) (r : ER) (n : Nat) :
    ∀ res, erPhase1 w st r n = .inl res → res.2.2.2.2 = false := by
  intro res
  unfold erPhase1
  split
  · intro h; cases h
  · rename_i hc
    have h1 := erCurRead_no_panic w st r.current n (by intro h; exact hc h)
    generalize erCurRead w st r.current n = x at h1 ⊢
    obtain ⟨b, e, s1, cur, p⟩ := x
    simp only at h1 ⊢
    subst h1
    rw [if_neg Bool.false_ne_true]
    split
    · intro h; cases h; rfl
    · split
      · intro h; cases h
      · intro h; cases h; rfl
      · intro h; cases h

theorem erPhase2_no_panic (w : World) (st : St) (r : ER) (n : Nat) : (erPhase2 w st r n).2.2.2.2 = false := by
  unfold erPhase2
  obtain ⟨hp, hcur⟩ := erPrepareNext_safe w st r
  generalize erPrepareNext w st r = x at hp hcur ⊢
  obtain ⟨e, s1, r1, p⟩ := x
  simp only at hp hcur ⊢
  subst hp
  rw [if_neg Bool.false_ne_true]
  split
  · rfl
  · split
    · rfl
    · generalize (if r1.envRemain > 0 then List.drop (5 - r1.envRemain) r1.env else []) = envPart
      split
      · have h2 := fun k => erCurRead_no_panic w s1 r1.current k (hcur rfl)
        generalize hr : erCurRead w s1 r1.current _ = y
        have h2' : y.2.2.2.2 = false := by rw [← hr]; exact h2 _
        obtain ⟨b, e2, s2, cur, p2⟩ := y
        exact h2'
      · rfl

/-- **`envelopingReader.Read` never panics**: any `Read` size, any body in any pieces, any reader state. -/
theorem erRead_no_panic (w : World) (st : St) (r : ER) (n : Nat) : (erRead w st r n).2.2.2.2 = false := by
  unfold erRead
  split
  · rfl
  · split
    · rfl
    · have h1 := erPhase1_no_panic w st r n
      generalize erPhase1 w st r n = ph at h1 ⊢
      cases ph with
      | inl res => exact h1 res rfl
      | inr x =>
        obtain ⟨s1, r1⟩ := x
        exact erPhase2_no_panic w s1 r1 n

/-! ##### the transforming reader: its loop always ends -/

theorem flushHeaders_src (w : World) (st : St) : (flushHeaders w st).1.src = st.src := by
  unfold flushHeaders
  split
  · rfl
  · simp only
    split
    · rfl
    · split <;> simp [writeEnd]

theorem reportEnd_src (w : World) (st : St) (e : RespEnd) : (reportEnd w st e).1.src = st.src := by
  unfold reportEnd
  split
  · rfl
  · simp only
    split
    · split
      · simp [writeEnd]
      · exact flushHeaders_src w _
    · split
      · simp [writeEnd]
      · exact flushHeaders_src w _

theorem reportError_src (w : World) (st : St) (err : Err) : (reportError w st err).1.src = st.src := by
  unfold reportError
  split
  · split
    · rfl
    · exact reportEnd_src w st _
  · exact reportEnd_src w st _

/-- A `Read` of the limited reader never gives the body back: what is left plus what was returned is
    at most what was there. -/
theorem hardLimitRead_consumes (w : World) (st : St) (limit read n : Nat) (report : Bool) :
    (hardLimitRead w st limit read n report).2.2.2.1.src.data.length + (hardLimitRead w st limit read n report).1.length
      ≤ st.src.data.length := by
  unfold hardLimitRead
  split
  · simp
  · generalize (if n > limit - read then limit - read + 1 else n) = n'
    simp only
    have key : (st.src.read n').2.2.data.length + (st.src.read n').1.length ≤ st.src.data.length := by
      by_cases hd : st.src.data = []
      · rw [Source.read_empty st.src n' hd]; simp [Source.data]
      · by_cases hn : n' = 0
        · subst hn
          unfold Source.read
          have hf := filter_nonempty_flatten st.src.chunks
          split
          · simp [Source.data]
          · rename_i c rest hc
            simp only [beq_self_eq_true, if_true, List.length_nil, Nat.add_zero]
            unfold Source.data
            simp only
            rw [← hf, hc]
            exact Nat.le_refl _
        · have hs := Source.read_spec st.src n' (by omega) hd
          simp only at hs
          obtain ⟨_, _, _, happ, _⟩ := hs
          rw [← happ, List.length_append]; omega
    generalize st.src.read n' = rr at key ⊢
    obtain ⟨b, e, src'⟩ := rr
    simp only at key ⊢
    split
    · split
      · rw [reportError_src]; exact key
      · exact key
    · exact key

theorem copyAllLimited_consumes (w : World) (report : Bool) (limit : Nat) : ∀ (fuel : Nat) (st : St) (read : Nat) (acc : Bytes),
    (copyAllLimited w report limit fuel st read acc).2.2.1.src.data.length + (copyAllLimited w report limit fuel st read acc).1.length
      ≤ st.src.data.length + acc.length := by
  intro fuel
  induction fuel with
  | zero => intro st read acc; simp [copyAllLimited]
  | succ m ih =>
    intro st read acc
    unfold copyAllLimited
    have h1 := hardLimitRead_consumes w st limit read (limit + 2) report
    generalize hardLimitRead w st limit read (limit + 2) report = r at h1 ⊢
    obtain ⟨b, e, rd, s1, p⟩ := r
    simp only at h1 ⊢
    split
    · simp only [List.length_append]; omega
    · split
      · have := ih s1 rd (acc ++ b)
        simp only [List.length_append] at this
        omega
      · simp only [List.length_append]; omega
      · simp only [List.length_append]; omega

/-- Reading a request message never gives the body back, and a message that was read took something
    from it (an empty body is "end of file", not a message). -/
theorem readRequestMessage_consumes (w : World) (st : St) (report : Bool) :
    (readRequestMessage w st report).2.1.src.data.length ≤ st.src.data.length ∧
    (∀ x, (readRequestMessage w st report).1 = .ok x →
      (readRequestMessage w st report).2.1.src.data.length < st.src.data.length) := by
  unfold readRequestMessage
  simp only
  split
  · -- enveloped client
    have hf := fuel_covers_data st.src
    by_cases hk : 5 ≤ st.src.data.length
    · obtain ⟨src', heq, hdata, _⟩ := readExactly_enough st.src.fuel st.src 5 [] (by omega) hk
      rw [heq]
      simp only
      have hlen : src'.data.length + 5 = st.src.data.length := by rw [hdata, List.length_drop]; omega
      split
      · have fail : ∀ (err : Err),
            (if report = true then reportError w ({ st with src := src' } : St) err else (({ st with src := src' } : St), false)).1.src.data.length
              ≤ st.src.data.length := by
          intro err
          split
          · rw [reportError_src]; show src'.data.length ≤ _; omega
          · show src'.data.length ≤ _; omega
        split
        · exact ⟨fail _, fun x h => by cases h⟩
        · split
          · exact ⟨fail _, fun x h => by cases h⟩
          · split
            · exact ⟨fail _, fun x h => by cases h⟩
            · rename_i env _ _ _
              have hf' := fuel_covers_data src'
              have hp : (readExactly src'.fuel src' env.length []).2.2.data.length ≤ src'.data.length := by
                by_cases hk2 : env.length ≤ src'.data.length
                · obtain ⟨s2, heq2, hd2, _⟩ := readExactly_enough src'.fuel src' env.length [] (by omega) hk2
                  rw [heq2]; simp only; rw [hd2, List.length_drop]; omega
                · obtain ⟨s2, heq2, hd2⟩ := readExactly_short src'.fuel src' env.length [] (by omega) (by omega)
                  rw [heq2]; simp only; rw [hd2]; simp
              generalize readExactly src'.fuel src' env.length [] = r2 at hp ⊢
              obtain ⟨pl, e2, s2⟩ := r2
              simp only at hp ⊢
              split
              · exact ⟨by show s2.data.length ≤ _; omega, fun x h => by cases h⟩
              · exact ⟨by show s2.data.length ≤ _; omega, fun x h => by cases h⟩
              · exact ⟨by show s2.data.length ≤ _; omega, fun _ _ => by show s2.data.length < _; omega⟩
      · exact ⟨by show src'.data.length ≤ _; omega, fun x h => by cases h⟩
    · obtain ⟨src', heq, hdata⟩ := readExactly_short st.src.fuel st.src 5 [] (by omega) (by omega)
      rw [heq]
      simp only
      exact ⟨by show src'.data.length ≤ _; rw [hdata]; simp, fun x h => by cases h⟩
  · split
    · refine ⟨?_, fun x h => by cases h⟩
      split
      · rw [reportError_src]; exact Nat.le_refl _
      · exact Nat.le_refl _
    · have h := copyAllLimited_consumes w report
        (if (st.op.contentLen == -1) = true then st.op.conf.maxMsg else st.op.contentLen.toNat) st.src.fuel st 0 []
      generalize copyAllLimited w report _ st.src.fuel st 0 [] = r at h ⊢
      obtain ⟨data, e, s1, p⟩ := r
      simp only [List.length_nil, Nat.add_zero] at h ⊢
      split
      · exact ⟨by show s1.src.data.length ≤ _; omega, fun x h => by cases h⟩
      · split
        · exact ⟨by show s1.src.data.length ≤ _; omega, fun x h => by cases h⟩
        · rename_i hne
          have : 0 < data.length := by
            cases data with
            | nil => simp at hne
            | cons a t => simp
          exact ⟨by show s1.src.data.length ≤ _; omega, fun _ _ => by show s1.src.data.length < _; omega⟩

/-- What is left for the transforming reader to do: the client's body, plus one for the message a
    client without envelopes has sent even when its body is empty. -/
def muR (st : St) (r : TR) : Nat := st.src.data.length + (if r.consumedFirst then 0 else 1)

theorem ite_p {β γ δ ε : Type} (c : Prop) [Decidable c] (x y : β × γ × δ × ε × Bool)
    (hx : x.2.2.2.2 = false) (hy : y.2.2.2.2 = false) : (if c then x else y).2.2.2.2 = false := by
  split <;> assumption

theorem trNext_ok (pl : HandlePlan) (st : St) (cf : Bool) (res : Except Err (Bytes × Bool)) (x : Bytes × Bool)
    (h : trNext pl st cf res = .ok x) : res = .ok x ∨ cf = false := by
  unfold trNext at h
  split at h
  · split at h
    · rename_i hc
      right
      cases cf <;> simp_all
    · cases h
  · left; exact h

/-- **`transformingReader.Read` never panics and its loop always ends**: every round that goes on to
    the next message has taken something from the client's body (or used up the one empty message),
    so the fuel `Read` gives the loop is never exhausted - for any `Read` size, body and pieces. -/
theorem trRead_no_panic (w : World) (pl : HandlePlan) : ∀ (fuel : Nat) (st : St) (r : TR) (n : Nat),
    muR st r < fuel → (trRead w pl fuel st r n).2.2.2.2 = false := by
  intro fuel
  induction fuel with
  | zero => intro _ _ _ h; omega
  | succ m ih =>
    intro st r n hmu
    unfold trRead
    split
    · rfl
    · refine ite_p _ _ _ rfl ?_
      simp only
      refine ite_p _ _ _ rfl ?_
      have hnp := readRequestMessage_no_panic w st true
      obtain ⟨hle, hlt⟩ := readRequestMessage_consumes w st true
      generalize readRequestMessage w st true = rr at hnp hle hlt ⊢
      obtain ⟨res, s1, p⟩ := rr
      simp only at hnp hle hlt ⊢
      subst hnp
      rw [if_neg Bool.false_ne_true]
      split
      · rfl
      · rename_i data wc hnext
        split
        · exact reportError_no_panic w s1 _
        · apply ih
          unfold muR at hmu ⊢
          simp only [if_true, Nat.add_zero]
          rcases trNext_ok pl s1 _ res _ hnext with hok | hcf
          · have := hlt _ hok
            split at hmu <;> omega
          · have hcf' : r.consumedFirst = false := by
              revert hcf
              generalize (if r.envRemain > 0 then List.drop (5 - r.envRemain) r.env else []) = ep
              cases r.buffer with
              | none => exact id
              | some buf => simp only; split <;> exact id
            rw [hcf'] at hmu
            simp only [Bool.false_eq_true, if_false] at hmu
            omega

/-! #### the whole of `ServeHTTP` -/

theorem Flight.read_panic (w : World) (pl : HandlePlan) (f : Flight) (n : Nat) : (f.read w pl n).2.2.panic = f.panic := by
  unfold Flight.read
  split
  · rfl
  · split
    · rfl
    · rename_i r _
      have h := erRead_no_panic w f.st r n
      generalize erRead w f.st r n = x at h ⊢
      obtain ⟨b, e, s1, r1, p⟩ := x
      simp only at h ⊢
      rw [h, Bool.or_false]
    · rename_i r _
      have h := trRead_no_panic w pl (f.st.src.fuel + 4) f.st r n (by
        have := fuel_covers_data f.st.src
        unfold muR; split <;> omega)
      generalize trRead w pl (f.st.src.fuel + 4) f.st r n = x at h ⊢
      obtain ⟨b, e, s1, r1, p⟩ := x
      simp only at h ⊢
      rw [h, Bool.or_false]

theorem flightReadN_panic (w : World) (pl : HandlePlan) (k buf : Nat) (capped : Bool) :
    ∀ (fuel : Nat) (f : Flight) (got : Nat) (rd : Bytes) (re : Option Err),
      (flightReadN w pl k buf capped fuel f got rd re).1.panic = f.panic := by
  intro fuel
  induction fuel with
  | zero => intro f got rd re; simp [flightReadN]
  | succ m ih =>
    intro f got rd re
    unfold flightReadN
    split
    · rfl
    · have h := fun n => Flight.read_panic w pl f n
      generalize hr : f.read w pl _ = r
      have h' : r.2.2.panic = f.panic := by rw [← hr]; exact h _
      obtain ⟨bs, e, f1⟩ := r
      simp only at h' ⊢
      split
      · exact h'
      · exact (ih _ _ _ _).trans h'

theorem flightReadAll_panic (w : World) (pl : HandlePlan) (buf : Nat) :
    ∀ (fuel : Nat) (f : Flight) (rd : Bytes), (flightReadAll w pl buf fuel f rd).1.panic = f.panic := by
  intro fuel
  induction fuel with
  | zero => intro f rd; simp [flightReadAll]
  | succ m ih =>
    intro f rd
    unfold flightReadAll
    split
    · rfl
    · have h := Flight.read_panic w pl f buf
      generalize f.read w pl buf = r at h ⊢
      obtain ⟨bs, e, f1⟩ := r
      simp only at h ⊢
      split
      · exact h
      · exact (ih _ _).trans h

theorem foldl_inv {β : Type} (P : Flight → Prop) (g : Flight × β → BOp → Flight × β) (hg : ∀ acc op, P acc.1 → P (g acc op).1) :
    ∀ (l : List BOp) (acc : Flight × β), P acc.1 → P (l.foldl g acc).1 := by
  intro l
  induction l with
  | nil => intro acc h; exact h
  | cons x xs ih => intro acc h; simp only [List.foldl_cons]; exact ih _ (hg acc x h)

/-- **No handler script makes the transcoder panic**: after any sequence of reads, header changes,
    `WriteHeader`, `Write`, `Flush` and `Close` calls the flight has not panicked and is `Ready`. -/
theorem runScript_no_panic (w : World) (tb : Tables) (pl : HandlePlan) (script : List BOp) (total0 : Nat) (f : Flight)
    (h : Ready f.st) (hp : f.panic = false) :
    Ready (runScript w tb pl script total0 f).1.st ∧ (runScript w tb pl script total0 f).1.panic = false := by
  unfold runScript
  refine foldl_inv (β := BackendObs) (fun f => Ready f.st ∧ f.panic = false) _ ?_ script (f, ({} : BackendObs)) ⟨h, hp⟩
  intro acc op hacc
  obtain ⟨f1, b1⟩ := acc
  obtain ⟨hR, hP⟩ := hacc
  simp only at hR hP ⊢
  split
  · exact ⟨hR, hP⟩
  · split
    · exact ⟨reach_ready (flightReadN_reach w pl _ _ true _ f1 0 _ _) hR, (flightReadN_panic w pl _ _ true _ f1 0 _ _).trans hP⟩
    · exact ⟨reach_ready (flightReadN_reach w pl _ _ false _ f1 0 _ _) hR, (flightReadN_panic w pl _ _ false _ f1 0 _ _).trans hP⟩
    · exact ⟨reach_ready (flightReadAll_reach w pl _ _ f1 _) hR, (flightReadAll_panic w pl _ _ f1 _).trans hP⟩
    · exact ⟨setHdr_ready _ _ hR, hP⟩
    · exact ⟨setHdr_ready _ _ hR, hP⟩
    · refine ⟨rwWriteHeader_ready w tb f1.st _ hR, ?_⟩
      simp only [hP, rwWriteHeader_no_panic, Bool.or_false]
    · refine ⟨(rwWrite_safe w tb f1.st _ hR).2, ?_⟩
      simp only [hP, (rwWrite_safe w tb f1.st _ hR).1, Bool.or_false]
    · exact ⟨hR, hP⟩
    · exact ⟨hR, hP⟩

theorem opReportError_no_panic (o : Op) (k : Sink) (err : Err) : (opReportError o k err).2 = false := by
  unfold opReportError
  simp only
  have hc : ∀ c, httpStatusFromRPC c ≠ none := by
    intro c h; have := httpStatusFromRPC_isSome c; rw [h] at this; cases this
  split
  · rename_i hn; exact absurd hn (hc _)
  · have hs := fun rm => addResponseHeaders_status_isSome o.cform rm k
    generalize hr : addResponseHeaders o.cform _ k = r
    have hs' : r.1.isSome = true := by rw [← hr]; exact hs _
    obtain ⟨status, k1⟩ := r
    simp only at hs' ⊢
    cases status with
    | none => cases hs'
    | some sc => rfl

theorem transcodePre_error_no_panic (w : World) (o : Op) (pl : HandlePlan) (st0 : St) (x : Sink × Bool)
    (h : transcodePre w o pl st0 = .error x) : x.2 = false := by
  unfold transcodePre at h
  split at h
  · simp only at h
    split at h
    · cases h; exact opReportError_no_panic o _ _
    · split at h
      · cases h; exact opReportError_no_panic o _ _
      · cases h
  · cases h

theorem transcodePre_fresh (w : World) (o : Op) (pl : HandlePlan) (st0 st : St) (first : Option (Bytes × Bool))
    (h : transcodePre w o pl st0 = .ok (st, first)) : st.rw = st0.rw ∧ st.sink = st0.sink := by
  unfold transcodePre at h
  split at h
  · have hq := readRequestMessage_quiet w st0
    simp only at h
    split at h
    · cases h
    · split at h
      · cases h
      · simp only [Except.ok.injEq, Prod.mk.injEq] at h
        rw [← h.1]; exact hq
  · simp only [Except.ok.injEq, Prod.mk.injEq] at h
    rw [← h.1]; exact ⟨rfl, rfl⟩

theorem start_ready (st : St) (skip : Bool) (hrw : st.rw = {}) (hs : st.sink = {}) : Ready (transcodeStartState st skip) := by
  have hg0 : Good st := by
    have := good_init st.op st.src
    obtain ⟨o, src, sink, rw, scratch⟩ := st
    simp only at hrw hs
    subst hrw hs
    exact ⟨this.ended, this.opened, this.atMost, this.last⟩
  refine ⟨(transcodeStartState_ev st skip hg0).1, fun hh => ?_⟩
  have : (transcodeStartState st skip).rw.headersWritten = false := by
    unfold transcodeStartState; simp only; split <;> simp [hrw]
  rw [this] at hh; cases hh

theorem transcodeRun_no_panic (w : World) (sc : Scenario) (o : Op) (pl : HandlePlan) (st : St)
    (first : Option (Bytes × Bool)) (hrw : st.rw = {}) (hs : st.sink = {}) :
    (transcodeRun w sc o pl st first).panic = false := by
  unfold transcodeRun
  simp only
  have key : ∀ skip rd, (transcodeFinish w sc.tables
      (runScript w sc.tables pl sc.script sc.src.left { st := transcodeStartState st skip, rd := rd }).1).2 = false := by
    intro skip rd
    obtain ⟨hR, hP⟩ := runScript_no_panic w sc.tables pl sc.script sc.src.left
      { st := transcodeStartState st skip, rd := rd } (start_ready st skip hrw hs) rfl
    unfold transcodeFinish
    rw [hP, if_neg Bool.false_ne_true]
    exact rwClose_no_panic w sc.tables _ hR
  exact key _ _

/-- **C11: `ServeHTTP` never panics.**  For every configuration, request, client body (any bytes, in any
    pieces, ending in any way) and every backend handler script (any reads, header changes,
    `WriteHeader`, `Write` of any bytes, `Flush`, `Close`), the model of `Transcoder.ServeHTTP` returns
    without a panic: no index or slice out of range, no missing sink, reader or decoder, no loop that
    runs out of steps. -/
theorem serve_never_panics (w : World) (sc : Scenario) : (serve w sc).panic = false := by
  unfold serve
  simp only
  split
  · split
    · rfl
    · rfl
  · rfl
  · rename_i o _
    split
    · split <;> rfl
    · unfold serveTranscode
      simp only
      have hf := fun st first => transcodePre_fresh w o (o.plan w) { op := o, src := sc.src, sink := {} } st first
      have he := fun x => transcodePre_error_no_panic w o (o.plan w) { op := o, src := sc.src, sink := {} } x
      generalize transcodePre w o (o.plan w) { op := o, src := sc.src, sink := {} } = r at hf he ⊢
      cases r with
      | error x => exact he x rfl
      | ok x =>
        obtain ⟨hrw, hs⟩ := hf x.1 x.2 rfl
        exact transcodeRun_no_panic w sc o _ x.1 x.2 hrw hs

end Vanguard.C11
