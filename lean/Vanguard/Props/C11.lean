import Vanguard.Lemmas.Serve
/-!
  C11 — No input from client or backend can crash or wedge the transcoder.

  The model makes Go's partial operations partial (`httpStatusCodeFromRPC` indexing → `Option`,
  nil sinks and impossible slices → the `panic` flag).  Proved here: every path that *reports* an
  outcome to the client — `reportError`, `reportEnd`, `flushHeaders`, for every state, error and
  client protocol — is panic-free, because the status lookup is total for every code (C04).
  And **the loop of `envelopingWriter.Write` terminates for every writer state and every byte string
  the backend writes** (`ewLoop_fuel`, `ewLoop_enough`): the model's loop is fuelled; the theorem
  shows by a decreasing measure (bytes left, envelope/body phase) that the fuel `Write` provides is
  never exhausted - more fuel never changes the result.  The decrease relies on the latch
  `if w.err != nil { return }` at the top of the loop, the very check whose removal makes the real
  loop spin (seeded change C11_1).  The same is proved for **the loop of `transformingWriter.Write`**
  (`twLoop_fuel`, `twLoop_enough`; the invariant it needs - fewer than five buffered bytes while an
  envelope is collected - is kept by the loop, `twLoop_keeps_inv`, and established by `reset`).
  Partial: panic-freedom of the whole `serve` is not a theorem; it is covered by the
  correspondence, where `panic=0` is part of every compared observation, and a watchdog in the
  harness reports a call that does not return.
-/
namespace Vanguard.C11
open Vanguard

/-- The code → status lookup never indexes out of range, for any uint32 code. -/
theorem status_lookup_total (code : Nat) : (httpStatusFromRPC code).isSome = true :=
  httpStatusFromRPC_isSome code

/-- Rendering the response head never panics, whatever the end, client protocol or state. -/
theorem flush_headers_never_panics (w : World) (st : St) : (flushHeaders w st).2 = false :=
  flushHeaders_no_panic w st

/-- Reporting the end of an RPC never panics. -/
theorem report_end_never_panics (w : World) (st : St) (e : RespEnd) : (reportEnd w st e).2 = false :=
  reportEnd_no_panic w st e

/-- Reporting an error never panics — in particular not for RPC codes outside 0..16 relayed from a
    backend (the pinned tree crashed on code 17 here). -/
theorem report_error_never_panics (w : World) (st : St) (err : Err) : (reportError w st err).2 = false :=
  reportError_no_panic w st err

/-- Non-vacuity: an out-of-range code on a Connect unary client goes through the lookup. -/
example : httpStatusFromRPC 17 = some 500 ∧ httpStatusFromRPC 4294967295 = some 500 := by decide


/-! ### termination of the re-framing writer's loop -/

theorem ewWritePiece_flags (w : World) (st : St) (e : EW) (piece : Bytes) :
    (ewWritePiece w st e piece).2.1.writingEnvelope = e.writingEnvelope ∧
    (ewWritePiece w st e piece).2.1.remaining = e.remaining := by
  unfold ewWritePiece
  split
  · exact ⟨rfl, rfl⟩
  · split
    · exact ⟨rfl, rfl⟩
    · exact ⟨rfl, rfl⟩
    · split <;> exact ⟨rfl, rfl⟩
    · exact ⟨rfl, rfl⟩

theorem ewEnvelopeWritten_not_writing (w : World) (st : St) (e : EW) :
    (ewEnvelopeWritten w st e).2.1.writingEnvelope = false := by
  unfold ewEnvelopeWritten
  simp only
  repeat' split
  all_goals rfl

/-- The loop measure: twice the bytes still to be processed, plus one while a message body (not an
    envelope) is being consumed. -/
def mu (e : EW) (data : Bytes) : Nat := 2 * data.length + (if e.writingEnvelope then 0 else 1)

/-- While an envelope is being collected (and the writer is not latched in an error) at least one
    of its bytes is still missing. -/
def EnvInv (e : EW) : Prop := e.err = false → e.writingEnvelope = true → 1 ≤ e.remaining


theorem ewLoop_err (w : World) (tb : Tables) (n : Nat) (st : St) (e : EW) (d : Bytes) (h : e.err = true) :
    ewLoop w tb (n + 1) st e d = (st, e, true, false) := by
  unfold ewLoop; simp [h]

/-- **Fuel adequacy = termination of `envelopingWriter.Write`'s loop**: once the fuel exceeds the
    measure, more fuel changes nothing - the loop never runs out of steps, for any writer state
    and any bytes the backend writes. -/
theorem ewLoop_fuel (w : World) (tb : Tables) : ∀ (n : Nat) (st : St) (e : EW) (data : Bytes),
    EnvInv e → mu e data < n → ewLoop w tb n st e data = ewLoop w tb (n + 1) st e data := by
  intro n
  induction n with
  | zero => intro _ _ _ _ h; omega
  | succ m ih =>
    intro st e data hinv hmu
    unfold ewLoop
    by_cases herr : e.err = true
    · simp [herr]
    · simp only [herr, Bool.false_eq_true, if_false]
      by_cases hlt : (data.length : Int) < e.remaining
      · simp [hlt]
      · simp only [hlt, if_false]
        have hflags := ewWritePiece_flags w st e (data.take e.remaining.toNat)
        generalize hr1 : ewWritePiece w st e (data.take e.remaining.toNat) = r1 at hflags ⊢
        obtain ⟨s1, e1, f1, p1⟩ := r1
        simp only at hflags ⊢
        obtain ⟨hw1, hrem1⟩ := hflags
        by_cases hbad : (f1 || p1) = true
        · simp [hbad]
        · simp only [hbad, Bool.false_eq_true, if_false]
          have hle : e.remaining ≤ (data.length : Int) := by omega
          have hrest : (data.drop e.remaining.toNat).length = data.length - e.remaining.toNat := List.length_drop
          generalize he2 : ({ e1 with remaining := e1.remaining - ↑e.remaining.toNat } : EW) = e2
          have hw2 : e1.writingEnvelope = e.writingEnvelope := hw1
          by_cases hw : e1.writingEnvelope = true
          · -- an envelope has been completed
            simp only [hw, if_true]
            have hnw := ewEnvelopeWritten_not_writing w s1 e2
            generalize hr2 : ewEnvelopeWritten w s1 e2 = r2 at hnw ⊢
            obtain ⟨s2, e3, f2, p2⟩ := r2
            simp only at hnw ⊢
            by_cases hbad2 : (f2 || p2) = true
            · simp [hbad2]
            · simp only [hbad2, Bool.false_eq_true, if_false]
              apply ih
              · intro _ h; rw [hnw] at h; cases h
              · have hwe : e.writingEnvelope = true := hw2 ▸ hw
                have h1 : 1 ≤ e.remaining := hinv (by simpa using herr) hwe
                unfold mu at hmu ⊢
                simp only [hwe, if_true, hnw, Bool.false_eq_true, if_false, hrest] at hmu ⊢
                omega
          · have hwf : e1.writingEnvelope = false := by simpa using hw
            have hwe : e.writingEnvelope = false := hw2 ▸ hwf
            simp only [hwf, Bool.false_eq_true, if_false]
            by_cases ht : e1.currentIsTrailer = true
            · simp only [ht, if_true]
              split
              · generalize hr3 : handleEndMessage w tb s1 _ _ true = r3
                obtain ⟨s2, err, p2⟩ := r3
                simp only
                by_cases hbad3 : (err.isSome || p2) = true
                · simp [hbad3]
                · simp only [hbad3, Bool.false_eq_true, if_false]
                  by_cases hre : (data.drop e.remaining.toNat).isEmpty = true
                  · simp [hre]
                  · simp only [hre, Bool.false_eq_true, if_false]
                    -- the writer is latched: the next round returns at once, with any fuel ≥ 1
                    have hm : ∃ m', m = m' + 1 := by
                      unfold mu at hmu; simp only [hwe, Bool.false_eq_true, if_false] at hmu
                      exact ⟨m - 1, by omega⟩
                    obtain ⟨m', rfl⟩ := hm
                    rw [ewLoop_err w tb m' _ _ _ rfl, ewLoop_err w tb (m' + 1) _ _ _ rfl]
              · rfl
            · simp only [ht, Bool.false_eq_true, if_false]
              apply ih
              · intro _ _; simp
              · unfold mu at hmu ⊢
                simp only [hwe, Bool.false_eq_true, if_false, if_true, hrest] at hmu ⊢
                omega


/-- The fuel `ewWrite` gives its loop is always enough: any additional fuel gives the same result. -/
theorem ewLoop_enough (w : World) (tb : Tables) (st : St) (e : EW) (data : Bytes) (hinv : EnvInv e) :
    ∀ k, ewLoop w tb (2 * data.length + 4 + k) st e data = ewLoop w tb (2 * data.length + 4) st e data := by
  intro k
  induction k with
  | zero => rfl
  | succ k ih =>
    rw [← ih]
    have hmu : mu e data < 2 * data.length + 4 + k := by
      unfold mu; split <;> omega
    exact (ewLoop_fuel w tb _ st e data hinv hmu).symm

/-- `maybeInit` establishes the invariant for an enveloped backend. -/
example : EnvInv { writingEnvelope := true, remaining := 5 } := by intro _ _; decide



/-- The invariant the termination argument needs is kept by the loop itself, so it holds before
    every later `Write` of the same response as well. -/
theorem ewLoop_keeps_inv (w : World) (tb : Tables) : ∀ (n : Nat) (st : St) (e : EW) (data : Bytes),
    EnvInv e → EnvInv (ewLoop w tb n st e data).2.1 := by
  intro n
  induction n with
  | zero => intro st e data h; simpa [ewLoop] using h
  | succ m ih =>
    intro st e data hinv
    unfold ewLoop
    by_cases herr : e.err = true
    · simp only [herr, if_true]; exact hinv
    · have herrf : e.err = false := by simpa using herr
      simp only [herr, Bool.false_eq_true, if_false]
      by_cases hlt : (data.length : Int) < e.remaining
      · simp only [hlt, if_true]
        have hflags := ewWritePiece_flags w st e data
        generalize ewWritePiece w st e data = r1 at hflags ⊢
        obtain ⟨s1, e1, f1, p1⟩ := r1
        simp only at hflags ⊢
        obtain ⟨hw1, hrem1⟩ := hflags
        intro _ hw
        simp only at hw ⊢
        have := hinv herrf (hw1 ▸ hw)
        rw [hrem1]; omega
      · simp only [hlt, if_false]
        have hflags := ewWritePiece_flags w st e (data.take e.remaining.toNat)
        generalize ewWritePiece w st e (data.take e.remaining.toNat) = r1 at hflags ⊢
        obtain ⟨s1, e1, f1, p1⟩ := r1
        simp only at hflags ⊢
        obtain ⟨hw1, hrem1⟩ := hflags
        by_cases hbad : (f1 || p1) = true
        · simp only [hbad, if_true]; intro h; simp at h
        · simp only [hbad, Bool.false_eq_true, if_false]
          by_cases hw : e1.writingEnvelope = true
          · simp only [hw, if_true]
            split
            · intro _ h; simp only at h; rw [ewEnvelopeWritten_not_writing] at h; cases h
            · apply ih; intro _ h; rw [ewEnvelopeWritten_not_writing] at h; cases h
          · have hwf : e1.writingEnvelope = false := by simpa using hw
            simp only [hwf, Bool.false_eq_true, if_false]
            by_cases ht : e1.currentIsTrailer = true
            · simp only [ht, if_true]
              split
              · generalize handleEndMessage w tb s1 _ _ true = r3
                obtain ⟨s2, err, p2⟩ := r3
                simp only
                by_cases hbad3 : (err.isSome || p2) = true
                · simp only [hbad3, if_true]; intro _ h; simp at h
                · simp only [hbad3, Bool.false_eq_true, if_false]
                  by_cases hre : (data.drop e.remaining.toNat).isEmpty = true
                  · simp only [hre, if_true]; intro h; simp at h
                  · simp only [hre, Bool.false_eq_true, if_false]
                    apply ih; intro h; simp at h
              · intro _ h; simp at h
            · simp only [ht, Bool.false_eq_true, if_false]
              apply ih; intro _ _; simp

/-! ### the loop of `transformingWriter.Write` -/

/-- The loop measure of the re-encoding writer. -/
def muT (t : TW) (data : Bytes) : Nat := 2 * data.length + (if t.writingEnvelope then 0 else 1)

/-- While an envelope is being collected (and the writer is not latched) it expects five bytes and
    has fewer than five of them. -/
def TwInv (t : TW) : Prop :=
  t.err = false → t.writingEnvelope = true → t.expecting = 5 ∧ (t.buffer.getD []).length < 5

theorem twLoop_err (w : World) (tb : Tables) (n : Nat) (st : St) (t : TW) (d : Bytes) (h : t.err = true) :
    twLoop w tb (n + 1) st t d = (st, t, true, false) := by
  unfold twLoop; simp [h]

/-- After a message was flushed without error the writer is latched (end of stream) or its buffer is empty. -/
theorem twFlushMessage_writer (w : World) (tb : Tables) (st : St) (t : TW) :
    (twFlushMessage w tb st t).2.2.1 = none → (twFlushMessage w tb st t).2.2.2 = false →
    ((twFlushMessage w tb st t).2.1.err = true ∨ (twFlushMessage w tb st t).2.1.buffer = some []) := by
  unfold twFlushMessage
  simp only
  split
  · split
    · intro h1 h2; simp_all
    · intro _ _; exact Or.inl rfl
  · split
    · intro h; simp at h
    · cases hce : st.op.clientEnveloper with
      | none =>
        simp only [Option.isSome_none, Bool.false_eq_true, if_false, Bool.or_self]
        split
        · intro h; simp at h
        · intro _ _; right; unfold twReset; split <;> rfl
      | some ce =>
        simp only
        split
        · intro h; simp at h
        · simp only
          split
          · intro h1 h2; simp_all
          · split
            · intro h1 h2; simp_all
            · split
              · intro h; simp at h
              · intro _ _; right; unfold twReset; split <;> rfl

/-- **Termination of `transformingWriter.Write`'s loop**: once the fuel exceeds the measure, more
    fuel changes nothing, for any writer state and any bytes the backend writes. -/
theorem twLoop_fuel (w : World) (tb : Tables) : ∀ (n : Nat) (st : St) (t : TW) (data : Bytes),
    TwInv t → muT t data < n → twLoop w tb n st t data = twLoop w tb (n + 1) st t data := by
  intro n
  induction n with
  | zero => intro _ _ _ _ h; omega
  | succ m ih =>
    intro st t data hinv hmu
    unfold twLoop
    by_cases herr : t.err = true
    · simp [herr]
    · have herrf : t.err = false := by simpa using herr
      simp only [herr, Bool.false_eq_true, if_false]
      by_cases hneg : (t.expecting - ((t.buffer.getD []).length : Int)) < 0
      · simp [hneg]
      · simp only [hneg, if_false]
        by_cases hlt : (data.length : Int) < t.expecting - ((t.buffer.getD []).length : Int)
        · simp [hlt]
        · simp only [hlt, if_false]
          have hrest : (data.drop (t.expecting - ((t.buffer.getD []).length : Int)).toNat).length
              = data.length - (t.expecting - ((t.buffer.getD []).length : Int)).toNat := List.length_drop
          by_cases hw : t.writingEnvelope = true
          · -- an envelope has been completed: at least one of its bytes came with this call
            obtain ⟨hexp, hgot⟩ := hinv herrf hw
            simp only [hw, if_true]
            split
            · split
              · rfl
              · split
                · rfl
                · apply ih
                  · intro _ h; simp at h
                  · unfold muT at hmu ⊢
                    simp only [hw, if_true, Bool.false_eq_true, if_false, hrest] at hmu ⊢
                    rw [hexp]
                    omega
            · rfl
          · have hwf : t.writingEnvelope = false := by simpa using hw
            simp only [hwf, Bool.false_eq_true, if_false]
            have hwr := fun tt => twFlushMessage_writer w tb st tt
            generalize hr : twFlushMessage w tb st _ = r
            have hwr' : r.2.2.1 = none → r.2.2.2 = false → (r.2.1.err = true ∨ r.2.1.buffer = some []) := by
              rw [← hr]; exact hwr _
            obtain ⟨s1, t1, err, p⟩ := r
            simp only at hwr' ⊢
            by_cases hp : p = true
            · simp [hp]
            · have hpf : p = false := by simpa using hp
              simp only [hp, Bool.false_eq_true, if_false]
              cases err with
              | some e => rfl
              | none =>
                simp only
                split
                · rfl
                · rcases hwr' rfl hpf with hlatched | hempty
                  · -- end of stream handled: the writer is latched, the next round returns at once
                    have hm : ∃ m', m = m' + 1 := by
                      unfold muT at hmu; simp only [hwf, Bool.false_eq_true, if_false] at hmu
                      exact ⟨m - 1, by omega⟩
                    obtain ⟨m', rfl⟩ := hm
                    rw [twLoop_err w tb m' _ _ _ (by simpa using hlatched), twLoop_err w tb (m' + 1) _ _ _ (by simpa using hlatched)]
                  · apply ih
                    · intro _ _; simp [hempty]
                    · unfold muT at hmu ⊢
                      simp only [hwf, Bool.false_eq_true, if_false, if_true, hrest] at hmu ⊢
                      omega

theorem twReset_inv (st : St) (t : TW) (hw : t.writingEnvelope = false) : TwInv (twReset st t) := by
  unfold twReset
  split
  · intro _ _; exact ⟨rfl, by simp⟩
  · intro _ h; simp only at h; rw [hw] at h; cases h

/-- Whatever `flushMessage` returns as the writer satisfies the invariant. -/
theorem twFlushMessage_writer_inv (w : World) (tb : Tables) (st : St) (t : TW) (hw : t.writingEnvelope = false) :
    TwInv (twFlushMessage w tb st t).2.1 := by
  have hv : ∀ (t' : TW), t'.writingEnvelope = false → TwInv t' := by
    intro t' h _ h2; rw [h] at h2; cases h2
  unfold twFlushMessage
  simp only
  split
  · split
    · exact hv _ hw
    · exact hv _ hw
  · split
    · exact hv _ hw
    · cases hce : st.op.clientEnveloper with
      | none =>
        simp only [Option.isSome_none, Bool.false_eq_true, if_false, Bool.or_self]
        split
        · exact hv _ hw
        · exact twReset_inv _ t hw
      | some ce =>
        simp only
        split
        · exact hv _ hw
        · simp only
          split
          · exact hv _ hw
          · split
            · exact hv _ hw
            · split
              · exact hv _ hw
              · exact twReset_inv _ t hw

/-- The fuel `twWrite` gives its loop is always enough. -/
theorem twLoop_enough (w : World) (tb : Tables) (st : St) (t : TW) (data : Bytes) (hinv : TwInv t) :
    ∀ k, twLoop w tb (2 * data.length + 4 + k) st t data = twLoop w tb (2 * data.length + 4) st t data := by
  intro k
  induction k with
  | zero => rfl
  | succ k ih =>
    rw [← ih]
    have hmu : muT t data < 2 * data.length + 4 + k := by
      unfold muT; split <;> omega
    exact (twLoop_fuel w tb _ st t data hinv hmu).symm

/-- `reset` establishes the invariant (enveloped backend: expecting five bytes, nothing buffered). -/
example : TwInv { buffer := some [], expecting := 5, writingEnvelope := true } := by
  intro _ _; exact ⟨rfl, by decide⟩

/-- The invariant is kept by the loop itself (unless the handler's goroutine panicked, after which
    nothing runs any more), so it holds before every later `Write` of the same response. -/
theorem twLoop_keeps_inv (w : World) (tb : Tables) : ∀ (n : Nat) (st : St) (t : TW) (data : Bytes),
    TwInv t → (twLoop w tb n st t data).2.2.2 = false → TwInv (twLoop w tb n st t data).2.1 := by
  intro n
  induction n with
  | zero => intro st t data _ h; simp [twLoop] at h
  | succ m ih =>
    intro st t data hinv
    unfold twLoop
    by_cases herr : t.err = true
    · simp only [herr, if_true]; exact fun _ => hinv
    · have herrf : t.err = false := by simpa using herr
      simp only [herr, Bool.false_eq_true, if_false]
      by_cases hneg : (t.expecting - ((t.buffer.getD []).length : Int)) < 0
      · simp [hneg]
      · simp only [hneg, if_false]
        by_cases hlt : (data.length : Int) < t.expecting - ((t.buffer.getD []).length : Int)
        · simp only [hlt, if_true]
          intro _ _ hw
          simp only at hw ⊢
          obtain ⟨hexp, hgot⟩ := hinv herrf hw
          refine ⟨hexp, ?_⟩
          simp only [Option.getD_some, List.length_append]
          rw [hexp] at hlt
          omega
        · simp only [hlt, if_false]
          by_cases hw : t.writingEnvelope = true
          · simp only [hw, if_true]
            split
            · split
              · intro _ _ _; exact ⟨(hinv herrf hw).1, by simp⟩
              · split
                · intro _ _ _; exact ⟨(hinv herrf hw).1, by simp⟩
                · apply ih; intro _ h; simp at h
            · intro h; simp at h
          · have hwf : t.writingEnvelope = false := by simpa using hw
            simp only [hwf, Bool.false_eq_true, if_false]
            have hwr := fun tt => twFlushMessage_writer w tb st tt
            generalize hr : twFlushMessage w tb st _ = r
            have hwr' : r.2.2.1 = none → r.2.2.2 = false → (r.2.1.err = true ∨ r.2.1.buffer = some []) := by
              rw [← hr]; exact hwr _
            have ht1 : TwInv r.2.1 := by
              rw [← hr]; exact twFlushMessage_writer_inv w tb st _ rfl
            obtain ⟨s1, t1, err, p⟩ := r
            simp only at hwr' ht1 ⊢
            by_cases hp : p = true
            · simp [hp]
            · have hpf : p = false := by simpa using hp
              simp only [hp, Bool.false_eq_true, if_false]
              cases err with
              | some e =>
                simp only
                intro _
                exact ht1
              | none =>
                simp only
                split
                · intro _
                  exact ht1
                · apply ih
                  rcases hwr' rfl hpf with hl | he
                  · intro h; simp [hl] at h
                  · intro _ _; simp [he]

end Vanguard.C11
