import Vanguard.Model.Pool
import Vanguard.Model.Run
import Vanguard.Gen.Facts
/-!
  # C15 — the outcome of an RPC is independent of earlier traffic

  The end-to-end model `serve` (`Model/Run`) is a function of the configuration, the request and
  the backend script: it has no state that survives a request.  The real `Transcoder` does keep
  state between requests - pooled buffers and pooled stateful (de)compressors.  The theorems below
  are about the model of exactly that state (`Model/Pool`): whatever earlier traffic did to the
  pools, a buffer taken from the pool behaves like a new one and a pooled (de)compressor computes
  the pure function the end-to-end model uses.  That is the refinement step which justifies the
  history-free end-to-end model; the correspondence for it is the `history` stream (every request is
  served by a long-lived Transcoder and by a fresh one; both must equal the model's result).
-/
namespace Vanguard.C15
open Vanguard

/-- A buffer from the pool is empty, whatever is in the pool and whichever one comes back. -/
theorem get_data_nil (p : Pool) (pick : Option Nat) : (p.get pick).1.data = [] := by
  unfold Pool.get
  cases pick with
  | none => rfl
  | some i =>
    simp only
    cases p.items[i]? with
    | none => rfl
    | some b => rfl

/-- The operations vanguard performs on a buffer see its contents only, never the garbage behind
    them. -/
theorem ops_data_congr (ops : List BufOp) : ∀ (b1 b2 : Buf), b1.data = b2.data →
    (ops.foldl Buf.apply b1).data = (ops.foldl Buf.apply b2).data := by
  induction ops with
  | nil => intro b1 b2 h; exact h
  | cons op rest ih =>
    intro b1 b2 h
    simp only [List.foldl_cons]
    apply ih
    cases op with
    | write x => simp [Buf.apply, Buf.write, h]
    | reset => simp [Buf.apply, Buf.reset]
    | truncate n => simp [Buf.apply, Buf.truncate, h]

/-- **After any history of gets, puts (of buffers with any contents, any capacity) and collections,
    a buffer obtained from the pool is indistinguishable from a newly allocated one**, for every
    sequence of buffer operations and every choice the runtime makes. -/
theorem pooled_buffer_like_fresh (history : List PoolOp) (pick : Option Nat) (ops : List BufOp) :
    (ops.foldl Buf.apply ((history.foldl Pool.step {}).get pick).1).data
      = (ops.foldl Buf.apply ({} : Buf)).data :=
  ops_data_congr ops _ _ (get_data_nil _ _)

/-- Over-sized buffers never enter the pool (`maxRecycleBufferSize`). -/
theorem put_bounded (p : Pool) (b : Buf) (h : ∀ x ∈ p.items, x.cap ≤ maxRecycle) :
    ∀ x ∈ (p.put b).items, x.cap ≤ maxRecycle := by
  unfold Pool.put
  split
  · exact h
  · intro x hx
    simp only [List.mem_cons] at hx
    rcases hx with rfl | hx
    · omega
    · exact h x hx

/-- **A pooled compressor computes the pure function**, whatever state its previous user left it
    in (half-written input, closed or not). -/
theorem pooledCompress_pure (f : Bytes → Bytes) (c : Comp) (src : Bytes) :
    (pooledCompress f c src).1 = f src := by
  simp [pooledCompress]

/-- A chain of compressions on one pooled compressor: the k-th output depends on the k-th input
    only. -/
def compressChain (f : Bytes → Bytes) : Comp → List Bytes → List Bytes
  | _, [] => []
  | c, src :: rest => let r := pooledCompress f c src; r.1 :: compressChain f r.2 rest

theorem compressChain_pure (f : Bytes → Bytes) (srcs : List Bytes) : ∀ c : Comp,
    compressChain f c srcs = srcs.map f := by
  induction srcs with
  | nil => intro c; rfl
  | cons s rest ih => intro c; simp [compressChain, pooledCompress_pure, ih]

/-- The pure decompression with a limit that the end-to-end model uses (`Model/Serve`). -/
def pureDecompress (g : Bytes → Option Bytes) (src : Bytes) (limit : Nat) : Except DecompErr Bytes :=
  match g src with
  | none => .error .corrupt
  | some all => if all.length > limit then .error .limit else .ok all

/-- **A pooled decompressor computes the pure function**, also right after a use that failed on
    corrupt data or was cut short by the limit. -/
theorem pooledDecompress_pure (g : Bytes → Option Bytes) (d : Decomp) (src : Bytes) (limit : Nat) :
    (pooledDecompress g d src limit).1 = pureDecompress g src limit := by
  unfold pooledDecompress pureDecompress
  cases g src with
  | none => rfl
  | some all =>
    simp only
    by_cases h : all.length > limit
    · have : (all.take (limit + 1)).length > limit := by simp [List.length_take]; omega
      rw [if_pos this, if_pos h]
    · have h1 : all.take (limit + 1) = all := List.take_of_length_le (by omega)
      rw [h1, if_neg h, if_neg h]

/-- ... and that pure function is the one the end-to-end model calls (`decompressLimited`). -/
theorem pooledDecompress_refines_model (w : World) (z : Bytes) (d : Decomp) (src : Bytes) (limit : Nat) :
    (match (pooledDecompress (w.decompress z) d src limit).1 with
      | .ok r => Except.ok r
      | .error .corrupt => Except.error Err.other
      | .error .limit => Except.error (Err.rpc 8)) = decompressLimited w z src limit := by
  rw [pooledDecompress_pure]
  unfold pureDecompress decompressLimited
  cases w.decompress z src with
  | none => rfl
  | some all =>
    simp only
    by_cases h : all.length > limit
    · rw [if_pos h, if_pos h]
    · rw [if_neg h, if_neg h]

def decompressChain (g : Bytes → Option Bytes) : Decomp → List (Bytes × Nat) → List (Except DecompErr Bytes)
  | _, [] => []
  | d, (src, limit) :: rest =>
    let r := pooledDecompress g d src limit
    r.1 :: decompressChain g r.2 rest

/-- Any sequence of decompressions - valid, corrupt, over the limit - on one pooled decompressor:
    each result depends on its own input only. -/
theorem decompressChain_pure (g : Bytes → Option Bytes) (reqs : List (Bytes × Nat)) : ∀ d : Decomp,
    decompressChain g d reqs = reqs.map fun r => pureDecompress g r.1 r.2 := by
  induction reqs with
  | nil => intro d; rfl
  | cons r rest ih =>
    intro d
    obtain ⟨src, limit⟩ := r
    simp [decompressChain, pooledDecompress_pure, ih]

/-- The end-to-end model of a Transcoder serving a history and then a probe: by construction the
    probe's observation does not mention the history (the Transcoder is immutable after
    `NewTranscoder` apart from the pools treated above). -/
def serveAfter (w : World) (_history : List Scenario) (probe : Scenario) : Obs := serve w probe

theorem serveAfter_fresh (w : World) (history : List Scenario) (probe : Scenario) :
    serveAfter w history probe = serveAfter w [] probe := rfl

/-- Non-vacuity: a pool that really holds a dirty buffer, and a compressor with pending input. -/
example : ((({} : Pool).put { data := [1, 2, 3], stale := [9] }).get (some 0)).1 = { data := [], stale := [1, 2, 3, 9] } := by
  decide
example : (pooledCompress (rleCompress 0x5A) { pending := [7, 7, 7], ready := false } [1, 1]).1 = [0x5A, 2, 1] := by
  decide
example : (pooledDecompress (rleDecompress 0x5A) { out := [5], bad := true } [0x5A, 3, 8] 2).1 = .error .limit := by
  rfl


/-- The recycling bound of the pool model is the constant in `buffers.go` as the source reads now
    (regenerated by `/verif/extract` on every run). -/
theorem source_recycle_bound_is_model : Gen.maxRecycleBufferSize = maxRecycle := by decide

end Vanguard.C15
