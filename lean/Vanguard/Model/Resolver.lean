import Vanguard.Model.Basic
/-!
  Model of `type_resolver.go` and of the type choice in `Transcoder.registerMethod`: which message
  type a method's request / response is given, depending on how the service's schema was loaded.

  A message type is identified by the *copy* of the schema its descriptor belongs to (generated
  code and every freshly built file are different copies of the same content; fields of one copy
  cannot be used on messages of another).  `declared` is the copy the service was registered with.
-/
namespace Vanguard.Resolver

/-- Outcome of `FindMessageByName` on one resolver. -/
inductive Find where
  | found (copy : Nat)
  | notFound
  | failed                 -- any other error
  deriving Repr, DecidableEq

/-- `fallbackResolver.FindMessageByName` over the outcomes of its resolvers in order: the first
    that finds the name wins, otherwise the error of the last one (`NotFound` for an empty list). -/
def fallbackFind : List Find → Find
  | [] => .notFound
  | .found c :: _ => .found c
  | e :: rest =>
    match rest with
    | [] => e
    | _ => fallbackFind rest

inductive TypeChoice where
  | resolved (copy : Nat)     -- the resolver's type
  | dynamic (copy : Nat)      -- `dynamicpb.NewMessageType` of the declared descriptor
  deriving Repr, DecidableEq

def TypeChoice.copy : TypeChoice → Nat
  | .resolved c => c
  | .dynamic c => c

/-- `registerMethod`: the resolver's type if it is for the declared descriptor, a dynamic type of
    the declared descriptor if the resolver does not know the name or knows another copy, an
    error only for a resolver failure other than "not found". -/
def chooseType (declared : Nat) : Find → Option TypeChoice
  | .found c => if c == declared then some (.resolved c) else some (.dynamic declared)
  | .notFound => some (.dynamic declared)
  | .failed => none

/-- How a service's schema reached `NewTranscoder`. -/
structure Load where
  declared : Nat                 -- the copy of the schema the service descriptor belongs to
  hasParent : Bool               -- `ParentFile() != nil`
  sameFileInGlobal : Bool        -- the global registry holds this very file under its path
  global : Option Nat            -- the copy the global type registry has for the message name (if any)
  registerOk : Bool              -- a bespoke registry could be built from the file
  custom : Option Find := none   -- `WithTypeResolver`: what the custom resolver answers
  deriving Repr

/-- `resolverForService` / `resolverForFile` / `canUseGlobalTypes`, applied to one message name of
    the service: the outcomes the chosen resolver produces. -/
def Load.find (l : Load) : Find :=
  let globalFind : Find := match l.global with | some c => .found c | none => .notFound
  match l.custom with
  | some f => f
  | none =>
    if l.hasParent && l.sameFileInGlobal && l.global == some l.declared then globalFind      -- canUseGlobalTypes
    else if !l.hasParent then globalFind                                                      -- no file to build from
    else if !l.registerOk then globalFind
    else fallbackFind [.found l.declared, globalFind]     -- dynamic types of the file, then global

/-- The message type a method ends up with. -/
def Load.messageType (l : Load) : Option TypeChoice := chooseType l.declared l.find

end Vanguard.Resolver
