import Vanguard.Model.Config
import Vanguard.Model.Handle
/-!
  Model of the REST binding (`protocol_rest.go`, `protocol_http.go: httpEncodePathValues,
  httpSplitVar`, `params.go: setParameter / getParameter / isParameterType`, `router.go:
  computeVarValues`): how a request message becomes path, query string and body of a REST request
  and how a REST request becomes a request message.

  A message is its list of populated scalar leaves `(field path in proto names, canonical text)`,
  repeated fields contributing one entry per element in order.  The scalar text codecs
  (`marshalFieldValue` / `unmarshalFieldValue`: strconv, encoding/json, base64) and the JSON body
  codec are outside; texts of ill-typed values are recognised by `validText`, which mirrors
  `json.Unmarshal` into the Go integer / bool types for the kinds modelled.
-/
namespace Vanguard.Rest
open Vanguard Vanguard.Cfg

abbrev Leaves := List (Bytes × Bytes)

inductive RErr where
  | invalid          -- connect invalid_argument
  | other            -- any other error (reported as unknown)
  | notFound         -- no route
  deriving Repr, DecidableEq

structure Rule where
  httpMethod : Bytes
  template : Bytes
  body : Bytes       -- "" = no body, "*" = whole message, else a field of the request
  deriving Repr

def valuesOf (m : Leaves) (p : Bytes) : List Bytes := (m.filter (·.1 == p)).map (·.2)

/-- Leaves at or below field path `p`. -/
def under (m : Leaves) (p : Bytes) : Leaves := m.filter fun l => l.1 == p || (p ++ [0x2E]).isPrefixOf l.1

def kString : Bytes := [0x73, 0x74, 0x72, 0x69, 0x6E, 0x67]
def kInt32 : Bytes := [0x69, 0x6E, 0x74, 0x33, 0x32]
def kInt64 : Bytes := [0x69, 0x6E, 0x74, 0x36, 0x34]
def kBool : Bytes := [0x62, 0x6F, 0x6F, 0x6C]
def kUint32 : Bytes := [0x75, 0x69, 0x6E, 0x74, 0x33, 0x32]
def kMessage : Bytes := [0x6D, 0x65, 0x73, 0x73, 0x61, 0x67, 0x65]
def kBytes : Bytes := [0x62, 0x79, 0x74, 0x65, 0x73]

def tTrue : Bytes := [0x74, 0x72, 0x75, 0x65]
def tFalse : Bytes := [0x66, 0x61, 0x6C, 0x73, 0x65]
def tNull : Bytes := [0x6E, 0x75, 0x6C, 0x6C]

/-- `marshalFieldValue` of an unset singular field. -/
def defaultText (f : FieldD) : Bytes :=
  if f.kind == kInt32 || f.kind == kInt64 || f.kind == kUint32 then [0x30] else if f.kind == kBool then tFalse else []

def isJsonSpace (c : UInt8) : Bool := c == 0x20 || c == 0x09 || c == 0x0A || c == 0x0D

def trimJson (b : Bytes) : Bytes := ((b.dropWhile isJsonSpace).reverse.dropWhile isJsonSpace).reverse

def decimalVal (ds : Bytes) : Nat := ds.foldl (fun acc c => acc * 10 + (c.toNat - 48)) 0

/-- `json.Unmarshal(text, &x)` for an integer `x` with the given bounds: `some v` = accepted as `v`.
    A JSON integer literal (no leading zeros, no fraction or exponent) within range, surrounded by
    optional JSON white space; the literal `null` is rejected (`unmarshalScalar`). -/
def jsonInt (lo hi : Int) (text : Bytes) : Option Int :=
  let t := trimJson text
  if t == tNull then none else
  let (neg, ds) : Bool × Bytes := match t with
    | 0x2D :: rest => (true, rest)
    | _ => (false, t)
  if ds.isEmpty || !ds.all (fun c => 0x30 ≤ c && c ≤ 0x39) then none else
  if ds.length > 1 && ds.head? == some 0x30 then none else
  let v : Int := if neg then -(decimalVal ds : Int) else (decimalVal ds : Int)
  if lo ≤ v && v ≤ hi then some v else none

def intText (v : Int) : Bytes := (toString v).toUTF8.toList

/-! base64 for `bytes` parameters (`params.go`): written with `base64.URLEncoding` (padded); read with
    the URL alphabet when the text contains `-` or `_`, else the standard alphabet, and without padding
    when the length of the text is not a multiple of four. -/

def b64StdVal (c : UInt8) : Option Nat :=
  if c == 0x2B then some 62 else if c == 0x2F then some 63
  else if c == 0x2D || c == 0x5F then none else b64Val c

/-- `base64.URLEncoding.EncodeToString`. -/
def b64UrlPadEncode (v : Bytes) : Bytes :=
  let raw := b64RawUrlEncode v
  raw ++ List.replicate ((4 - raw.length % 4) % 4) 0x3D

/-- `unmarshalFieldValue` for `bytes` (Go's decoder skips CR and LF; trailing bits are not checked). -/
def bytesParamDecode (text : Bytes) : Option Bytes :=
  let val := if text.any (fun c => c == 0x2D || c == 0x5F) then b64Val else b64StdVal
  let t := text.filter (fun c => c != 0x0D && c != 0x0A)
  if text.length % 4 != 0 then
    -- no padding expected: `=` is not in the alphabet
    (t.mapM val).bind b64RawUrlDecodeVals
  else
    if t.length % 4 != 0 then none else
    let body := (t.reverse.dropWhile (· == 0x3D)).reverse
    let pad := t.length - body.length
    if pad > 2 then none else
    (body.mapM val).bind b64RawUrlDecodeVals

/-- The text of a populated scalar as it is written into a path or query parameter. -/
def paramText (f : FieldD) (canon : Bytes) : Bytes := if f.kind == kBytes then b64UrlPadEncode canon else canon

/-- `unmarshalFieldValue` for the kinds modelled: `some canonical` = accepted with that value. -/
def validText (f : FieldD) (text : Bytes) : Option Bytes :=
  if f.kind == kString then some text
  else if f.kind == kInt32 then (jsonInt (-2147483648) 2147483647 text).map intText
  else if f.kind == kInt64 then (jsonInt (-9223372036854775808) 9223372036854775807 text).map intText
  else if f.kind == kUint32 then
    -- an unsigned target takes no sign at all (`-0` is rejected), and nothing beyond 2^32-1
    if (trimJson text).head? == some 0x2D then none else (jsonInt 0 4294967295 text).map intText
  else if f.kind == kBool then
    let t := trimJson text
    if t == tTrue then some tTrue else if t == tFalse then some tFalse else none
  else if f.kind == kBytes then bytesParamDecode text
  else none

/-- Proto3 scalars without presence: a default value is not a populated leaf. -/
def isDefault (f : FieldD) (canon : Bytes) : Bool := canon == defaultText f

/-! ### message → REST request (`httpEncodePathValues`) -/

/-- `httpSplitVar`. -/
def splitVar (value : Bytes) (multi : Bool) : List Bytes :=
  if !multi then [pathEscape .single value] else (splitOnByte 0x2F value).map (pathEscape .multi)

def varSize (v : PVar) : Option Nat := v.stop.map (· - v.start)      -- none = -1

/-- Place the parts of one variable into the segments. -/
def placeParts (segs : List Bytes) (start : Nat) : Nat → List Bytes → Option (List Bytes)
  | _, [] => some segs
  | i, part :: rest =>
    let idx := start + i
    if idx ≥ segs.length then placeParts (segs ++ [part]) start (i + 1) rest
    else
      let seg := segs[idx]!
      if seg == starSeg || seg == dstarSeg then placeParts (segs.set idx part) start (i + 1) rest
      else if seg == part then placeParts segs start (i + 1) rest
      else none

structure Encoded where
  path : Bytes                      -- escaped path
  query : List (Bytes × Bytes)      -- (JSON-name path, text), sorted by key, values of one key in order
  body : Option Leaves              -- leaves carried by the body (none = no body)
  deriving Repr

/-- JSON-name spelling of a proto-name field path. -/
def jsonPath (sch : Schema) (msg : Bytes) (p : Bytes) : Bytes :=
  match fieldPathOk sch msg p with
  | some fs => joinWith 0x2E (fs.map fun f => if f.json.isEmpty then f.name else f.json)
  | none => p

/-- Lexicographic order on byte strings (Go's string `<`). -/
def bytesLt : Bytes → Bytes → Bool
  | [], [] => false
  | [], _ :: _ => true
  | _ :: _, [] => false
  | a :: as, b :: bs => a < b || (a == b && bytesLt as bs)

def insertSorted (kv : Bytes × Bytes) : List (Bytes × Bytes) → List (Bytes × Bytes)
  | [] => [kv]
  | x :: rest => if bytesLt kv.1 x.1 then kv :: x :: rest else x :: insertSorted kv rest

def sortQuery (q : List (Bytes × Bytes)) : List (Bytes × Bytes) := q.foldl (fun acc kv => insertSorted kv acc) []

def restEncode (sch : Schema) (msg : Bytes) (r : Rule) (m : Leaves) : Except RErr Encoded :=
  match parseTemplate r.template with
  | none => .error .other
  | some t =>
    -- path variables in order; `used p` = how often field path p has been consumed so far
    let step (acc : Except RErr (List Bytes × List Bytes)) (v : PVar) : Except RErr (List Bytes × List Bytes) :=
      match acc with
      | .error e => .error e
      | .ok (segs, used) =>
        match fieldPathOk sch msg v.fieldPath with
        | none => .error .other
        | some fs =>
          match fs.getLast? with
          | none => .error .other
          | some f =>
            if f.kind == kMessage || f.message.isSome then .error .other else      -- marshalFieldWKT: unsupported message type
            let value := paramText f ((valuesOf m v.fieldPath).head?.getD (defaultText f))
            let size := varSize v
            let parts := splitVar value (size != some 1)
            let sizeBad := match size with
              | some n => n > 1 && parts.length != n
              | none => false
            if sizeBad then .error .other else
            match placeParts segs v.start 0 parts with
            | none => .error .other
            | some segs' =>
              -- an unbounded variable whose value has fewer parts than its pattern has segments
              if size.isNone && v.start + parts.length < segs'.length then .error .other
              else .ok (segs', v.fieldPath :: used)
    match t.vars.foldl step (.ok (t.segs, [])) with
    | .error e => .error e
    | .ok (segs, used) =>
      let path := (segs.flatMap fun sg => 0x2F :: sg) ++ (if t.verb.isEmpty then [] else 0x3A :: t.verb)
      if r.body == [0x2A] then .ok { path := path, query := [], body := some m }
      else
        -- everything that is neither a consumed path variable nor inside the body goes to the query
        let inBody (p : Bytes) : Bool := !r.body.isEmpty && (p == r.body || (r.body ++ [0x2E]).isPrefixOf p)
        let rest := m.filter fun l => !inBody l.1
        -- a populated field that is not a parameter type (here: a repeated message) cannot be URL-encoded
        let bad := rest.any fun l =>
          match fieldPathOk sch msg l.1 with
          | some fs => match fs.getLast? with
            | some f => f.message.isSome
            | none => true
          | none => true
        if bad then .error .other else
        let q := rest.filter fun l =>
          match fieldPathOk sch msg l.1 with
          | some fs => match fs.getLast? with
            | some f => f.repeated || !used.contains l.1
            | none => false
          | none => false
        let body : Option Leaves := if r.body.isEmpty then none else some (under m r.body)
        let textOf (l : Bytes × Bytes) : Bytes :=
          match (fieldPathOk sch msg l.1).bind (·.getLast?) with
          | some f => paramText f l.2
          | none => l.2
        .ok { path := path, query := sortQuery (q.map fun l => (jsonPath sch msg l.1, textOf l)), body := body }

/-! ### REST request → message (`prepareUnmarshalledRequest`) -/

/-- `resolvePathToFieldDescriptors(..., fromJSON = true)`: each component by JSON name, then by
    proto name. -/
def resolveJSON (sch : Schema) : Nat → Bytes → List Bytes → Option (List FieldD)
  | 0, _, _ => none
  | _, _, [] => some []
  | fuel + 1, msg, part :: rest =>
    let fields := sch.fieldsOf msg
    let f? := match fields.find? (fun f => (if f.json.isEmpty then f.name else f.json) == part) with
      | some f => some f
      | none => fields.find? (·.name == part)
    match f? with
    | none => none
    | some f =>
      if rest.isEmpty then some [f] else
      if f.repeated || f.isMap then none else
      match f.message with
      | none => none
      | some child => (resolveJSON sch fuel child rest).map (f :: ·)

def protoPath (fs : List FieldD) : Bytes := joinWith 0x2E (fs.map (·.name))

/-- `setParameter`: singular fields are overwritten, repeated ones appended to. -/
def setLeaf (m : Leaves) (fs : List FieldD) (text : Bytes) : Except RErr Leaves :=
  match fs.getLast? with
  | none => .error .other
  | some f =>
    if f.message.isSome then .error .invalid else      -- unsupported message type: invalid parameter
    match validText f text with
    | none => .error .invalid
    | some canon =>
      let p := protoPath fs
      if f.repeated then .ok (m ++ [(p, canon)])
      else
        let m' := m.filter (·.1 != p)
        .ok (if isDefault f canon then m' else m' ++ [(p, canon)])

/-- Leaves in a canonical order for comparison: by field path (stable). -/
def canonLeaves (m : Leaves) : Leaves := m.foldl (fun acc kv => insertSorted kv acc) []

def restDecode (sch : Schema) (msg : Bytes) (r : Rule) (httpMethod epath : Bytes)
    (query : List (Bytes × List Bytes)) (bodyLeaves : Leaves) : Except RErr Leaves :=
  match parseTemplate r.template with
  | none => .error .notFound
  | some t =>
    let route : Route := { segs := t.segs, verb := t.verb, method := r.httpMethod, idx := 0, tmpl := t }
    match routeMatch [route] epath httpMethod with
    | .found _ vars =>
      -- body first
      let m0 : Leaves := if r.body.isEmpty then [] else bodyLeaves
      -- then the path variables, last one first
      let pairs := (t.vars.zip vars).reverse
      let m1 : Except RErr Leaves := pairs.foldl (fun acc (v, value) =>
        match acc with
        | .error e => .error e
        | .ok m =>
          match fieldPathOk sch msg v.fieldPath with
          | some fs => setLeaf m fs value
          | none => .error .other) (.ok m0)
      -- then the query parameters, sorted by name
      let keys := (query.map (·.1)).foldl (fun acc k => if acc.contains k then acc else acc ++ [k]) []
      let sortedKeys := (keys.foldl (fun acc k => insertSorted (k, []) acc) []).map (·.1)
      sortedKeys.foldl (fun acc k =>
        match acc with
        | .error e => .error e
        | .ok m =>
          if k.isEmpty then .error .other else
          let parts := splitOnByte 0x2E k
          if parts.any List.isEmpty then .error .other else
          match resolveJSON sch (parts.length + 1) msg parts with
          | none => .error .other
          | some fs =>
            let values := (query.filter (·.1 == k)).flatMap (·.2)
            values.foldl (fun acc v => match acc with
              | .error e => .error e
              | .ok m => setLeaf m fs v) (.ok m)) m1
    | _ => .error .notFound

end Vanguard.Rest
