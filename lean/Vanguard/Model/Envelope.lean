import Vanguard.Model.Basic
/-!
  Model of the envelope codecs (`protocol_grpc.go`, `protocol_connect.go`:
  `decodeEnvelope` / `encodeEnvelope` of the six enveloped protocol handlers).
-/
namespace Vanguard

structure Envelope where
  trailer : Bool := false
  compressed : Bool := false
  length : Nat := 0          -- uint32
  deriving Repr, DecidableEq

/-- The enveloped protocol handlers. -/
inductive Enveloper where
  | grpcClient | grpcServer | grpcWebClient | grpcWebServer | connectStreamClient | connectStreamServer
  deriving Repr, DecidableEq

def be32 (n : Nat) : Bytes :=
  [UInt8.ofNat (n / 16777216 % 256), UInt8.ofNat (n / 65536 % 256), UInt8.ofNat (n / 256 % 256), UInt8.ofNat (n % 256)]

def fromBe32 (a b c d : UInt8) : Nat := a.toNat * 16777216 + b.toNat * 65536 + c.toNat * 256 + d.toNat

/-- `decodeEnvelope` on the flag byte: `none` = error. -/
def Enveloper.decodeFlags (e : Enveloper) (flags : UInt8) : Option (Bool × Bool) :=   -- (trailer, compressed)
  match e with
  | .grpcClient | .grpcServer | .grpcWebClient | .connectStreamClient =>
    if flags != 0 && flags != 1 then none else some (false, flags == 1)
  | .grpcWebServer =>
    if flags &&& 0x7E != 0 then none else some (flags &&& 0x80 != 0, flags &&& 1 != 0)
  | .connectStreamServer =>
    if flags &&& 0xFC != 0 then none else some (flags &&& 2 != 0, flags &&& 1 != 0)

def Enveloper.decode (e : Enveloper) (flags a b c d : UInt8) : Option Envelope :=
  (e.decodeFlags flags).map fun (t, z) => { trailer := t, compressed := z, length := fromBe32 a b c d }

/-- `encodeEnvelope` flag byte. -/
def Enveloper.encodeFlags (e : Enveloper) (env : Envelope) : UInt8 :=
  let base : UInt8 := if env.compressed then 1 else 0
  match e with
  | .grpcWebClient => if env.trailer then base ||| 0x80 else base
  | .connectStreamClient => if env.trailer then base ||| 2 else base
  | _ => base

def Enveloper.encode (e : Enveloper) (env : Envelope) : Bytes := e.encodeFlags env :: be32 env.length

end Vanguard
