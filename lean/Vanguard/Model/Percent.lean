import Vanguard.Model.Basic
/-!
  Model of gRPC percent coding (`protocol_grpc.go`: `grpcPercentEncode`, `grpcPercentDecode`,
  `grpcShouldEscape`; `path_parser.go`: `ishex`, `unhex`, `validateHex`, `upperhex`).
-/
namespace Vanguard

def grpcShouldEscape (c : UInt8) : Bool := c < 0x20 || c > 0x7E || c == 0x25

def upperhex (n : UInt8) : UInt8 := if n < 10 then 0x30 + n else 0x41 + (n - 10)

def ishex (c : UInt8) : Bool :=
  (0x30 ≤ c && c ≤ 0x39) || (0x61 ≤ c && c ≤ 0x66) || (0x41 ≤ c && c ≤ 0x46)

def unhex (c : UInt8) : UInt8 :=
  if 0x30 ≤ c && c ≤ 0x39 then c - 0x30
  else if 0x61 ≤ c && c ≤ 0x66 then c - 0x61 + 10
  else if 0x41 ≤ c && c ≤ 0x46 then c - 0x41 + 10
  else 0

/-- `grpcPercentEncode` (the fast path "nothing to escape" is the identity and coincides). -/
def grpcPercentEncode : Bytes → Bytes
  | [] => []
  | c :: rest =>
    if grpcShouldEscape c then 0x25 :: upperhex (c >>> 4) :: upperhex (c &&& 15) :: grpcPercentEncode rest
    else c :: grpcPercentEncode rest

/-- `grpcPercentDecode`: validation pass and decoding pass fused (the Go code validates every
    `%` first and fails as a whole; fusing gives the same result because failure is global). -/
def grpcPercentDecode : Bytes → Option Bytes
  | [] => some []
  | 0x25 :: a :: b :: rest =>
    if ishex a && ishex b then (grpcPercentDecode rest).map (fun r => (unhex a <<< 4 ||| unhex b) :: r)
    else none
  | [0x25] => none
  | [0x25, _] => none
  | c :: rest => (grpcPercentDecode rest).map (fun r => c :: r)

end Vanguard
