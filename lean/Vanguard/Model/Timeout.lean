import Vanguard.Model.Decimal
/-!
  Model of the timeout codecs: `protocol_grpc.go` (`grpcDecodeTimeout`, `grpcEncodeTimeout`,
  `grpcTimeoutUnitLookup`, `grpcExtractTimeoutFromHeaders`), `protocol_connect.go`
  (`connectExtractTimeout`, `connectEncodeTimeout`).  Durations are `Int` nanoseconds
  (`time.Duration` is an `int64`; where Go multiplies without an overflow check the model wraps).
-/
namespace Vanguard

/-- `grpcTimeoutUnitLookup` (0 = invalid unit). -/
def grpcUnit (c : UInt8) : Int :=
  if c == 0x6E then 1                    -- 'n'
  else if c == 0x75 then 1000            -- 'u'
  else if c == 0x6D then 1000000         -- 'm'
  else if c == 0x53 then 1000000000      -- 'S'
  else if c == 0x4D then 60000000000     -- 'M'
  else if c == 0x48 then 3600000000000   -- 'H'
  else 0

inductive TimeoutRes where
  | ok (d : Int)
  | noTimeout
  | err
  deriving Repr, DecidableEq

/-- `grpcDecodeTimeout`. -/
def grpcDecodeTimeout (s : Bytes) : TimeoutRes :=
  match s.getLast? with
  | none => .noTimeout
  | some u =>
    let unit := grpcUnit u
    if unit == 0 then .err else
    match parseInt64 s.dropLast with
    | none => .err
    | some num =>
      if num < 0 then .err
      else if num > 99999999 then .err
      else if unit == 3600000000000 && num > 8 then .noTimeout
      else .ok (num * unit)

/-- Result of extracting the timeout from the request headers:
    `some none` = no timeout, `some (some d)` = timeout `d`, `none` = request rejected. -/
abbrev Extracted := Option (Option Int)

/-- `grpcExtractTimeoutFromHeaders` applied to the `Grpc-Timeout` value (`[]` = header absent).
    An effectively unbounded value (more than 8 hours) is treated as "no timeout". -/
def grpcExtractTimeout (s : Bytes) : Extracted :=
  if s.isEmpty then some none else
  match grpcDecodeTimeout s with
  | .ok d => some (some d)
  | .noTimeout => some none
  | .err => none

/-- `grpcEncodeTimeout`. -/
def grpcEncodeTimeout (d : Int) : Bytes :=
  if d ≤ 0 then [0x30, 0x6E]
  else if d < 100000000 then formatInt d ++ [0x6E]
  else if d < 100000000000 then formatInt (d / 1000) ++ [0x75]
  else if d < 100000000000000 then formatInt (d / 1000000) ++ [0x6D]
  else if d < 100000000000000000 then formatInt (d / 1000000000) ++ [0x53]
  else if d < 6000000000000000000 then formatInt (d / 60000000000) ++ [0x4D]
  else formatInt (d / 3600000000000) ++ [0x48]

/-- `connectExtractTimeout` applied to the `Connect-Timeout-Ms` value. -/
def connectExtractTimeout (s : Bytes) : Extracted :=
  if s.isEmpty then some none else
  match parseInt64 s with
  | none => none
  | some n =>
    if n < 0 then none else
    let t := wrap64 (1000000 * n)
    if Int.tdiv t 1000000 != n then some (some maxInt64) else some (some t)

/-- `connectEncodeTimeout`. -/
def connectEncodeTimeout (d : Int) : Bytes :=
  let s := formatInt (Int.tdiv d 1000000)
  if s.length > 10 then [0x39, 0x39, 0x39, 0x39, 0x39, 0x39, 0x39, 0x39, 0x39, 0x39] else s

end Vanguard
