import Vanguard.Model.Basic
/-!
  Decimal text ⇄ integers, as done by Go's `strconv.FormatInt(_, 10)` and
  `strconv.ParseInt(_, 10, 64)` (modelled explicitly and cross-checked by the leaf stream).
-/
namespace Vanguard

def digitByte (n : Nat) : UInt8 := UInt8.ofNat (48 + n % 10)

def isDigitByte (c : UInt8) : Bool := 0x30 ≤ c && c ≤ 0x39

/-- Decimal digits of a natural number, most significant first (`"0"` for 0). -/
def formatNat (n : Nat) : Bytes :=
  if n < 10 then [digitByte n] else formatNat (n / 10) ++ [digitByte n]
termination_by n
decreasing_by omega

/-- `strconv.FormatInt(n, 10)`. -/
def formatInt (n : Int) : Bytes :=
  if n < 0 then 0x2D :: formatNat n.natAbs else formatNat n.natAbs

/-- Fold of decimal digits; `none` as soon as a non-digit occurs. -/
def parseNatAcc (acc : Nat) : Bytes → Option Nat
  | [] => some acc
  | c :: rest => if isDigitByte c then parseNatAcc (acc * 10 + (c.toNat - 48)) rest else none

/-- Non-empty all-digit string to number (no bound: Go's range error is applied by the caller). -/
def parseNat (s : Bytes) : Option Nat := if s.isEmpty then none else parseNatAcc 0 s

/-- `strconv.ParseInt(s, 10, 64)`: optional sign, at least one digit, digits only, value in
    `[-2^63, 2^63)`; every error (syntax or range) is `none`. -/
def parseInt64 (s : Bytes) : Option Int :=
  match s with
  | [] => none
  | c :: rest =>
    if c == 0x2D then
      match parseNat rest with
      | some n => if n > 2^63 then none else some (-(n : Int))
      | none => none
    else
      match parseNat (if c == 0x2B then rest else s) with
      | some n => if n ≥ 2^63 then none else some (n : Int)
      | none => none

def maxInt64 : Int := 9223372036854775807

/-- Two's-complement wrap-around of an `int64` result. -/
def wrap64 (x : Int) : Int := (x + 2^63) % 2^64 - 2^63

end Vanguard
