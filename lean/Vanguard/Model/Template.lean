import Vanguard.Model.PathEscape
/-!
  Model of the path-template parser (`path_parser.go`: `parsePathTemplate`, `pathParser.*`;
  `path_scanner.go`).  The scanner's `start/pos/width` bookkeeping is replaced by returning the
  consumed and the remaining bytes; all accepted characters are ASCII, and any other byte (which
  Go would decode as a non-ASCII rune or `RuneError`) is rejected in both.
  `none` = the Go parser returns an error.
-/
namespace Vanguard

/-- `pathVariable`: `stop = none` is Go's `end == -1` (unbounded `**` capture). -/
structure PVar where
  fieldPath : Bytes
  start : Nat
  stop : Option Nat
  deriving Repr, DecidableEq

structure PState where
  segs : List Bytes := []
  vars : List PVar := []
  seen : List Bytes := []
  dstar : Bool := false
  deriving Repr

def starSeg : Bytes := [0x2A]
def dstarSeg : Bytes := [0x2A, 0x2A]

/-- `parseLiteral`: a run of literal characters, validated and re-escaped canonically. -/
def parseLiteral (inp : Bytes) : Option (Bytes × Bytes) :=
  let lit := inp.takeWhile isLiteral
  let rest := inp.dropWhile isLiteral
  if lit.isEmpty then none else
  (pathUnescape .single lit).map fun u => (pathEscape .single u, rest)

/-- `parseFieldPath`: `IDENT { "." IDENT }`. -/
def parseFieldPath : Nat → Bytes → Option (Bytes × Bytes)
  | 0, _ => none
  | _, [] => none
  | f + 1, c :: rest =>
    if isIdentStart c then
      let run := rest.takeWhile isIdent
      match rest.dropWhile isIdent with
      | 0x2E :: rest'' => (parseFieldPath f rest'').map fun (fp, r) => (c :: run ++ 0x2E :: fp, r)
      | rest' => some (c :: run, rest')
    else none

def finishVar (st : PState) (fp : Bytes) (start : Nat) (rest : Bytes) : Option (PState × Bytes) :=
  let stop := if st.dstar then none else some st.segs.length
  some ({ st with vars := st.vars ++ [{ fieldPath := fp, start := start, stop := stop }] }, rest)

mutual
/-- `parseSegments`: `Segment { "/" Segment }`; nothing may follow `**`. -/
def parseSegments : Nat → PState → Bytes → Option (PState × Bytes)
  | 0, _, _ => none
  | f + 1, st, inp =>
    match parseSegment f st inp with
    | none => none
    | some (st', rest) =>
      match rest with
      | 0x2F :: rest' => if st'.dstar then none else parseSegments f st' rest'
      | _ => some (st', rest)

/-- `parseSegment`: `"*" | "**" | LITERAL | Variable`. -/
def parseSegment : Nat → PState → Bytes → Option (PState × Bytes)
  | 0, _, _ => none
  | _, _, [] => none
  | f + 1, st, c :: rest =>
    if c == 0x2A then
      match rest with
      | 0x2A :: rest' => some ({ st with segs := st.segs ++ [dstarSeg], dstar := true }, rest')
      | _ => some ({ st with segs := st.segs ++ [starSeg] }, rest)
    else if c == 0x7B then parseVariable f st rest
    else if isLiteral c then
      (parseLiteral (c :: rest)).map fun (lit, r) => ({ st with segs := st.segs ++ [lit] }, r)
    else none

/-- `parseVariable`: `"{" FieldPath [ "=" Segments ] "}"` (the `{` is already consumed). -/
def parseVariable : Nat → PState → Bytes → Option (PState × Bytes)
  | 0, _, _ => none
  | f + 1, st, inp =>
    match parseFieldPath (inp.length + 1) inp with
    | none => none
    | some (fp, rest) =>
      if st.seen.contains fp then none else
      let st1 := { st with seen := fp :: st.seen }
      let start := st1.segs.length
      match rest with
      | 0x7D :: rest' => finishVar { st1 with segs := st1.segs ++ [starSeg] } fp start rest'
      | 0x3D :: rest' =>
        match parseSegments f st1 rest' with
        | some (st2, 0x7D :: rest'') => finishVar st2 fp start rest''
        | _ => none
      | _ => none
end

structure Template where
  segs : List Bytes
  verb : Bytes
  vars : List PVar
  deriving Repr, DecidableEq

/-- `parsePathTemplate`. -/
def parseTemplate (inp : Bytes) : Option Template :=
  match inp with
  | 0x2F :: rest =>
    match parseSegments (3 * inp.length + 4) {} rest with
    | none => none
    | some (st, []) => some { segs := st.segs, verb := [], vars := st.vars }
    | some (st, 0x3A :: rest') =>
      match parseLiteral rest' with
      | some (verb, []) => some { segs := st.segs, verb := verb, vars := st.vars }
      | _ => none
    | some _ => none
  | _ => none

end Vanguard
