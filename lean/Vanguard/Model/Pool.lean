import Vanguard.Model.World
/-!
  The only mutable state a `Transcoder` keeps between requests (`buffers.go`, `compression.go`):
  a `sync.Pool` of `*bytes.Buffer` and, per compression, pools of stateful compressors and
  decompressors.  The end-to-end model (`Model/Run`) has no such state: it uses fresh values and
  the pure functions `World.compress` / `World.decompress`.  This file models the pooled objects
  with their stale state, so that `Props/C14` and `Props/C15` can prove that the stale state is
  never observable and that the ownership discipline keeps a buffer with one holder at a time.
-/
namespace Vanguard
set_option linter.unusedVariables false

/-! ### `bytes.Buffer` with the garbage in its backing array -/

/-- `data` = the readable bytes `[0, Len)`; `stale` = whatever earlier users left behind `Len`. -/
structure Buf where
  data : Bytes := []
  stale : Bytes := []
  deriving Repr, DecidableEq

def Buf.cap (b : Buf) : Nat := b.data.length + b.stale.length

/-- `Buffer.Reset`: the contents become garbage behind the (now zero) length. -/
def Buf.reset (b : Buf) : Buf := { data := [], stale := b.data ++ b.stale }

/-- `Buffer.Write`: overwrites garbage (and grows when there is not enough of it). -/
def Buf.write (b : Buf) (x : Bytes) : Buf := { data := b.data ++ x, stale := b.stale.drop x.length }

/-- `Buffer.Truncate` / `Next`-style shortening to the first `n` bytes. -/
def Buf.truncate (b : Buf) (n : Nat) : Buf := { data := b.data.take n, stale := b.data.drop n ++ b.stale }

/-- The operations vanguard performs on a pooled buffer. -/
inductive BufOp where
  | write (x : Bytes)
  | reset
  | truncate (n : Nat)
  deriving Repr

def Buf.apply (b : Buf) : BufOp → Buf
  | .write x => b.write x
  | .reset => b.reset
  | .truncate n => b.truncate n

/-! ### `bufferPool` (`sync.Pool`: may hand back any pooled buffer, or none) -/

def maxRecycle : Nat := 8 * 1024 * 1024

structure Pool where
  items : List Buf := []
  deriving Repr

/-- `bufferPool.Get`: `pick` is the scheduler's/runtime's choice of which pooled buffer comes back
    (`none`, or an index out of range = the pool is empty or was collected: a new buffer). -/
def Pool.get (p : Pool) (pick : Option Nat) : Buf × Pool :=
  match pick with
  | none => ({}, p)
  | some i =>
    match p.items[i]? with
    | some b => (b.reset, { items := p.items.eraseIdx i })
    | none => ({}, p)

/-- `bufferPool.Put`: buffers above 8 MiB are dropped. -/
def Pool.put (p : Pool) (b : Buf) : Pool :=
  if b.cap > maxRecycle then p else { items := b :: p.items }

/-- Anything earlier traffic can do to the pool. -/
inductive PoolOp where
  | get (pick : Option Nat)
  | put (b : Buf)
  | gc                                   -- the runtime empties the pool
  deriving Repr

def Pool.step (p : Pool) : PoolOp → Pool
  | .get pick => (p.get pick).2
  | .put b => p.put b
  | .gc => {}

/-! ### stateful compressors (`connect.Compressor` / `connect.Decompressor`, gzip-like) -/

/-- A compressor object: input collected so far and whether it was `Reset` since its last `Close`. -/
structure Comp where
  pending : Bytes := []
  ready : Bool := false
  deriving Repr

/-- `compressionPool.compress(dst, src)`: `Reset(dst)`, `src.WriteTo(comp)`, `Close()`, on whatever
    compressor the pool hands out; `f` is the pure compression function. Returns what was written
    to `dst` and the compressor as it goes back to the pool. -/
def pooledCompress (f : Bytes → Bytes) (c : Comp) (src : Bytes) : Bytes × Comp :=
  let c : Comp := { pending := [], ready := true }        -- Reset
  let c : Comp := { c with pending := c.pending ++ src }  -- Write
  (f c.pending, { c with ready := false })                -- Close (state stays until the next Reset)

/-- A decompressor object: undelivered output of its previous use, failure flag. -/
structure Decomp where
  out : Bytes := []
  bad : Bool := false
  ready : Bool := false
  deriving Repr

inductive DecompErr where
  | corrupt | limit
  deriving Repr, DecidableEq

/-- `compressionPool.decompressLimited(dst, src, limit)`: `Reset(src)`, read at most `limit+1`
    bytes, fail beyond the limit, `Close()`; `g` is the pure decompression function.  Returns the
    result and the decompressor as it goes back to the pool (also after a failure: with its
    failure state, or with undelivered output when the limit cut the read short). -/
def pooledDecompress (g : Bytes → Option Bytes) (d : Decomp) (src : Bytes) (limit : Nat) :
    Except DecompErr Bytes × Decomp :=
  match g src with
  | none => (.error .corrupt, { out := [], bad := true, ready := false })          -- Reset or Read failed
  | some all =>
    let taken := all.take (limit + 1)
    let d : Decomp := { out := all.drop (limit + 1), bad := false, ready := false }
    if taken.length > limit then (.error .limit, d) else (.ok taken, d)

/-! ### ownership discipline of pooled buffers (what the `verif` pool hook records) -/

/-- `h` = the holder (an RPC, or a stage of one: request reader, response writer, a message). -/
inductive OwnEv where
  | get (h id : Nat) (recycled : Bool)   -- `Get` returned buffer `id` (from the pool / newly made)
  | put (h id : Nat)
  | drop (h id : Nat)                    -- `Wrap` replaced the buffer: it is left to the collector
  deriving Repr, DecidableEq

structure Own where
  held : List (Nat × Nat) := []   -- (holder, buffer)
  pooled : List Nat := []         -- buffers inside the `sync.Pool`, one entry per `Put`
  deriving Repr

def Own.heldIds (o : Own) : List Nat := o.held.map Prod.snd

/-- One event; `none` = a buffer ended up with two holders, or in the pool while held. -/
def Own.step (o : Own) : OwnEv → Option Own
  | .get h id recycled =>
    if o.heldIds.contains id then none                       -- handed to two holders at once
    else if recycled then
      if o.pooled.contains id then some { held := (h, id) :: o.held, pooled := o.pooled.erase id } else none
    else if o.pooled.contains id then none
    else some { o with held := (h, id) :: o.held }
  | .put h id =>
    if o.held.contains (h, id) then some { held := o.held.erase (h, id), pooled := id :: o.pooled } else none
  | .drop h id =>
    if o.held.contains (h, id) then some { o with held := o.held.erase (h, id) } else none

def Own.run (o : Own) : List OwnEv → Option Own
  | [] => some o
  | e :: rest => match o.step e with
    | none => none
    | some o' => o'.run rest

/-- What the code is obliged to do: a holder releases only what it holds itself. -/
def OwnEv.releasesHeld (o : Own) : OwnEv → Bool
  | .put h id => o.held.contains (h, id)
  | .drop h id => o.held.contains (h, id)
  | .get _ _ _ => true

/-- What `sync.Pool` guarantees: `Get` returns something that was `Put` (and takes it out), or a
    brand new object. -/
def OwnEv.poolHonest (o : Own) : OwnEv → Bool
  | .get _ id true => o.pooled.contains id
  | .get _ id false => !o.pooled.contains id && !o.heldIds.contains id
  | _ => true

/-- The obligations hold at every step of the trace (any interleaving of any number of holders). -/
def Own.disciplined (o : Own) : List OwnEv → Bool
  | [] => true
  | e :: rest => e.releasesHeld o && e.poolHonest o &&
    match o.step e with
    | none => true        -- (cannot happen when the obligations hold: `C14.step_isSome`)
    | some o' => o'.disciplined rest

def OwnEv.id : OwnEv → Nat
  | .get _ id _ => id
  | .put _ id => id
  | .drop _ id => id

/-- Buffers a recorded trace meets for the first time as recycled: they were in the pool before
    the recording started. -/
def preexistingFrom (seen pre : List Nat) : List OwnEv → List Nat
  | [] => pre
  | e :: rest =>
    if seen.contains e.id then preexistingFrom seen pre rest
    else match e with
      | .get _ id true => preexistingFrom (id :: seen) (id :: pre) rest
      | _ => preexistingFrom (e.id :: seen) pre rest

def preexisting (tr : List OwnEv) : List Nat := preexistingFrom [] [] tr

/-- The trace checker used on recorded traces (holder unknown: all events by holder 0). -/
def checkTrace (tr : List OwnEv) : Bool :=
  (({ held := [], pooled := preexisting tr } : Own).run tr).isSome

end Vanguard
