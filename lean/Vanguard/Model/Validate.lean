import Vanguard.Model.Proto
/-!
  Model of `Transcoder.ServeHTTP` up to the dispatch decision (`transcoder.go`: `classifyRequest`,
  `operation.validate`, `operation.resolveMethod` for RPC-style paths, the pass-through test).
-/
namespace Vanguard

/-- `methodConfig` + `serviceOptions`, as far as request handling reads them. -/
structure MethodConf where
  path : Bytes                  -- "/<service>/<method>"
  streamType : StreamType
  noSideEffects : Bool
  protocols : List Proto
  codecs : List Bytes           -- codecNames; head = preferredCodec
  compressors : List Bytes
  maxMsg : Nat
  maxGetURL : Nat
  deriving Repr

structure TConf where
  methods : List MethodConf
  unknownHandler : Bool
  deriving Repr

/-- The incoming request, as net/http presents it. `query` is `URL.Query()` (first values). -/
structure Req where
  method : Bytes
  path : Bytes                  -- URL.Path
  rawQuery : Bytes
  query : Query
  protoMajor : Nat
  headers : Hdr
  contentLength : Int
  deriving Repr

def sGET : Bytes := s "GET"
def sPOST : Bytes := s "POST"

/-- `classifyRequest`. `none` = could not classify (415). -/
def classifyRequest (r : Req) : Option ClientForm :=
  let cts := r.headers.values (s "Content-Type")
  let cpv := r.headers.values (s "Connect-Protocol-Version")
  let cpv1 := cpv == [[0x31]]
  let qv1 := r.query.get (s "connect") == s "v1"
  match cts with
  | [] =>
    if cpv1 then (if r.method == sGET then some .connectGet else none)
    else if qv1 then (if r.method != sGET then none else some .connectGet)
    else some .rest
  | [ct] =>
    if hasPrefix (s "application/connect+") ct then some .connectStream
    else if ct == s "application/grpc" || hasPrefix (s "application/grpc+") ct then some .grpc
    else if ct == s "application/grpc-web" || hasPrefix (s "application/grpc-web+") ct then some .grpcWeb
    else if hasPrefix (s "application/") ct then
      if cpv1 then (if r.method == sGET then some .connectGet else some .connectPost)
      else if qv1 then (if r.method != sGET then none else some .connectGet)
      else some .rest
    else some .rest
  | _ => none

/-- Why a request is answered without dispatching to a service handler. -/
inductive Reject where
  | status (code : Nat) (allow : Option Bytes)   -- plain HTTP error (`asHTTPError(err).Encode`)
  | notFound                                     -- errNotFound: 404 or the unknown-endpoint handler
  deriving Repr, DecidableEq

/-- The negotiated operation (`operation` after a successful `validate`). -/
structure Op where
  conf : MethodConf
  cform : ClientForm
  sform : ServerForm
  reqMeta : ReqMeta
  ccodec : Bytes
  scodec : Bytes
  cReqComp : Option Bytes      -- client.reqCompression (`none` = nil pool)
  sReqComp : Option Bytes      -- server.reqCompression
  headers : Hdr                -- request headers after extraction
  contentLen : Int
  query : Query
  reqMethod : Bytes
  deriving Repr

def identityName : Bytes := s "identity"

/-- `operation.resolveMethod` for RPC-style (non-REST) clients. -/
def resolveMethod (t : TConf) (c : ClientForm) (r : Req) : Except Reject MethodConf :=
  match t.methods.find? (fun m => m.path == r.path) with
  | none => .error .notFound
  | some m =>
    if r.method != sPOST then
      let allowsGet := c == .connectGet && m.noSideEffects
      if !allowsGet then .error (.status 405 (some sPOST))
      else if r.method != sGET then .error (.status 405 (some (s "GET,POST")))
      else .ok m
    else .ok m

/-- What `validate` negotiates for the target leg. -/
structure Negotiated where
  sform : ServerForm
  scodec : Bytes
  cReqComp : Option Bytes
  sReqComp : Option Bytes
  deriving Repr, DecidableEq

/-- The server protocol: the client's if the service accepts it, else the first accepted protocol in
    order of preference (`allProtocols`). -/
def pickProto (m : MethodConf) (c : ClientForm) : Proto :=
  if m.protocols.contains c.proto then c.proto
  else (allProtocols.find? (fun p => m.protocols.contains p)).getD .connect

/-- The negotiation block of `operation.validate`: target protocol, codec and request compression
    for client form `c`, client codec `codec` and (normalised) client compression `comp`.
    `none` = the target would be REST but the method has no REST binding (404). -/
def negotiate (m : MethodConf) (c : ClientForm) (codec comp : Bytes) : Option Negotiated :=
  let sproto := pickProto m c
  if sproto == .rest then none else
  some { sform := sproto.serverForm m.streamType,
         scodec := if m.codecs.contains codec then codec else m.codecs.headD [],
         cReqComp := if comp.isEmpty then none else some comp,
         sReqComp := if !comp.isEmpty && m.compressors.contains comp then some comp else none }

/-- `operation.validate`. -/
def validate (w : World) (t : TConf) (r : Req) : Except Reject Op :=
  match classifyRequest r with
  | none => .error (.status 415 none)
  | some c =>
    if c == .rest then .error .notFound else    -- no REST bindings in the modelled schema: the trie is empty
    match resolveMethod t c r with
    | .error e => .error e
    | .ok m =>
      if !c.acceptsStreamType m.streamType then .error (.status 415 none)
      else if m.streamType == .bidi && r.protoMajor < 2 then .error (.status 505 none)
      else if c.proto == .grpc && r.protoMajor != 2 then .error (.status 505 none)
      else match c.extractRequestHeaders r.query r.headers with
      | none => .error (.status 400 none)
      | some (rm, h) =>
        let enc := h.get (s "Content-Encoding")
        if !enc.isEmpty && enc != identityName then .error (.status 415 none) else
        let h := ((h.del (s "Content-Encoding")).del (s "Accept-Encoding")).del (s "Content-Length")
        let comp := if rm.compression == identityName then [] else rm.compression
        if !comp.isEmpty && !w.knownCompression comp then .error (.status 415 none)
        else if !w.knownCodec rm.codec then .error (.status 415 none)
        else
          match negotiate m c rm.codec comp with
          | none => .error .notFound
          | some n =>
            .ok { conf := m, cform := c, sform := n.sform, reqMeta := rm, ccodec := rm.codec, scodec := n.scodec,
                  cReqComp := n.cReqComp, sReqComp := n.sReqComp, headers := h, contentLen := r.contentLength,
                  query := r.query, reqMethod := r.method }

/-- The "no transformation needed" test of `ServeHTTP`. -/
def Op.passThrough (o : Op) : Bool :=
  o.cform.proto == o.sform.proto && o.ccodec == o.scodec && o.cReqComp == o.sReqComp

end Vanguard
