/-
  Basic definitions shared by every model file.  Core Lean only (no Mathlib) so that the
  driver executable links.
-/
namespace Vanguard

/-- Go strings and byte slices are byte sequences. -/
abbrev Bytes := List UInt8

def hexDigit (n : Nat) : Char :=
  if n < 10 then Char.ofNat (48 + n) else Char.ofNat (87 + n)

def toHex (b : Bytes) : String :=
  if b.isEmpty then "-" else
  String.ofList (b.flatMap fun x => [hexDigit (x.toNat / 16), hexDigit (x.toNat % 16)])

def hexVal (c : Char) : Option Nat :=
  if '0' ≤ c ∧ c ≤ '9' then some (c.toNat - 48)
  else if 'a' ≤ c ∧ c ≤ 'f' then some (c.toNat - 87)
  else if 'A' ≤ c ∧ c ≤ 'F' then some (c.toNat - 55)
  else none

def fromHexChars : List Char → Option Bytes
  | [] => some []
  | [_] => none
  | a :: b :: rest => do
    let x ← hexVal a
    let y ← hexVal b
    let r ← fromHexChars rest
    pure (UInt8.ofNat (x * 16 + y) :: r)

def fromHex (s : String) : Option Bytes :=
  if s == "-" then some [] else fromHexChars s.toList

/-- ASCII bytes of a Lean string literal (used for header names and fixed texts). -/
def str (s : String) : Bytes := s.toUTF8.toList

def bytesToString (b : Bytes) : String :=
  String.ofList (b.map fun x => Char.ofNat x.toNat)

/-- Outcome of a modelled Go call that may panic. -/
inductive Res (α : Type) where
  | ok (a : α)
  | err          -- ordinary Go error return
  | panic        -- the Go code would panic here
  deriving Repr, DecidableEq

end Vanguard
