import Vanguard.Model.Basic
/-!
  Code vanguard does not own enters the model as a `World` of functions: codecs over the abstract
  message value, compressors.  `fakeWorld` is the executable instance used by the correspondence:
  it mirrors the fake codecs and compressors the harness registers with `WithCodec` /
  `WithCompression` (harness/e2e_fakes.go), so model and implementation run the same functions.
-/
namespace Vanguard

structure World where
  knownCodec : Bytes → Bool
  /-- `Codec.Unmarshal`: payload → message value (`none` = error). -/
  decode : Bytes → Bytes → Option Bytes
  /-- `Codec.MarshalAppend`. -/
  encode : Bytes → Bytes → Bytes
  /-- implements `StableCodec` -/
  stable : Bytes → Bool
  /-- `StableCodec.IsBinary` -/
  binary : Bytes → Bool
  knownCompression : Bytes → Bool
  compress : Bytes → Bytes → Bytes
  decompress : Bytes → Bytes → Option Bytes

def rawName : Bytes := [0x72, 0x61, 0x77]
def hexaName : Bytes := [0x68, 0x65, 0x78, 0x61]
def revName : Bytes := [0x72, 0x65, 0x76]
def zName : Bytes := [0x5A]
def yName : Bytes := [0x59]

def hexNib (n : UInt8) : UInt8 := if n < 10 then 0x30 + n else 0x61 + (n - 10)

def hexEncode : Bytes → Bytes
  | [] => []
  | c :: rest => hexNib (c >>> 4) :: hexNib (c &&& 15) :: hexEncode rest

def lowerHexVal (c : UInt8) : Option UInt8 :=
  if 0x30 ≤ c && c ≤ 0x39 then some (c - 0x30)
  else if 0x61 ≤ c && c ≤ 0x66 then some (c - 0x61 + 10) else none

def hexDecode : Bytes → Option Bytes
  | [] => some []
  | [_] => none
  | a :: b :: rest => do
    let x ← lowerHexVal a
    let y ← lowerHexVal b
    let r ← hexDecode rest
    pure ((x <<< 4 ||| y) :: r)

/-- Run-length pairs `(count 1..255, byte)`. -/
def rleRuns : Nat → Bytes → List (Nat × UInt8)
  | _, [] => []
  | 0, _ => []
  | fuel + 1, c :: rest =>
    let run := (rest.takeWhile (· == c)).take 254
    (run.length + 1, c) :: rleRuns fuel (rest.drop run.length)

def rleCompress (tag : UInt8) (b : Bytes) : Bytes :=
  tag :: (rleRuns (b.length + 1) b).flatMap fun (n, c) => [UInt8.ofNat n, c]

def rleExpand : Bytes → Option Bytes
  | [] => some []
  | [_] => none
  | n :: c :: rest => if n == 0 then none else (rleExpand rest).map fun r => List.replicate n.toNat c ++ r

def rleDecompress (tag : UInt8) : Bytes → Option Bytes
  | [] => none
  | t :: rest => if t == tag then rleExpand rest else none

def protoName : Bytes := [0x70, 0x72, 0x6F, 0x74, 0x6F]

/-- Base-128 varint. -/
def varint : Nat → Nat → Bytes
  | 0, _ => []
  | fuel + 1, n => if n < 128 then [UInt8.ofNat n] else UInt8.ofNat (n % 128 + 128) :: varint fuel (n / 128)

def unvarint : Nat → Bytes → Option (Nat × Bytes)
  | 0, _ => none
  | _, [] => none
  | fuel + 1, b :: rest =>
    if b < 128 then some (b.toNat, rest)
    else (unvarint fuel rest).map fun (hi, r) => (b.toNat - 128 + 128 * hi, r)

/-- `google.protobuf.BytesValue{value}` in its canonical encoding (vanguard's built-in proto codec; the
    scenarios use it only where the service accepts it, so the transcoder itself never decodes it). -/
def protoEncode (v : Bytes) : Bytes := if v.isEmpty then [] else 0x0A :: varint 10 v.length ++ v

def protoDecode (p : Bytes) : Option Bytes :=
  match p with
  | [] => some []
  | 0x0A :: rest =>
    match unvarint 10 rest with
    | some (n, body) => if body.length == n then some body else none
    | none => none
  | _ => none

def fakeWorld : World where
  knownCodec n := n == rawName || n == hexaName || n == revName || n == protoName
  decode n p := if n == hexaName then hexDecode p else if n == revName then some p.reverse
    else if n == protoName then protoDecode p else some p
  encode n v := if n == hexaName then hexEncode v else if n == revName then v.reverse
    else if n == protoName then protoEncode v else v
  stable n := n == rawName || n == hexaName || n == protoName
  binary n := n == protoName
  knownCompression n := n == zName || n == yName || n == [0x67, 0x7A, 0x69, 0x70]   -- gzip is always registered
  compress n b := if n == zName then rleCompress 0x5A b else if n == yName then rleCompress 0x59 b else b
  decompress n b := if n == zName then rleDecompress 0x5A b else if n == yName then rleDecompress 0x59 b else none

end Vanguard
