import Vanguard.Model.Router
/-!
  Model of `NewTranscoder` (`vanguard.go`) with `registerService`, `registerMethod`,
  `registerRules`, `addRule` (`transcoder.go`), `routeTrie.addRoute`, `makeTarget`,
  `resolvePathToFieldDescriptors` (`router.go`): which configurations are accepted, and the
  immutable tables an accepted configuration yields.

  The schema (messages with their fields, services with their methods) is data of the model, so
  it is generic in it.  Go iterates over maps in several places (protocol / codec / compressor
  sets, `t.methods`, `methodRules`); when more than one thing is wrong *which* error is reported
  depends on that order, so the model returns the set of error classes that may be reported.
  Whether an error is reported at all does not depend on the order.
-/
namespace Vanguard.Cfg
open Vanguard

structure FieldD where
  name : Bytes
  repeated : Bool             -- a list (`IsList`)
  message : Option Bytes      -- message type name; none = scalar
  isMap : Bool := false       -- a map: repeated cardinality, but not a list
  kind : Bytes := []          -- scalar kind by name (`string`, `int32`, ...; used by the REST model)
  json : Bytes := []          -- JSON name
  deriving Repr, DecidableEq

structure MethodD where
  name : Bytes
  input : Bytes
  output : Bytes
  deriving Repr, DecidableEq

structure ServiceD where
  fullName : Bytes
  methods : List MethodD
  deriving Repr, DecidableEq

structure Schema where
  messages : List (Bytes × List FieldD)
  services : List ServiceD
  deriving Repr

def Schema.fieldsOf (s : Schema) (msg : Bytes) : List FieldD :=
  match s.messages.find? (·.1 == msg) with
  | some e => e.2
  | none => []

inductive SvcOpt where
  | protocols (l : List Nat)
  | codecs (l : List Bytes)
  | compress (l : List Bytes)
  | maxMsg (n : Nat)
  | maxGet (n : Nat)
  deriving Repr, DecidableEq

def nameProto : Bytes := [0x70, 0x72, 0x6F, 0x74, 0x6F]
def nameJson : Bytes := [0x6A, 0x73, 0x6F, 0x6E]
def nameGzip : Bytes := [0x67, 0x7A, 0x69, 0x70]

/-- `serviceOptions` after resolution. -/
structure SvcOpts where
  protocols : List Nat := [1, 2, 3]                           -- Connect, gRPC, gRPC-Web
  codecs : List Bytes := [nameProto, nameJson]
  preferredCodec : Bytes := nameProto
  compressors : List Bytes := [nameGzip]
  maxMsg : Nat := 4294967295
  maxGet : Nat := 8192
  deriving Repr, DecidableEq

def SvcOpts.apply (o : SvcOpts) : SvcOpt → SvcOpts
  | .protocols l => { o with protocols := l }
  | .codecs l => { o with codecs := l, preferredCodec := l.head?.getD [] }
  | .compress l => { o with compressors := l }
  | .maxMsg n => { o with maxMsg := n }
  | .maxGet n => { o with maxGet := n }

/-- Defaults first, then the service's own options: a later option overrides an earlier one. -/
def resolveOpts (defaults own : List SvcOpt) : SvcOpts := (defaults ++ own).foldl SvcOpts.apply {}

structure Binding where
  hasPattern : Bool            -- the rule carries one of get/put/post/delete/patch/custom
  httpMethod : Bytes
  template : Bytes
  body : Bytes
  respBody : Bytes
  nested : Bool                -- (additional binding) has additional bindings of its own
  deriving Repr, DecidableEq

structure Rule where
  selector : Bytes
  main : Binding
  additional : List Binding
  deriving Repr, DecidableEq

structure SvcReg where
  svc : Bytes
  opts : List SvcOpt
  deriving Repr, DecidableEq

structure Config where
  schema : Schema
  knownCodecs : List Bytes
  knownCompressors : List Bytes
  defaults : List SvcOpt
  services : List SvcReg
  rules : List Rule
  deriving Repr

inductive CfgErr where
  | noProtocols | badProtocol | noCodecs | unknownCodec | unknownCompression | badMaxMsg | badMaxGet
  | duplicateMethod | unknownService
  | missingSelector | wildcardNotAtEnd | wildcardNotWhole | ruleNoMatch
  | nestedBindings | noPattern | blankMethod | blankTemplate | badTemplate | badFieldPath | routeConflict
  | restOnlyNoRules
  deriving Repr, DecidableEq

/-- One registered method with the options of its service. -/
structure MethodReg where
  fullName : Bytes          -- pkg.Svc.Method
  path : Bytes              -- /pkg.Svc/Method
  input : Bytes
  output : Bytes
  opts : SvcOpts
  rule : Option Binding := none     -- `methodConfig.httpRule`: the first binding of the rule applied last
  deriving Repr, DecidableEq

structure RouteEntry where
  route : Route
  methodPath : Bytes
  body : Bytes
  respBody : Bytes
  varPaths : List Bytes
  deriving Repr

structure CfgTables where
  methods : List MethodReg
  routes : List RouteEntry
  deriving Repr

/-! ### registerService -/

def checkOpts (c : Config) (o : SvcOpts) : List CfgErr :=
  if o.protocols.isEmpty then [.noProtocols] else
  if o.protocols.any (fun p => !(1 ≤ p && p ≤ 4)) then [.badProtocol] else
  if o.codecs.isEmpty then [.noCodecs] else
  if o.codecs.any (fun n => !c.knownCodecs.contains n) then [.unknownCodec] else
  if o.compressors.any (fun n => !c.knownCompressors.contains n) then [.unknownCompression] else
  if o.maxMsg == 0 then [.badMaxMsg] else
  if o.maxGet == 0 then [.badMaxGet] else []

def methodConfsOf (sd : ServiceD) (o : SvcOpts) : List MethodReg :=
  sd.methods.map fun m =>
    { fullName := sd.fullName ++ [0x2E] ++ m.name, path := [0x2F] ++ sd.fullName ++ [0x2F] ++ m.name,
      input := m.input, output := m.output, opts := o }

/-- All services in order: the first failing service decides. -/
def registerServices (c : Config) : List SvcReg → List MethodReg → Except (List CfgErr) (List MethodReg)
  | [], acc => .ok acc
  | r :: rest, acc =>
    match c.schema.services.find? (·.fullName == r.svc) with
    | none => .error [.unknownService]
    | some sd =>
      let o := resolveOpts c.defaults r.opts
      match checkOpts c o with
      | e :: es => .error (e :: es)
      | [] =>
        let ms := methodConfsOf sd o
        if ms.any (fun m => acc.any (·.path == m.path)) || !(ms.map (·.path)).Nodup then .error [.duplicateMethod]
        else registerServices c rest (acc ++ ms)

/-! ### rule selectors -/

inductive Selector where
  | exact (name : Bytes)
  | «prefix» (p : Bytes)      -- `p*`: `p` is empty or ends with '.'
  deriving Repr, DecidableEq

def parseSelector (sel : Bytes) : Except CfgErr Selector :=
  if sel.isEmpty then .error .missingSelector else
  match sel.idxOf? 0x2A with
  | none => .ok (.exact sel)
  | some i =>
    if i != sel.length - 1 then .error .wildcardNotAtEnd else
    let p := sel.take (sel.length - 1)
    if !p.isEmpty && p.getLast? != some 0x2E then .error .wildcardNotWhole else .ok (.prefix p)

/-- The methods a selector binds: exactly the named one, or those below the wildcard's prefix. -/
def Selector.binds (sel : Selector) (fullName : Bytes) : Bool :=
  match sel with
  | .exact n => fullName == n
  | .prefix p => p.isPrefixOf fullName

/-! ### field paths (`resolvePathToFieldDescriptors`) -/

/-- The fields along a dotted path, `none` = the path does not resolve. -/
def resolvePath (sch : Schema) : Nat → Bytes → List Bytes → Option (List FieldD)
  | 0, _, _ => none
  | _, _, [] => some []
  | fuel + 1, msg, part :: rest =>
    match (sch.fieldsOf msg).find? (·.name == part) with
    | none => none
    | some f =>
      if rest.isEmpty then some [f] else
      if f.repeated || f.isMap then none else      -- `Cardinality() == Repeated`
      match f.message with
      | none => none
      | some child => (resolvePath sch fuel child rest).map (f :: ·)

/-- `strings` splitting of `a.b.c` as the Go loop does it: an empty path is an error, an empty
    component does not name a field, a trailing dot ends the walk early leaving a hole. -/
def fieldPathOk (sch : Schema) (msg path : Bytes) : Option (List FieldD) :=
  if path.isEmpty then none else
  let parts := splitOnByte 0x2E path
  if parts.any List.isEmpty then none else resolvePath sch (parts.length + 1) msg parts

/-! ### addRoute / makeTarget -/

def bodyOk (sch : Schema) (msg sel : Bytes) : Bool :=
  if sel.isEmpty || sel == [0x2A] then true else
  match fieldPathOk sch msg sel with
  | some fs => fs.length ≤ 1
  | none => false

def varOk (sch : Schema) (msg : Bytes) (v : PVar) : Bool :=
  match fieldPathOk sch msg v.fieldPath with
  | some fs => match fs.getLast? with
    | some f => !f.repeated
    | none => false
  | none => false

/-- Static checks of one binding for one method: `none` = fine. -/
def bindingErr (sch : Schema) (m : MethodReg) (b : Binding) : Option CfgErr :=
  if !b.hasPattern then some .noPattern else
  if b.httpMethod.isEmpty then some .blankMethod else
  if b.template.isEmpty then some .blankTemplate else
  match parseTemplate b.template with
  | none => some .badTemplate
  | some t =>
    if !bodyOk sch m.input b.body then some .badFieldPath else
    if !bodyOk sch m.output b.respBody then some .badFieldPath else
    if t.vars.any (fun v => !varOk sch m.input v) then some .badFieldPath else none

/-- The bindings `addRule` processes for one rule, in order, with the error of the first nested one. -/
def ruleBindings (r : Rule) : List Binding := r.main :: r.additional

/-- One (method, rule) application: the bindings up to the first failure are inserted.  Returns
    the error class (if any) and the bindings that were checked statically fine before it. -/
def applyRuleStatic (sch : Schema) (m : MethodReg) (r : Rule) : Option CfgErr × List Binding :=
  match bindingErr sch m r.main with
  | some e => (some e, [])
  | none =>
    r.additional.foldl (fun (acc : Option CfgErr × List Binding) b =>
      match acc.1 with
      | some _ => acc
      | none =>
        if b.nested then (some .nestedBindings, acc.2) else
        match bindingErr sch m b with
        | some e => (some e, acc.2)
        | none => (none, acc.2 ++ [b])) (none, [r.main])

def routeKey (b : Binding) : Option (List Bytes × Bytes × Bytes) :=
  (parseTemplate b.template).map fun t => (t.segs, t.verb, b.httpMethod)

/-! ### registerRules -/

/-- Phase 1 of `registerRules`: selectors, and that every rule binds something. -/
def matchRules (methods : List MethodReg) : List Rule → Except CfgErr (List (Selector × Rule))
  | [] => .ok []
  | r :: rest =>
    match parseSelector r.selector with
    | .error e => .error e
    | .ok sel =>
      if !methods.any (fun m => sel.binds m.fullName) then .error .ruleNoMatch else
      (matchRules methods rest).map ((sel, r) :: ·)

/-- `NewTranscoder`. -/
def newTranscoder (c : Config) : Except (List CfgErr) CfgTables :=
  match registerServices c c.services [] with
  | .error e => .error e
  | .ok methods =>
    match matchRules methods c.rules with
    | .error e => .error [e]
    | .ok sels =>
      -- phase 2: every (method, rule) pair, in the order of the rules for each method
      let apps : List (MethodReg × Rule) := methods.flatMap fun m =>
        (sels.filter fun sr => sr.1.binds m.fullName).map fun sr => (m, sr.2)
      let results := apps.map fun (m, r) => (m, r, applyRuleStatic c.schema m r)
      let staticErrs := results.filterMap fun x => x.2.2.1
      let inserted : List (MethodReg × Binding) := results.flatMap fun x => x.2.2.2.map fun b => (x.1, b)
      let keys := inserted.filterMap fun x => routeKey x.2
      let conflict := !keys.Nodup
      let errs := staticErrs.eraseDups ++ (if conflict then [CfgErr.routeConflict] else [])
      if !errs.isEmpty then .error errs else
      -- tables
      let methods' := methods.map fun m =>
        match (sels.filter fun sr => sr.1.binds m.fullName).getLast? with
        | some sr => { m with rule := some sr.2.main }
        | none => m
      -- REST-only services need at least one method with a rule
      let restOnlyBad := c.services.any fun r =>
        (resolveOpts c.defaults r.opts).protocols.eraseDups == [4] &&
        !(methods'.any fun m => ([0x2F] ++ r.svc ++ [0x2F]).isPrefixOf m.path && m.rule.isSome)
      if restOnlyBad then .error [.restOnlyNoRules] else
      let routes : List RouteEntry := (inserted.zipIdx).filterMap fun (x, i) =>
        (parseTemplate x.2.template).map fun t =>
          { route := { segs := t.segs, verb := t.verb, method := x.2.httpMethod, idx := i, tmpl := t },
            methodPath := x.1.path, body := x.2.body, respBody := x.2.respBody, varPaths := t.vars.map (·.fieldPath) }
      .ok { methods := methods', routes := routes }

end Vanguard.Cfg
