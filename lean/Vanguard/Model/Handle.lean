import Vanguard.Model.Serve
/-!
  Request side of `operation.handle` (`transcoder.go`): `readRequestMessage`,
  `processRequestEnvelope`, `determineReadLimit`, `hardLimitReader`, `envelopingReader`,
  `transformingReader`, the Connect GET request line (`protocol_connect.go`), `operation.reportError`,
  and the interpretation of the scripted backend handler against the adapters.
-/
namespace Vanguard

/-! ### base64 (URL alphabet) and query escaping, as the Connect GET code uses them -/

def b64Char (n : Nat) : UInt8 :=
  if n < 26 then UInt8.ofNat (65 + n) else if n < 52 then UInt8.ofNat (97 + n - 26)
  else if n < 62 then UInt8.ofNat (48 + n - 52) else if n == 62 then 0x2D else 0x5F

def b64Val (c : UInt8) : Option Nat :=
  if 0x41 ≤ c && c ≤ 0x5A then some (c.toNat - 65)
  else if 0x61 ≤ c && c ≤ 0x7A then some (c.toNat - 97 + 26)
  else if 0x30 ≤ c && c ≤ 0x39 then some (c.toNat - 48 + 52)
  else if c == 0x2D then some 62 else if c == 0x5F then some 63 else none

/-- `base64.RawURLEncoding.EncodeToString`. -/
def b64RawUrlEncode : Bytes → Bytes
  | [] => []
  | [a] => [b64Char (a.toNat / 4), b64Char (a.toNat % 4 * 16)]
  | [a, b] => [b64Char (a.toNat / 4), b64Char (a.toNat % 4 * 16 + b.toNat / 16), b64Char (b.toNat % 16 * 4)]
  | a :: b :: c :: rest =>
    b64Char (a.toNat / 4) :: b64Char (a.toNat % 4 * 16 + b.toNat / 16) ::
      b64Char (b.toNat % 16 * 4 + c.toNat / 64) :: b64Char (c.toNat % 64) :: b64RawUrlEncode rest

/-- Unpadded URL-alphabet decoding (non-strict trailing bits, as Go's default). -/
def b64RawUrlDecodeVals : List Nat → Option Bytes
  | [] => some []
  | [_] => none
  | [a, b] => some [UInt8.ofNat (a * 4 + b / 16)]
  | [a, b, c] => some [UInt8.ofNat (a * 4 + b / 16), UInt8.ofNat (b % 16 * 16 + c / 4)]
  | a :: b :: c :: d :: rest =>
    (b64RawUrlDecodeVals rest).map fun r =>
      UInt8.ofNat (a * 4 + b / 16) :: UInt8.ofNat (b % 16 * 16 + c / 4) :: UInt8.ofNat (c % 4 * 64 + d) :: r

/-- `RawURLEncoding.DecodeString`, falling back to `URLEncoding.DecodeString` (padded), as
    `prepareUnmarshalledRequest` does. CR/LF are skipped by Go's decoder. -/
def b64UrlDecodeEither (t : Bytes) : Option Bytes :=
  let t := t.filter (fun c => c != 0x0D && c != 0x0A)
  let raw := (t.mapM b64Val).bind b64RawUrlDecodeVals
  match raw with
  | some r => some r
  | none =>
    -- padded form: length multiple of 4, one or two trailing '='
    if t.length % 4 != 0 || t.isEmpty then none else
    let body := t.reverse.dropWhile (· == 0x3D) |>.reverse
    let pad := t.length - body.length
    if pad == 0 || pad > 2 then none else
    if body.length % 4 == 1 then none else
    (body.mapM b64Val).bind b64RawUrlDecodeVals

def isUnreservedQ (c : UInt8) : Bool :=
  (0x30 ≤ c && c ≤ 0x39) || (0x41 ≤ c && c ≤ 0x5A) || (0x61 ≤ c && c ≤ 0x7A) ||
  c == 0x2D || c == 0x5F || c == 0x2E || c == 0x7E

/-- `url.QueryEscape`. -/
def queryEscape : Bytes → Bytes
  | [] => []
  | c :: rest =>
    if isUnreservedQ c then c :: queryEscape rest
    else if c == 0x20 then 0x2B :: queryEscape rest
    else 0x25 :: upperhex (c >>> 4) :: upperhex (c &&& 15) :: queryEscape rest

/-- `url.Values.Encode` for single-valued keys given in sorted key order. -/
def encodeQuery (kvs : List (Bytes × Bytes)) : Bytes :=
  joinBytes [0x26] (kvs.map fun (k, v) => queryEscape k ++ 0x3D :: queryEscape v)

/-! ### request readers -/

/-- What `envelopingReader.current` reads from. -/
inductive RCur where
  | none
  | body                               -- r.r
  | hardLimit (limit read : Nat)       -- hardLimitReader over r.r
  | buffer (b : Bytes)                 -- fully buffered request
  | limited (n : Nat)                  -- exactly-n reader over r.r
  deriving Repr

structure ER where                     -- envelopingReader
  err : Option Err := none
  current : RCur := .none
  env : Bytes := []
  envRemain : Nat := 0
  deriving Repr

structure TR where                     -- transformingReader
  err : Option Err := none
  consumedFirst : Bool := false
  buffer : Option Bytes := none
  env : Bytes := []
  envRemain : Nat := 0
  /-- first message already read and decoded for the request line -/
  pending : Option (Bytes × Bool) := none     -- (decoded value, wasCompressed)
  deriving Repr

inductive Reader where
  | raw                                -- the original body (pass-through, drained body)
  | enveloping (r : ER)
  | transforming (r : TR)
  deriving Repr

/-- State of the request in flight together with its reader. -/
structure Flight where
  st : St
  rd : Reader
  panic : Bool := false
  closed : Bool := false     -- the handler closed the request body ("body is closed")
  deriving Repr

/-- `envelopingReader.Close` / `transformingReader.Close`: later reads fail, the client's body is
    closed; buffers go back to the pool (not modelled: the model has no pool, see `Model/Pool`). -/
def Flight.close (f : Flight) : Flight :=
  { f with closed := true }

/-- `hardLimitReader.Read`. `report` = the reader has an `rw` to report to. -/
def hardLimitRead (w : World) (st : St) (limit read n : Nat) (report : Bool) : Bytes × Option Err × Nat × St × Bool :=
  if read > limit then ([], some (.rpc 8), read, st, false)      -- remaining < 0
  else
    let n' := if n > limit - read then limit - read + 1 else n
    let (b, e, src) := st.src.read n'
    let st := { st with src := src }
    let read := read + b.length
    if read > limit && (e.isNone || e == some .eof) then
      let (st, p) := if report then reportError w st (.rpc 8) else (st, false)
      (b, some (.rpc 8), read, st, p)
    else (b, e, read, st, false)

/-- `io.Copy(buffer, &hardLimitReader{...})`: everything up to EOF or the first error. -/
def copyAllLimited (w : World) (report : Bool) (limit : Nat) : Nat → St → Nat → Bytes → Bytes × Option Err × St × Bool
  | 0, st, _, acc => (acc, some .other, st, true)
  | fuel + 1, st, read, acc =>
    let (b, e, read, st, p) := hardLimitRead w st limit read (limit + 2) report
    if p then (acc ++ b, e, st, true) else
    match e with
    | none => copyAllLimited w report limit fuel st read (acc ++ b)
    | some .eof => (acc ++ b, none, st, false)
    | some err => (acc ++ b, some err, st, false)

/-- `io.ReadFull(reader, buf[:k])` / `io.CopyN` over the raw body. -/
def readExactly : Nat → Source → Nat → Bytes → Bytes × Option Err × Source
  | 0, src, _, acc => (acc, some .other, src)
  | fuel + 1, src, k, acc =>
    if k == 0 then (acc, none, src) else
    let (b, e, src) := src.read k
    if b.length ≥ k then (acc ++ b, none, src)       -- enough bytes: an error that came along is dropped
    else match e with
    | none => readExactly fuel src (k - b.length) (acc ++ b)
    | some .eof => (acc ++ b, some (if (acc ++ b).isEmpty then .eof else .unexpectedEOF), src)
    | some err => (acc ++ b, some err, src)

def Source.fuel (src : Source) : Nat := src.chunks.length + (src.chunks.map List.length).sum + 4

/-- `operation.readRequestMessage`: one request message as (bytes, compressed?). -/
def readRequestMessage (w : World) (st : St) (report : Bool) : Except Err (Bytes × Bool) × St × Bool :=
  let o := st.op
  match o.clientEnveloper with
  | some ce =>
    let (hd, e, src) := readExactly st.src.fuel st.src 5 []
    let st := { st with src := src }
    match e with
    | some err => (.error err, st, false)
    | none =>
      match hd with
      | [f, a, b, c, d] =>
        let fail (err : Err) : Except Err (Bytes × Bool) × St × Bool :=
          let (st, p) := if report then reportError w st err else (st, false)
          (.error err, st, p)
        match ce.decode f a b c d with
        | none => fail (.rpc 3)
        | some env =>
          if env.trailer then fail (.rpc 3)
          else if env.length > o.conf.maxMsg then fail (.rpc 8)
          else
            let (payload, e, src) := readExactly st.src.fuel st.src env.length []
            let st := { st with src := src }
            match e with
            | some .eof => (.error .unexpectedEOF, st, false)
            | some err => (.error err, st, false)
            | none => (.ok (payload, env.compressed), st, false)
      | _ => (.error .other, st, true)
  | none =>
    let compressed := o.cReqComp.isSome
    let limit : Nat := o.conf.maxMsg
    if o.contentLen != -1 && o.contentLen > limit then
      let (st, p) := if report then reportError w st (.rpc 8) else (st, false)
      (.error (.rpc 8), st, p)
    else
      let lim := if o.contentLen == -1 then limit else o.contentLen.toNat
      let (data, e, st, p) := copyAllLimited w report lim st.src.fuel st 0 []
      match e with
      | some err => (.error err, st, p)
      | none => if data.isEmpty then (.error .eof, st, p) else (.ok (data, compressed), st, p)

/-- The message of a Connect GET request, taken from the query string
    (`connectUnaryGetClientProtocol.prepareUnmarshalledRequest`). Result: the decoded value. -/
def connectGetMessage (w : World) (o : Op) (body : Bytes) : Except Err Bytes :=
  if !body.isEmpty then .error .other else
  let b64 := o.query.get (s "base64")
  let isB64? : Option Bool := if b64.isEmpty || b64 == [0x30] then some false else if b64 == [0x31] then some true else none
  match isB64? with
  | none => .error .other
  | some isB64 =>
    let msgStr := o.query.get (s "message")
    let data? : Option Bytes := if isB64 && !msgStr.isEmpty then b64UrlDecodeEither msgStr else some msgStr
    match data? with
    | none => .error .other
    | some data =>
      let data? : Except Err Bytes :=
        match o.cReqComp with
        | some z => if data.isEmpty then .ok data else decompressLimited w z data o.conf.maxMsg
        | none => .ok data
      match data? with
      | .error e => .error e
      | .ok d => match w.decode o.ccodec d with
        | some v => .ok v
        | none => .error .other

structure HandlePlan where
  clientReqNeedsPrep : Bool
  useGet : Bool
  sameReqCompression : Bool
  sameReqCodec : Bool
  mustDecode : Bool
  deriving Repr

def Op.plan (w : World) (o : Op) : HandlePlan :=
  let clientPrep := o.cform == .connectGet
  let useGet := o.sform == .connectUnary && o.reqMethod == sGET && w.stable o.scodec && o.conf.noSideEffects
  let sameCodec := o.ccodec == o.scodec
  let sameReqCodec := sameCodec && !clientPrep && !useGet
  { clientReqNeedsPrep := clientPrep, useGet := useGet, sameReqCompression := o.cReqComp == o.sReqComp,
    sameReqCodec := sameReqCodec, mustDecode := !sameReqCodec || useGet }

/-- Decode one request message to its value (`advanceToStage(stageDecoded)`). -/
def decodeRequest (w : World) (o : Op) (pl : HandlePlan) (data : Bytes) (wasCompressed : Bool) : Except Err Bytes :=
  if pl.clientReqNeedsPrep then connectGetMessage w o data
  else
    let d? : Except Err Bytes :=
      if wasCompressed then
        match o.cReqComp with
        | some z => if data.isEmpty then .ok data else decompressLimited w z data o.conf.maxMsg
        | none => .ok data
      else .ok data
    match d? with
    | .error e => .error e
    | .ok d => match w.decode o.ccodec d with
      | some v => .ok v
      | none => .error .other

/-- Encode a decoded request value for the server (`stageDecoded → stageSend`). -/
def encodeRequest (w : World) (o : Op) (serverPrepNow : Bool) (v : Bytes) (wasCompressed : Bool) : Bytes :=
  let enc := if serverPrepNow then [] else w.encode o.scodec v
  if wasCompressed then
    match o.sReqComp with
    | some z => w.compress z enc
    | none => enc
  else enc

/-- `transformingReader.prepareMessage` on raw message bytes. -/
def prepareRequestMessage (w : World) (o : Op) (pl : HandlePlan) (data : Bytes) (wasCompressed : Bool) : Except Err Bytes :=
  if pl.sameReqCodec then
    transformMsg w o.conf.maxMsg true pl.sameReqCompression wasCompressed o.cReqComp o.sReqComp o.ccodec o.scodec data
  else
    match decodeRequest w o pl data wasCompressed with
    | .error e => .error e
    | .ok v => .ok (encodeRequest w o false v wasCompressed)

/-- Envelope for a prepared request message (`prepareMessage`, second half). -/
def requestEnvelope (o : Op) (out : Bytes) (wasCompressed : Bool) : Except Err Bytes :=
  if out.length > o.conf.maxMsg then .error (.rpc 8) else
  match o.serverEnveloper with
  | none => .ok []
  | some se => .ok (se.encode { compressed := wasCompressed && o.sReqComp.isSome, length := out.length })

/-- The end of the client's body where the first message is expected: a client without envelopes
    (or one whose message travels in the URL) has sent one message of zero bytes. -/
def trNext (pl : HandlePlan) (st : St) (consumedFirst : Bool) (res : Except Err (Bytes × Bool)) : Except Err (Bytes × Bool) :=
  match res with
  | .error .eof =>
    if !consumedFirst && (pl.clientReqNeedsPrep || st.op.clientEnveloper.isNone)
    then .ok ([], st.op.cReqComp.isSome && st.op.clientEnveloper.isNone) else .error .eof
  | x => x

/-- `transformingReader.prepareMessage`: the converted message and its envelope. -/
def trPrepare (w : World) (pl : HandlePlan) (st : St) (data : Bytes) (wasCompressed : Bool) : Except Err (Bytes × Bytes) :=
  (prepareRequestMessage w st.op pl data wasCompressed).bind fun out =>
    (requestEnvelope st.op out wasCompressed).map fun env => (out, env)

/-- `transformingReader.Read`. -/
def trRead (w : World) (pl : HandlePlan) : Nat → St → TR → Nat → Bytes × Option Err × St × TR × Bool
  | 0, st, r, _ => ([], some .other, st, r, true)
  | fuel + 1, st, r, n =>
    match r.err with
    | some e => ([], some e, st, r, false)
    | none =>
      if n < r.envRemain then
        (r.env.drop (5 - r.envRemain) |>.take n, none, st, { r with envRemain := r.envRemain - n }, false)
      else
        let envPart := if r.envRemain > 0 then r.env.drop (5 - r.envRemain) else []
        let offset := envPart.length
        let r := { r with envRemain := 0 }
        let (b, r) :=
          match r.buffer with
          | some buf => if n > offset then (buf.take (n - offset), { r with buffer := some (buf.drop (n - offset)) }) else ([], r)
          | none => ([], r)
        if offset + b.length > 0 then (envPart ++ b, none, st, r, false)
        else
          -- nothing left: read and prepare the next message
          let (res, st, p) := readRequestMessage w st true
          if p then ([], some .other, st, r, true) else
          match trNext pl st r.consumedFirst res with
          | .error e => ([], some e, st, { r with err := some e }, false)
          | .ok (data, wasCompressed) =>
            let r := { r with consumedFirst := true }
            match trPrepare w pl st data wasCompressed with
            | .error e =>
              let (st, p) := reportError w st e
              ([], some e, st, { r with err := some e }, p)
            | .ok (out, env) =>
              trRead w pl fuel st { r with buffer := some out, env := env, envRemain := env.length } n

/-- Read from `envelopingReader.current`. -/
def erCurRead (w : World) (st : St) (cur : RCur) (n : Nat) : Bytes × Option Err × St × RCur × Bool :=
  match cur with
  | .none => ([], some .other, st, cur, true)
  | .body => let (b, e, src) := st.src.read n; (b, e, { st with src := src }, cur, false)
  | .hardLimit limit read =>
    let (b, e, read, st, p) := hardLimitRead w st limit read n true
    (b, e, st, .hardLimit limit read, p)
  | .buffer buf => if buf.isEmpty then ([], some .eof, st, cur, false) else (buf.take n, none, st, .buffer (buf.drop n), false)
  | .limited k =>
    if k == 0 then ([], some .eof, st, cur, false) else
    let (b, e, src) := st.src.read (min n k)
    let k' := k - b.length
    let e := if e == some .eof && k' > 0 then some .unexpectedEOF else e
    (b, e, { st with src := src }, .limited k', false)

/-- The limit under which `envelopingReader.prepareNext` buffers a body of undeclared length. -/
def bufferedBodyLimit (maxMsg : Nat) : Nat := maxMsg

/-- `envelopingReader.prepareNext`. -/
def erPrepareNext (w : World) (st : St) (r : ER) : Option Err × St × ER × Bool :=
  let o := st.op
  let finish (st : St) (r : ER) (env : Envelope) : Option Err × St × ER × Bool :=
    match o.serverEnveloper with
    | none => (none, st, { r with envRemain := 0 }, false)
    | some se => (none, st, { r with envRemain := 5, env := se.encode env }, false)
  match o.clientEnveloper, o.serverEnveloper with
  | none, none => (none, st, { r with current := .body, envRemain := 0 }, false)
  | none, some _ =>
    match r.current with
    | .none =>
      let compressed := o.cReqComp.isSome
      if o.contentLen != -1 then
        if o.contentLen > o.conf.maxMsg then (some (.rpc 8), (reportError w st (.rpc 8)).1, r, (reportError w st (.rpc 8)).2)
        else finish st { r with current := .hardLimit o.contentLen.toNat 0 } { compressed := compressed, length := o.contentLen.toNat }
      else
        let (data, e, st, p) := copyAllLimited w true (bufferedBodyLimit o.conf.maxMsg) st.src.fuel st 0 []
        match e with
        | some err => (some err, st, { r with err := some err }, p)
        | none => finish st { r with current := .buffer data } { compressed := compressed, length := data.length }
    | _ => (some .eof, st, r, false)
  | some ce, _ =>
    let (hd, e, src) := readExactly st.src.fuel st.src 5 []
    let st := { st with src := src }
    match e with
    | some err => (some err, st, r, false)
    | none =>
      match hd with
      | [f, a, b, c, d] =>
        match ce.decode f a b c d with
        | none => let (st, p) := reportError w st (.rpc 3); (some (.rpc 3), st, r, p)
        | some env => finish st { r with current := .limited env.length } env
      | _ => (some .other, st, r, true)

/-- `envelopingReader.Read`, phase 1: try the current reader; `Sum.inl` = return now, `Sum.inr` =
    fall through (next message) with the new state. -/
def erPhase1 (w : World) (st : St) (r : ER) (n : Nat) : Sum (Bytes × Option Err × St × ER × Bool) (St × ER) :=
  match r.current with
  | .none => .inr (st, r)
  | cur =>
    let (b, e, st, cur, p) := erCurRead w st cur n
    let r := { r with current := cur }
    if p then .inl (b, e, st, r, true)
    else if !b.isEmpty && (e.isNone || e == some .eof) then .inl (b, none, st, r, false)
    else match e with
      | some .eof => .inr (st, r)
      | some err => .inl (b, some err, st, { r with err := some err }, false)
      | none => .inr (st, r)

/-- `envelopingReader.Read`, phase 2: the next message is announced (envelope for the backend)
    and the read is answered from it. -/
def erPhase2 (w : World) (st : St) (r : ER) (n : Nat) : Bytes × Option Err × St × ER × Bool :=
  let (e, st, r, p) := erPrepareNext w st r
  if p then ([], e, st, r, true) else
  match e with
  | some err => ([], some err, st, { r with err := some err }, false)
  | none =>
    if n < r.envRemain then
      ((r.env.drop (5 - r.envRemain)).take n, none, st, { r with envRemain := r.envRemain - n }, false)
    else
      let envPart := if r.envRemain > 0 then r.env.drop (5 - r.envRemain) else []
      let r := { r with envRemain := 0 }
      if n > envPart.length then
        let (b, e, st, cur, p) := erCurRead w st r.current (n - envPart.length)
        let e := if envPart.length + b.length > 0 && e == some .eof then none else e
        (envPart ++ b, e, st, { r with current := cur }, p)
      else (envPart, none, st, r, false)

/-- `envelopingReader.Read`. -/
def erRead (w : World) (st : St) (r : ER) (n : Nat) : Bytes × Option Err × St × ER × Bool :=
  match r.err with
  | some e => ([], some e, st, r, false)
  | none =>
    if r.envRemain > 0 then
      let k := min n r.envRemain
      ((r.env.drop (5 - r.envRemain)).take k, none, st, { r with envRemain := r.envRemain - k }, false)
    else
      match erPhase1 w st r n with
      | .inl res => res
      | .inr (st, r) => erPhase2 w st r n

/-- One `Read(n)` on the request body the handler sees. -/
def Flight.read (w : World) (pl : HandlePlan) (f : Flight) (n : Nat) : Bytes × Option Err × Flight :=
  if f.closed then ([], some .other, f) else
  match f.rd with
  | .raw => let (b, e, src) := f.st.src.read n; (b, e, { f with st := { f.st with src := src } })
  | .enveloping r =>
    let (b, e, st, r, p) := erRead w f.st r n
    (b, e, { f with st := st, rd := .enveloping r, panic := f.panic || p })
  | .transforming r =>
    let (b, e, st, r, p) := trRead w pl (f.st.src.fuel + 4) f.st r n
    (b, e, { f with st := st, rd := .transforming r, panic := f.panic || p })

end Vanguard
