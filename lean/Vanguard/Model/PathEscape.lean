import Vanguard.Model.Percent
/-!
  Model of `path_parser.go`: `pathEscape`, `pathUnescape`, `pathIsHexSlash`, `pathShouldEscape`,
  and of the character classes of `path_scanner.go`.
-/
namespace Vanguard

def isIdentStart (c : UInt8) : Bool := (0x61 ≤ c && c ≤ 0x7A) || (0x41 ≤ c && c ≤ 0x5A) || c == 0x5F
def isDigitC (c : UInt8) : Bool := 0x30 ≤ c && c ≤ 0x39
def isIdent (c : UInt8) : Bool := isIdentStart c || isDigitC c
def isFieldPath (c : UInt8) : Bool := isIdent c || c == 0x2E
/-- `isVariable`: `[-_.~0-9a-zA-Z]`. -/
def isVariable (c : UInt8) : Bool := isFieldPath c || c == 0x2D || c == 0x7E
/-- `isLiteral`: `isVariable` or `%`. -/
def isLiteral (c : UInt8) : Bool := isVariable c || c == 0x25

inductive PathMode where
  | single | multi
  deriving DecidableEq, Repr

/-- One byte of `pathEscape` outside the `%2F` special case. -/
def escapeByte (c : UInt8) : Bytes :=
  if !isVariable c then [0x25, upperhex (c >>> 4), upperhex (c &&& 15)] else [c]

/-- `pathIsHexSlash` for the bytes `% a b`. -/
def isHexSlash (c a b : UInt8) : Bool := c == 0x25 && a == 0x32 && (b == 0x66 || b == 0x46)

/-- `pathEscape`. -/
def pathEscape (mode : PathMode) : Bytes → Bytes
  | [] => []
  | [c] => escapeByte c
  | [c, a] => escapeByte c ++ pathEscape mode [a]
  | c :: a :: b :: rest =>
    if mode == .multi && isHexSlash c a b then 0x25 :: 0x32 :: 0x46 :: pathEscape mode rest
    else escapeByte c ++ pathEscape mode (a :: b :: rest)

/-- `pathUnescape` (validation and decoding fused; failure is global in the Go code as well). -/
def pathUnescape (mode : PathMode) : Bytes → Option Bytes
  | [] => some []
  | [c] => if c == 0x25 then none else some [c]
  | [c, a] => if c == 0x25 then none else (pathUnescape mode [a]).map (fun r => c :: r)
  | c :: a :: b :: rest =>
    if c == 0x25 then
      if ishex a && ishex b then
        if mode == .multi && isHexSlash c a b then
          (pathUnescape mode rest).map (fun r => 0x25 :: 0x32 :: 0x46 :: r)
        else (pathUnescape mode rest).map (fun r => (unhex a <<< 4 ||| unhex b) :: r)
      else none
    else (pathUnescape mode (a :: b :: rest)).map (fun r => c :: r)

/-- What a multi-segment capture makes of a value: an escaped slash written `%2f` comes back as `%2F`. -/
def canonSlash : Bytes → Bytes
  | c :: a :: b :: rest =>
    if isHexSlash c a b then 0x25 :: 0x32 :: 0x46 :: canonSlash rest else c :: canonSlash (a :: b :: rest)
  | l => l

end Vanguard
