import Vanguard.Model.Basic
/-!
  net/http pieces the model needs: header maps with canonical keys (`http.Header.Get/Set/Add/Del`,
  `textproto.CanonicalMIMEHeaderKey`), `parseMultiHeader` (protocol.go), `strings.TrimSpace` for
  ASCII, list joining.  A header map is an association list; every operation goes through the
  canonical key, results are rendered sorted, so Go's map iteration order is irrelevant.
-/
namespace Vanguard

abbrev Hdr := List (Bytes × List Bytes)

def isTokenByte (c : UInt8) : Bool :=
  (0x30 ≤ c && c ≤ 0x39) || (0x41 ≤ c && c ≤ 0x5A) || (0x61 ≤ c && c ≤ 0x7A) ||
  c == 0x21 || c == 0x23 || c == 0x24 || c == 0x25 || c == 0x26 || c == 0x27 || c == 0x2A ||
  c == 0x2B || c == 0x2D || c == 0x2E || c == 0x5E || c == 0x5F || c == 0x60 || c == 0x7C || c == 0x7E

def upperByte (c : UInt8) : UInt8 := if 0x61 ≤ c && c ≤ 0x7A then c - 0x20 else c
def lowerByte (c : UInt8) : UInt8 := if 0x41 ≤ c && c ≤ 0x5A then c + 0x20 else c

def canonAux (upper : Bool) : Bytes → Bytes
  | [] => []
  | c :: rest =>
    let c' := if upper then upperByte c else lowerByte c
    c' :: canonAux (c == 0x2D) rest

/-- `textproto.CanonicalMIMEHeaderKey`: keys with a non-token byte are returned unchanged. -/
def canonKey (k : Bytes) : Bytes := if k.all isTokenByte then canonAux true k else k

namespace Hdr

def values (h : Hdr) (k : Bytes) : List Bytes :=
  match h.find? (fun e => e.1 == canonKey k) with
  | some e => e.2
  | none => []

/-- `Header.Get`: first value or "". -/
def get (h : Hdr) (k : Bytes) : Bytes := (values h k).headD []

def has (h : Hdr) (k : Bytes) : Bool := h.any (fun e => e.1 == canonKey k)

def del (h : Hdr) (k : Bytes) : Hdr := h.filter (fun e => e.1 != canonKey k)

def set (h : Hdr) (k v : Bytes) : Hdr := (del h k) ++ [(canonKey k, [v])]

/-- Raw map assignment `h[k] = vs` (no canonicalisation of `k`). -/
def setRaw (h : Hdr) (k : Bytes) (vs : List Bytes) : Hdr := (h.filter (fun e => e.1 != k)) ++ [(k, vs)]

def add (h : Hdr) (k v : Bytes) : Hdr :=
  if h.any (fun e => e.1 == canonKey k) then
    h.map (fun e => if e.1 == canonKey k then (e.1, e.2 ++ [v]) else e)
  else h ++ [(canonKey k, [v])]

def addAll (h : Hdr) (k : Bytes) (vs : List Bytes) : Hdr := vs.foldl (fun acc v => add acc k v) h

end Hdr

def isSpaceByte (c : UInt8) : Bool := c == 0x20 || c == 0x09 || c == 0x0A || c == 0x0D || c == 0x0B || c == 0x0C

/-- `strings.TrimSpace` (ASCII white space; header values do not carry Unicode spaces here). -/
def trimSpace (b : Bytes) : Bytes := ((b.dropWhile isSpaceByte).reverse.dropWhile isSpaceByte).reverse

def splitOn (sep : UInt8) : Bytes → List Bytes
  | [] => [[]]
  | c :: rest =>
    if c == sep then [] :: splitOn sep rest
    else match splitOn sep rest with
      | h :: t => (c :: h) :: t
      | [] => [[c]]

/-- `parseMultiHeader`: comma separated and repeated headers; empty items dropped, items trimmed. -/
def parseMultiHeader (vals : List Bytes) : List Bytes :=
  vals.flatMap fun v => ((splitOn 0x2C v).filter (fun item => !item.isEmpty)).map trimSpace

def joinBytes (sep : Bytes) : List Bytes → Bytes
  | [] => []
  | [a] => a
  | a :: rest => a ++ sep ++ joinBytes sep rest

def hasPrefix (p s : Bytes) : Bool := s.take p.length == p
def trimPrefix (p s : Bytes) : Bytes := if hasPrefix p s then s.drop p.length else s

end Vanguard
